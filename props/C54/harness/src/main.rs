//! C54 harness: gix_fsck::Connectivity::{new, check_commit} over an in-memory object database.
//!
//! case:  fsck <item>*   one field per item (see coq/Run.v):
//!   'c' id20 tree20 | 't' id20 (mode4be id20)* | 'b' id20 | 'g' id20 | 'x'|'y'|'z' id20 | 'k' id20
//! Objects are serialised into real git object bytes, so gix-object's own decoders run.
use gix_hash::ObjectId;
use gix_object::Kind;
use gixv_common::*;
use std::cell::RefCell;
use std::collections::{HashMap, HashSet};
use std::time::Duration;

type Id = Vec<u8>;

#[derive(Clone, Debug)]
enum Obj {
    Commit(Id),
    Tree(Vec<(u32, Id)>),
    Blob,
    Tag,
    Bad(u8),
}

struct Parsed {
    db: Vec<(Id, Obj)>,
    calls: Vec<Id>,
}

fn parse(c: &Case) -> Option<Parsed> {
    let mut p = Parsed { db: vec![], calls: vec![] };
    for f in c.iter().skip(1) {
        if f.len() < 21 {
            return None;
        }
        let t = f[0];
        let id = f[1..21].to_vec();
        let rest = &f[21..];
        match t {
            b'c' => {
                if rest.len() != 20 {
                    return None;
                }
                p.db.push((id, Obj::Commit(rest.to_vec())));
            }
            b't' => {
                if rest.len() % 24 != 0 {
                    return None;
                }
                let es = rest
                    .chunks(24)
                    .map(|e| (u32::from_be_bytes([e[0], e[1], e[2], e[3]]), e[4..].to_vec()))
                    .collect();
                p.db.push((id, Obj::Tree(es)));
            }
            b'b' | b'g' | b'x' | b'y' | b'z' | b'k' => {
                if !rest.is_empty() {
                    return None;
                }
                match t {
                    b'b' => p.db.push((id, Obj::Blob)),
                    b'g' => p.db.push((id, Obj::Tag)),
                    b'k' => p.calls.push(id),
                    k => p.db.push((id, Obj::Bad(k))),
                }
            }
            _ => return None,
        }
    }
    Some(p)
}

// ---- the implementation side: real object bytes, real decoders ------------------------------
struct Db(HashMap<ObjectId, (Kind, Vec<u8>)>);

impl gix_object::Find for Db {
    fn try_find<'a>(
        &self,
        id: &gix_hash::oid,
        buffer: &'a mut Vec<u8>,
    ) -> Result<Option<gix_object::Data<'a>>, gix_object::find::Error> {
        match self.0.get(id) {
            None => Ok(None),
            Some((k, d)) => {
                buffer.clear();
                buffer.extend_from_slice(d);
                Ok(Some(gix_object::Data { kind: *k, data: buffer }))
            }
        }
    }
}
impl gix_object::Exists for Db {
    fn exists(&self, id: &gix_hash::oid) -> bool {
        self.0.contains_key(id)
    }
}

fn oid(b: &[u8]) -> ObjectId {
    ObjectId::from_bytes_or_panic(b)
}

fn serialise(id: &[u8], o: &Obj) -> (Kind, Vec<u8>) {
    const SIG: &str = "a <a@b> 0 +0000";
    match o {
        Obj::Commit(t) => (
            Kind::Commit,
            format!("tree {}\nauthor {SIG}\ncommitter {SIG}\n\nm\n", hexs(t)).into_bytes(),
        ),
        Obj::Tree(es) => {
            let mut d = Vec::new();
            for (i, (m, t)) in es.iter().enumerate() {
                d.extend_from_slice(format!("{:o} f{}", m, i).as_bytes());
                d.push(0);
                d.extend_from_slice(t);
            }
            (Kind::Tree, d)
        }
        Obj::Blob => (Kind::Blob, b"x".to_vec()),
        Obj::Tag => (
            Kind::Tag,
            format!("object {}\ntype commit\ntag t\ntagger {SIG}\n\nm\n", hexs(id)).into_bytes(),
        ),
        Obj::Bad(b'x') => (Kind::Commit, b"garbage".to_vec()),
        Obj::Bad(b'y') => (Kind::Tree, b"garbage".to_vec()),
        Obj::Bad(_) => (Kind::Tag, b"garbage".to_vec()),
    }
}

fn build_db(p: &Parsed) -> Db {
    let mut m = HashMap::new();
    for (id, o) in &p.db {
        m.entry(oid(id)).or_insert_with(|| serialise(id, o)); // first one wins
    }
    Db(m)
}

type Call = (Result<(), &'static str>, Vec<(Id, Kind)>);

fn run_impl(p: &Parsed) -> Vec<Call> {
    let db = build_db(p);
    let reports: RefCell<Vec<(Id, Kind)>> = RefCell::new(Vec::new());
    let cb = |id: &ObjectId, kind: Kind| reports.borrow_mut().push((id.as_bytes().to_vec(), kind));
    let mut check = gix_fsck::Connectivity::new(&db, cb);
    let mut out = Vec::new();
    for c in &p.calls {
        use gix_object::find::existing_object::Error as E;
        let r = match check.check_commit(&oid(c)) {
            Ok(()) => Ok(()),
            Err(E::NotFound { .. }) => Err("NotFound"),
            Err(E::Decode { .. }) => Err("Decode"),
            Err(E::ObjectKind { .. }) => Err("ObjectKind"),
            Err(E::Find(_)) => Err("Find"),
        };
        let reps = std::mem::take(&mut *reports.borrow_mut());
        out.push((r, reps));
    }
    out
}

fn imp(c: &Case) -> String {
    if f_str(c, 0) != b"fsck" {
        return "?".into();
    }
    let Some(p) = parse(c) else { return "bad".into() };
    let calls = run_impl(&p);
    if calls.is_empty() {
        return "-".into();
    }
    calls
        .iter()
        .map(|(r, reps)| {
            let mut s = match r {
                Ok(()) => "ok".to_string(),
                Err(e) => format!("err {e}"),
            };
            for (id, k) in reps {
                s.push_str(&format!(
                    " {}:{}",
                    hexs(id),
                    match k {
                        Kind::Tree => "T",
                        Kind::Blob => "B",
                        Kind::Commit => "C",
                        Kind::Tag => "G",
                    }
                ));
            }
            s
        })
        .collect::<Vec<_>>()
        .join(" ; ")
}

// ---- the oracle: plain Rust over the abstract graph, no gix code ----------------------------
#[derive(Clone, Copy, PartialEq, Debug)]
enum EK {
    Tree,
    Blob,
    Sub,
}
/// what a tree entry of this (already accepted) mode points at, as git sees it: S_ISDIR / S_ISGITLINK / else
fn ek(m: u32) -> EK {
    match (m as u16) >> 12 {
        0o04 => EK::Tree,
        0o10 | 0o12 => EK::Blob,
        _ => EK::Sub,
    }
}
fn mode_accepted(m: u32) -> bool {
    m == 0o40000 || m == 0o120000 || m == 0o160000 || (m >> 15) & 1 == 1
}

struct Graph<'a> {
    map: HashMap<&'a [u8], &'a Obj>,
}
impl<'a> Graph<'a> {
    fn new(p: &'a Parsed) -> Self {
        let mut map = HashMap::new();
        for (id, o) in &p.db {
            map.entry(id.as_slice()).or_insert(o);
        }
        Graph { map }
    }
    fn present(&self, id: &[u8]) -> bool {
        self.map.contains_key(id)
    }
    /// entries of a present, decodable tree
    fn tree(&self, id: &[u8]) -> Option<&'a Vec<(u32, Id)>> {
        match self.map.get(id) {
            Some(Obj::Tree(es)) if es.iter().all(|(m, _)| mode_accepted(*m)) => Some(es),
            _ => None,
        }
    }
    fn commit_tree(&self, id: &[u8]) -> Option<&'a Id> {
        match self.map.get(id) {
            Some(Obj::Commit(t)) => Some(t),
            _ => None,
        }
    }
    /// children of a node: (referenced-as, id)
    fn children(&self, id: &[u8]) -> Vec<(EK, &'a [u8])> {
        if let Some(es) = self.tree(id) {
            es.iter().map(|(m, t)| (ek(*m), t.as_slice())).filter(|(k, _)| *k != EK::Sub).collect()
        } else if let Some(t) = self.commit_tree(id) {
            vec![(EK::Tree, t.as_slice())]
        } else {
            vec![]
        }
    }
    /// naive depth-first closure from `root` (the commit), root included
    fn closure(&self, root: &'a [u8]) -> Vec<&'a [u8]> {
        let mut seen: Vec<&[u8]> = vec![];
        let mut stack = vec![root];
        while let Some(n) = stack.pop() {
            if seen.contains(&n) {
                continue;
            }
            seen.push(n);
            for (_, ch) in self.children(n) {
                stack.push(ch);
            }
        }
        seen
    }
    /// every reference made by node `s` goes to a missing object or to one of the kind the reference says
    fn well_kinded_at(&self, s: &[u8]) -> bool {
        if let Some(es) = self.tree(s) {
            es.iter().all(|(m, t)| match ek(*m) {
                EK::Tree => !self.present(t) || self.tree(t).is_some(),
                EK::Blob => !self.present(t) || matches!(self.map.get(t.as_slice()), Some(Obj::Blob)),
                EK::Sub => true,
            })
        } else if let Some(t) = self.commit_tree(s) {
            !self.present(t) || self.tree(t).is_some()
        } else {
            true
        }
    }
}

fn prop(c: &Case) -> Verdict {
    if f_str(c, 0) != b"fsck" {
        return Verdict::ok(false, "not-a-case");
    }
    let Some(p) = parse(c) else { return Verdict::ok(false, "bad-case") };
    let g = Graph::new(&p);
    let calls = run_impl(&p);
    if calls.len() != p.calls.len() {
        return Verdict::fail("call-count", "");
    }
    // unconditional part: no object is ever reported twice by one instance
    let mut all: HashSet<&[u8]> = HashSet::new();
    for (_, reps) in &calls {
        for (id, _) in reps {
            if !all.insert(id.as_slice()) {
                return Verdict::fail("reported-twice", hexs(id));
            }
        }
    }
    // the property's domain: every checked id is a present commit, and the graph below them is one a
    // real repository can have (every reference goes to an object of the referenced kind, or to a missing one)
    let commits_ok = p.calls.iter().all(|c| g.commit_tree(c).is_some());
    if !commits_ok {
        return Verdict::ok(false, "call-not-a-commit");
    }
    let wk = p.calls.iter().all(|c| g.closure(c).iter().all(|s| g.well_kinded_at(s)));
    if !wk {
        return Verdict::ok(false, "ill-kinded");
    }
    let mut reported: HashSet<&[u8]> = HashSet::new();
    let mut biggest = 0usize;
    let mut expected_total = 0usize;
    for (c, (r, reps)) in p.calls.iter().zip(calls.iter()) {
        if r.is_err() {
            return Verdict::fail("present-commit-errs", format!("{:?}", r));
        }
        let cl = g.closure(c);
        biggest = biggest.max(cl.len());
        let want: HashSet<&[u8]> =
            cl.iter().copied().filter(|o| !g.present(o) && !reported.contains(o)).collect();
        let got: HashSet<&[u8]> = reps.iter().map(|(i, _)| i.as_slice()).collect();
        if let Some(m) = want.iter().find(|o| !got.contains(*o)) {
            return Verdict::fail("missing-not-reported", hexs(m));
        }
        if let Some(m) = got.iter().find(|o| !want.contains(*o)) {
            let why = if g.present(m) {
                "present"
            } else if reported.contains(m) {
                "already reported by an earlier call"
            } else {
                "not reachable"
            };
            return Verdict::fail("reported-but-not-missing-reachable", format!("{} {}", hexs(m), why));
        }
        // the kind passed to the callback is one by which a reachable present node refers to the object
        for (id, k) in reps {
            let as_kind = match k {
                Kind::Tree => EK::Tree,
                Kind::Blob => EK::Blob,
                _ => return Verdict::fail("report-kind", format!("{:?}", k)),
            };
            let referenced =
                cl.iter().any(|s| g.children(s).iter().any(|(rk, t)| *rk == as_kind && *t == id.as_slice()));
            if !referenced {
                return Verdict::fail("report-kind", format!("{} {:?}", hexs(id), k));
            }
        }
        expected_total += want.len();
        reported.extend(want);
    }
    let mut class = if expected_total == 0 { "complete" } else { "some-missing" }.to_string();
    // second opinion on the oracle itself, for a sample: the same graph as a real loose-object
    // repository, asked of `git fsck --connectivity-only`
    if fnv(c) % 16 == 0 {
        match git_second_opinion(&p, &g) {
            None => {}
            Some(Ok(())) => class.push_str("+git"),
            Some(Err(e)) => return Verdict::fail("git-fsck-differs", e),
        }
    }
    Verdict::ok(biggest >= 3, class)
}

fn fnv(c: &Case) -> u64 {
    let mut h = 0xcbf29ce484222325u64;
    for f in c {
        for b in f.iter().chain(&[0xffu8]) {
            h = (h ^ *b as u64).wrapping_mul(0x100000001b3);
        }
    }
    h >> 7
}

/// Real object ids for the part of the graph below the checked commits: present objects get the hash
/// of real content, missing ones keep their abstract id. None if the graph has a cycle or a
/// non-canonical mode (no real repository looks like that).
struct Realiser<'a, 'g> {
    g: &'g Graph<'a>,
    real: HashMap<&'a [u8], Id>,
    stack: Vec<&'a [u8]>,
    objects: Vec<(Kind, Id, Vec<u8>)>, // kind, real id, content
}
impl<'a, 'g> Realiser<'a, 'g> {
    fn real(&mut self, o: &'a [u8]) -> Option<Id> {
        if let Some(r) = self.real.get(o) {
            return Some(r.clone());
        }
        if self.stack.contains(&o) {
            return None;
        }
        self.stack.push(o);
        let made: Option<(Kind, Vec<u8>)> = if let Some(es) = self.g.tree(o) {
            let mut d = Vec::new();
            for (i, (m, t)) in es.iter().enumerate() {
                if ![M_TREE, M_BLOB, M_EXE, M_LINK, M_SUB].contains(m) {
                    return None;
                }
                let rid = if *m == M_SUB { t.clone() } else { self.real(t)? };
                d.extend_from_slice(format!("{:o} f{:03}", m, i).as_bytes());
                d.push(0);
                d.extend_from_slice(&rid);
            }
            Some((Kind::Tree, d))
        } else if let Some(t) = self.g.commit_tree(o) {
            let rt = self.real(t)?;
            Some((
                Kind::Commit,
                format!("tree {}\nauthor a <a@b> 0 +0000\ncommitter a <a@b> 0 +0000\n\n{}\n", hexs(&rt), hexs(o)).into_bytes(),
            ))
        } else if self.g.present(o) {
            Some((Kind::Blob, format!("blob {}", hexs(o)).into_bytes()))
        } else {
            None
        };
        self.stack.pop();
        let rid = match made {
            Some((k, d)) => {
                let id = gix_object::compute_hash(gix_hash::Kind::Sha1, k, &d).as_bytes().to_vec();
                self.objects.push((k, id.clone(), d));
                id
            }
            None => o.to_vec(),
        };
        self.real.insert(o, rid.clone());
        Some(rid)
    }
}

fn git_second_opinion(p: &Parsed, g: &Graph) -> Option<Result<(), String>> {
    use std::io::Write;
    use std::process::{Command, Stdio};
    let mut r = Realiser { g, real: HashMap::new(), stack: vec![], objects: vec![] };
    let mut heads = Vec::new();
    for c in &p.calls {
        heads.push(hexs(&r.real(c)?));
    }
    // expected: the oracle's missing set, in real ids
    let mut want: Vec<String> = Vec::new();
    for c in &p.calls {
        for o in g.closure(c) {
            if !g.present(o) {
                want.push(hexs(r.real.get(o)?));
            }
        }
    }
    want.sort();
    want.dedup();
    static N: std::sync::atomic::AtomicU64 = std::sync::atomic::AtomicU64::new(0);
    let dir = std::env::temp_dir().join(format!(
        "gixv-c54-{}-{}",
        std::process::id(),
        N.fetch_add(1, std::sync::atomic::Ordering::SeqCst)
    ));
    let res = (|| -> Result<(), String> {
        std::fs::create_dir_all(dir.join("objects")).map_err(|e| e.to_string())?;
        std::fs::create_dir_all(dir.join("refs")).map_err(|e| e.to_string())?;
        std::fs::create_dir_all(dir.join("in")).map_err(|e| e.to_string())?;
        std::fs::write(dir.join("HEAD"), "ref: refs/heads/main\n").map_err(|e| e.to_string())?;
        let git = |args: &[&str], input: &str| -> Result<String, String> {
            let mut ch = Command::new("/usr/bin/git")
                .arg("--git-dir")
                .arg(&dir)
                .args(args)
                .env("GIT_CONFIG_NOSYSTEM", "1")
                .env("GIT_CONFIG_GLOBAL", "/dev/null")
                .stdin(Stdio::piped())
                .stdout(Stdio::piped())
                .stderr(Stdio::piped())
                .spawn()
                .map_err(|e| e.to_string())?;
            ch.stdin.take().unwrap().write_all(input.as_bytes()).map_err(|e| e.to_string())?;
            let out = ch.wait_with_output().map_err(|e| e.to_string())?;
            Ok(String::from_utf8_lossy(&out.stdout).into_owned() + &String::from_utf8_lossy(&out.stderr))
        };
        for (kind, name) in [(Kind::Blob, "blob"), (Kind::Tree, "tree"), (Kind::Commit, "commit")] {
            let mut paths = String::new();
            let mut ids = Vec::new();
            for (i, (k, id, d)) in r.objects.iter().enumerate() {
                if *k == kind {
                    let f = dir.join("in").join(format!("{name}{i}"));
                    std::fs::write(&f, d).map_err(|e| e.to_string())?;
                    paths.push_str(&format!("{}\n", f.display()));
                    ids.push(hexs(id));
                }
            }
            if ids.is_empty() {
                continue;
            }
            let out = git(&["hash-object", "-w", "--literally", "-t", name, "--stdin-paths"], &paths)?;
            let got: Vec<&str> = out.lines().collect();
            if got != ids.iter().map(|s| s.as_str()).collect::<Vec<_>>() {
                return Err(format!("hash-object {name}: {:?} vs {:?}", got, ids));
            }
        }
        let mut args = vec!["fsck", "--connectivity-only", "--no-dangling"];
        args.extend(heads.iter().map(|s| s.as_str()));
        let out = git(&args, "")?;
        let mut got: Vec<String> = out
            .lines()
            .filter_map(|l| l.strip_prefix("missing "))
            .filter_map(|l| l.split(' ').nth(1))
            .map(|s| s.to_string())
            .collect();
        got.sort();
        got.dedup();
        if got != want {
            return Err(format!("git says missing {:?}, oracle {:?}", got, want));
        }
        Ok(())
    })();
    let _ = std::fs::remove_dir_all(&dir);
    Some(res)
}

// ---- generator --------------------------------------------------------------------------------
fn pid(k: u8) -> Id {
    vec![k; 20]
}
fn f_commit(id: &Id, t: &Id) -> Vec<u8> {
    [b"c".as_slice(), id, t].concat()
}
fn f_tree(id: &Id, es: &[(u32, Id)]) -> Vec<u8> {
    let mut f = [b"t".as_slice(), id].concat();
    for (m, t) in es {
        f.extend_from_slice(&m.to_be_bytes());
        f.extend_from_slice(t);
    }
    f
}
fn f_simple(t: u8, id: &Id) -> Vec<u8> {
    [&[t][..], id].concat()
}
fn case(items: Vec<Vec<u8>>) -> Case {
    let mut c = vec![tag("fsck")];
    c.extend(items);
    c
}

const M_TREE: u32 = 0o40000;
const M_BLOB: u32 = 0o100644;
const M_EXE: u32 = 0o100755;
const M_LINK: u32 = 0o120000;
const M_SUB: u32 = 0o160000;
/// accepted by the decoder, beyond the five canonical ones (0o3xxxxx: truncated by `as u16`)
const BLOBISH: &[u32] = &[M_BLOB, M_BLOB, M_BLOB, M_BLOB, M_EXE, M_EXE, M_LINK, M_LINK, M_BLOB, M_EXE, M_LINK, 0o100664, 0o100600, 0o100000, 0o100100, 0o300644, 0o1100755];
const SUBISH: &[u32] = &[M_SUB, M_SUB, M_SUB, M_SUB, M_SUB, M_SUB, 0o140000, 0o170000, 0o150644, 0o110000, 0o130000, 0o360000];
const REJECTED: &[u32] = &[0, 0o644, 0o40755, 0o20000, 0o60000, 0o200000, 0o240000, 0o77777, 0o400000];

fn boundary() -> Vec<Case> {
    let (c1, c2, t1, t2, t3, b1, b2, b3) = (pid(1), pid(2), pid(11), pid(12), pid(13), pid(21), pid(22), pid(23));
    let k = |id: &Id| f_simple(b'k', id);
    let b = |id: &Id| f_simple(b'b', id);
    let mut out = vec![
        case(vec![]),
        case(vec![k(&c1)]),
        case(vec![k(&c1), k(&c1)]), // a missing commit errs once, then is `seen`
        case(vec![f_commit(&c1, &t1), k(&c1)]), // root tree missing
        case(vec![f_commit(&c1, &t1), k(&c1), k(&c1)]),
        case(vec![f_commit(&c1, &t1), f_tree(&t1, &[]), k(&c1)]),
        // everything present
        case(vec![
            f_commit(&c1, &t1),
            f_tree(&t1, &[(M_BLOB, b1.clone()), (M_TREE, t2.clone()), (M_EXE, b2.clone())]),
            f_tree(&t2, &[(M_LINK, b3.clone()), (M_SUB, c2.clone())]),
            b(&b1),
            b(&b2),
            b(&b3),
            k(&c1),
        ]),
        // blobs missing, one referenced twice and from two trees
        case(vec![
            f_commit(&c1, &t1),
            f_tree(&t1, &[(M_BLOB, b1.clone()), (M_TREE, t2.clone()), (M_EXE, b1.clone()), (M_BLOB, b2.clone())]),
            f_tree(&t2, &[(M_LINK, b1.clone()), (M_BLOB, b3.clone())]),
            b(&b2),
            k(&c1),
        ]),
        // a missing tree hides what is below it; the same tree twice
        case(vec![
            f_commit(&c1, &t1),
            f_tree(&t1, &[(M_TREE, t2.clone()), (M_TREE, t2.clone()), (M_TREE, t3.clone())]),
            f_tree(&t3, &[(M_BLOB, b1.clone())]),
            k(&c1),
        ]),
        // two commits sharing a tree: the second call reports only what is new
        case(vec![
            f_commit(&c1, &t1),
            f_commit(&c2, &t2),
            f_tree(&t1, &[(M_TREE, t3.clone()), (M_BLOB, b1.clone())]),
            f_tree(&t2, &[(M_TREE, t3.clone()), (M_BLOB, b2.clone())]),
            f_tree(&t3, &[(M_BLOB, b3.clone())]),
            k(&c1),
            k(&c2),
            k(&c1),
        ]),
        // cycles: a tree containing itself, two trees containing each other
        case(vec![
            f_commit(&c1, &t1),
            f_tree(&t1, &[(M_TREE, t1.clone()), (M_TREE, t2.clone())]),
            f_tree(&t2, &[(M_TREE, t1.clone()), (M_BLOB, b1.clone())]),
            k(&c1),
        ]),
        // submodule entries are not followed even if the id is a missing object or a present tree
        case(vec![
            f_commit(&c1, &t1),
            f_tree(&t1, &[(M_SUB, b1.clone()), (M_SUB, t2.clone()), (0o170000, b2.clone())]),
            f_tree(&t2, &[(M_BLOB, b3.clone())]),
            k(&c1),
        ]),
        // ill-kinded: a blob-mode entry naming a present tree marks it seen; its content is never walked
        case(vec![
            f_commit(&c1, &t1),
            f_tree(&t1, &[(M_BLOB, t2.clone()), (M_TREE, t2.clone())]),
            f_tree(&t2, &[(M_BLOB, b1.clone())]),
            k(&c1),
        ]),
        // ill-kinded: a tree-mode entry naming a present blob is reported as a missing tree
        case(vec![f_commit(&c1, &t1), f_tree(&t1, &[(M_TREE, b1.clone())]), b(&b1), k(&c1)]),
        // ill-kinded: a commit named by a blob entry is `seen`, a later check of it does nothing
        case(vec![
            f_commit(&c1, &t1),
            f_commit(&c2, &t2),
            f_tree(&t1, &[(M_BLOB, c2.clone())]),
            k(&c1),
            k(&c2),
        ]),
        // check_commit on a tree / blob / tag / undecodable objects
        case(vec![f_tree(&t1, &[]), b(&b1), f_simple(b'g', &b2), k(&t1), k(&b1), k(&b2)]),
        case(vec![f_simple(b'x', &c1), f_simple(b'y', &t1), f_simple(b'z', &b1), k(&c1), k(&t1), k(&b1)]),
        case(vec![f_tree(&t1, &[(0o644, b1.clone())]), k(&t1)]),
        // a tree with an unacceptable mode does not decode: reported as a missing tree
        case(vec![f_commit(&c1, &t1), f_tree(&t1, &[(M_BLOB, b1.clone()), (0o644, b2.clone())]), k(&c1)]),
        case(vec![f_commit(&c1, &t1), f_simple(b'y', &t1), k(&c1)]),
        // the first object with an id wins
        case(vec![f_commit(&c1, &t1), f_tree(&t1, &[(M_BLOB, b1.clone())]), f_tree(&t1, &[(M_BLOB, b2.clone())]), k(&c1)]),
        // malformed items
        vec![tag("fsck"), b"k".to_vec()],
        vec![tag("fsck"), [b"q".as_slice(), &c1].concat()],
        vec![tag("fsck"), [b"t".as_slice(), &t1, &[0, 0, 0x40][..]].concat()],
        vec![tag("other")],
    ];
    // every mode class once, present and missing target
    let mut modes: Vec<u32> = BLOBISH.iter().chain(SUBISH).chain(REJECTED).chain(&[M_TREE]).copied().collect();
    modes.sort();
    modes.dedup();
    for m in modes {
        out.push(case(vec![
            f_commit(&c1, &t1),
            f_tree(&t1, &[(m, b1.clone()), (m, b2.clone()), (m, t2.clone()), (m, t3.clone())]),
            f_tree(&t2, &[(M_BLOB, b3.clone())]),
            b(&b1),
            k(&c1),
        ]));
    }
    // a chain of 40 trees, the last one holding a missing blob; and a wide tree
    let mut items = vec![f_commit(&c1, &pid(100))];
    for i in 0..40u8 {
        items.push(f_tree(&pid(100 + i), &[(M_TREE, pid(101 + i)), (M_BLOB, pid(200))]));
    }
    items.push(f_tree(&pid(140), &[(M_BLOB, pid(201))]));
    items.push(k(&c1));
    out.push(case(items));
    let wide: Vec<(u32, Id)> =
        (0..60u8).map(|i| (if i % 3 == 0 { M_TREE } else { M_BLOB }, pid(100 + i % 25))).collect();
    out.push(case(vec![f_commit(&c1, &t1), f_tree(&t1, &wide), b(&pid(101)), f_tree(&pid(103), &[]), k(&c1)]));
    out
}

#[derive(Clone, Copy, PartialEq)]
enum Role {
    Commit,
    Tree,
    Blob,
}

fn random_case(rng: &mut Rng) -> Case {
    let ill = rng.chance(1, 7); // ill-kinded / odd-object stream
    let ncommit = rng.range(1, 3) as usize;
    let big = rng.chance(1, 5);
    let ntree = rng.range(2, if big { 12 } else { 6 }) as usize;
    let nblob = rng.range(0, 6) as usize;
    let mut roles: Vec<(Id, Role)> = Vec::new();
    for i in 0..ncommit {
        roles.push((pid(1 + i as u8), Role::Commit));
    }
    for i in 0..ntree {
        roles.push((pid(16 + i as u8), Role::Tree));
    }
    for i in 0..nblob {
        roles.push((pid(32 + i as u8), Role::Blob));
    }
    let trees: Vec<Id> = roles.iter().filter(|r| r.1 == Role::Tree).map(|r| r.0.clone()).collect();
    let p_del = *rng.pick(&[0u64, 1, 1, 2, 3, 5]);
    let max_entries = *rng.pick(&[3i64, 5, 5, 8]);
    let mut items: Vec<Vec<u8>> = Vec::new();
    for (id, role) in &roles {
        match role {
            Role::Commit => {
                // mostly one of the first two trees, which are rarely deleted: the walk gets somewhere
                let t = if rng.chance(1, 20) {
                    pid(90)
                } else if rng.chance(3, 4) {
                    trees[rng.below(2) as usize].clone()
                } else {
                    rng.pick(&trees).clone()
                };
                let t = if ill && rng.chance(1, 4) { rng.pick(&roles).0.clone() } else { t };
                items.push(f_commit(id, &t));
            }
            Role::Tree => {
                let root = *id == trees[0] || *id == trees[1];
                if rng.chance(p_del, if root { 50 } else { 10 }) {
                    continue; // deleted
                }
                let n = if root {
                    rng.range(2, max_entries) as usize
                } else if rng.chance(1, 8) {
                    0
                } else {
                    rng.range(1, max_entries) as usize
                };
                let mut es = Vec::new();
                for _ in 0..n {
                    let (tid, trole) = if rng.chance(1, 10) {
                        // an id that is nowhere in the database
                        (pid(80 + rng.below(3) as u8), *rng.pick(&[Role::Tree, Role::Blob, Role::Blob, Role::Commit]))
                    } else {
                        rng.pick(&roles).clone()
                    };
                    let m = if ill && rng.chance(1, 2) {
                        match rng.below(8) {
                            0 => *rng.pick(REJECTED),
                            1 | 2 => M_TREE,
                            3 => *rng.pick(SUBISH),
                            _ => *rng.pick(BLOBISH),
                        }
                    } else {
                        match trole {
                            Role::Tree => M_TREE,
                            Role::Blob => *rng.pick(BLOBISH),
                            Role::Commit => *rng.pick(SUBISH),
                        }
                    };
                    es.push((m, tid));
                }
                items.push(f_tree(id, &es));
            }
            Role::Blob => {
                if rng.chance(p_del, 10) {
                    continue;
                }
                items.push(f_simple(b'b', id));
            }
        }
    }
    if ill {
        for _ in 0..rng.below(3) {
            let id = rng.pick(&roles).0.clone();
            let it = match rng.below(6) {
                0 => f_simple(b'g', &id),
                1 => f_simple(b'x', &id),
                2 => f_simple(b'y', &id),
                3 => f_simple(b'z', &id),
                4 => f_simple(b'b', &id),
                _ => f_tree(&id, &[(M_BLOB, rng.pick(&roles).0.clone())]),
            };
            // before or after the regular object of that id: the first one wins
            let at = rng.below(items.len() as u64 + 1) as usize;
            items.insert(at, it);
        }
    }
    // shuffle the objects (order must not matter except for repeated ids)
    for i in (1..items.len()).rev() {
        let j = rng.below(i as u64 + 1) as usize;
        items.swap(i, j);
    }
    let ncalls = rng.range(1, 4) as usize;
    for _ in 0..ncalls {
        let c = if ill && rng.chance(1, 4) {
            if rng.chance(1, 2) {
                pid(70)
            } else {
                rng.pick(&roles).0.clone()
            }
        } else {
            pid(1 + rng.below(ncommit as u64) as u8)
        };
        items.push(f_simple(b'k', &c));
    }
    case(items)
}

fn gen(rng: &mut Rng, n: usize) -> Vec<Case> {
    let mut out = boundary();
    while out.len() < n {
        out.push(random_case(rng));
    }
    out.truncate(n.max(1));
    out
}

fn main() {
    main_with(Harness { gen, imp, prop, git: None, deadline: Duration::from_secs(180) });
}
