(* C39 — transcript printer.
   case:  ps <defaults> <prefix> <gitattributes> <nspecs> <spec>… <path>…      (see harness/src/main.rs)
   model: attr                      some spec contains the bytes "attr" (attribute magic is outside the model)
          perr <k> <Kind>           spec k does not parse
          abs                       a parsed path starts with '/'
          nerr OutsideOfWorktree
          ok parsed=[<pattern>|<hex to_bstring>;…] pats=[<pattern>;…] cp=<hex common prefix> m=<match>…
            pattern = sig bits/search mode/nil/len(prefix_directory)/hex(path)/hex(attributes)
            match   = N | <A|P|W|V><sequence number>[x]
   spec:  err | sel <0|1 per path>  what git (Spec.v) selects *)
From GixV.Base Require Import Bytes Outcome.
From GixV.C39 Require Import Glob Model Spec.

Definition nat_dec (n : nat) : bytes := N_to_dec (N.of_nat n).

Fixpoint is_infix (needle l : bytes) : bool :=
  starts_with l needle || match l with [] => false | _ :: r => is_infix needle r end.

Definition perr_name (e : perr) : bytes :=
  match e with
  | EmptyString => bs "EmptyString" | InvalidKeyword => bs "InvalidKeyword" | Unimplemented => bs "Unimplemented"
  | MissingClosingParenthesis => bs "MissingClosingParenthesis" | IncompatibleSearchModes => bs "IncompatibleSearchModes"
  | AttrUnmodelled => bs "AttrUnmodelled"
  end.

Definition show_pat (p : pat) : bytes :=
  N_to_dec (sig_bits (p_sig p)) ++ bs "/" ++ N_to_dec (smode_num (p_mode p)) ++ bs "/" ++ bool_to_bytes (p_nil p) ++
  bs "/" ++ nat_dec (p_plen p) ++ bs "/" ++ hex_encode (p_path p) ++ bs "/".

Fixpoint join_with (sep : bytes) (l : list bytes) : bytes :=
  match l with [] => [] | [a] => a | a :: r => a ++ sep ++ join_with sep r end.

Definition decode_defaults (f : bytes) : defaults :=
  let ic := match nth_error f 0 with Some b => beqb b x31 | None => false end in
  let md := match nth_error f 1 with Some b => if beqb b x31 then PathAwareGlob else if beqb b x32 then Literal else ShellGlob | None => ShellGlob end in
  let lit := match nth_error f 2 with Some b => beqb b x31 | None => false end in
  {| d_sig := if ic then set_icase sig0 else sig0; d_mode := md; d_literal := lit |}.

Inductive pat_list_result := PL_ok (l : list pat) | PL_err (k : nat) (e : perr) | PL_panic.

Fixpoint parse_all (d : defaults) (specs : list bytes) (k : nat) : pat_list_result :=
  match specs with
  | [] => PL_ok []
  | s :: r =>
      match parse d s with
      | Ok p => match parse_all d r (S k) with PL_ok ps => PL_ok (p :: ps) | e => e end
      | Err e => PL_err k e
      | _ => PL_panic
      end
  end.

Definition show_match (o : option mtch) : bytes :=
  match o with
  | None => bs "N"
  | Some k => (match k_kind k with Always => bs "A" | Prefix => bs "P" | WildcardMatch => bs "W" | Verbatim => bs "V" end)
              ++ nat_dec (k_seq k) ++ (if k_excluded k then bs "x" else [])
  end.

Definition path_of (f : bytes) : bool * bytes :=
  match f with c :: r => (beqb c x64, r) | [] => (false, []) end.

Fixpoint show_matches (s : search) (paths : list bytes) : option (list bytes) :=
  match paths with
  | [] => Some []
  | f :: r =>
      let '(d, p) := path_of f in
      match pattern_matching s p d with
      | Ok o => match show_matches s r with Some l => Some (show_match o :: l) | None => None end
      | _ => None
      end
  end.

Definition run_model (fs : list bytes) : bytes :=
  let d := decode_defaults (nth_field 1 fs) in
  let prefix := nth_field 2 fs in
  let n := N.to_nat (field_N 4 fs) in
  let specs := firstn n (skipn 5 fs) in
  let paths := skipn (5 + n) fs in
  if existsb (is_infix (bs "attr")) specs then bs "attr"
  else match parse_all d specs O with
  | PL_err k e => bs "perr " ++ nat_dec k ++ bs " " ++ perr_name e
  | PL_panic => bs "PANIC"
  | PL_ok ps =>
      if existsb (fun p => match p_path p with c :: _ => beqb c cSLASH | [] => false end) ps then bs "abs"
      else match from_specs ps prefix with
      | Err OutsideOfWorktree => bs "nerr OutsideOfWorktree"
      | Err AbsoluteUnmodelled => bs "abs"
      | Panic => bs "PANIC" | OutOfFuel => bs "HANG"
      | Ok s =>
          match common_prefix s, show_matches s paths with
          | Ok cp, Some ms =>
              bs "ok parsed=[" ++ join_with (bs ";") (map (fun p => show_pat p ++ bs "|" ++ hex_encode (to_bstring p)) ps) ++
              bs "] pats=[" ++ join_with (bs ";") (map (fun m => show_pat (m_pat m)) (patterns s)) ++
              bs "] cp=" ++ hex_encode cp ++ bs " m=" ++ join_with (bs " ") ms
          | _, _ => bs "PANIC"
          end
      end
  end.

Definition run (fs : list bytes) : bytes :=
  match fs with
  | mode :: rest =>
      if bytes_eqb (nth_field 0 rest) (bs "ps") then
        if bytes_eqb mode (bs "spec") then run_spec rest else run_model rest
      else bs "?"
  | [] => bs "?"
  end.
