(* C39 — parse (to_bstring p) = p for every pattern that parse can return (without attributes) *)
From Coq Require Import Lia.
From GixV.Base Require Import Bytes BytesFacts Outcome.
From GixV.C39 Require Import Glob Model Proofs.

Definition d0 : defaults := {| d_sig := sig0; d_mode := ShellGlob; d_literal := false |}.

(* what parse returns: no prefix yet, nil only for ":", and a path that ends in a slash only
   if MUST_BE_DIR was recorded for a second one *)
Definition parsed_wf (p : pat) : Prop :=
  p_plen p = O /\ (p_nil p = true -> p = nil_pattern) /\
  (s_dir (p_sig p) = false -> strip_slash (p_path p) = (false, p_path p)).

Lemma strip_slash_app (l : bytes) : strip_slash (l ++ [cSLASH]) = (true, l).
Proof.
  unfold strip_slash. destruct (l ++ [cSLASH]) eqn:E; [destruct l; discriminate|]. rewrite <- E.
  rewrite last_byte_app_one, removelast_app_one, beqb_refl_c. reflexivity.
Qed.

Lemma strip_slash_shape l : strip_slash l = (false, l) \/ exists l', l = l' ++ [cSLASH] /\ strip_slash l = (true, l').
Proof.
  unfold strip_slash. destruct l as [|c r]; [left; reflexivity|].
  destruct (beqb (last_byte (c :: r)) cSLASH) eqn:E; [|left; reflexivity].
  right. exists (removelast (c :: r)). split; [|reflexivity].
  apply beqb_eq in E. rewrite <- E. unfold last_byte. apply app_removelast_last. discriminate.
Qed.

Lemma finish_wf d st path : parsed_wf (finish d st path).
Proof.
  unfold finish, parsed_wf. destruct st as [s m]. destruct (strip_slash_shape path) as [H|[l' [-> H]]]; rewrite H; cbn.
  - split; [reflexivity|]. split; [discriminate|]. intros _. exact H.
  - split; [reflexivity|]. split; [discriminate|]. discriminate.
Qed.

Lemma parse_wf d input p : d_literal d = false -> parse d input = Ok p -> parsed_wf p.
Proof.
  intros Hl. unfold parse. destruct input as [|c0 r0]; [discriminate|]. rewrite Hl.
  destruct (bytes_eqb (c0 :: r0) (bs ":")).
  { intros H. apply Ok_inj in H. subst p. unfold parsed_wf. cbn. repeat split; reflexivity. }
  destruct (beqb c0 cCOLON).
  2:{ intros H. apply Ok_inj in H. subst p. apply finish_wf. }
  destruct (short_kw r0 sig0) as [[s1 rest]| | |]; try discriminate.
  destruct rest as [|c1 r1].
  { intros H. apply Ok_inj in H. subst p. apply finish_wf. }
  destruct (beqb c1 Model.cLPAR).
  2:{ intros H. apply Ok_inj in H. subst p. apply finish_wf. }
  destruct (long_kw r1 (sig_or (d_sig d) s1, ShellGlob)) as [[st' rest']| | |]; try discriminate.
  intros H. apply Ok_inj in H. subst p. apply finish_wf.
Qed.

Definition head (t i e : bool) (m : smode) : bytes :=
  let kws := (if t then bs "top," else []) ++ (if e then bs "exclude," else []) ++ (if i then bs "icase," else []) ++
             match m with ShellGlob => [] | Literal => bs "literal," | PathAwareGlob => bs "glob," end in
  bs ":(" ++ (match kws with [] => [] | _ => removelast kws end) ++ bs ")".

Lemma to_bstring_split path t i e dr m :
  to_bstring {| p_path := path; p_sig := {| s_top := t; s_icase := i; s_excl := e; s_dir := dr |};
                p_mode := m; p_nil := false; p_plen := O |} =
  head t i e m ++ (path ++ (if dr then [cSLASH] else [])).
Proof. destruct t, i, e, dr, m; vm_compute; reflexivity. Qed.

Lemma parse_head t i e m rest :
  parse d0 (head t i e m ++ rest) =
  Ok (finish d0 ({| s_top := t; s_icase := i; s_excl := e; s_dir := false |}, m) rest).
Proof. destruct t, i, e, m; vm_compute; reflexivity. Qed.

Lemma roundtrip_wf : forall p, parsed_wf p -> parse d0 (to_bstring p) = Ok p.
Proof.
  intros [path [t i e dr] m nl pl] (Hpl & Hnil & Hdir). cbn [p_plen p_nil p_sig p_path s_dir] in *. subst pl.
  destruct nl.
  { rewrite (Hnil eq_refl). reflexivity. }
  clear Hnil. rewrite to_bstring_split, parse_head. unfold finish. cbn [d_mode d0 smode_eqb negb andb].
  destruct dr.
  - rewrite strip_slash_app. reflexivity.
  - rewrite app_nil_r, (Hdir eq_refl). reflexivity.
Qed.

Lemma parse_roundtrip d input p : d_literal d = false -> parse d input = Ok p -> parse d0 (to_bstring p) = Ok p.
Proof. intros Hl H. apply roundtrip_wf. exact (parse_wf d input p Hl H). Qed.
