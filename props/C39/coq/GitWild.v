(* C39 — copy of props/C36/coq/Spec.v — specification: git 2.39.5 wildmatch.c `dowild`/`wildmatch` with the ctype table of
   ctype.c (`sane_ctype`) and the macros of git-compat-util.h, transcribed.
   C strings are NUL terminated: a pattern or text is the list of its bytes before the NUL, the
   end of the list reads as '\0' ([hd0]).  `p`/`text` are the lists starting at the pointer;
   `prev_p < pattern || *prev_p == '/'` uses the byte before the star ([prev]; None at the start of
   this call's pattern).  The statement only makes sense for NUL-free patterns and texts.
   [early] = true is git; [early] = false is git without the `if (t_ch == '\0') break;` at the top of
   the star loop (used as an intermediate step in the proofs, see Proofs.v).
   No proofs in this file. *)
From GixV.Base Require Import Bytes.
From GixV.C39 Require Import Glob.
Local Open Scope N_scope.

(* ---- ctype.c ------------------------------------------------------------------------------ *)
Definition GIT_SPACE : N := 1.
Definition GIT_DIGIT : N := 2.
Definition GIT_ALPHA : N := 4.
Definition GIT_GLOB_SPECIAL : N := 8.
Definition GIT_REGEX_SPECIAL : N := 16.
Definition GIT_PATHSPEC_MAGIC : N := 32.
Definition GIT_CNTRL : N := 64.
Definition GIT_PUNCT : N := 128.

Definition sane_ctype_table : list N :=
  let S := GIT_SPACE in let A := GIT_ALPHA in let D := GIT_DIGIT in let G := GIT_GLOB_SPECIAL in
  let R := GIT_REGEX_SPECIAL in let P := GIT_PATHSPEC_MAGIC in let X := GIT_CNTRL in
  let U := GIT_PUNCT in let Z := GIT_CNTRL + GIT_SPACE in
  [ X; X; X; X; X; X; X; X; X; Z; Z; X; X; Z; X; X;      (*   0.. 15 *)
    X; X; X; X; X; X; X; X; X; X; X; X; X; X; X; X;      (*  16.. 31 *)
    S; P; P; P; R; P; P; P; R; R; G; R; P; P; R; P;      (*  32.. 47 *)
    D; D; D; D; D; D; D; D; D; D; P; P; P; P; P; G;      (*  48.. 63 *)
    P; A; A; A; A; A; A; A; A; A; A; A; A; A; A; A;      (*  64.. 79 *)
    A; A; A; A; A; A; A; A; A; A; A; G; G; U; R; P;      (*  80.. 95 *)
    P; A; A; A; A; A; A; A; A; A; A; A; A; A; A; A;      (*  96..111 *)
    A; A; A; A; A; A; A; A; A; A; A; R; R; U; P; X ].    (* 112..127; nothing in 128.. *)

Definition sane_istest (c : byte) (mask : N) : bool :=
  negb (N.eqb (N.land (nth (N.to_nat (b2N c)) sane_ctype_table 0) mask) 0).

Definition g_isspace c := sane_istest c GIT_SPACE.
Definition g_isdigit c := sane_istest c GIT_DIGIT.
Definition g_isalpha c := sane_istest c GIT_ALPHA.
Definition g_isalnum c := sane_istest c (GIT_ALPHA + GIT_DIGIT).
Definition g_isprint (c : byte) := N.leb 32 (b2N c) && N.leb (b2N c) 126.
Definition g_iscase (c : byte) (lower : bool) : bool :=           (* sane_iscase *)
  if negb (sane_istest c GIT_ALPHA) then false
  else if lower then negb (N.eqb (N.land (b2N c) 32) 0) else N.eqb (N.land (b2N c) 32) 0.
Definition g_islower c := g_iscase c true.
Definition g_isupper c := g_iscase c false.
Definition g_iscntrl c := sane_istest c GIT_CNTRL.
Definition g_ispunct c :=
  sane_istest c (GIT_PUNCT + GIT_REGEX_SPECIAL + GIT_GLOB_SPECIAL + GIT_PATHSPEC_MAGIC).
Definition g_isxdigit (c : byte) : bool := match hex_val c with Some _ => true | None => false end.
Definition g_isascii (c : byte) : bool := N.eqb (N.land (b2N c) (255 - 127)) 0.
(* wildmatch.c: ISBLANK uses libc isblank behind ISASCII, ISGRAPH libc isgraph behind ISASCII *)
Definition g_isblank (c : byte) : bool := beqb c x20 || beqb c x09.
Definition g_isgraph (c : byte) : bool := g_isascii c && g_isprint c && negb (g_isspace c).
Definition g_is_glob_special c := sane_istest c GIT_GLOB_SPECIAL.
(* sane_case: tolower(x) = x | 0x20 for alphabetic x, toupper(x) = x & ~0x20 *)
Definition g_tolower (c : byte) : byte := if g_isalpha c then N2b (N.lor (b2N c) 32) else c.
Definition g_toupper (c : byte) : byte := if g_isalpha c then N2b (N.land (b2N c) (255 - 32)) else c.

(* `if ((flags & WM_CASEFOLD) && ISUPPER(c)) c = tolower(c);` *)
Definition fold (cf : bool) (c : byte) : byte := if cf && g_isupper c then g_tolower c else c.

Definition hd0 (l : bytes) : byte := match l with [] => x00 | c :: _ => c end.

(* ---- the '[' case ---------------------------------------------------------------------------- *)

Definition g_class (cf : bool) (name : bytes) (t_ch : byte) : option bool :=
  if bytes_eqb name (bs "alnum") then Some (g_isalnum t_ch)
  else if bytes_eqb name (bs "alpha") then Some (g_isalpha t_ch)
  else if bytes_eqb name (bs "blank") then Some (g_isblank t_ch)
  else if bytes_eqb name (bs "cntrl") then Some (g_iscntrl t_ch)
  else if bytes_eqb name (bs "digit") then Some (g_isdigit t_ch)
  else if bytes_eqb name (bs "graph") then Some (g_isgraph t_ch)
  else if bytes_eqb name (bs "lower") then Some (g_islower t_ch)
  else if bytes_eqb name (bs "print") then Some (g_isprint t_ch)
  else if bytes_eqb name (bs "punct") then Some (g_ispunct t_ch)
  else if bytes_eqb name (bs "space") then Some (g_isspace t_ch)
  else if bytes_eqb name (bs "upper") then Some (g_isupper t_ch || (cf && g_islower t_ch))
  else if bytes_eqb name (bs "xdigit") then Some (g_isxdigit t_ch)
  else None.

Definition g_range (cf : bool) (t_ch prev hi : byte) : bool :=
  (ble t_ch hi && ble prev t_ch)
  || (cf && g_islower t_ch && let u := g_toupper t_ch in ble u hi && ble prev u).

(* `for (s = p += 2; (p_ch = *p) && p_ch != ']'; p++) {}` : bytes before the `]`, and what follows it *)
Fixpoint scan_rbr (l : bytes) : option (bytes * bytes) :=
  match l with
  | [] => None
  | c :: r =>
      if beqb c cRBR then Some ([], r)
      else match scan_rbr r with
           | Some (seg, rest) => Some (c :: seg, rest)
           | None => None
           end
  end.

(* `while (prev_ch = p_ch, (p_ch = *++p) != ']')` with p at the last byte consumed; [k] is the next round *)
Definition g_cond (k : byte -> bool -> bytes -> option (bool * bytes))
  (m : bool) (pv : byte) (q' : bytes) : option (bool * bytes) :=
  match q' with
  | [] => None                                 (* p_ch = 0: the next round returns WM_ABORT_ALL *)
  | r :: q'' => if beqb r cRBR then Some (m, q'') else k pv m q'
  end.

(* the do-while of the '[' case; [q] starts at p (so p_ch = hd0 q).  None = WM_ABORT_ALL *)
Fixpoint g_brk (fuel : nat) (cf : bool) (t_ch : byte) (prev : byte) (matched : bool) (q : bytes)
  : option (bool * bytes) :=
  match fuel with
  | O => None
  | S fuel' =>
      let cond := g_cond (g_brk fuel' cf t_ch) in
      match q with
      | [] => None
      | c :: q1 =>
          if beqb c cBSL then
            match q1 with
            | [] => None
            | e :: q2 => cond (matched || beqb t_ch e) e q2
            end
          else if beqb c cDASH && negb (beqb prev x00) && negb (beqb (hd0 q1) x00) && negb (beqb (hd0 q1) cRBR) then
            match q1 with
            | [] => None
            | e :: q2 =>
                if beqb e cBSL then
                  match q2 with
                  | [] => None
                  | e2 :: q3 => cond (matched || g_range cf t_ch prev e2) x00 q3
                  end
                else cond (matched || g_range cf t_ch prev e) x00 q2
            end
          else if beqb c cLBR && beqb (hd0 q1) cCOLON then
            match scan_rbr (tl q1) with
            | None => None
            | Some (seg, q3) =>
                (* i = p - s - 1 < 0 || p[-1] != ':' *)
                if match seg with [] => true | _ => negb (beqb (last_byte seg) cCOLON) end then
                  cond (matched || beqb t_ch cLBR) cLBR q1
                else
                  match g_class cf (removelast seg) t_ch with
                  | None => None
                  | Some hit => cond (matched || hit) x00 q3
                  end
            end
          else cond (matched || beqb t_ch c) c q1
      end
  end.

Definition g_bracket (cf : bool) (t_ch : byte) (p1 : bytes) : option (bool * bytes) :=
  match p1 with
  | [] => None
  | c :: p2 =>
      let negated := beqb c cCARET || beqb c cBANG in
      match g_brk (S (length p1)) cf t_ch x00 false (if negated then p2 else p1) with
      | None => None
      | Some (m, rest) => Some (negb (Bool.eqb m negated), rest)
      end
  end.

(* ---- the '*' case ---------------------------------------------------------------------------- *)

Section Star.
  Variable early : bool.
  Variable cf : bool.
  Variable ms : bool.
  Variable pnext : byte.              (* *p, the byte after the star(s) *)
  Variable rec : bytes -> res.        (* dowild(p, text, flags) *)

  Definition g_after (t_ch : byte) (r : res) (next : unit -> res) : res :=
    if negb (res_eqb r NoMatch) then
      (if negb ms || negb (res_eqb r AbortToStarStar) then r else next tt)
    else if negb ms && beqb t_ch cSLASH then AbortToStarStar
    else next tt.

  (* one round of `while (1)` with text at [c :: rest] *)
  Fixpoint g_star_ne (c : byte) (rest : bytes) : res :=
    let t_ch := fold cf c in
    let next := fun _ : unit => match rest with [] => AbortAll | c' :: rest' => g_star_ne c' rest' end in
    if negb (g_is_glob_special pnext) then
      let p_ch := fold cf pnext in
      if ms || negb (beqb c cSLASH) then
        if beqb t_ch p_ch then g_after t_ch (rec (c :: rest)) next
        else match rest with
             | [] => NoMatch                      (* the scan reaches the NUL: t_ch != p_ch *)
             | c' :: rest' => g_star_ne c' rest'
             end
      else (if beqb c p_ch then g_after c (rec (c :: rest)) next else NoMatch)
    else g_after t_ch (rec (c :: rest)) next.

  Definition g_star_loop (tcur : bytes) : res :=
    match tcur with
    | [] =>
        if early then AbortAll
        else if negb (g_is_glob_special pnext) && negb (beqb x00 (fold cf pnext)) then NoMatch
        else g_after x00 (rec []) (fun _ => AbortAll)
    | c :: rest => g_star_ne c rest
    end.
End Star.

Fixpoint skip_stars (l : bytes) : bytes :=
  match l with
  | c :: r => if beqb c cSTAR then skip_stars r else l
  | [] => []
  end.

(* after the star(s), with p = [nx]: the end-of-pattern test, the `* /` shortcut (one star before a
   slash under WM_PATHNAME), then the `while (1)` loop *)
Definition g_go (early : bool) (rec : bytes -> bytes -> res) (cf : bool) (tcur : bytes) (ms : bool) (nx : bytes) : step :=
  match nx with
  | [] => Done (if negb ms && has_slash tcur then NoMatch else Match)
  | c :: r =>
      if negb ms && beqb c cSLASH then
        match after_slash tcur with
        | Some t' => Cont (Some c) r t'
        | None => Done NoMatch
        end
      else Done (g_star_loop early cf ms c (rec nx) tcur)
  end.

Definition g_star (early : bool) (rec : bytes -> bytes -> res) (cf pn : bool) (prev : option byte) (p1 tcur : bytes) : step :=
  if beqb (hd0 p1) cSTAR then
    let nx := skip_stars p1 in
    if negb pn then g_go early rec cf tcur true nx
    else if match prev with None => true | Some b => beqb b cSLASH end &&
            (beqb (hd0 nx) x00 || beqb (hd0 nx) cSLASH || (beqb (hd0 nx) cBSL && beqb (hd0 (tl nx)) cSLASH)) then
      if beqb (hd0 nx) cSLASH && res_eqb (rec (tl nx) tcur) Match then Done Match else g_go early rec cf tcur true nx
    else g_go early rec cf tcur false nx
  else g_go early rec cf tcur (negb pn) p1.

(* ---- dowild ---------------------------------------------------------------------------------- *)

Fixpoint g_main (early : bool) (rec : bytes -> bytes -> res) (cf pn : bool) (fuel : nat) (prev : option byte) (p t : bytes) : res :=
  match fuel with
  | O => LoopFuel
  | S fuel' =>
      match p with
      | [] => match t with [] => Match | _ :: _ => NoMatch end
      | praw :: p1 =>
          let star := fun _ : unit => match g_star early rec cf pn prev p1 t with
                      | Done r => r
                      | Cont pv p' t' => g_main early rec cf pn fuel' pv p' t'
                      end in
          match t with
          | [] => if beqb praw cSTAR then star tt else AbortAll
          | traw :: t1 =>
              let t_ch := fold cf traw in
              let p_ch := fold cf praw in
              if beqb p_ch cBSL then
                match p1 with
                | [] => NoMatch                                   (* p_ch = '\0' != t_ch *)
                | e :: p2 => if beqb t_ch e then g_main early rec cf pn fuel' (Some e) p2 t1 else NoMatch
                end
              else if beqb p_ch cQM then
                if pn && beqb t_ch cSLASH then NoMatch else g_main early rec cf pn fuel' (Some praw) p1 t1
              else if beqb p_ch cSTAR then star tt
              else if beqb p_ch cLBR then
                match g_bracket cf t_ch p1 with
                | None => AbortAll
                | Some (ok, p') =>
                    if negb ok || (pn && beqb t_ch cSLASH) then NoMatch
                    else g_main early rec cf pn fuel' (Some cRBR) p' t1
                end
              else if beqb t_ch p_ch then g_main early rec cf pn fuel' (Some praw) p1 t1
              else NoMatch
          end
      end
  end.

(* [d] bounds the nesting of dowild calls (C has no bound; a pattern nests at most once per star),
   [n] the length of every pattern slice *)
Fixpoint dowild (early cf pn : bool) (n d : nat) (p t : bytes) : res :=
  match d with
  | O => LoopFuel
  | S d' => g_main early (dowild early cf pn n d') cf pn n None p t
  end.

(* int wildmatch(pattern, text, flags): cf = WM_CASEFOLD, pn = WM_PATHNAME *)
Definition git_wildmatch (cf pn : bool) (p t : bytes) : bool :=
  res_eqb (dowild true cf pn (S (length p)) (S (S (length p))) p t) Match.
