(* C39 — the common-prefix shortcut is sound for searches over wildcard-free, case-sensitive patterns *)
From Coq Require Import Lia.
From GixV.Base Require Import Bytes BytesFacts Outcome.
From GixV.C39 Require Import Glob GitWild Model Spec Proofs ProofsLit ProofsSel.

Lemma common_len_le a : forall b, (common_len a b <= length a)%nat /\ (common_len a b <= length b)%nat.
Proof.
  induction a as [|x a IH]; intros b; cbn [common_len length]; [lia|].
  destruct b as [|y b]; cbn [length]; [lia|]. destruct (beqb x y); [|lia]. destruct (IH b). lia.
Qed.

Lemma common_len_firstn a : forall b k, (k <= common_len a b)%nat -> firstn k a = firstn k b.
Proof.
  induction a as [|x a IH]; intros b k H; cbn [common_len] in H.
  - assert (k = O) by lia. subst. reflexivity.
  - destruct b as [|y b]; [assert (k = O) by lia; subst; reflexivity|].
    destruct (beqb x y) eqn:E; [|assert (k = O) by lia; subst; reflexivity].
    apply beqb_eq in E. subst y. destruct k; [reflexivity|]. cbn [firstn]. f_equal. apply IH. lia.
Qed.

Lemma slice_to_inv l n b : slice_to l n = Ok b -> (n <= length l)%nat /\ b = firstn n l.
Proof.
  unfold slice_to. destruct (Nat.ltb_spec (length l) n) as [Hlt|Hge]; [discriminate|]. intros Hs. apply Ok_inj in Hs. split; [lia|auto].
Qed.

Lemma firstn_firstn_le {A} (l : list A) n k : (n <= k)%nat -> firstn n (firstn k l) = firstn n l.
Proof. intros H. rewrite firstn_firstn. f_equal. lia. Qed.

Lemma cpl_loop_spec : forall rest base len n, cpl_loop base rest len = Ok n ->
  (n <= len)%nat /\ (len <= length base -> True) /\ forall p, In p rest -> firstn n p = firstn n base /\ (n <= length p)%nat.
Proof.
  induction rest as [|p r IH]; intros base len n H; cbn [cpl_loop] in H.
  - apply Ok_inj in H. subst. split; [lia|]. split; [auto|]. intros p [].
  - destruct (slice_to base len) as [b| | |] eqn:Eb; cbn [obind] in H; try discriminate.
    destruct (slice_to p len) as [q| | |] eqn:Eq; cbn [obind] in H; try discriminate.
    apply slice_to_inv in Eb. destruct Eb as [Hb ->]. apply slice_to_inv in Eq. destruct Eq as [Hq ->].
    set (c := common_len (firstn len base) (firstn len p)) in *.
    assert (Hc : (c <= len)%nat).
    { pose proof (common_len_le (firstn len base) (firstn len p)) as [H1 _]. rewrite firstn_length in H1. subst c. lia. }
    apply IH in H. destruct H as (Hn & _ & Hr).
    assert (Hnc : (n <= c)%nat).
    { destruct (Nat.ltb c (Nat.min (length (firstn len base)) (length (firstn len p)))) eqn:E; [exact Hn|].
      apply Nat.ltb_ge in E. rewrite !firstn_length in E. lia. }
    split; [lia|]. split; [auto|]. intros p' [<-|Hin]; [|apply Hr; exact Hin].
    split; [|lia].
    assert (Hf : firstn n (firstn len base) = firstn n (firstn len p)) by (apply common_len_firstn; exact Hnc).
    rewrite !firstn_firstn_le in Hf by lia. symmetry. exact Hf.
Qed.

Lemma list_min_spec : forall l acc, (list_min l acc <= acc)%nat /\ forall x, In x l -> (list_min l acc <= x)%nat.
Proof.
  induction l as [|y l IH]; intros acc; cbn [list_min]; [split; [lia|intros x []]|].
  destruct (IH (Nat.min y acc)) as [H1 H2]. split; [lia|]. intros x [<-|Hin]; [lia|apply H2; exact Hin].
Qed.

(* lit_wf plus: the glob text is the path *)
Definition lit_wf2 (m : mapping) : Prop := lit_wf m /\ ptext (m_glob m) = p_path (m_pat m).

Lemma usable_len_lit m : lit_wf2 m -> usable_len m = length (p_path (m_pat m)).
Proof.
  intros [(Hnil & Hne & _ & Hic & _ & Hfw & _) Ht]. unfold usable_len, always_matches.
  rewrite Hnil, Hic, Hfw, Ht. destruct (p_path (m_pat m)); [contradiction|reflexivity].
Qed.

(* every positive pattern starts with the common prefix *)
Lemma common_prefix_is_common ms n : common_prefix_len ms = Ok n -> Forall lit_wf2 ms ->
  match filter (fun m => negb (is_excluded (m_pat m))) ms with
  | [] => n = O
  | m0 :: rest => forall m, In m (m0 :: rest) ->
      firstn n (p_path (m_pat m)) = firstn n (p_path (m_pat m0)) /\ (n <= length (p_path (m_pat m)))%nat
  end.
Proof.
  intros H Hwf. unfold common_prefix_len in H.
  assert (Hwf' : Forall lit_wf2 (filter (fun m => negb (is_excluded (m_pat m))) ms)).
  { apply Forall_forall. intros m Hin. apply filter_In in Hin. destruct Hin as [Hin _].
    rewrite Forall_forall in Hwf. apply Hwf. exact Hin. }
  destruct (filter (fun m => negb (is_excluded (m_pat m))) ms) as [|m0 rest]; [apply Ok_inj in H; auto|].
  set (len := list_min (map usable_len rest) (usable_len m0)) in *.
  assert (Hlen : forall m, In m (m0 :: rest) -> (len <= length (p_path (m_pat m)))%nat).
  { intros m Hin. rewrite Forall_forall in Hwf'. rewrite <- (usable_len_lit m (Hwf' m Hin)).
    destruct (list_min_spec (map usable_len rest) (usable_len m0)) as [H1 H2].
    destruct Hin as [<-|Hin]; [exact H1|]. apply H2. apply in_map. exact Hin. }
  destruct (Nat.eqb len O) eqn:E0.
  - apply Ok_inj in H. subst n. intros m _. split; [reflexivity|lia].
  - destruct rest as [|m1 rest'].
    + apply Ok_inj in H. subst n. intros m [<-|[]]. split; [reflexivity|]. apply Hlen. left; reflexivity.
    + apply cpl_loop_spec in H. destruct H as (Hn & _ & Hr).
      intros m [<-|Hin].
      * split; [reflexivity|]. specialize (Hlen m0 (or_introl eq_refl)). lia.
      * apply Hr. apply (in_map (fun m => p_path (m_pat m))) in Hin. exact Hin.
Qed.

(* a case-sensitive wildcard-free pattern only matches paths that start with its path *)
Lemma lit_match_starts m rela d : lit_wf m -> matches_b m rela d = true ->
  exists rest, rela = p_path (m_pat m) ++ rest.
Proof.
  intros Hwf H. rewrite (matches_b_lit m rela d Hwf) in H.
  destruct Hwf as (_ & Hne & Hls & _).
  unfold item_of in H. apply (git_literal_spec _ _ _ _ _ Hne Hls) in H.
  destruct H as [[-> _]|[r ->]]; [exists []; symmetry; apply app_nil_r|eexists; reflexivity].
Qed.

Lemma shortcut_sound : forall s rela d cp,
  common_prefix_len (patterns s) = Ok (cpl s) -> Forall lit_wf2 (patterns s) ->
  common_prefix s = Ok cp ->
  match get_to rela (cpl s) with None => true | Some x => negb (bytes_eqb x cp) end = true ->
  forall m, In m (patterns s) -> is_excluded (m_pat m) = false -> matches_b m rela d = false.
Proof.
  intros s rela d cp Hcpl Hwf Hcp Hfire m Hin Hex.
  destruct (matches_b m rela d) eqn:Em; [|reflexivity]. exfalso.
  pose proof (common_prefix_is_common _ _ Hcpl Hwf) as Hcommon.
  assert (Hinf : In m (filter (fun m => negb (is_excluded (m_pat m))) (patterns s))).
  { apply filter_In. split; [exact Hin|]. rewrite Hex. reflexivity. }
  unfold common_prefix in Hcp.
  destruct (filter (fun m => negb (is_excluded (m_pat m))) (patterns s)) as [|m0 rest]; [destruct Hinf|].
  destruct (Hcommon m Hinf) as [Hf Hl].
  apply slice_to_inv in Hcp. destruct Hcp as [_ ->].
  rewrite Forall_forall in Hwf. destruct (Hwf m Hin) as [Hlw _].
  destruct (lit_match_starts m rela d Hlw Em) as [r ->].
  unfold get_to in Hfire. rewrite app_length in Hfire.
  destruct (Nat.ltb_spec (length (p_path (m_pat m)) + length r) (cpl s)); [lia|].
  rewrite firstn_app in Hfire. replace (cpl s - length (p_path (m_pat m)))%nat with O in Hfire by lia.
  cbn [firstn] in Hfire. rewrite app_nil_r, Hf, bytes_eqb_refl in Hfire. discriminate.
Qed.

Lemma filter_none_excluded ex :
  Forall (fun m => is_excluded (m_pat m) = true) ex -> filter (fun m => negb (is_excluded (m_pat m))) ex = [].
Proof. induction 1 as [|m ex Hm _ IH]; [reflexivity|]. cbn [filter]. rewrite Hm. exact IH. Qed.

Lemma filter_all_included inc :
  Forall (fun m => is_excluded (m_pat m) = false) inc -> filter (fun m => negb (is_excluded (m_pat m))) inc = inc.
Proof. induction 1 as [|m inc Hm _ IH]; [reflexivity|]. cbn [filter]. rewrite Hm. cbn [negb]. f_equal. exact IH. Qed.

(* selection = git without the restriction on the common prefix *)
Lemma select_literal_cp : forall s ex inc rela d,
  rela <> [] -> common_prefix_len (patterns s) = Ok (cpl s) -> patterns s = ex ++ inc ->
  all_excluded s = forallb (fun m => is_excluded (m_pat m)) (patterns s) ->
  Forall lit_wf2 (patterns s) ->
  Forall (fun m => is_excluded (m_pat m) = true) ex ->
  Forall (fun m => is_excluded (m_pat m) = false) inc ->
  exists o, pattern_matching s rela d = Ok o /\ selected o = match_pathspec (git_items s) rela d.
Proof.
  intros s ex inc rela d Hrela Hcpl Hpat Hall Hwf2 He Hi.
  assert (Hwf : Forall lit_wf (patterns s)) by (eapply Forall_impl; [|exact Hwf2]; intros m [H _]; exact H).
  rewrite (git_side s ex inc rela d Hpat Hall Hwf He Hi).
  assert (Hfilter : filter (fun m => negb (is_excluded (m_pat m))) (patterns s) = inc).
  { rewrite Hpat, filter_app, (filter_none_excluded ex He), (filter_all_included inc Hi). reflexivity. }
  pose proof (common_prefix_is_common _ _ Hcpl Hwf2) as Hcommon. rewrite Hfilter in Hcommon.
  assert (Hcp : exists cp, common_prefix s = Ok cp).
  { unfold common_prefix. rewrite Hfilter. destruct inc as [|m0 rest]; [eexists; reflexivity|].
    destruct (Hcommon m0 (or_introl eq_refl)) as [_ Hl]. rewrite (slice_to_ok _ _ Hl). eexists; reflexivity. }
  destruct Hcp as [cp Hcp].
  assert (Hpl : Forall plen_ok (ex ++ inc)).
  { rewrite <- Hpat. eapply Forall_impl; [|exact Hwf]. intros m. apply lit_plen_ok. }
  destruct (find_match_sel ex inc rela d Hpl He Hi) as [o [Hfm [Hsel Hnone]]].
  unfold pattern_matching. destruct rela as [|r0 rr]; [contradiction|]. rewrite Hcp. cbn [obind].
  destruct (match get_to (r0 :: rr) (cpl s) with None => true | Some x => negb (bytes_eqb x cp) end) eqn:Efire.
  - (* the shortcut fires: no positive pattern can match, and there is one *)
    eexists; split; [reflexivity|]. cbn [selected].
    assert (Hinc : existsb (fun m => matches_b m (r0 :: rr) d) inc = false).
    { destruct (existsb (fun m => matches_b m (r0 :: rr) d) inc) eqn:E; [|reflexivity].
      apply existsb_exists in E. destruct E as [m [Hin Hm]].
      rewrite (shortcut_sound s (r0 :: rr) d cp Hcpl Hwf2 Hcp Efire m) in Hm; [discriminate| |].
      - rewrite Hpat. apply in_or_app. right. exact Hin.
      - rewrite Forall_forall in Hi. apply Hi. exact Hin. }
    assert (Hae : all_excluded s = false).
    { rewrite Hall, Hpat, (forallb_excl_app ex inc He Hi). destruct inc as [|m0 rest]; [|reflexivity].
      (* no positive pattern: the common prefix is empty and the shortcut cannot fire *)
      exfalso. rewrite Hcommon in Efire. unfold common_prefix in Hcp. rewrite Hfilter in Hcp. apply Ok_inj in Hcp. subst cp.
      cbn in Efire. discriminate. }
    rewrite Hinc, Hae. reflexivity.
  - rewrite Hpat, Hfm. cbn [obind].
    destruct o as [k|].
    + eexists; split; [reflexivity|]. rewrite Hsel.
      destruct (existsb (fun m => matches_b m (r0 :: rr) d) ex) eqn:Eex; cbn [negb andb]; [rewrite Bool.andb_false_r; reflexivity|].
      rewrite Bool.andb_true_r.
      destruct (existsb (fun m => matches_b m (r0 :: rr) d) inc) eqn:Einc; [reflexivity|].
      exfalso. assert (Hx : existsb (fun m => matches_b m (r0 :: rr) d) (ex ++ inc) = false) by (rewrite existsb_app, Einc, Eex; reflexivity).
      apply Hnone in Hx. discriminate.
    + assert (Hx : existsb (fun m => matches_b m (r0 :: rr) d) (ex ++ inc) = false) by (apply Hnone; reflexivity).
      rewrite existsb_app in Hx. apply Bool.orb_false_iff in Hx. destruct Hx as [Hx1 Hx2]. rewrite Hx1, Hx2.
      cbn [negb orb]. rewrite Bool.andb_true_r.
      destruct (all_excluded s); eexists; split; reflexivity.
Qed.

Lemma from_specs_cpl ps prefix s : from_specs ps prefix = Ok s -> common_prefix_len (patterns s) = Ok (cpl s).
Proof.
  unfold from_specs. intros H.
  destruct (normalize_all prefix ps 0) as [ms| | |]; cbn [obind] in H; try discriminate.
  match type of H with obind ?x _ = _ => destruct x as [ms1| | |] end; cbn [obind] in H; try discriminate.
  match type of H with obind ?x _ = _ => destruct x as [n| | |] eqn:En end; cbn [obind] in H; try discriminate.
  apply Ok_inj in H. subst s. cbn [patterns cpl]. exact En.
Qed.
