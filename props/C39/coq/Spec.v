(* C39 — specification: what git 2.39.5 selects for a list of pathspecs.
     pathspec.c   parse_pathspec, init_pathspec_item, parse_short_magic, parse_long_magic (without attr:
                  and prefix:), get_global_magic
     path.c       normalize_path_copy_len, reformulated over the components of the path: a component is
                  copied together with the slash that follows it; "." is skipped, ".." removes the last
                  copied component (`up_one`), runs of slashes count as one
     dir.c        match_pathspec_item (prefix = 0, flags = DO_MATCH_DIRECTORY for directories),
                  git_fnmatch, do_match_pathspec, match_pathspec_with_flags
     wildmatch.c  GitWild.v
   `git ls-files` calls match_pathspec with the common prefix of the positive items cut off both the
   name and *every* item (also negative ones that do not start with it); this file is match_pathspec
   with prefix 0, which is what every caller without a common prefix computes.
   C strings are lists of bytes without the NUL.  No proofs in this file. *)
From GixV.Base Require Import Bytes Outcome.
From GixV.C39 Require Import Glob GitWild.

Record item := { i_lit : bool; i_glob : bool; i_icase : bool; i_excl : bool; i_top : bool;
                 i_match : bytes; i_prefix : nat; i_nwl : nat; i_onestar : bool }.
Record globals := { g_literal : bool; g_glob : bool; g_noglob : bool; g_icase : bool }.

(* the magic bits collected while parsing one element *)
Record magic := { mg_lit : bool; mg_glob : bool; mg_icase : bool; mg_excl : bool; mg_top : bool }.
Definition magic0 := {| mg_lit := false; mg_glob := false; mg_icase := false; mg_excl := false; mg_top := false |}.

Definition cCOMMA : byte := x2c.
Definition cRPAR : byte := x29.
Definition cLPAR : byte := x28.
Definition cDOT : byte := x2e.

(* GIT_PATHSPEC_MAGIC of ctype.c *)
Definition is_pathspec_magic (c : byte) : bool := existsb (beqb c) (bs "!""#%&',-/:;<=>@_`~").

(* ---- parse_short_magic: None = die; the magic and `copyfrom` ---------------------------------------- *)
Fixpoint short_magic (l : bytes) (m : magic) : option (magic * bytes) :=
  match l with
  | [] => Some (m, [])
  | c :: r =>
      if beqb c cCOLON then Some (m, r)
      else if beqb c cCARET then
        short_magic r {| mg_lit := mg_lit m; mg_glob := mg_glob m; mg_icase := mg_icase m; mg_excl := true; mg_top := mg_top m |}
      else if negb (is_pathspec_magic c) then Some (m, l)
      else if beqb c cBANG then
        short_magic r {| mg_lit := mg_lit m; mg_glob := mg_glob m; mg_icase := mg_icase m; mg_excl := true; mg_top := mg_top m |}
      else if beqb c cSLASH then
        short_magic r {| mg_lit := mg_lit m; mg_glob := mg_glob m; mg_icase := mg_icase m; mg_excl := mg_excl m; mg_top := true |}
      else None
  end.

(* ---- parse_long_magic --------------------------------------------------------------------------------- *)
(* strcspn_escaped(s, ",)") : the keyword and what follows it (starting at the stop byte) *)
Fixpoint kw_span (fuel : nat) (l : bytes) : bytes * bytes :=
  match fuel with
  | O => ([], l)
  | S fuel' =>
      match l with
      | [] => ([], [])
      | c :: r =>
          if beqb c cBSL then
            match r with
            | e :: r' => let '(a, b) := kw_span fuel' r' in (c :: e :: a, b)
            | [] => ([c], [])          (* a backslash right before the NUL is an ordinary byte *)
            end
          else if beqb c cCOMMA || beqb c cRPAR then ([], l)
          else let '(a, b) := kw_span fuel' r in (c :: a, b)
      end
  end.

Definition apply_kw (m : magic) (kw : bytes) : option magic :=
  if bytes_eqb kw (bs "literal") then Some {| mg_lit := true; mg_glob := mg_glob m; mg_icase := mg_icase m; mg_excl := mg_excl m; mg_top := mg_top m |}
  else if bytes_eqb kw (bs "glob") then Some {| mg_lit := mg_lit m; mg_glob := true; mg_icase := mg_icase m; mg_excl := mg_excl m; mg_top := mg_top m |}
  else if bytes_eqb kw (bs "icase") then Some {| mg_lit := mg_lit m; mg_glob := mg_glob m; mg_icase := true; mg_excl := mg_excl m; mg_top := mg_top m |}
  else if bytes_eqb kw (bs "exclude") then Some {| mg_lit := mg_lit m; mg_glob := mg_glob m; mg_icase := mg_icase m; mg_excl := true; mg_top := mg_top m |}
  else if bytes_eqb kw (bs "top") then Some {| mg_lit := mg_lit m; mg_glob := mg_glob m; mg_icase := mg_icase m; mg_excl := mg_excl m; mg_top := true |}
  else if bytes_eqb kw (bs "attr") then Some m
  else None.       (* unknown keyword; attr:… and prefix:… are outside this specification *)

(* the loop `for (pos = elem + 2; *pos && *pos != ')'; pos = nextat)`; [l] starts at pos *)
Fixpoint long_magic (fuel : nat) (l : bytes) (m : magic) : option (magic * bytes) :=
  match fuel with
  | O => None
  | S fuel' =>
      match l with
      | [] => None                                        (* Missing ')' *)
      | c :: r =>
          if beqb c cRPAR then Some (m, r)
          else
            let '(kw, rest) := kw_span (S (length l)) l in
            let next := match rest with c' :: r' => if beqb c' cCOMMA then r' else rest | [] => rest end in
            match kw with
            | [] => long_magic fuel' next m
            | _ => match apply_kw m kw with Some m' => long_magic fuel' next m' | None => None end
            end
      end
  end.

(* parse_element_magic *)
Definition element_magic (g : globals) (elt : bytes) : option (magic * bytes) :=
  match elt with
  | c :: r =>
      if negb (beqb c cCOLON) || g_literal g then Some (magic0, elt)
      else match r with
           | c1 :: r1 => if beqb c1 cLPAR then long_magic (S (length r1)) r1 magic0 else short_magic r magic0
           | [] => short_magic r magic0
           end
  | [] => Some (magic0, elt)
  end.

(* get_global_magic, merged with the element magic; None = die *)
Definition full_magic (g : globals) (m : magic) : option magic :=
  let gl_lit := g_literal g in
  let gl_glob := g_glob g && negb (mg_lit m) in
  if g_glob g && g_noglob g then None
  else if gl_lit && (gl_glob || g_icase g) then None
  else
    let gl_lit' := gl_lit || (g_noglob g && negb (mg_glob m)) in
    let r := {| mg_lit := mg_lit m || gl_lit'; mg_glob := mg_glob m || gl_glob; mg_icase := mg_icase m || g_icase g;
                mg_excl := mg_excl m; mg_top := mg_top m |} in
    if mg_lit r && mg_glob r then None else Some r.

(* ---- normalize_path_copy_len --------------------------------------------------------------------------- *)
Fixpoint split_slash (cur : bytes) (l : bytes) : list bytes :=
  match l with
  | [] => [rev cur]
  | c :: r => if beqb c cSLASH then rev cur :: split_slash [] r else split_slash (c :: cur) r
  end.

Definition is_dot (b : bytes) : bool := bytes_eqb b [cDOT].
Definition is_dotdot (b : bytes) : bool := bytes_eqb b [cDOT; cDOT].

(* length of dst when [st] (reversed) are the components copied so far, each with its slash *)
Definition dst_len (st : list bytes) : nat := fold_right (fun c a => (length c + 1 + a)%nat) O st.

(* [comps]: the components of src, the last one is not followed by a slash.  Result: the copied
   components (reversed), whether the last one is followed by a slash, and the remaining prefix. *)
Fixpoint norm_comps (comps : list bytes) (st : list bytes) (plen : nat) : option (list bytes * bool * nat) :=
  match comps with
  | [] => Some (st, true, plen)
  | [c] =>
      if match c with [] => true | _ => is_dot c end then Some (st, true, plen)
      else if is_dotdot c then
        match st with
        | [] => None
        | _ :: st' => Some (st', true, Nat.min plen (dst_len st'))
        end
      else Some (c :: st, false, plen)
  | c :: r =>
      if match c with [] => true | _ => is_dot c end then norm_comps r st plen
      else if is_dotdot c then
        match st with
        | [] => None
        | _ :: st' => norm_comps r st' (Nat.min plen (dst_len st'))
        end
      else norm_comps r (c :: st) plen
  end.

Fixpoint join_dirs (l : list bytes) : bytes :=       (* every component followed by a slash *)
  match l with [] => [] | a :: r => a ++ cSLASH :: join_dirs r end.

(* prefix_path_gently(prefix, len, &remaining, path) for a relative path; None = outside repository *)
Definition prefix_path (prefix path : bytes) : option (bytes * nat) :=
  match norm_comps (split_slash [] (prefix ++ path)) [] (length prefix) with
  | None => None
  | Some (st, slash, plen) =>
      let d := join_dirs (rev st) in
      Some ((if slash then d else removelast d), plen)
  end.

(* ---- init_pathspec_item --------------------------------------------------------------------------------- *)
Definition simple_length (l : bytes) : nat :=
  match find_byteset glob_char l with Some n => n | None => length l end.

Definition init_item (g : globals) (prefix elt : bytes) : option item :=
  match element_magic g elt with
  | None => None
  | Some (em, copyfrom) =>
      match full_magic g em with
      | None => None
      | Some m =>
          match (if mg_top m then Some (copyfrom, O) else prefix_path prefix copyfrom) with
          | None => None
          | Some (mt, plen) =>
              let len := length mt in
              let nwl := if mg_lit m then len else Nat.max (simple_length mt) plen in
              let onestar := negb (mg_glob m) && Nat.ltb nwl len &&
                             match skipn nwl mt with
                             | c :: r => beqb c cSTAR && Nat.eqb (simple_length r) (length r)
                             | [] => false
                             end in
              if Nat.ltb len nwl || Nat.ltb len plen then None
              else Some {| i_lit := mg_lit m; i_glob := mg_glob m; i_icase := mg_icase m; i_excl := mg_excl m;
                           i_top := mg_top m; i_match := mt; i_prefix := plen; i_nwl := nwl; i_onestar := onestar |}
          end
      end
  end.

Fixpoint init_items (g : globals) (prefix : bytes) (specs : list bytes) : option (list item) :=
  match specs with
  | [] => Some []
  | s :: r =>
      match s with
      | [] => None                                        (* empty string is not a valid pathspec *)
      | _ => match init_item g prefix s, init_items g prefix r with
             | Some i, Some l => Some (i :: l)
             | _, _ => None
             end
      end
  end.

(* parse_pathspec with PATHSPEC_PREFER_CWD (ls-files) or PATHSPEC_PREFER_FULL *)
Definition parse_pathspec (g : globals) (prefix : bytes) (specs : list bytes) (prefer_cwd : bool) : option (list item) :=
  match init_items g prefix specs with
  | None => None
  | Some items =>
      match specs with
      | [] =>
          (* no arguments: no pathspec, or with PREFER_CWD the prefix itself *)
          match prefix with
          | [] => Some []
          | _ => if prefer_cwd then
                   Some [{| i_lit := false; i_glob := false; i_icase := false; i_excl := false; i_top := false;
                            i_match := prefix; i_prefix := length prefix; i_nwl := length prefix; i_onestar := false |}]
                 else Some []
          end
      | _ => if forallb i_excl items then
               match init_item g (if prefer_cwd then prefix else []) [] with
               | Some extra => Some (items ++ [extra])
               | None => None
               end
             else Some items
      end
  end.

(* ---- dir.c ------------------------------------------------------------------------------------------------ *)
(* !ps_strncmp(item, a, b, n) for NUL-free a, b where n <= length a *)
Definition ps_eq (ic : bool) (a b : bytes) : bool := if ic then eq_ignore_case a b else bytes_eqb a b.
Definition ps_prefix (ic : bool) (m name : bytes) : bool :=
  if Nat.ltb (length name) (length m) then false else ps_eq ic m (firstn (length m) name).

Definition git_fnmatch (it : item) (name : bytes) : bool :=
  let n := i_nwl it in
  let m := i_match it in
  if negb (if Nat.ltb (length name) n then false else ps_eq (i_icase it) (firstn n m) (firstn n name)) then false
  else
    let pattern := skipn n m in
    let string := skipn n name in
    if i_onestar it then
      let pat := tl pattern in
      if Nat.ltb (length string) (length pat) then false
      else ps_eq (i_icase it) pat (skipn (length string - length pat) string)
    else git_wildmatch (i_icase it) (i_glob it) pattern string.

(* 0 = no match, 1 MATCHED_RECURSIVELY, 2 MATCHED_FNMATCH, 3 MATCHED_EXACTLY *)
Definition match_item (it : item) (name : bytes) (is_dir : bool) : nat :=
  let m := i_match it in
  if i_icase it && negb (Nat.eqb (i_prefix it) O) &&
     negb (bytes_eqb (firstn (i_prefix it) m) (firstn (i_prefix it) name)) then O
  else match m with
  | [] => 1%nat
  | _ =>
      let exact_or_dir :=
        if ps_prefix (i_icase it) m name then
          if Nat.eqb (length m) (length name) then 3%nat
          else if beqb (last_byte m) cSLASH || match nth_error name (length m) with Some c => beqb c cSLASH | None => false end
               then 1%nat else O
        else if is_dir && beqb (last_byte m) cSLASH && Nat.eqb (S (length name)) (length m) &&
                ps_eq (i_icase it) (removelast m) name then 3%nat
        else O in
      match exact_or_dir with
      | O => if Nat.ltb (i_nwl it) (length m) && git_fnmatch it name then 2%nat else O
      | n => n
      end
  end.

Definition do_match (items : list item) (name : bytes) (is_dir exclude : bool) : bool :=
  existsb (fun it => Bool.eqb (i_excl it) exclude && negb (Nat.eqb (match_item it name is_dir) O)) items.

Definition match_pathspec (items : list item) (name : bytes) (is_dir : bool) : bool :=
  match items with
  | [] => true
  | _ => do_match items name is_dir false && negb (do_match items name is_dir true)
  end.

(* ---- transcript ---------------------------------------------------------------------------------------------- *)
Definition decode_globals (f : bytes) : globals :=
  let at_ n c := match nth_error f n with Some b => beqb b c | None => false end in
  {| g_literal := at_ 2%nat x31; g_glob := at_ 1%nat x31; g_noglob := at_ 1%nat x32; g_icase := at_ O x31 |}.

Definition run_spec (fs : list bytes) : bytes :=
  let g := decode_globals (nth_field 1 fs) in
  let prefix := match nth_field 2 fs with [] => [] | p => p ++ [cSLASH] end in
  let n := N.to_nat (field_N 4 fs) in
  let specs := firstn n (skipn 5 fs) in
  let paths := skipn (5 + n) fs in
  match parse_pathspec g prefix specs true with
  | None => bs "err"
  | Some items =>
      bs "sel " ++ map (fun f => match f with
                                 | k :: p => if match_pathspec items p (beqb k x64) then x31 else x30
                                 | [] => x30 end) paths
  end.
