(* C39 — executable model of gix-pathspec (as the code is after the two `fix:` commits of this property):
     gix-pathspec/src/parse.rs          Pattern::from_bytes, parse_short_keywords, parse_long_keywords,
                                        split_on_non_escaped_char  (attr: keywords are outside the model)
     gix-pathspec/src/pattern.rs        Pattern::normalize (relative paths), to_bstring, always_matches
     gix-path/src/convert.rs            normalize (with an empty `current_dir`)
     std::path                          Components of a relative Unix path, PathBuf::push / pop as used there
     gix-pathspec/src/search/init.rs    mapping_from_pattern, common_prefix_len, Search::from_specs
     gix-pathspec/src/search/matching.rs  pattern_matching_relative_path, match_verbatim
     gix-glob (file Glob.v)             Pattern::from_bytes_without_negation, matches_repo_relative_path
   No proofs in this file. *)
From GixV.Base Require Import Bytes Outcome.
From GixV.C39 Require Import Glob.
Local Open Scope N_scope.
Local Open Scope outcome_scope.

(* ---- data --------------------------------------------------------------------------------------- *)
(* MagicSignature: TOP = 1, ICASE = 2, EXCLUDE = 4, MUST_BE_DIR = 8 *)
Record sigt := { s_top : bool; s_icase : bool; s_excl : bool; s_dir : bool }.
Definition sig0 : sigt := {| s_top := false; s_icase := false; s_excl := false; s_dir := false |}.
Definition sig_bits (s : sigt) : N :=
  (if s_top s then 1 else 0) + (if s_icase s then 2 else 0) + (if s_excl s then 4 else 0) + (if s_dir s then 8 else 0).
Definition sig_or (a b : sigt) : sigt :=
  {| s_top := s_top a || s_top b; s_icase := s_icase a || s_icase b;
     s_excl := s_excl a || s_excl b; s_dir := s_dir a || s_dir b |}.
Definition set_top (s : sigt) := {| s_top := true; s_icase := s_icase s; s_excl := s_excl s; s_dir := s_dir s |}.
Definition set_icase (s : sigt) := {| s_top := s_top s; s_icase := true; s_excl := s_excl s; s_dir := s_dir s |}.
Definition set_excl (s : sigt) := {| s_top := s_top s; s_icase := s_icase s; s_excl := true; s_dir := s_dir s |}.
Definition set_dir (s : sigt) := {| s_top := s_top s; s_icase := s_icase s; s_excl := s_excl s; s_dir := true |}.

Inductive smode := ShellGlob | Literal | PathAwareGlob.
Definition smode_eqb (a b : smode) : bool :=
  match a, b with ShellGlob, ShellGlob | Literal, Literal | PathAwareGlob, PathAwareGlob => true | _, _ => false end.
Definition smode_num (m : smode) : N := match m with ShellGlob => 0 | Literal => 1 | PathAwareGlob => 2 end.

(* Pattern without `attributes` (always empty in the model) *)
Record pat := { p_path : bytes; p_sig : sigt; p_mode : smode; p_nil : bool; p_plen : nat }.

Record defaults := { d_sig : sigt; d_mode : smode; d_literal : bool }.

Inductive perr := EmptyString | InvalidKeyword | Unimplemented | MissingClosingParenthesis
  | IncompatibleSearchModes | AttrUnmodelled.
Inductive nerr := OutsideOfWorktree | AbsoluteUnmodelled.

(* ---- parse.rs ------------------------------------------------------------------------------------ *)
Definition cCOMMA : byte := x2c.
Definition cLPAR : byte := x28.
Definition cRPAR : byte := x29.
Definition cDOT : byte := x2e.

(* the fifteen bytes of `unimplemented_chars`: double quote # % & ' - , ; < = > @ _ backtick ~ *)
Definition unimplemented_char (b : byte) : bool :=
  existsb (beqb b) (bs """#%&'-',;<=>@_`~").

(* parse_short_keywords from the byte after the leading ':' : the signature and the input from `cursor` on *)
Fixpoint short_kw (l : bytes) (s : sigt) : outcome (sigt * bytes) perr :=
  match l with
  | [] => Ok (s, [])
  | b :: r =>
      if beqb b cSLASH then short_kw r (set_top s)
      else if beqb b cCARET || beqb b cBANG then short_kw r (set_excl s)
      else if beqb b cCOLON then Ok (s, r)
      else if unimplemented_char b then Err Unimplemented
      else Ok (s, l)
  end.

(* input.find(")") : the bytes before the first ')' and those after it *)
Fixpoint split_rpar (l : bytes) : option (bytes * bytes) :=
  match l with
  | [] => None
  | c :: r => if beqb c cRPAR then Some ([], r)
              else match split_rpar r with Some (a, b) => Some (c :: a, b) | None => None end
  end.

(* split_on_non_escaped_char(input, b','): a comma splits unless the byte before it is a backslash
   (a comma at the very start splits, too).  [cur] is the current keyword reversed. *)
Fixpoint split_kw (prev : option byte) (cur : bytes) (l : bytes) : list bytes :=
  match l with
  | [] => [rev cur]
  | c :: r =>
      if beqb c cCOMMA && match prev with Some p => negb (beqb p cBSL) | None => true end
      then rev cur :: split_kw (Some c) [] r
      else split_kw (Some c) (c :: cur) r
  end.

Definition kw_step (st : sigt * smode) (kw : bytes) : outcome (sigt * smode) perr :=
  let '(s, m) := st in
  if bytes_eqb kw (bs "attr") || bytes_eqb kw [] then Ok st
  else if bytes_eqb kw (bs "top") then Ok (set_top s, m)
  else if bytes_eqb kw (bs "icase") then Ok (set_icase s, m)
  else if bytes_eqb kw (bs "exclude") then Ok (set_excl s, m)
  else if bytes_eqb kw (bs "literal") then
    match m with PathAwareGlob => Err IncompatibleSearchModes | _ => Ok (s, Literal) end
  else if bytes_eqb kw (bs "glob") then
    match m with Literal => Err IncompatibleSearchModes | _ => Ok (s, PathAwareGlob) end
  else if starts_with kw (bs "attr:") then Err AttrUnmodelled
  else Err InvalidKeyword.

Fixpoint kw_fold (st : sigt * smode) (kws : list bytes) : outcome (sigt * smode) perr :=
  match kws with
  | [] => Ok st
  | k :: r => match kw_step st k with Ok st' => kw_fold st' r | Err e => Err e | Panic => Panic | OutOfFuel => OutOfFuel end
  end.

(* parse_long_keywords on the input after the '(' *)
Definition long_kw (l : bytes) (st : sigt * smode) : outcome ((sigt * smode) * bytes) perr :=
  match split_rpar l with
  | None => Err MissingClosingParenthesis
  | Some (kws, rest) =>
      match kws with
      | [] => Ok (st, rest)
      | _ => match kw_fold st (split_kw None [] kws) with
             | Ok st' => Ok (st', rest) | Err e => Err e | Panic => Panic | OutOfFuel => OutOfFuel
             end
      end
  end.

(* `if path.last() == Some(&b'/') { MUST_BE_DIR; path = &path[..len-1] }` *)
Definition strip_slash (l : bytes) : bool * bytes :=
  match l with
  | [] => (false, [])
  | _ => if beqb (last_byte l) cSLASH then (true, removelast l) else (false, l)
  end.

Definition nil_pattern : pat :=
  {| p_path := []; p_sig := sig0; p_mode := ShellGlob; p_nil := true; p_plen := O |}.

Definition from_literal (input : bytes) (s : sigt) : pat :=
  {| p_path := input; p_sig := s; p_mode := Literal; p_nil := false; p_plen := O |}.

Definition finish (d : defaults) (st : sigt * smode) (path : bytes) : pat :=
  let '(s, m) := st in
  let m' := if negb (smode_eqb (d_mode d) ShellGlob) && smode_eqb m ShellGlob then d_mode d else m in
  let '(dir, path') := strip_slash path in
  {| p_path := path'; p_sig := if dir then set_dir s else s; p_mode := m'; p_nil := false; p_plen := O |}.

(* Pattern::from_bytes *)
Definition parse (d : defaults) (input : bytes) : outcome pat perr :=
  match input with
  | [] => Err EmptyString
  | c0 :: r0 =>
      if d_literal d then Ok (from_literal input (d_sig d))
      else if bytes_eqb input (bs ":") then Ok nil_pattern
      else if beqb c0 cCOLON then
        match short_kw r0 sig0 with
        | Ok (s1, rest) =>
            let st := (sig_or (d_sig d) s1, ShellGlob) in
            match rest with
            | c1 :: r1 =>
                if beqb c1 cLPAR then
                  match long_kw r1 st with
                  | Ok (st', rest') => Ok (finish d st' rest')
                  | Err e => Err e | Panic => Panic | OutOfFuel => OutOfFuel
                  end
                else Ok (finish d st rest)
            | [] => Ok (finish d st rest)
            end
        | Err e => Err e | Panic => Panic | OutOfFuel => OutOfFuel
        end
      else Ok (finish d (d_sig d, ShellGlob) input)
  end.

(* ---- pattern.rs: to_bstring (no attributes) --------------------------------------------------------- *)
Definition to_bstring (p : pat) : bytes :=
  if p_nil p then bs ":"
  else
    let s := p_sig p in
    let kws := (if s_top s then bs "top," else []) ++ (if s_excl s then bs "exclude," else []) ++
               (if s_icase s then bs "icase," else []) ++
               match p_mode p with ShellGlob => [] | Literal => bs "literal," | PathAwareGlob => bs "glob," end in
    let kws' := match kws with [] => [] | _ => removelast kws end in      (* the trailing ',' is popped *)
    bs ":(" ++ kws' ++ bs ")" ++ p_path p ++ (if s_dir s then bs "/" else []).

(* ---- std::path::Components of a relative Unix path --------------------------------------------------- *)
Inductive comp := CurDir | ParentDir | Normal (b : bytes).

(* raw split at '/' ([cur] reversed) *)
Fixpoint split_slash (cur : bytes) (l : bytes) : list bytes :=
  match l with
  | [] => [rev cur]
  | c :: r => if beqb c cSLASH then rev cur :: split_slash [] r else split_slash (c :: cur) r
  end.

Definition is_dot (b : bytes) : bool := bytes_eqb b [cDOT].
Definition is_dotdot (b : bytes) : bool := bytes_eqb b [cDOT; cDOT].

Definition comp_of (b : bytes) : list comp :=
  match b with
  | [] => []
  | _ => if is_dot b then [] else if is_dotdot b then [ParentDir] else [Normal b]
  end.

(* a leading "." component is kept as CurDir, later ones and empty components are skipped *)
Definition components (p : bytes) : list comp :=
  match split_slash [] p with
  | [] => []
  | first :: rest =>
      (if is_dot first then [CurDir] else comp_of first) ++ flat_map comp_of rest
  end.

Definition is_parent (c : comp) : bool := match c with ParentDir => true | _ => false end.
Definition is_normal (c : comp) : bool := match c with Normal _ => true | _ => false end.

Fixpoint join_slash (l : list bytes) : bytes :=
  match l with
  | [] => []
  | [a] => a
  | a :: r => a ++ cSLASH :: join_slash r
  end.

Definition normals (l : list comp) : list bytes :=
  flat_map (fun c => match c with Normal b => [b] | _ => [] end) l.

(* ---- gix_path::normalize(path, current_dir = "") ------------------------------------------------------ *)
(* the PathBuf under construction: a leading "." ([cur]) and the normal components pushed so far
   (reversed); [taken] = current_dir_opt is None *)
Fixpoint norm_loop (cs : list comp) (cur : bool) (st : list bytes) (taken : bool) : option (bool * list bytes) :=
  match cs with
  | [] => Some (cur, st)
  | ParentDir :: r =>
      match st with
      | _ :: st' => norm_loop r cur st' taken
      | [] =>
          (* path is "" or ".": push(current_dir.take()?), then pop() *)
          if taken then None
          else if cur then norm_loop r false [] true       (* "." -> "./" -> "" *)
          else None                                         (* "" -> "" ; pop() fails *)
      end
  | CurDir :: r => norm_loop r true st taken
  | Normal b :: r => norm_loop r cur (b :: st) taken
  end.

Definition render (cur : bool) (st : list bytes) : bytes :=
  join_slash ((if cur then [[cDOT]] else []) ++ rev st).

(* None = the path leaves the repository *)
Definition path_normalize (p : bytes) : option bytes :=
  let cs := components p in
  if negb (existsb is_parent cs) then Some p
  else match norm_loop cs false [] false with
       | None => None
       | Some (cur, st) =>
           match cur, st with
           | false, [] => Some [cDOT]
           | _, _ => Some (render cur st)
           end
       end.

(* ---- Pattern::normalize(prefix, root) for relative paths ------------------------------------------------ *)
(* prefix_components_to_subtract *)
Fixpoint last_parent_bound (cs : list comp) (idx : nat) (acc : nat) : nat :=
  match cs with
  | [] => acc
  | c :: r => last_parent_bound r (S idx) (if is_parent c then S idx else acc)
  end.
Definition to_subtract (p : bytes) : nat :=
  let cs := components p in
  let bound := last_parent_bound cs O O in
  let count := fold_left (fun (a : Z) c => match c with ParentDir => (a + 1)%Z | Normal _ => (a - 1)%Z | CurDir => a end)
                         (firstn bound cs) 0%Z in
  if Z.ltb 0 count then Z.to_nat count else O.

(* positions of '/' *)
Fixpoint slash_positions (l : bytes) (i : nat) : list nat :=
  match l with
  | [] => []
  | c :: r => if beqb c cSLASH then i :: slash_positions r (S i) else slash_positions r (S i)
  end.

Definition join_prefix (prefix path : bytes) : bytes :=
  match prefix with
  | [] => path
  | _ => if beqb (last_byte prefix) cSLASH then prefix ++ path else prefix ++ cSLASH :: path
  end.

Definition normalize (prefix : bytes) (p : pat) : outcome pat nerr :=
  _ <- match p_path p with
       | c :: _ => if beqb c cSLASH then Err AbsoluteUnmodelled else Ok tt
       | [] => Ok tt
       end ;;
  let use_prefix := match prefix with [] => false | _ => negb (s_top (p_sig p)) end in
  let npc := if use_prefix then (length (components prefix) - to_subtract (p_path p))%nat else O in
  let joined := if use_prefix then join_prefix prefix (p_path p) else p_path p in
  match path_normalize joined with
  | None => Err OutsideOfWorktree
  | Some path =>
      match components path with
      | [CurDir] =>
          Ok {| p_path := [cDOT]; p_sig := p_sig p; p_mode := p_mode p; p_nil := true; p_plen := p_plen p |}
      | cs =>
          let out := join_slash (normals cs) in
          let out' := if s_dir (p_sig p) then out ++ [cSLASH] else out in
          let plen := last (firstn npc (slash_positions out' O)) O in
          Ok {| p_path := out; p_sig := p_sig p; p_mode := p_mode p; p_nil := p_nil p; p_plen := plen |}
      end
  end.

(* ---- search/init.rs ------------------------------------------------------------------------------------ *)
Record mapping := { m_pat : pat; m_glob : pattern; m_seq : nat }.

Definition always_matches (p : pat) : bool := p_nil p || match p_path p with [] => true | _ => false end.
Definition is_excluded (p : pat) : bool := s_excl (p_sig p).

Definition mapping_of (p : pat) (seq : nat) : mapping :=
  let g := match parse_pattern (p_path p) with
           | Some g => g
           | None => {| ptext := p_path p; pmode := 0; pfwp := None |}
           end in
  let mode := N.lor (N.lor (pmode g) ABSOLUTE) (if s_dir (p_sig p) then MUST_BE_DIR else 0) in
  {| m_pat := p; m_glob := {| ptext := ptext g; pmode := mode; pfwp := pfwp g |}; m_seq := seq |}.

Fixpoint common_len (a b : bytes) : nat :=
  match a, b with
  | x :: a', y :: b' => if beqb x y then S (common_len a' b') else O
  | _, _ => O
  end.

Definition usable_len (m : mapping) : nat :=
  if always_matches (m_pat m) then O
  else if s_icase (p_sig (m_pat m)) then p_plen (m_pat m)
  else match pfwp (m_glob m) with Some n => n | None => length (ptext (m_glob m)) end.

Fixpoint list_min (l : list nat) (acc : nat) : nat :=
  match l with [] => acc | x :: r => list_min r (Nat.min x acc) end.

(* slicing `&x[..n]` panics if n > len *)
Definition slice_to (l : bytes) (n : nat) : outcome bytes nerr :=
  if Nat.ltb (length l) n then Panic else Ok (firstn n l).

Fixpoint cpl_loop (base : bytes) (rest : list bytes) (max_len : nat) : outcome nat nerr :=
  match rest with
  | [] => Ok max_len
  | p :: r =>
      b <- slice_to base max_len ;;
      q <- slice_to p max_len ;;
      let c := common_len b q in
      cpl_loop base r (if Nat.ltb c (Nat.min (length b) (length q)) then c else max_len)
  end.

Definition common_prefix_len (ms : list mapping) : outcome nat nerr :=
  let inc := filter (fun m => negb (is_excluded (m_pat m))) ms in
  match inc with
  | [] => Ok O
  | m0 :: rest =>
      let len := list_min (map usable_len rest) (usable_len m0) in
      if Nat.eqb len O then Ok O
      else match rest with
           | [] => Ok len
           | _ => cpl_loop (p_path (m_pat m0)) (map (fun m => p_path (m_pat m)) rest) len
           end
  end.

Record search := { patterns : list mapping; all_excluded : bool; cpl : nat }.

Fixpoint normalize_all (prefix : bytes) (ps : list pat) (idx : nat) : outcome (list mapping) nerr :=
  match ps with
  | [] => Ok []
  | p :: r =>
      p' <- normalize prefix p ;;
      r' <- normalize_all prefix r (S idx) ;;
      Ok (mapping_of p' idx :: r')
  end.

Definition from_specs (ps : list pat) (prefix : bytes) : outcome search nerr :=
  ms <- normalize_all prefix ps O ;;
  ms1 <- match ms, prefix with
         | [], _ :: _ => p' <- normalize prefix (from_literal [] (set_dir sig0)) ;; Ok [mapping_of p' O]
         | _, _ => Ok ms
         end ;;
  (* stable sort: excluded patterns first *)
  let sorted := filter (fun m => is_excluded (m_pat m)) ms1 ++ filter (fun m => negb (is_excluded (m_pat m))) ms1 in
  n <- common_prefix_len sorted ;;
  Ok {| patterns := sorted; all_excluded := forallb (fun m => is_excluded (m_pat m)) sorted; cpl := n |}.

Definition common_prefix (s : search) : outcome bytes nerr :=
  match filter (fun m => negb (is_excluded (m_pat m))) (patterns s) with
  | [] => Ok []
  | m :: _ => slice_to (p_path (m_pat m)) (cpl s)
  end.

(* ---- search/matching.rs -------------------------------------------------------------------------------- *)
Inductive mkind := Always | Prefix | WildcardMatch | Verbatim.
Record mtch := { k_kind : mkind; k_seq : nat; k_excluded : bool }.

Definition get (l : bytes) (n : nat) : option byte := nth_error l n.
(* relative_path.get(..n) *)
Definition get_to (l : bytes) (n : nat) : option bytes := if Nat.ltb (length l) n then None else Some (firstn n l).

Definition match_verbatim (m : mapping) (rela : bytes) (is_dir : bool) (fold : bool) : bool * mkind :=
  let path := p_path (m_pat m) in
  let plen := length path in
  let '(allowed, ends_slash, how) :=
    match get rela plen with
    | None => (Nat.eqb (length rela) plen, false, Verbatim)
    | Some b => (beqb b cSLASH, beqb b cSLASH, Prefix)
    end in
  let req := negb (has_flag (pmode (m_glob m)) MUST_BE_DIR) || (ends_slash || is_dir) in
  if allowed && req then
    let dof := firstn plen rela in
    ((if fold then eq_ignore_case path dof else bytes_eqb path dof), how)
  else (false, how).

(* Pattern::matches_repo_relative_path(path, None, Some(is_dir), case, mode) with ABSOLUTE set *)
Definition matches_repo_relative_path (g : pattern) (rela : bytes) (is_dir fold pn : bool) : bool :=
  if negb is_dir && has_flag (pmode g) MUST_BE_DIR then false
  else pattern_matches g fold pn rela.

(* the closure of find_map: None = this pattern does not match *)
Definition match_one (m : mapping) (rela : bytes) (is_dir : bool) : outcome (option mtch) nerr :=
  let p := m_pat m in
  let ic := s_icase (p_sig p) in
  prefix <- slice_to (p_path p) (p_plen p) ;;
  let skip :=
    if ic && match prefix with [] => false | _ => true end then
      let req := match get rela (length prefix) with None => is_dir | Some b => beqb b cSLASH end in
      negb req || negb match get_to rela (length prefix) with Some x => bytes_eqb x prefix | None => false end
    else false in
  if skip then Ok None
  else
    let '(is_match, how) :=
      if always_matches p then (true, Always)
      else match pfwp (m_glob m) with
           | None => match_verbatim m rela is_dir ic
           | Some _ =>
               match p_mode p with
               | Literal => match_verbatim m rela is_dir ic
               | md =>
                   let pn := match md with PathAwareGlob => true | _ => false end in
                   if matches_repo_relative_path (m_glob m) rela is_dir ic pn then (true, WildcardMatch)
                   else match_verbatim m rela is_dir ic
               end
           end in
    Ok (if is_match then Some {| k_kind := how; k_seq := m_seq m; k_excluded := is_excluded p |} else None).

Fixpoint find_match (ms : list mapping) (rela : bytes) (is_dir : bool) : outcome (option mtch) nerr :=
  match ms with
  | [] => Ok None
  | m :: r =>
      x <- match_one m rela is_dir ;;
      match x with Some k => Ok (Some k) | None => find_match r rela is_dir end
  end.

Definition pattern_matching (s : search) (rela : bytes) (is_dir : bool) : outcome (option mtch) nerr :=
  match rela with
  | [] => Ok (Some {| k_kind := Always; k_seq := O; k_excluded := false |})
  | _ =>
      cp <- common_prefix s ;;
      if match get_to rela (cpl s) with None => true | Some x => negb (bytes_eqb x cp) end then Ok None
      else
        res <- find_match (patterns s) rela is_dir ;;
        match res with
        | None => if all_excluded s then Ok (Some {| k_kind := Always; k_seq := length (patterns s); k_excluded := false |})
                  else Ok None
        | Some k => Ok (Some k)
        end
  end.

Definition selected (o : option mtch) : bool :=
  match o with Some k => negb (k_excluded k) | None => false end.
