(* C39 — selection of a search over wildcard-free, case-sensitive patterns = git's match_pathspec *)
From Coq Require Import Lia.
From GixV.Base Require Import Bytes BytesFacts Outcome.
From GixV.C39 Require Import Glob GitWild Model Spec Proofs ProofsLit.

(* a normalized, case-sensitive pattern without wildcard, as mapping_from_pattern builds it *)
Definition lit_wf (m : mapping) : Prop :=
  p_nil (m_pat m) = false /\ p_path (m_pat m) <> [] /\ last_byte (p_path (m_pat m)) <> cSLASH /\
  s_icase (p_sig (m_pat m)) = false /\ p_plen (m_pat m) = O /\
  pfwp (m_glob m) = None /\ has_flag (pmode (m_glob m)) MUST_BE_DIR = s_dir (p_sig (m_pat m)).

Definition item_of (m : mapping) : item :=
  literal_item (p_path (m_pat m)) (s_dir (p_sig (m_pat m))) (is_excluded (m_pat m)).

Definition match_all_item : item :=
  {| i_lit := false; i_glob := false; i_icase := false; i_excl := false; i_top := false;
     i_match := []; i_prefix := O; i_nwl := O; i_onestar := false |}.

Lemma lit_plen_ok m : lit_wf m -> plen_ok m.
Proof. intros (_ & _ & _ & _ & H & _). unfold plen_ok. rewrite H. lia. Qed.

Lemma matches_b_lit m rela d : lit_wf m ->
  matches_b m rela d = negb (Nat.eqb (match_item (item_of m) rela d) O).
Proof.
  intros (Hnil & Hne & Hls & Hic & Hpl & Hfw & Hdir).
  unfold item_of. rewrite <- (verbatim_is_git _ _ _ _ _ Hne Hls).
  rewrite <- Hdir, <- match_verbatim_is_verbatim_b.
  unfold matches_b, match_one. rewrite Hpl. unfold slice_to. cbn [length Nat.ltb Nat.leb firstn obind].
  rewrite Hic. cbn [andb]. unfold always_matches. rewrite Hnil. cbn [orb].
  assert (Ha : match p_path (m_pat m) with [] => true | _ :: _ => false end = false)
    by (destruct (p_path (m_pat m)); [contradiction|reflexivity]).
  rewrite Ha. rewrite Hfw.
  destruct (match_verbatim m rela d false) as [b how]. cbn [fst]. destruct b; reflexivity.
Qed.

Lemma do_match_items ms rela d e : Forall lit_wf ms ->
  do_match (map item_of ms) rela d e =
  existsb (fun m => Bool.eqb (is_excluded (m_pat m)) e && matches_b m rela d) ms.
Proof.
  induction 1 as [|m ms Hm _ IH]; [reflexivity|].
  unfold do_match in *. cbn [map existsb]. rewrite IH. f_equal.
  rewrite (matches_b_lit m rela d Hm). reflexivity.
Qed.

Lemma existsb_excl_true ms rela d :
  Forall (fun m => is_excluded (m_pat m) = true) ms ->
  existsb (fun m => Bool.eqb (is_excluded (m_pat m)) true && matches_b m rela d) ms = existsb (fun m => matches_b m rela d) ms /\
  existsb (fun m => Bool.eqb (is_excluded (m_pat m)) false && matches_b m rela d) ms = false.
Proof.
  induction 1 as [|m ms Hm _ [IH1 IH2]]; [split; reflexivity|].
  cbn [existsb]. rewrite IH1, IH2, Hm. cbn. split; [reflexivity|reflexivity].
Qed.

Lemma existsb_excl_false ms rela d :
  Forall (fun m => is_excluded (m_pat m) = false) ms ->
  existsb (fun m => Bool.eqb (is_excluded (m_pat m)) false && matches_b m rela d) ms = existsb (fun m => matches_b m rela d) ms /\
  existsb (fun m => Bool.eqb (is_excluded (m_pat m)) true && matches_b m rela d) ms = false.
Proof.
  induction 1 as [|m ms Hm _ [IH1 IH2]]; [split; reflexivity|].
  cbn [existsb]. rewrite IH1, IH2, Hm. cbn. split; [reflexivity|reflexivity].
Qed.

Definition git_items (s : search) : list item :=
  map item_of (patterns s) ++ (if all_excluded s then [match_all_item] else []).

Lemma do_match_app a b rela d e : do_match (a ++ b) rela d e = do_match a rela d e || do_match b rela d e.
Proof. unfold do_match. apply existsb_app. Qed.

Lemma forallb_excl_app ex inc :
  Forall (fun m => is_excluded (m_pat m) = true) ex ->
  Forall (fun m => is_excluded (m_pat m) = false) inc ->
  forallb (fun m => is_excluded (m_pat m)) (ex ++ inc) = match inc with [] => true | _ => false end.
Proof.
  intros He Hi. rewrite forallb_app.
  assert (H1 : forallb (fun m => is_excluded (m_pat m)) ex = true) by (apply forallb_forall; apply Forall_forall; exact He).
  rewrite H1. cbn [andb]. destruct inc as [|m inc]; [reflexivity|].
  inversion Hi as [|? ? Hm _]; subst. cbn [forallb]. rewrite Hm. reflexivity.
Qed.

Lemma git_side : forall s ex inc rela d,
  patterns s = ex ++ inc ->
  all_excluded s = forallb (fun m => is_excluded (m_pat m)) (patterns s) ->
  Forall lit_wf (patterns s) ->
  Forall (fun m => is_excluded (m_pat m) = true) ex ->
  Forall (fun m => is_excluded (m_pat m) = false) inc ->
  match_pathspec (git_items s) rela d =
  (existsb (fun m => matches_b m rela d) inc || all_excluded s) && negb (existsb (fun m => matches_b m rela d) ex).
Proof.
  intros s ex inc rela d Hpat Hall Hwf He Hi.
  assert (Hwf' : Forall lit_wf (ex ++ inc)) by (rewrite <- Hpat; exact Hwf).
  unfold git_items. rewrite Hpat.
  assert (Hne : map item_of (ex ++ inc) ++ (if all_excluded s then [match_all_item] else []) <> [] \/
                (ex ++ inc = [] /\ all_excluded s = false)).
  { destruct (ex ++ inc) eqn:E; [|left; discriminate].
    destruct (all_excluded s); [left; discriminate|right; split; reflexivity]. }
  destruct Hne as [Hne|[Hnil Hae]].
  - unfold match_pathspec.
    destruct (map item_of (ex ++ inc) ++ (if all_excluded s then [match_all_item] else [])) eqn:E; [contradiction|].
    rewrite <- E. clear E.
    rewrite !do_match_app, !(do_match_items _ _ _ _ Hwf'), !existsb_app.
    destruct (existsb_excl_true ex rela d He) as [E1 E2].
    destruct (existsb_excl_false inc rela d Hi) as [E3 E4].
    rewrite E1, E2, E3, E4. cbn [orb]. rewrite Bool.orb_false_r.
    destruct (all_excluded s); unfold do_match; cbn; rewrite ?Bool.orb_false_r, ?Bool.orb_true_r; reflexivity.
  - rewrite Hall, Hpat, Hnil in Hae. cbn in Hae. discriminate.
Qed.

Lemma select_literal : forall s ex inc rela d,
  rela <> [] -> cpl s = O -> patterns s = ex ++ inc ->
  all_excluded s = forallb (fun m => is_excluded (m_pat m)) (patterns s) ->
  Forall lit_wf (patterns s) ->
  Forall (fun m => is_excluded (m_pat m) = true) ex ->
  Forall (fun m => is_excluded (m_pat m) = false) inc ->
  exists o, pattern_matching s rela d = Ok o /\ selected o = match_pathspec (git_items s) rela d.
Proof.
  intros s ex inc rela d Hrela Hcpl Hpat Hall Hwf He Hi.
  assert (Hpl : Forall plen_ok (ex ++ inc)).
  { rewrite <- Hpat. eapply Forall_impl; [|exact Hwf]. intros m. apply lit_plen_ok. }
  destruct (find_match_sel ex inc rela d Hpl He Hi) as [o [Hfm [Hsel Hnone]]].
  unfold pattern_matching. destruct rela as [|r0 rr]; [contradiction|].
  assert (Hcp : common_prefix s = Ok []).
  { unfold common_prefix. rewrite Hcpl. destruct (filter _ (patterns s)); [reflexivity|]. reflexivity. }
  rewrite Hcp, Hcpl. cbn [obind get_to length Nat.ltb Nat.leb firstn bytes_eqb negb].
  rewrite Hpat, Hfm. cbn [obind].
  (* git's side *)
  assert (Hwf' : Forall lit_wf (ex ++ inc)) by (rewrite <- Hpat; exact Hwf).
  assert (Hgit : match_pathspec (git_items s) (r0 :: rr) d =
                 (existsb (fun m => matches_b m (r0 :: rr) d) inc || all_excluded s) &&
                 negb (existsb (fun m => matches_b m (r0 :: rr) d) ex)).
  { unfold git_items. rewrite Hpat.
    assert (Hne : map item_of (ex ++ inc) ++ (if all_excluded s then [match_all_item] else []) <> [] \/
                  (ex ++ inc = [] /\ all_excluded s = false)).
    { destruct (ex ++ inc) eqn:E; [|left; discriminate].
      destruct (all_excluded s); [left; discriminate|right; split; reflexivity]. }
    destruct Hne as [Hne|[Hnil Hae]].
    - unfold match_pathspec.
      destruct (map item_of (ex ++ inc) ++ (if all_excluded s then [match_all_item] else [])) eqn:E; [contradiction|].
      rewrite <- E. clear E.
      rewrite !do_match_app, !(do_match_items _ _ _ _ Hwf'), !existsb_app.
      apply Forall_app in Hwf'. 
      destruct (existsb_excl_true ex (r0 :: rr) d He) as [E1 E2].
      destruct (existsb_excl_false inc (r0 :: rr) d Hi) as [E3 E4].
      rewrite E1, E2, E3, E4. cbn [orb]. rewrite Bool.orb_false_r.
      destruct (all_excluded s); unfold do_match; cbn; rewrite ?Bool.orb_false_r, ?Bool.orb_true_r; reflexivity.
    - rewrite Hall, Hpat, Hnil in Hae. cbn in Hae. discriminate. }
  rewrite Hgit.
  destruct o as [k|].
  - eexists; split; [reflexivity|]. rewrite Hsel.
    destruct (existsb (fun m => matches_b m (r0 :: rr) d) ex) eqn:Eex; cbn [negb andb]; [rewrite Bool.andb_false_r; reflexivity|].
    rewrite Bool.andb_true_r.
    destruct (existsb (fun m => matches_b m (r0 :: rr) d) inc) eqn:Einc; [reflexivity|].
    (* a match without a positive match: impossible, the match was excluded and ex has no match *)
    exfalso. assert (Hx : existsb (fun m => matches_b m (r0 :: rr) d) (ex ++ inc) = false).
    { rewrite existsb_app, Einc, Eex. reflexivity. }
    apply Hnone in Hx. discriminate.
  - assert (Hx : existsb (fun m => matches_b m (r0 :: rr) d) (ex ++ inc) = false) by (apply Hnone; reflexivity).
    rewrite existsb_app in Hx. apply Bool.orb_false_iff in Hx. destruct Hx as [Hx1 Hx2]. rewrite Hx1, Hx2.
    cbn [negb orb]. rewrite Bool.andb_true_r.
    destruct (all_excluded s); eexists; split; reflexivity.
Qed.
