(* C39 — lemmas: parse totality, the exclude logic of the search, verbatim matching = git's literal item match *)
From Coq Require Import Lia.
From GixV.Base Require Import Bytes BytesFacts Outcome.
From GixV.C39 Require Import Glob GitWild Model Spec.

(* ---- parse never panics ------------------------------------------------------------------------------ *)
Definition fine {A E} (o : outcome A E) : Prop := (exists a, o = Ok a) \/ (exists e, o = Err e).

Lemma short_kw_fine : forall l s, fine (short_kw l s).
Proof.
  induction l as [|b r IH]; intros s; cbn [short_kw].
  - left; eauto.
  - destruct (beqb b cSLASH); [apply IH|].
    destruct (beqb b cCARET || beqb b cBANG); [apply IH|].
    destruct (beqb b cCOLON); [left; eauto|].
    destruct (unimplemented_char b); [right; eauto|left; eauto].
Qed.

Lemma kw_step_fine : forall st kw, fine (kw_step st kw).
Proof.
  intros [s m] kw. unfold kw_step.
  repeat match goal with
         | |- fine (if ?c then _ else _) => destruct c
         | |- fine (match ?m with ShellGlob => _ | Literal => _ | PathAwareGlob => _ end) => destruct m
         end; try (left; eauto; fail); right; eauto.
Qed.

Lemma kw_fold_fine : forall kws st, fine (kw_fold st kws).
Proof.
  induction kws as [|k r IH]; intros st; cbn [kw_fold].
  - left; eauto.
  - destruct (kw_step_fine st k) as [[a ->]|[e ->]]; [apply IH|right; eauto].
Qed.

Lemma long_kw_fine : forall l st, fine (long_kw l st).
Proof.
  intros l st. unfold long_kw. destruct (split_rpar l) as [[kws rest]|]; [|right; eauto].
  destruct kws; [left; eauto|].
  match goal with |- fine (match ?x with _ => _ end) => destruct (kw_fold_fine (split_kw None [] (b :: kws)) st) as [[a Ha]|[e He]] end.
  - rewrite Ha. left; eauto.
  - rewrite He. right; eauto.
Qed.

Lemma parse_fine : forall d input, fine (parse d input).
Proof.
  intros d input. unfold parse. destruct input as [|c0 r0]; [right; eexists; reflexivity|].
  destruct (d_literal d); [left; eexists; reflexivity|].
  destruct (bytes_eqb (c0 :: r0) (bs ":")); [left; eexists; reflexivity|].
  destruct (beqb c0 cCOLON); [|left; eexists; reflexivity].
  destruct (short_kw_fine r0 sig0) as [[[s1 rest] ->]|[e ->]]; cbv beta iota; [|right; eexists; reflexivity].
  destruct rest as [|c1 r1]; [left; eexists; reflexivity|].
  destruct (beqb c1 Model.cLPAR); [|left; eexists; reflexivity].
  destruct (long_kw_fine r1 (sig_or (d_sig d) s1, ShellGlob)) as [[[st' rest'] ->]|[e ->]]; cbv beta iota;
    [left; eexists; reflexivity|right; eexists; reflexivity].
Qed.

Lemma parse_no_panic : forall d input, parse d input <> Panic /\ parse d input <> OutOfFuel.
Proof.
  intros d input. destruct (parse_fine d input) as [[a ->]|[e ->]]; split; discriminate.
Qed.

(* ---- the exclude logic -------------------------------------------------------------------------------- *)
Definition matches_b (m : mapping) (rela : bytes) (is_dir : bool) : bool :=
  match match_one m rela is_dir with Ok (Some _) => true | _ => false end.

Definition plen_ok (m : mapping) : Prop := (p_plen (m_pat m) <= length (p_path (m_pat m)))%nat.

Lemma slice_to_ok l n : (n <= length l)%nat -> slice_to l n = Ok (firstn n l).
Proof.
  intros H. unfold slice_to. destruct (Nat.ltb_spec (length l) n); [lia|reflexivity].
Qed.

Lemma match_one_ok m rela d : plen_ok m ->
  exists o, match_one m rela d = Ok o /\
            match o with Some k => k_excluded k = is_excluded (m_pat m) | None => True end.
Proof.
  intros H. unfold match_one. rewrite (slice_to_ok _ _ H). cbn [obind].
  match goal with |- context [if ?c then Ok None else _] => destruct c end; [eexists; split; [reflexivity|exact I]|].
  match goal with |- context [let '(a, b) := ?x in _] => destruct x as [im how] end.
  destruct im; eexists; (split; [reflexivity|]); [reflexivity|exact I].
Qed.

Lemma find_match_sel : forall ex inc rela d,
  Forall plen_ok (ex ++ inc) ->
  Forall (fun m => is_excluded (m_pat m) = true) ex ->
  Forall (fun m => is_excluded (m_pat m) = false) inc ->
  exists o, find_match (ex ++ inc) rela d = Ok o /\
            selected o = negb (existsb (fun m => matches_b m rela d) ex) && existsb (fun m => matches_b m rela d) inc /\
            (o = None <-> existsb (fun m => matches_b m rela d) (ex ++ inc) = false).
Proof.
  induction ex as [|m ex IH]; intros inc rela d Hp He Hi.
  - cbn [app existsb negb andb].
    induction inc as [|m inc IHi].
    + eexists; split; [reflexivity|]. cbn. split; [reflexivity|tauto].
    + inversion Hp as [|? ? Hm Hp']; subst. inversion Hi as [|? ? Hn Hi']; subst.
      destruct (match_one_ok m rela d Hm) as [o [Ho Hk]].
      cbn [find_match existsb]. unfold matches_b at 1 3. rewrite Ho. cbn [obind].
      destruct o as [k|].
      * eexists; split; [reflexivity|]. cbn [selected orb]. rewrite Hk, Hn. cbn. split; [reflexivity|split; discriminate].
      * cbn [orb]. exact (IHi Hp' Hi').
  - inversion Hp as [|? ? Hm Hp']; subst. inversion He as [|? ? Hx He']; subst.
    destruct (match_one_ok m rela d Hm) as [o [Ho Hk]].
    cbn [app find_match existsb]. unfold matches_b at 1 4. rewrite Ho. cbn [obind].
    destruct o as [k|].
    + eexists; split; [reflexivity|]. cbn [selected orb negb andb]. rewrite Hk, Hx. cbn. split; [reflexivity|split; discriminate].
    + cbn [orb]. exact (IH inc rela d Hp' He' Hi).
Qed.

(* the patterns of a search built by from_specs are sorted: excluded ones first *)
Lemma from_specs_sorted ps prefix s : from_specs ps prefix = Ok s ->
  exists ms, patterns s = filter (fun m => is_excluded (m_pat m)) ms ++ filter (fun m => negb (is_excluded (m_pat m))) ms /\
             all_excluded s = forallb (fun m => is_excluded (m_pat m)) (patterns s).
Proof.
  unfold from_specs. intros H.
  destruct (normalize_all prefix ps 0) as [ms| | |]; cbn [obind] in H; try discriminate.
  match type of H with obind ?x _ = _ => destruct x as [ms1| | |] end; cbn [obind] in H; try discriminate.
  match type of H with obind ?x _ = _ => destruct x as [n| | |] end; cbn [obind] in H; try discriminate.
  apply Ok_inj in H. subst s. cbn [patterns all_excluded]. exists ms1. split; reflexivity.
Qed.

Lemma filter_forall {A} (f : A -> bool) l : Forall (fun x => f x = true) (filter f l).
Proof.
  induction l as [|a l IH]; cbn [filter]; [constructor|].
  destruct (f a) eqn:E; [constructor; assumption|assumption].
Qed.

(* ---- verbatim matching = git's literal item match -------------------------------------------------------- *)
Lemma firstn_eq_starts : forall (p rela : bytes),
  bytes_eqb p (firstn (length p) rela) = true <-> exists rest, rela = p ++ rest.
Proof.
  induction p as [|x p IH]; intros rela; cbn [length firstn bytes_eqb].
  - split; [intros _; exists rela; reflexivity|reflexivity].
  - destruct rela as [|y rela]; cbn [bytes_eqb].
    + split; [discriminate|intros [rest H]; discriminate].
    + rewrite Bool.andb_true_iff, beqb_eq, IH. split.
      * intros [-> [rest ->]]. exists rest. reflexivity.
      * intros [rest H]. injection H as -> ->. split; [reflexivity|exists rest; reflexivity].
Qed.

Lemma nth_error_app_len {A} (p : list A) rest : nth_error (p ++ rest) (length p) = nth_error rest 0.
Proof. induction p; cbn; auto. Qed.

Lemma last_byte_app_one (p : bytes) c : last_byte (p ++ [c]) = c.
Proof. unfold last_byte. apply last_last. Qed.

Lemma removelast_app_one (p : bytes) c : removelast (p ++ [c]) = p.
Proof. apply removelast_last. Qed.

Lemma beqb_refl_c c : beqb c c = true.
Proof. apply beqb_eq. reflexivity. Qed.

Lemma bytes_eqb_refl a : bytes_eqb a a = true.
Proof. apply bytes_eqb_eq. reflexivity. Qed.

Lemma bytes_eqb_false_neq a b : a <> b -> bytes_eqb a b = false.
Proof. intros H. destruct (bytes_eqb a b) eqn:E; [apply bytes_eqb_eq in E; contradiction|reflexivity]. Qed.

(* git's item for a normalized, case-sensitive gix pattern without wildcard: the path, with a trailing slash
   if the pathspec had one *)
Definition literal_item (path : bytes) (dir excl : bool) : item :=
  let m := if dir then path ++ [cSLASH] else path in
  {| i_lit := false; i_glob := false; i_icase := false; i_excl := excl; i_top := false;
     i_match := m; i_prefix := O; i_nwl := length m; i_onestar := false |}.

(* what match_verbatim computes for a case-sensitive mapping whose glob carries MUST_BE_DIR iff [dir] *)
Definition verbatim_b (path : bytes) (dir : bool) (rela : bytes) (is_dir : bool) : bool :=
  match nth_error rela (length path) with
  | None => Nat.eqb (length rela) (length path) && (negb dir || is_dir) && bytes_eqb path (firstn (length path) rela)
  | Some b => beqb b cSLASH && bytes_eqb path (firstn (length path) rela)
  end.

Lemma match_verbatim_is_verbatim_b m rela is_dir :
  fst (match_verbatim m rela is_dir false) =
  verbatim_b (p_path (m_pat m)) (has_flag (pmode (m_glob m)) MUST_BE_DIR) rela is_dir.
Proof.
  unfold match_verbatim, verbatim_b, get.
  destruct (nth_error rela (length (p_path (m_pat m)))) as [b|].
  - destruct (beqb b cSLASH); cbn; [|reflexivity].
    rewrite Bool.orb_true_r. reflexivity.
  - cbn [orb]. destruct (Nat.eqb (length rela) (length (p_path (m_pat m)))); cbn [andb]; [|reflexivity].
    destruct (negb (has_flag (pmode (m_glob m)) MUST_BE_DIR) || is_dir); reflexivity.
Qed.

