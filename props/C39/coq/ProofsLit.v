(* C39 — verbatim matching of gix = git's match_pathspec_item for wildcard-free, case-sensitive items *)
From Coq Require Import Lia.
From GixV.Base Require Import Bytes BytesFacts Outcome.
From GixV.C39 Require Import Glob GitWild Model Spec Proofs.

Definition lit_spec (path : bytes) (dir : bool) (rela : bytes) (is_dir : bool) : Prop :=
  (rela = path /\ (dir = false \/ is_dir = true)) \/ (exists rest, rela = path ++ cSLASH :: rest).

Lemma app_eq_self_nil {A} (l r : list A) : l = l ++ r -> r = [].
Proof. intros H. rewrite <- (app_nil_r l) in H at 1. apply app_inv_head in H. auto. Qed.

Lemma verbatim_b_spec path dir rela is_dir :
  verbatim_b path dir rela is_dir = true <-> lit_spec path dir rela is_dir.
Proof.
  unfold verbatim_b, lit_spec.
  destruct (bytes_eqb path (firstn (length path) rela)) eqn:Epre.
  - apply firstn_eq_starts in Epre. destruct Epre as [rest ->].
    rewrite nth_error_app_len. destruct rest as [|c rest]; cbn [nth_error].
    + rewrite app_nil_r, Nat.eqb_refl. cbn [andb]. rewrite Bool.andb_true_r. split.
      * intros H. left. split; [reflexivity|]. destruct dir; cbn in H; [right; exact H|left; reflexivity].
      * intros [[_ [-> | ->]]|[r Hr]]; [reflexivity|apply Bool.orb_true_r|].
        apply app_eq_self_nil in Hr. discriminate.
    + rewrite Bool.andb_true_r. split.
      * intros H. apply beqb_eq in H. subst c. right. eexists; reflexivity.
      * intros [[Hr _]|[r Hr]].
        -- symmetry in Hr. apply app_eq_self_nil in Hr. discriminate.
        -- apply app_inv_head in Hr. injection Hr as -> _. apply beqb_refl_c.
  - split.
    + intros H. destruct (nth_error rela (length path)); rewrite Bool.andb_false_r in H; discriminate.
    + intros H. assert (Hs : exists r, rela = path ++ r).
      { destruct H as [[-> _]|[r ->]]; [exists []; symmetry; apply app_nil_r|eexists; reflexivity]. }
      apply firstn_eq_starts in Hs. rewrite Hs in Epre. discriminate.
Qed.

Lemma ps_prefix_spec m name : ps_prefix false m name = true <-> exists r, name = m ++ r.
Proof.
  unfold ps_prefix, ps_eq. split.
  - intros H. destruct (Nat.ltb (length name) (length m)); [discriminate|]. apply firstn_eq_starts. exact H.
  - intros [r ->]. rewrite app_length. destruct (Nat.ltb_spec (length m + length r) (length m)); [lia|].
    apply firstn_eq_starts. eexists; reflexivity.
Qed.

(* git's item for a normalized, case-sensitive gix pattern without wildcard: the path, with a trailing slash
   if the pathspec had one *)
Definition literal_item (path : bytes) (dir excl : bool) : item :=
  let m := if dir then path ++ [cSLASH] else path in
  {| i_lit := false; i_glob := false; i_icase := false; i_excl := excl; i_top := false;
     i_match := m; i_prefix := O; i_nwl := length m; i_onestar := false |}.

Lemma git_literal_spec path dir excl rela is_dir :
  path <> [] -> last_byte path <> cSLASH ->
  negb (Nat.eqb (match_item (literal_item path dir excl) rela is_dir) O) = true <-> lit_spec path dir rela is_dir.
Proof.
  intros Hne Hls.
  assert (Hlb : beqb (last_byte path) cSLASH = false).
  { destruct (beqb (last_byte path) cSLASH) eqn:E; [apply beqb_eq in E; contradiction|reflexivity]. }
  unfold match_item, literal_item, lit_spec. cbn [i_match i_icase i_prefix i_nwl andb].
  destruct dir.
  - (* m = path/ *)
    destruct (path ++ [cSLASH]) as [|m0 mr] eqn:Em; [destruct path; discriminate|]. rewrite <- Em. clear m0 mr Em.
    rewrite Nat.ltb_irrefl. cbn [andb]. rewrite last_byte_app_one, removelast_app_one, beqb_refl_c. cbn [orb].
    destruct (ps_prefix false (path ++ [cSLASH]) rela) eqn:Ep.
    + apply ps_prefix_spec in Ep. destruct Ep as [r ->].
      split; [intros _|].
      * right. exists r. rewrite <- app_assoc. reflexivity.
      * intros _. destruct (Nat.eqb (length (path ++ [cSLASH])) (length ((path ++ [cSLASH]) ++ r))); reflexivity.
    + rewrite Bool.andb_true_r.
      destruct (is_dir && Nat.eqb (S (length rela)) (length (path ++ [cSLASH])) && ps_eq false path rela) eqn:Ed.
      * apply Bool.andb_true_iff in Ed. destruct Ed as [Ed Heq]. apply Bool.andb_true_iff in Ed. destruct Ed as [Hd _].
        unfold ps_eq in Heq. apply bytes_eqb_eq in Heq. subst rela.
        split; [intros _; left; split; [reflexivity|right; exact Hd]|reflexivity].
      * split; [discriminate|]. intros [[-> [Hf|Hd]]|[r ->]]; [discriminate| |].
        -- rewrite Hd in Ed. unfold ps_eq in Ed. rewrite bytes_eqb_refl in Ed. rewrite app_length in Ed. cbn [length] in Ed.
           replace (Nat.eqb (S (length path)) (length path + 1)) with true in Ed by (symmetry; apply Nat.eqb_eq; lia).
           discriminate.
        -- assert (Hx : ps_prefix false (path ++ [cSLASH]) (path ++ cSLASH :: r) = true).
           { apply ps_prefix_spec. exists r. rewrite <- app_assoc. reflexivity. }
           rewrite Hx in Ep. discriminate.
  - (* m = path *)
    destruct path as [|p0 pr] eqn:Epath; [contradiction|]. rewrite <- Epath in *. clear p0 pr Epath.
    rewrite Nat.ltb_irrefl. cbn [andb]. rewrite Hlb. cbn [orb]. rewrite Bool.andb_false_r. cbn [andb].
    destruct (ps_prefix false path rela) eqn:Ep.
    + apply ps_prefix_spec in Ep. destruct Ep as [r ->]. rewrite nth_error_app_len, app_length.
      destruct r as [|c r]; cbn [nth_error length].
      * replace (length path + 0)%nat with (length path) by lia. rewrite Nat.eqb_refl, app_nil_r.
        split; [intros _; left; split; [reflexivity|left; reflexivity]|reflexivity].
      * replace (Nat.eqb (length path) (length path + S (length r))) with false by (symmetry; apply Nat.eqb_neq; lia).
        destruct (beqb c cSLASH) eqn:Ec.
        -- apply beqb_eq in Ec. subst c. split; [intros _; right; eexists; reflexivity|reflexivity].
        -- split; [discriminate|]. intros [[Hr _]|[r' Hr]].
           ++ symmetry in Hr. apply app_eq_self_nil in Hr. discriminate.
           ++ apply app_inv_head in Hr. injection Hr as -> _. rewrite beqb_refl_c in Ec. discriminate.
    + split; [discriminate|]. intros H.
      assert (Hs : exists r, rela = path ++ r).
      { destruct H as [[-> _]|[r ->]]; [exists []; symmetry; apply app_nil_r|eexists; reflexivity]. }
      apply ps_prefix_spec in Hs. rewrite Hs in Ep. discriminate.
Qed.

Lemma verbatim_is_git path dir excl rela is_dir :
  path <> [] -> last_byte path <> cSLASH ->
  verbatim_b path dir rela is_dir = negb (Nat.eqb (match_item (literal_item path dir excl) rela is_dir) O).
Proof.
  intros Hne Hls.
  pose proof (verbatim_b_spec path dir rela is_dir) as H1.
  pose proof (git_literal_spec path dir excl rela is_dir Hne Hls) as H2.
  destruct (verbatim_b path dir rela is_dir); destruct (negb (Nat.eqb (match_item (literal_item path dir excl) rela is_dir) O)); try reflexivity.
  - exfalso. assert (true = true) as T by reflexivity. apply H1 in T. apply H2 in T. discriminate.
  - exfalso. assert (true = true) as T by reflexivity. apply H2 in T. apply H1 in T. discriminate.
Qed.
