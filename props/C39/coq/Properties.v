(* C39 — Pathspecs select the same paths as git: the theorems.  See NOTES.md for what is proved and what is tested. *)
From GixV.Base Require Import Bytes BytesFacts Outcome.
From GixV.C39 Require Import Glob GitWild Model Spec Proofs ProofsLit ProofsSel ProofsCp ProofsRT.

(* The whole property (not proved in this generality): for every defaults/prefix/spec list that git
   accepts outside the known classes, gix builds a search and selects exactly the paths git selects. *)
Definition select_is_git_full_statement : Prop :=
  forall (d : defaults) (g : globals) (prefix : bytes) (specs : list bytes) (ps : list pat) (s : search) (items : list item),
    (* d and g describe the same environment, every spec parses on both sides *)
    Forall2 (fun spec p => parse d spec = Ok p) specs ps ->
    from_specs ps prefix = Ok s ->
    parse_pathspec g (match prefix with [] => [] | _ => prefix ++ [cSLASH] end) specs false = Some items ->
    forall rela is_dir, rela <> [] ->
      exists o, pattern_matching s rela is_dir = Ok o /\ selected o = match_pathspec items rela is_dir.

(* 1. parsing a pathspec never panics and needs no fuel: it returns a pattern or one of the parse errors *)
Theorem parse_never_panics : forall d input, parse d input <> Panic /\ parse d input <> OutOfFuel.
Proof. exact parse_no_panic. Qed.

(* 2. whatever `parse` returns (any defaults except GIT_LITERAL_PATHSPECS, any input), its display form parses
      back to the same pattern under default settings *)
Theorem parse_display_roundtrip : forall d input p,
  d_literal d = false -> parse d input = Ok p -> parse d0 (to_bstring p) = Ok p.
Proof. exact parse_roundtrip. Qed.

(* … and the restriction is needed: with literal pathspecs `a/` keeps its slash in the path, the display form
   `:(literal)a/` parses to the path `a` with MUST_BE_DIR *)
Theorem display_roundtrip_refuted_for_literal_default :
  exists d input p, parse d input = Ok p /\ parse d0 (to_bstring p) <> Ok p.
Proof.
  exists {| d_sig := sig0; d_mode := ShellGlob; d_literal := true |}, (bs "a/"), (from_literal (bs "a/") sig0).
  split; [reflexivity|]. vm_compute. discriminate.
Qed.

(* 3. the patterns of a search are the excluded ones followed by the others, in their original order *)
Theorem search_patterns_sorted : forall ps prefix s, from_specs ps prefix = Ok s ->
  exists ms, patterns s = filter (fun m => is_excluded (m_pat m)) ms ++ filter (fun m => negb (is_excluded (m_pat m))) ms /\
             all_excluded s = forallb (fun m => is_excluded (m_pat m)) (patterns s).
Proof. exact from_specs_sorted. Qed.

(* 4. exclude handling: over such a list the first match is selected iff some positive pattern matches and no
      negative one does — git's `positive && !negative` — for ANY patterns (wildcards, icase, …) *)
Theorem excludes_take_precedence : forall ex inc rela d,
  Forall plen_ok (ex ++ inc) ->
  Forall (fun m => is_excluded (m_pat m) = true) ex ->
  Forall (fun m => is_excluded (m_pat m) = false) inc ->
  exists o, find_match (ex ++ inc) rela d = Ok o /\
            selected o = negb (existsb (fun m => matches_b m rela d) ex) && existsb (fun m => matches_b m rela d) inc /\
            (o = None <-> existsb (fun m => matches_b m rela d) (ex ++ inc) = false).
Proof. exact find_match_sel. Qed.

(* 5. verbatim matching (path, optional MUST_BE_DIR) is git's match_pathspec_item for the item `path` or `path/`:
      for every relative path and is_dir flag *)
Theorem verbatim_match_is_gits_literal_item : forall path dir excl rela is_dir,
  path <> [] -> last_byte path <> cSLASH ->
  verbatim_b path dir rela is_dir = negb (Nat.eqb (match_item (literal_item path dir excl) rela is_dir) O).
Proof. exact verbatim_is_git. Qed.

Theorem match_verbatim_computes_verbatim_b : forall m rela is_dir,
  fst (match_verbatim m rela is_dir false) =
  verbatim_b (p_path (m_pat m)) (has_flag (pmode (m_glob m)) MUST_BE_DIR) rela is_dir.
Proof. exact match_verbatim_is_verbatim_b. Qed.

(* 6. the common-prefix shortcut is sound: `from_specs` stores `common_prefix_len` of its patterns, and when a
      relative path does not start with the common prefix no positive pattern (normalized, case-sensitive,
      wildcard-free) matches it *)
Theorem from_specs_stores_common_prefix_len : forall ps prefix s,
  from_specs ps prefix = Ok s -> common_prefix_len (patterns s) = Ok (cpl s).
Proof. exact from_specs_cpl. Qed.

Theorem common_prefix_shortcut_sound : forall s rela d cp,
  common_prefix_len (patterns s) = Ok (cpl s) -> Forall lit_wf2 (patterns s) ->
  common_prefix s = Ok cp ->
  match get_to rela (cpl s) with None => true | Some x => negb (bytes_eqb x cp) end = true ->
  forall m, In m (patterns s) -> is_excluded (m_pat m) = false -> matches_b m rela d = false.
Proof. exact shortcut_sound. Qed.

(* 7. selection = git for every search over normalized, wildcard-free, case-sensitive patterns: any number of
      positive and negative patterns, trailing slashes, directories, any common prefix; with only negative
      patterns git's implicit match-all item is the counterpart of `all_patterns_are_excluded` *)
Theorem select_is_git_literal_partial : forall s ex inc rela d,
  rela <> [] -> common_prefix_len (patterns s) = Ok (cpl s) -> patterns s = ex ++ inc ->
  all_excluded s = forallb (fun m => is_excluded (m_pat m)) (patterns s) ->
  Forall lit_wf2 (patterns s) ->
  Forall (fun m => is_excluded (m_pat m) = true) ex ->
  Forall (fun m => is_excluded (m_pat m) = false) inc ->
  exists o, pattern_matching s rela d = Ok o /\ selected o = match_pathspec (git_items s) rela d.
Proof. exact select_literal_cp. Qed.

(* ---- non-vacuity -------------------------------------------------------------------------------------- *)
Definition ex_specs : list bytes := [bs "d/"; bs ":!d/e"; bs "d/a"].
Definition ex_pats : list pat :=
  flat_map (fun s => match parse d0 s with Ok p => [p] | _ => [] end) ex_specs.
Definition ex_search : search := match from_specs ex_pats [] with Ok s => s | _ => {| patterns := []; all_excluded := true; cpl := O |} end.

Example ex_parse_ok : length ex_pats = 3%nat.
Proof. reflexivity. Qed.

Example ex_roundtrip_hyp : exists p, parse d0 (bs ":(top,icase)a*/") = Ok p /\ to_bstring p = bs ":(top,icase)a*/".
Proof. eexists; split; reflexivity. Qed.

Example ex_search_shape :
  cpl ex_search = 1%nat /\ common_prefix ex_search = Ok (bs "d") /\ length (patterns ex_search) = 3%nat /\ all_excluded ex_search = false /\
  map (fun m => is_excluded (m_pat m)) (patterns ex_search) = [true; false; false].
Proof. vm_compute. repeat split. Qed.

Example ex_search_lit_wf : Forall lit_wf2 (patterns ex_search).
Proof.
  repeat constructor; try discriminate; vm_compute; try reflexivity; try discriminate.
Qed.

(* d/x is selected, d/e/y is excluded, b and dir/f are cut off by the common prefix `d`, `d` is selected only as a directory *)
Example ex_selection :
  map (fun p => match pattern_matching ex_search (fst p) (snd p) with Ok o => selected o | _ => false end)
      [(bs "d/x", false); (bs "d/e/y", false); (bs "b", false); (bs "d", true); (bs "d", false); (bs "dir/f", false)] =
  [true; false; false; true; false; false] /\
  map (fun p => match_pathspec (git_items ex_search) (fst p) (snd p))
      [(bs "d/x", false); (bs "d/e/y", false); (bs "b", false); (bs "d", true); (bs "d", false); (bs "dir/f", false)] =
  [true; false; false; true; false; false].
Proof. vm_compute. split; reflexivity. Qed.
