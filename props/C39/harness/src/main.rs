//! C39 harness: gix-pathspec parse + normalize + Search::from_specs + pattern_matching_relative_path
//! against `git ls-files -- <pathspec>…` run in a hand-made repository.
//!
//! case:  ps <defaults> <prefix> <gitattributes> <nspecs> <spec>… <path>…
//!   defaults    three ASCII digits: icase (GIT_ICASE_PATHSPECS) 0|1, search mode 0 default | 1 glob
//!               (GIT_GLOB_PATHSPECS) | 2 noglob (GIT_NOGLOB_PATHSPECS), literal (GIT_LITERAL_PATHSPECS) 0|1
//!   prefix      the current directory relative to the worktree root (clean: `a`, `a/b`, or empty)
//!   path        first byte `f` (regular file) or `d` (gitlink = a directory in the index), then the index path
use bstr::{BStr, ByteSlice};
use gix_pathspec::{parse, Defaults, MagicSignature, Search, SearchMode};
use gixv_common::*;
use std::os::unix::ffi::OsStrExt;
use std::path::Path;

mod gitref;

pub struct Inp {
    pub icase: bool,
    pub mode: u8,
    pub literal: bool,
    pub prefix: Vec<u8>,
    pub attrs: Vec<u8>,
    pub specs: Vec<Vec<u8>>,
    pub paths: Vec<(bool, Vec<u8>)>,
}

fn decode(c: &Case) -> Option<Inp> {
    if f_str(c, 0) != b"ps" {
        return None;
    }
    let d = f_str(c, 1);
    if d.len() != 3 {
        return None;
    }
    let n = f_u64(c, 4) as usize;
    if c.len() < 5 + n {
        return None;
    }
    let specs = c[5..5 + n].to_vec();
    let mut paths = Vec::new();
    for p in &c[5 + n..] {
        if p.len() < 2 {
            return None;
        }
        paths.push((p[0] == b'd', p[1..].to_vec()));
    }
    Some(Inp {
        icase: d[0] == b'1',
        mode: d[1] - b'0',
        literal: d[2] == b'1',
        prefix: f_str(c, 2).to_vec(),
        attrs: f_str(c, 3).to_vec(),
        specs,
        paths,
    })
}

fn defaults(i: &Inp) -> Defaults {
    Defaults {
        signature: if i.icase { MagicSignature::ICASE } else { MagicSignature::empty() },
        search_mode: match i.mode {
            1 => SearchMode::PathAwareGlob,
            2 => SearchMode::Literal,
            _ => SearchMode::ShellGlob,
        },
        literal: i.literal,
    }
}

fn perr(e: &gix_pathspec::parse::Error) -> &'static str {
    use gix_pathspec::parse::Error::*;
    match e {
        EmptyString => "EmptyString",
        InvalidKeyword { .. } => "InvalidKeyword",
        Unimplemented { .. } => "Unimplemented",
        MissingClosingParenthesis => "MissingClosingParenthesis",
        InvalidAttribute { .. } => "InvalidAttribute",
        InvalidAttributeValue { .. } => "InvalidAttributeValue",
        TrailingEscapeCharacter => "TrailingEscapeCharacter",
        EmptyAttribute => "EmptyAttribute",
        MultipleAttributeSpecifications => "MultipleAttributeSpecifications",
        IncompatibleSearchModes => "IncompatibleSearchModes",
    }
}

fn mode_num(m: SearchMode) -> u8 {
    match m {
        SearchMode::ShellGlob => 0,
        SearchMode::Literal => 1,
        SearchMode::PathAwareGlob => 2,
    }
}

fn show_pattern(p: &gix_pathspec::Pattern) -> String {
    let attrs: Vec<String> = p.attributes.iter().map(|a| a.as_ref().to_string()).collect();
    format!(
        "{}/{}/{}/{}/{}/{}",
        p.signature.bits(),
        mode_num(p.search_mode),
        p.is_nil() as u8,
        p.prefix_directory().len(),
        hexs(p.path()),
        hexs(attrs.join(" ").as_bytes())
    )
}

/// Result of running the implementation: Err(transcript) for the rejecting outcomes.
struct Gix {
    search: Search,
    parsed: Vec<String>,
}

fn build(i: &Inp) -> Result<Gix, String> {
    let d = defaults(i);
    let mut pats = Vec::new();
    let mut parsed = Vec::new();
    for (k, s) in i.specs.iter().enumerate() {
        match parse(s, d) {
            Ok(p) => {
                parsed.push(format!("{}|{}", show_pattern(&p), hexs(&p.to_bstring())));
                pats.push(p)
            }
            Err(e) => return Err(format!("perr {} {}", k, perr(&e))),
        }
    }
    if pats.iter().any(|p| p.path().first() == Some(&b'/')) {
        return Err("abs".into());
    }
    let prefix = Path::new(std::ffi::OsStr::from_bytes(&i.prefix));
    match Search::from_specs(pats, Some(prefix), Path::new("/r")) {
        Ok(search) => Ok(Gix { search, parsed }),
        Err(gix_pathspec::normalize::Error::AbsolutePathOutsideOfWorktree { .. }) => {
            Err("nerr AbsolutePathOutsideOfWorktree".into())
        }
        Err(gix_pathspec::normalize::Error::OutsideOfWorktree { .. }) => Err("nerr OutsideOfWorktree".into()),
    }
}

struct Attrs {
    search: gix_attributes::Search,
    collection: gix_attributes::search::MetadataCollection,
}
fn attrs_of(i: &Inp) -> Attrs {
    let mut collection = gix_attributes::search::MetadataCollection::default();
    let mut search = gix_attributes::Search::default();
    search.add_patterns_buffer(
        b"[attr]binary -diff -merge -text",
        "[builtin]".into(),
        None,
        &mut collection,
        true,
    );
    if !i.attrs.is_empty() {
        search.add_patterns_buffer(&i.attrs, ".gitattributes".into(), None, &mut collection, true);
    }
    Attrs { search, collection }
}

/// one letter per path: how it matched
fn matches(g: &mut Gix, a: &Attrs, i: &Inp) -> (String, Vec<bool>) {
    let mut out = String::new();
    let mut sel = Vec::new();
    for (is_dir, p) in &i.paths {
        let m = g.search.pattern_matching_relative_path(
            p.as_bstr(),
            Some(*is_dir),
            &mut |rela: &BStr, case, is_dir, o: &mut gix_attributes::search::Outcome| {
                o.initialize(&a.collection);
                a.search.pattern_matching_relative_path(rela, case, Some(is_dir), o)
            },
        );
        match m {
            None => {
                out.push_str(" N");
                sel.push(false)
            }
            Some(m) => {
                use gix_pathspec::search::MatchKind::*;
                let k = match m.kind {
                    Always => 'A',
                    Prefix => 'P',
                    WildcardMatch => 'W',
                    Verbatim => 'V',
                };
                out.push_str(&format!(" {}{}{}", k, m.sequence_number, if m.is_excluded() { "x" } else { "" }));
                sel.push(!m.is_excluded());
            }
        }
    }
    (out, sel)
}

fn imp(c: &Case) -> String {
    let Some(i) = decode(c) else { return "?".into() };
    if i.specs.iter().any(|s| s.find(b"attr").is_some()) {
        return "attr".into(); // attribute magic is outside the model; prop() judges these cases with real git
    }
    let mut g = match build(&i) {
        Ok(g) => g,
        Err(e) => return e,
    };
    let a = attrs_of(&i);
    let pats: Vec<String> = g.search.patterns().map(show_pattern).collect();
    let cp = hexs(g.search.common_prefix());
    let (m, _) = matches(&mut g, &a, &i);
    format!("ok parsed=[{}] pats=[{}] cp={} m={}", g.parsed.join(";"), pats.join(";"), cp, m.trim())
}

// ------------------------------------------------------------------------------------------------
// real git
// ------------------------------------------------------------------------------------------------
fn scratch() -> std::path::PathBuf {
    static CTR: std::sync::atomic::AtomicU64 = std::sync::atomic::AtomicU64::new(0);
    let k = CTR.fetch_add(1, std::sync::atomic::Ordering::SeqCst);
    let base = if Path::new("/dev/shm").is_dir() { Path::new("/dev/shm").to_path_buf() } else { std::env::temp_dir() };
    base.join(format!("gixv-c39-{}-{}", std::process::id(), k))
}

fn git_applicable(i: &Inp) -> bool {
    if i.specs.iter().any(|s| s.contains(&0)) || i.attrs.contains(&0) {
        return false;
    }
    if i.prefix.contains(&0) {
        return false;
    }
    i.paths.iter().all(|(_, p)| !p.contains(&0))
}

/// `git ls-files --full-name -z -- <specs>` from the prefix directory; None = git died (exit code != 0)
fn run_git(i: &Inp) -> Option<Vec<bool>> {
    use std::io::Write as _;
    use std::process::{Command, Stdio};
    let d = scratch();
    let _ = std::fs::remove_dir_all(&d);
    std::fs::create_dir_all(d.join(".git/objects")).unwrap();
    std::fs::create_dir_all(d.join(".git/refs")).unwrap();
    std::fs::write(d.join(".git/HEAD"), "ref: refs/heads/main\n").unwrap();
    let cwd = d.join(std::ffi::OsStr::from_bytes(&i.prefix));
    std::fs::create_dir_all(&cwd).unwrap();
    if !i.attrs.is_empty() {
        std::fs::write(d.join(".gitattributes"), &i.attrs).unwrap();
    }
    let envs = |cmd: &mut Command| {
        cmd.env_remove("GIT_DIR")
            .env_remove("GIT_WORK_TREE")
            .env_remove("GIT_INDEX_FILE")
            .env("GIT_CONFIG_NOSYSTEM", "1")
            .env("GIT_CONFIG_GLOBAL", "/dev/null")
            .env("GIT_ATTR_NOSYSTEM", "1")
            .env("HOME", &d)
            .env("LC_ALL", "C");
    };
    let mut info = Vec::new();
    for (is_dir, p) in &i.paths {
        info.extend_from_slice(if *is_dir { b"160000 " } else { b"100644 " });
        info.extend_from_slice(b"e69de29bb2d1d6434b8b29ae775ad8c2e48c5391\t");
        info.extend_from_slice(p);
        info.push(0);
    }
    let mut cmd = Command::new("git");
    envs(&mut cmd);
    let mut child = cmd
        .current_dir(&d)
        .args(["update-index", "-z", "--index-info"])
        .stdin(Stdio::piped())
        .stdout(Stdio::null())
        .stderr(Stdio::piped())
        .spawn()
        .expect("spawn git");
    child.stdin.take().unwrap().write_all(&info).unwrap();
    let o = child.wait_with_output().unwrap();
    if !o.status.success() {
        let _ = std::fs::remove_dir_all(&d);
        panic!("update-index failed: {}", String::from_utf8_lossy(&o.stderr));
    }
    let mut cmd = Command::new("git");
    envs(&mut cmd);
    if i.icase {
        cmd.env("GIT_ICASE_PATHSPECS", "1");
    }
    if i.mode == 1 {
        cmd.env("GIT_GLOB_PATHSPECS", "1");
    }
    if i.mode == 2 {
        cmd.env("GIT_NOGLOB_PATHSPECS", "1");
    }
    if i.literal {
        cmd.env("GIT_LITERAL_PATHSPECS", "1");
    }
    cmd.current_dir(&cwd).args(["ls-files", "--full-name", "-z", "--"]);
    for s in &i.specs {
        cmd.arg(std::ffi::OsStr::from_bytes(s));
    }
    let o = cmd.stdin(Stdio::null()).output().expect("git ls-files");
    let _ = std::fs::remove_dir_all(&d);
    if !o.status.success() {
        return None;
    }
    let listed: Vec<&[u8]> = o.stdout.split(|b| *b == 0).filter(|s| !s.is_empty()).collect();
    Some(i.paths.iter().map(|(_, p)| listed.contains(&p.as_slice())).collect())
}

fn bits(v: &[bool]) -> String {
    v.iter().map(|b| if *b { '1' } else { '0' }).collect()
}

fn git(c: &Case) -> String {
    let Some(i) = decode(c) else { return "-".into() };
    if !git_applicable(&i) {
        return "-".into();
    }
    if let Ok(items) = gitref::parse_pathspec(&globals(&i), &prefix_slash(&i), &i.specs, true) {
        if gitref::ls_files_offset_quirk(&items) || items.iter().any(|it| it.abs || it.magic & gitref::ATTR != 0) {
            return "-".into();
        }
    }
    if std::env::var_os("GIXV_C39_ORACLE").is_some() {
        // debugging aid: print the Rust oracle's answer instead of asking git
        return match oracle(&i).0 {
            Want::Dies => "err".into(),
            Want::Sel(v) => format!("sel {}", bits(&v)),
            Want::Quirk | Want::Abs => "-".into(),
        };
    }
    match run_git(&i) {
        None => "err".into(),
        Some(v) => format!("sel {}", bits(&v)),
    }
}

// ------------------------------------------------------------------------------------------------
// the property
// ------------------------------------------------------------------------------------------------
fn globals(i: &Inp) -> gitref::Globals {
    gitref::Globals { literal: i.literal, glob: i.mode == 1, noglob: i.mode == 2, icase: i.icase }
}
fn prefix_slash(i: &Inp) -> Vec<u8> {
    let mut p = i.prefix.clone();
    if !p.is_empty() {
        p.push(b'/');
    }
    p
}

/// What git selects according to the oracle (None = git dies); attribute items are judged by real git.
enum Want {
    Abs,
    Dies,
    Sel(Vec<bool>),
    Quirk,
}
fn oracle(i: &Inp) -> (Want, Option<Vec<gitref::Item>>) {
    let items = match gitref::parse_pathspec(&globals(i), &prefix_slash(i), &i.specs, true) {
        Err(()) => return (Want::Dies, None),
        Ok(it) => it,
    };
    if items.iter().any(|it| it.abs) {
        return (Want::Abs, Some(items));
    }
    if items.iter().any(|it| it.magic & gitref::ATTR != 0) {
        if gitref::ls_files_offset_quirk(&items) {
            return (Want::Quirk, Some(items));
        }
        return match run_git(i) {
            None => (Want::Dies, Some(items)),
            Some(v) => (Want::Sel(v), Some(items)),
        };
    }
    let sel = i
        .paths
        .iter()
        .map(|(d, p)| gitref::match_pathspec(&items, p, *d, &mut |_, _| true))
        .collect();
    (Want::Sel(sel), Some(items))
}

/// The classes of inputs on which gix is known to differ from `git ls-files` (findings.txt / NOTES.md),
/// decided from the input alone (through git's own parse of it).
fn known_class(i: &Inp, items: Option<&[gitref::Item]>) -> Option<&'static str> {
    use gitref::*;
    let n = i.specs.len();
    // the raw path part of every spec as git sees it
    let g = globals(i);
    if i.prefix.iter().any(|b| b"*?[\\".contains(b)) {
        return Some("glob-characters-in-prefix");
    }
    if items.is_none()
        && i.prefix.is_empty()
        && i.specs.iter().any(|s| element_path(&g, s).map_or(false, |(_, p)| p.starts_with(b"./")))
    {
        return Some("curdir-then-parent-accepted");
    }
    if !g.literal
        && i.specs.iter().any(|s| {
            s.first() == Some(&b':') && s.get(1) != Some(&b'(') && element_path(&g, s).map_or(false, |(_, p)| p.starts_with(b"("))
        })
    {
        return Some("long-magic-after-short-magic");
    }
    if let Some(items) = items {
        let user = &items[..n.min(items.len())];
        if !i.prefix.is_empty() && (user.iter().all(|it| it.magic & EXCLUDE != 0) || i.specs.iter().any(|s| s == b":")) {
            return Some("ls-files-prefers-cwd");
        }
        for (it, s) in user.iter().zip(&i.specs) {
            if it.magic & FROMTOP != 0 {
                let mut z = 0;
                if normalize_path_copy_len(&it.m, &mut z).as_deref() != Some(&it.m[..]) {
                    return Some("top-is-not-normalized-by-git");
                }
            }
            if g.literal && s.ends_with(b"/") {
                return Some("literal-default-trailing-slash");
            }
            if it.magic & ICASE != 0
                && it.magic & FROMTOP == 0
                && !i.prefix.is_empty()
                && element_path(&g, s).map_or(false, |(_, p)| p.split(|b| *b == b'/').any(|c| c == b".."))
                && it.m.len() > i.prefix.len() + 1
            {
                return Some("icase-prefix-miscounted-after-dotdot");
            }
            if it.magic & ICASE != 0 && it.magic & FROMTOP == 0 && !i.prefix.is_empty() && it.m.len() <= i.prefix.len() + 1 {
                return Some("icase-prefix-is-whole-path");
            }
            if it.magic & FROMTOP == 0 && !it.m.is_empty() && it.m.ends_with(b"/") && !s.ends_with(b"/") {
                return Some("trailing-dot-component-means-directory");
            }
            if it.magic & GLOB != 0
                && it.nowildcard_len > 0
                && it.m[it.nowildcard_len..].starts_with(b"**")
                && it.m[it.nowildcard_len - 1] != b'/'
            {
                return Some("glob-starstar-after-literal-prefix");
            }
            if it.magic & ICASE != 0 && it.magic & LITERAL == 0 && it.nowildcard_len < it.m.len() {
                // inherited from wildmatch (C36): under case folding gix lower-cases the whole pattern
                let w = &it.m[it.nowildcard_len..];
                if w.contains(&b'[') && (w.iter().any(u8::is_ascii_uppercase) || w.contains(&b'-')) {
                    return Some("icase-bracket-upper-or-range");
                }
                if w.windows(2).any(|x| x[0] == b'\\' && x[1].is_ascii_uppercase()) {
                    return Some("icase-escaped-upper");
                }
            }
            if i.paths.iter().any(|(d, _)| *d) && it.m.ends_with(b"/") && it.nowildcard_len < it.m.len() {
                return Some("wildcard-with-trailing-slash-vs-gitlink");
            }
        }
    }
    None
}

fn prop(c: &Case) -> Verdict {
    let Some(i) = decode(c) else { return Verdict::ok(false, "?") };
    if !git_applicable(&i) {
        return Verdict::ok(false, "nul-byte");
    }
    let (want, items) = oracle(&i);
    let got = build(&i);
    let shape = {
        let mut s = String::new();
        if i.specs.len() > 1 {
            s.push_str("multi-");
        }
        if !i.prefix.is_empty() {
            s.push_str("prefix-");
        }
        if let Some(items) = &items {
            let m = items.iter().fold(0, |a, it| a | it.magic);
            for (bit, name) in [(gitref::FROMTOP, "top-"), (gitref::ICASE, "icase-"), (gitref::EXCLUDE, "excl-"), (gitref::GLOB, "glob-"), (gitref::LITERAL, "lit-"), (gitref::ATTR, "attr-")] {
                if m & bit != 0 {
                    s.push_str(name);
                }
            }
            if items.iter().any(|it| it.nowildcard_len < it.m.len()) {
                s.push_str("wild-");
            }
        }
        s
    };
    let kc = known_class(&i, items.as_deref());
    let fail = |default: &str, detail: String| Verdict::fail(kc.unwrap_or(default), detail);
    match (got, want) {
        (_, Want::Quirk) => Verdict::ok(false, "git-ls-files-offset-quirk"),
        (_, Want::Abs) => Verdict::ok(false, "absolute-path-out-of-scope"),
        (Err(e), Want::Dies) => {
            Verdict::ok(false, format!("both-reject-{}", e.split(' ').nth(2).or(e.split(' ').nth(1)).unwrap_or("abs")))
        }
        (Err(e), Want::Sel(w)) => {
            if e == "abs" {
                return Verdict::ok(false, "absolute-path-out-of-scope");
            }
            fail("gix-rejects-git-accepts", format!("gix {} git {}", e, bits(&w)))
        }
        (Ok(mut g), w) => {
            let a = attrs_of(&i);
            let (_, sel) = matches(&mut g, &a, &i);
            match w {
                Want::Dies => fail("git-rejects-gix-accepts", format!("gix {} git died", bits(&sel))),
                Want::Sel(w) => {
                    if sel == w {
                        let nt = !i.paths.is_empty();
                        let some = w.iter().any(|b| *b);
                        let none = w.iter().any(|b| !*b);
                        Verdict::ok(nt, format!("{}{}", shape, if some && none { "some" } else if some { "all" } else { "none" }))
                    } else {
                        fail("selection-differs-from-git", format!("gix {} git {}", bits(&sel), bits(&w)))
                    }
                }
                Want::Quirk | Want::Abs => unreachable!(),
            }
        }
    }
}

// ------------------------------------------------------------------------------------------------
// generator
// ------------------------------------------------------------------------------------------------
const COMPS: &[&[u8]] = &[
    b"a", b"b", b"d", b"A", b"D", b"x", b"ab", b"aB", b"Ab", b"ax", b"xa", b"a.c", b"b.c", b"a*", b"*", b"a?", b"[a]", b"a[b]",
    b"\\a", b"a\\*", b"a b", b" ", b".a", b"a.", b"...", b"-a", b":a", b"a:", b"!a", b"^a", b"(a)", b"a,b", b"\xc3\xa4",
];

fn gen_paths(rng: &mut Rng) -> Vec<(bool, Vec<u8>)> {
    let n = rng.range(1, 8) as usize;
    let small: &[&[u8]] = &COMPS[..rng.range(4, COMPS.len() as i64) as usize];
    let mut out: Vec<(bool, Vec<u8>)> = Vec::new();
    let mut tries = 0;
    while out.len() < n && tries < 50 {
        tries += 1;
        let depth = *rng.pick(&[1, 1, 2, 2, 2, 3, 4]);
        let mut p = Vec::new();
        for k in 0..depth {
            if k > 0 {
                p.push(b'/');
            }
            // common leading directories: reuse the first components of an existing path
            if k + 1 < depth && !out.is_empty() && rng.chance(1, 2) {
                let q = &rng.pick(&out).1.clone();
                let comps: Vec<&[u8]> = q.split(|b| *b == b'/').collect();
                if k < comps.len() {
                    p.extend_from_slice(comps[k]);
                    continue;
                }
            }
            p.extend_from_slice(*rng.pick(small));
        }
        let conflict = out.iter().any(|(_, q)| {
            q == &p
                || (q.len() > p.len() && q.starts_with(&p) && q[p.len()] == b'/')
                || (p.len() > q.len() && p.starts_with(q) && p[q.len()] == b'/')
        });
        if conflict {
            continue;
        }
        out.push((rng.chance(1, 10), p));
    }
    out.sort_by(|a, b| a.1.cmp(&b.1));
    out
}

fn flip_case(rng: &mut Rng, s: &mut [u8]) {
    for b in s.iter_mut() {
        if b.is_ascii_alphabetic() && rng.chance(1, 2) {
            *b ^= 0x20;
        }
    }
}

const ATTR_SPECS: &[&[u8]] = &[
    b"attr:x", b"attr:-x", b"attr:!x", b"attr:x=1", b"attr:x=v", b"attr:x y", b"attr:x -y", b"attr:!x !y", b"attr:y", b"attr:x=a\\,b",
    b"attr:binary", b"attr:-diff", b"attr:text", b"attr:x=", b"attr:", b"attr", b"attr:-", b"attr:x=a b", b"attr:x=\\", b"attr:x=a;",
    b"attr:x,attr:y",
];
const ATTR_LINES: &[&[u8]] = &[
    b"* x\n", b"* -x\n", b"* !x\n", b"* x=1\n", b"* x=v y\n", b"* x -y\n", b"a* x\n", b"d/* x=1\n", b"* x\na* -x\n", b"* y\n", b"* binary\n",
    b"* x=a,b\n", b"*.c x\n", b"* x\n* !x\n", b"d/ x\n", b"* x=1\nd/** x=v\n",
];

fn gen_magic(rng: &mut Rng) -> Vec<u8> {
    match rng.below(10) {
        0..=3 => {
            // long form
            let mut kws: Vec<Vec<u8>> = Vec::new();
            for (kw, num, den) in [
                (&b"top"[..], 1, 4),
                (b"icase", 1, 3),
                (b"exclude", 1, 4),
                (b"glob", 1, 4),
                (b"literal", 1, 6),
            ] {
                if rng.chance(num, den) {
                    kws.push(kw.to_vec());
                }
            }
            if rng.chance(1, 6) {
                kws.push((*rng.pick(ATTR_SPECS)).to_vec());
            }
            if rng.chance(1, 30) {
                kws.push(rng.pick(&[&b"bogus"[..], b"", b"TOP", b" top"]).to_vec());
            }
            // shuffle a bit
            if kws.len() > 1 && rng.chance(1, 2) {
                let k = rng.below(kws.len() as u64) as usize;
                kws.swap(0, k);
            }
            let mut s = b":(".to_vec();
            s.extend_from_slice(&kws.join(&b","[..]));
            if !rng.chance(1, 40) {
                s.push(b')');
            }
            s
        }
        4..=6 => {
            let mut s = b":".to_vec();
            for _ in 0..rng.range(0, 3) {
                s.push(*rng.pick(b"/!^/!"));
            }
            if rng.chance(1, 3) {
                s.push(b':');
            }
            if rng.chance(1, 40) {
                s.push(*rng.pick(b"#%&@_~-"));
            }
            s
        }
        _ => Vec::new(),
    }
}

fn gen_spec(rng: &mut Rng, paths: &[(bool, Vec<u8>)], prefix: &[u8]) -> Vec<u8> {
    let mut s = gen_magic(rng);
    let top = s.starts_with(b":(") && s.find(b"top").is_some() || (!s.starts_with(b":(") && s.contains(&b'/'));
    // the path part, derived from an index path
    let (_, p) = rng.pick(paths).clone();
    let comps: Vec<Vec<u8>> = p.split(|b| *b == b'/').map(|c| c.to_vec()).collect();
    let mut take = rng.range(1, comps.len() as i64) as usize;
    if rng.chance(1, 2) {
        take = comps.len();
    }
    let mut cs: Vec<Vec<u8>> = comps[..take].to_vec();
    // relative to the prefix?
    let pc: Vec<Vec<u8>> = if prefix.is_empty() { vec![] } else { prefix.split(|b| *b == b'/').map(|c| c.to_vec()).collect() };
    let mut rel_ok = false;
    if !top && !pc.is_empty() {
        if cs.len() >= pc.len() && cs[..pc.len()] == pc[..] && rng.chance(3, 4) {
            cs = cs[pc.len()..].to_vec();
            rel_ok = true;
        } else if rng.chance(3, 4) {
            let mut up: Vec<Vec<u8>> = vec![b"..".to_vec(); pc.len()];
            up.extend(cs);
            cs = up;
            rel_ok = true;
        }
    }
    let _ = rel_ok;
    // mutate components
    for c in cs.iter_mut() {
        if c == b".." {
            continue;
        }
        match rng.below(24) {
            0 => *c = b"*".to_vec(),
            1 => *c = b"**".to_vec(),
            2 => {
                if !c.is_empty() {
                    let k = rng.below(c.len() as u64) as usize;
                    c[k] = b'?';
                }
            }
            3 => {
                if !c.is_empty() {
                    let k = rng.below(c.len() as u64) as usize;
                    let b = c[k];
                    let mut n = c[..k].to_vec();
                    n.extend_from_slice(&[b'[', b, b.to_ascii_uppercase(), b']']);
                    n.extend_from_slice(&c[k + 1..]);
                    *c = n;
                }
            }
            4 => {
                if !c.is_empty() {
                    let k = rng.below(c.len() as u64 + 1) as usize;
                    c.truncate(k);
                    c.push(b'*');
                }
            }
            5 => {
                let mut n = b"*".to_vec();
                let k = rng.below(c.len() as u64 + 1) as usize;
                n.extend_from_slice(&c[k..]);
                *c = n;
            }
            6 | 7 => flip_case(rng, c),
            8 => {
                // escape glob characters
                let mut n = Vec::new();
                for b in c.iter() {
                    if b"*?[\\".contains(b) {
                        n.push(b'\\');
                    }
                    n.push(*b);
                }
                *c = n;
            }
            9 => {
                if !c.is_empty() {
                    let k = rng.below(c.len() as u64) as usize;
                    c.truncate(k);
                }
            }
            _ => {}
        }
    }
    let mut path = cs.join(&b"/"[..]);
    // noise: ./, //, x/../, trailing slash, trailing /.
    match rng.below(20) {
        0 => path = [&b"./"[..], &path].concat(),
        1 => path = path.replace("/", "//"),
        2 => path = [&b"x/../"[..], &path].concat(),
        3 => path = path.replace("/", "/./"),
        4 => path.extend_from_slice(b"/."),
        5 => path.extend_from_slice(b"/.."),
        6 => path = [&b"../"[..], &path].concat(),
        7 => path.extend_from_slice(b"//"),
        8 => path = b".".to_vec(),
        9 => path = Vec::new(),
        10 => path = b"..".to_vec(),
        11 => path.extend_from_slice(b"/*"),
        12 => path.extend_from_slice(b"/**"),
        _ => {}
    }
    if rng.chance(1, 5) && !path.is_empty() {
        path.push(b'/');
    }
    s.extend_from_slice(&path);
    s
}

fn mk(defaults: &str, prefix: &[u8], attrs: &[u8], specs: &[&[u8]], paths: &[(bool, Vec<u8>)]) -> Case {
    let mut c = vec![tag("ps"), tag(defaults), prefix.to_vec(), attrs.to_vec(), num(specs.len())];
    for s in specs {
        c.push(s.to_vec());
    }
    for (d, p) in paths {
        let mut f = vec![if *d { b'd' } else { b'f' }];
        f.extend_from_slice(p);
        c.push(f);
    }
    c
}

fn fixed_paths() -> Vec<(bool, Vec<u8>)> {
    [
        (false, &b"D/x"[..]),
        (false, b"a"),
        (false, b"a*"),
        (false, b"ab"),
        (false, b"b.c"),
        (false, b"d/Ab"),
        (false, b"d/a"),
        (false, b"d/e/a"),
        (false, b"d/e/b.c"),
        (false, b"dir/f"),
        (true, b"sub"),
        (true, b"d/sm"),
    ]
    .iter()
    .map(|(d, p)| (*d, p.to_vec()))
    .collect()
}

fn gen(rng: &mut Rng, n: usize) -> Vec<Case> {
    let mut out = Vec::new();
    // ---- boundary block: hand-picked specs over a fixed path set, from three prefixes
    let fp = fixed_paths();
    let specs: &[&[u8]] = &[
        b"a", b"a/", b"d", b"d/", b"d//", b"d/e", b"d/e/", b"d/e/a", b"D", b"sub", b"sub/", b"d/sm/", b"su*/", b"a*", b"a\\*", b"*", b"*a",
        b"*.c", b"d/*", b"d/*/", b"d/**", b"**/a", b"?", b"[ad]", b"d/[aA]*", b".", b"./", b"./a", b"..", b"../", b"../a", b"../..", b"./..",
        b"d/..", b"d/../a", b"d/./a", b"d//a", b"x/../a", b"", b":", b"::", b":/", b":!", b":^", b":/a", b":!a", b":^a", b":/!a", b":!/d", b"::a",
        b":(top)", b":(top)a", b":(top)./a", b":(top)d/../a", b":(top)d//a", b":(top)../a", b":(icase)A", b":(icase)d/ab", b":(icase)D/X",
        b":(glob)*", b":(glob)**", b":(glob)**/a", b":(glob)d/**", b":(glob)d/**/a", b":(glob)d/*", b":(glob)*.c", b":(glob)**/*.c",
        b":(literal)a*", b":(literal)*", b":(literal,glob)a", b":(glob,literal)a", b":(exclude)a", b":(exclude)d", b":(exclude)*a",
        b":(exclude,icase)D", b":(top,exclude)d/e", b":()a", b":(", b":(top", b":(bogus)a", b":(top,)a", b":(,top)a", b":(attr:x)", b":(attr:x)a",
        b":(attr:!x)", b":(attr:-x)d", b":(attr:x=1)", b":(attr:x,attr:y)", b":(attr:)", b":(attr)", b":#a", b":-a", b": a", b":a", b"dir", b"di",
        b"dir/", b"dir/f/", b"ab/", b"a*/", b"*/", b"d/e/*", b"d/e/b.?", b"D/x", b"d/x", b":(icase)d/x",
    ];
    for prefix in [&b""[..], b"d", b"d/e"] {
        for s in specs {
            out.push(mk("000", prefix, b"* x\na* -x y=1\n", &[s], &fp));
        }
    }
    // pairs with excludes, defaults
    let pairs: &[(&[u8], &[u8])] = &[
        (b"d", b":!d/e"),
        (b":!d/e", b"d"),
        (b"*", b":(exclude)*.c"),
        (b":^a", b":!d"),
        (b"a", b"ab"),
        (b"d/a", b"d/e/a"),
        (b"d/e/a", b":(icase)d/E/a"),
        (b":(icase)d/a", b":(icase)d/Ab"),
        (b":(exclude)a", b":(exclude,icase)AB"),
        (b"d/", b":(exclude,glob)d/*/a"),
        (b"a", b""),
        (b"a", b":(bogus)"),
    ];
    for prefix in [&b""[..], b"d"] {
        for (a, b) in pairs {
            out.push(mk("000", prefix, b"", &[a, b], &fp));
        }
    }
    for d in ["100", "010", "020", "001", "110", "120"] {
        for s in [&b"A"[..], b"a*", b"D/*", b"d/*", b":(glob)d/*", b":(literal)a*", b":(top)a", b":!a", b"a/", b"d/", b"*", b":(icase)a"] {
            out.push(mk(d, b"", b"", &[s], &fp));
            out.push(mk(d, b"d", b"", &[s], &fp));
        }
    }
    // ---- random
    while out.len() < n {
        let paths = gen_paths(rng);
        let prefix: Vec<u8> = if rng.chance(3, 5) {
            Vec::new()
        } else {
            // a leading directory of some path (or an unrelated one)
            let (_, p) = rng.pick(&paths).clone();
            let slashes: Vec<usize> = p.iter().enumerate().filter(|(_, b)| **b == b'/').map(|(k, _)| k).collect();
            if slashes.is_empty() || rng.chance(1, 10) {
                if rng.chance(1, 2) { b"d".to_vec() } else { Vec::new() }
            } else {
                p[..*rng.pick(&slashes)].to_vec()
            }
        };
        let ns = if rng.chance(1, 60) { 0 } else { *rng.pick(&[1, 1, 1, 2, 2, 3]) };
        let specs: Vec<Vec<u8>> = (0..ns).map(|_| gen_spec(rng, &paths, &prefix)).collect();
        let has_attr = specs.iter().any(|s| s.find(b"attr").is_some());
        let attrs: Vec<u8> = if has_attr && rng.chance(5, 6) || rng.chance(1, 20) { rng.pick(ATTR_LINES).to_vec() } else { Vec::new() };
        let defaults = match rng.below(20) {
            0 => "100",
            1 => "010",
            2 => "020",
            3 => "001",
            4 => "110",
            5 => "120",
            _ => "000",
        };
        let sr: Vec<&[u8]> = specs.iter().map(|s| s.as_slice()).collect();
        out.push(mk(defaults, &prefix, &attrs, &sr, &paths));
    }
    out.truncate(n.max(1));
    out
}

fn main() {
    main_with(Harness { gen, imp, prop, git: Some(git), deadline: std::time::Duration::from_secs(180) });
}
