//! Independent oracle: a plain transcription of git 2.39.5 pathspec.c (parse_pathspec, init_pathspec_item,
//! parse_short_magic / parse_long_magic, get_global_magic), path.c / setup.c (prefix_path_gently,
//! normalize_path_copy_len), dir.c (match_pathspec_item, git_fnmatch, do_match_pathspec,
//! match_pathspec_with_flags, common_prefix_len) and wildmatch.c (dowild).
//! C strings are byte slices without NUL; reads one past the end yield 0.

pub const LITERAL: u32 = 1;
pub const GLOB: u32 = 2;
pub const ICASE: u32 = 4;
pub const EXCLUDE: u32 = 8;
pub const FROMTOP: u32 = 16;
pub const ATTR: u32 = 32;

#[derive(Debug, Clone, PartialEq)]
pub enum AttrMode {
    Set,
    Unset,
    Unspecified,
    Value(Vec<u8>),
}

#[derive(Debug, Clone)]
pub struct Item {
    pub magic: u32,
    pub m: Vec<u8>, // item->match
    pub prefix: usize,
    pub nowildcard_len: usize,
    pub onestar: bool,
    pub attrs: Vec<(Vec<u8>, AttrMode)>,
    /// the path part starts with a slash (absolute paths are out of scope)
    pub abs: bool,
}

pub struct Globals {
    pub literal: bool,
    pub glob: bool,
    pub noglob: bool,
    pub icase: bool,
}

fn is_pathspec_magic(c: u8) -> bool {
    b"!\"#%&',-/:;<=>@_`~".contains(&c)
}
pub fn simple_length(m: &[u8]) -> usize {
    m.iter().position(|c| is_glob_special(*c)).unwrap_or(m.len())
}

fn strcspn_escaped(s: &[u8], stop: &[u8]) -> usize {
    let mut i = 0;
    while i < s.len() {
        if s[i] == b'\\' && i + 1 < s.len() {
            i += 2;
            continue;
        }
        if stop.contains(&s[i]) {
            break;
        }
        i += 1;
    }
    i.min(s.len())
}

fn attr_name_valid(name: &[u8]) -> bool {
    if name.is_empty() || name[0] == b'-' {
        return false;
    }
    name.iter().all(|ch| matches!(ch, b'-' | b'.' | b'_' | b'0'..=b'9' | b'a'..=b'z' | b'A'..=b'Z'))
}

fn parse_attr_match(item: &mut Item, seen_attr: &mut bool, value: &[u8]) -> Result<(), ()> {
    if *seen_attr {
        return Err(()); // Only one 'attr:' specification is allowed.
    }
    if value.is_empty() {
        return Err(()); // attr spec must not be empty
    }
    *seen_attr = true;
    for attr in value.split(|b| *b == b' ').filter(|s| !s.is_empty()) {
        let (name, mode) = match attr[0] {
            b'!' => (&attr[1..], AttrMode::Unspecified),
            b'-' => (&attr[1..], AttrMode::Unset),
            _ => {
                let l = attr.iter().position(|b| *b == b'=').unwrap_or(attr.len());
                if l == attr.len() {
                    (attr, AttrMode::Set)
                } else {
                    let v = &attr[l + 1..];
                    let mut out = Vec::new();
                    let mut k = 0;
                    while k < v.len() {
                        if v[k] == b'\\' {
                            if k + 1 >= v.len() {
                                return Err(());
                            }
                            k += 1;
                        }
                        let ch = v[k];
                        if !(ch.is_ascii_alphanumeric() || b",-_".contains(&ch)) {
                            return Err(());
                        }
                        out.push(ch);
                        k += 1;
                    }
                    (&attr[..l], AttrMode::Value(out))
                }
            }
        };
        if !attr_name_valid(name) {
            return Err(());
        }
        item.attrs.push((name.to_vec(), mode));
    }
    Ok(())
}

/// returns the offset of `copyfrom` in elt
fn parse_long_magic(magic: &mut u32, item: &mut Item, elt: &[u8]) -> Result<usize, ()> {
    let mut pos = 2;
    let mut seen_attr = false;
    while pos < elt.len() && elt[pos] != b')' {
        let len = strcspn_escaped(&elt[pos..], b",)");
        let nextat = if at(elt, pos + len) == b',' { pos + len + 1 } else { pos + len };
        if len == 0 {
            pos = nextat;
            continue;
        }
        let kw = &elt[pos..pos + len];
        if kw.starts_with(b"prefix:") {
            return Err(()); // internal magic, out of scope: treated as a rejection
        }
        if kw.starts_with(b"attr:") {
            parse_attr_match(item, &mut seen_attr, &kw[5..])?;
            *magic |= ATTR;
            pos = nextat;
            continue;
        }
        let bit = match kw {
            b"literal" => LITERAL,
            b"glob" => GLOB,
            b"icase" => ICASE,
            b"exclude" => EXCLUDE,
            b"top" => FROMTOP,
            b"attr" => ATTR,
            _ => return Err(()),
        };
        *magic |= bit;
        pos = nextat;
    }
    if at(elt, pos) != b')' {
        return Err(());
    }
    Ok(pos + 1)
}

fn parse_short_magic(magic: &mut u32, elt: &[u8]) -> Result<usize, ()> {
    let mut pos = 1;
    while pos < elt.len() && elt[pos] != b':' {
        let ch = elt[pos];
        if ch == b'^' {
            *magic |= EXCLUDE;
            pos += 1;
            continue;
        }
        if !is_pathspec_magic(ch) {
            break;
        }
        match ch {
            b'!' => *magic |= EXCLUDE,
            b'/' => *magic |= FROMTOP,
            _ => return Err(()),
        }
        pos += 1;
    }
    if at(elt, pos) == b':' {
        pos += 1;
    }
    Ok(pos)
}

fn get_global_magic(g: &Globals, element_magic: u32) -> Result<u32, ()> {
    let mut gm = 0;
    if g.literal {
        gm |= LITERAL;
    }
    if g.glob && element_magic & LITERAL == 0 {
        gm |= GLOB;
    }
    if g.glob && g.noglob {
        return Err(());
    }
    if g.icase {
        gm |= ICASE;
    }
    if gm & LITERAL != 0 && gm & !LITERAL != 0 {
        return Err(());
    }
    if g.noglob && element_magic & GLOB == 0 {
        gm |= LITERAL;
    }
    Ok(gm)
}

/// normalize_path_copy_len for relative paths; None = leaves the repository
pub fn normalize_path_copy_len(src: &[u8], prefix_len: &mut usize) -> Option<Vec<u8>> {
    let mut dst: Vec<u8> = Vec::new();
    let mut s = 0;
    while at(src, s) == b'/' {
        s += 1;
    }
    loop {
        let c = at(src, s);
        let mut up_one = false;
        if c == b'.' {
            if at(src, s + 1) == 0 {
                s += 1;
            } else if at(src, s + 1) == b'/' {
                s += 2;
                while at(src, s) == b'/' {
                    s += 1;
                }
                continue;
            } else if at(src, s + 1) == b'.' {
                if at(src, s + 2) == 0 {
                    s += 2;
                    up_one = true;
                } else if at(src, s + 2) == b'/' {
                    s += 3;
                    while at(src, s) == b'/' {
                        s += 1;
                    }
                    up_one = true;
                }
            }
        }
        if !up_one {
            let mut c;
            loop {
                c = at(src, s);
                s += 1;
                if c == 0 || c == b'/' {
                    break;
                }
                dst.push(c);
            }
            if c == b'/' {
                dst.push(b'/');
                while at(src, s) == b'/' {
                    s += 1;
                }
            } else {
                break;
            }
            continue;
        }
        // up_one
        if dst.is_empty() || dst.len() - 1 == 0 {
            // dst-- ; if (dst <= dst0) return -1
            return None;
        }
        dst.pop();
        while !dst.is_empty() && *dst.last().unwrap() != b'/' {
            dst.pop();
        }
        if *prefix_len > dst.len() {
            *prefix_len = dst.len();
        }
        if at(src, s) == 0 && s >= src.len() {
            // the for(;;) continues: next iteration reads c = 0, copies nothing and breaks
        }
    }
    Some(dst)
}

/// the magic bits and the path part (`copyfrom`) of one element, None if its magic does not parse
pub fn element_path(g: &Globals, elt: &[u8]) -> Option<(u32, Vec<u8>)> {
    let mut item = Item { magic: 0, m: vec![], prefix: 0, nowildcard_len: 0, onestar: false, attrs: vec![], abs: false };
    let mut em = 0;
    let off = if at(elt, 0) != b':' || g.literal {
        0
    } else if at(elt, 1) == b'(' {
        parse_long_magic(&mut em, &mut item, elt).ok()?
    } else {
        parse_short_magic(&mut em, elt).ok()?
    };
    Some((em, elt[off..].to_vec()))
}

fn init_item(g: &Globals, prefix: &[u8], elt: &[u8]) -> Result<Item, ()> {
    let mut item = Item { magic: 0, m: vec![], prefix: 0, nowildcard_len: 0, onestar: false, attrs: vec![], abs: false };
    let mut element_magic = 0;
    let copyfrom = if at(elt, 0) != b':' || g.literal {
        0
    } else if at(elt, 1) == b'(' {
        parse_long_magic(&mut element_magic, &mut item, elt)?
    } else {
        parse_short_magic(&mut element_magic, elt)?
    };
    let magic = element_magic | get_global_magic(g, element_magic)?;
    item.magic = magic;
    if magic & LITERAL != 0 && magic & GLOB != 0 {
        return Err(());
    }
    let copyfrom = &elt[copyfrom..];
    item.abs = copyfrom.first() == Some(&b'/');
    let mut prefixlen = prefix.len();
    if magic & FROMTOP != 0 {
        item.m = copyfrom.to_vec();
        prefixlen = 0;
    } else {
        let mut s = prefix.to_vec();
        s.extend_from_slice(copyfrom);
        item.m = normalize_path_copy_len(&s, &mut prefixlen).ok_or(())?;
    }
    item.prefix = prefixlen;
    let len = item.m.len();
    if magic & LITERAL != 0 {
        item.nowildcard_len = len;
    } else {
        item.nowildcard_len = simple_length(&item.m);
        if item.nowildcard_len < prefixlen {
            item.nowildcard_len = prefixlen;
        }
    }
    if magic & GLOB == 0
        && item.nowildcard_len < len
        && item.m[item.nowildcard_len] == b'*'
        && simple_length(&item.m[item.nowildcard_len + 1..]) == len - item.nowildcard_len - 1
    {
        item.onestar = true;
    }
    if item.nowildcard_len > len || item.prefix > len {
        return Err(()); // BUG() in git
    }
    Ok(item)
}

/// parse_pathspec(…, PATHSPEC_PREFER_CWD or PREFER_FULL …); `prefix` is the cwd with a trailing slash or empty.
/// Err = git dies.
pub fn parse_pathspec(g: &Globals, prefix: &[u8], specs: &[Vec<u8>], prefer_cwd: bool) -> Result<Vec<Item>, ()> {
    let mut items = Vec::new();
    let mut nr_exclude = 0;
    if specs.is_empty() && !prefix.is_empty() && prefer_cwd {
        items.push(Item {
            magic: 0,
            m: prefix.to_vec(),
            prefix: prefix.len(),
            nowildcard_len: prefix.len(),
            onestar: false,
            attrs: vec![],
            abs: false,
        });
        return Ok(items);
    }
    for s in specs {
        if s.is_empty() {
            return Err(());
        }
        let it = init_item(g, prefix, s)?;
        if it.magic & EXCLUDE != 0 {
            nr_exclude += 1;
        }
        items.push(it);
    }
    if nr_exclude == specs.len() && !specs.is_empty() {
        let p = if prefer_cwd { prefix } else { &[][..] };
        items.push(init_item(g, p, b"")?);
    }
    Ok(items)
}

// ---- wildmatch.c (copied from the C36 harness, where it is validated against git check-ignore) ----
const WM_NOMATCH: i32 = 1;
const WM_MATCH: i32 = 0;
const WM_ABORT_ALL: i32 = -1;
const WM_ABORT_TO_STARSTAR: i32 = -2;
const WM_CASEFOLD: u32 = 1;
const WM_PATHNAME: u32 = 2;

fn at(s: &[u8], i: usize) -> u8 {
    s.get(i).copied().unwrap_or(0)
}
// git-compat-util.h sane_ctype
fn g_isspace(c: u8) -> bool {
    matches!(c, b' ' | b'\t' | b'\n' | b'\r')
}
fn g_isdigit(c: u8) -> bool {
    c.is_ascii_digit()
}
fn g_isalpha(c: u8) -> bool {
    c.is_ascii_alphabetic()
}
fn g_isalnum(c: u8) -> bool {
    g_isalpha(c) || g_isdigit(c)
}
fn g_isprint(c: u8) -> bool {
    (0x20..=0x7e).contains(&c)
}
fn g_islower(c: u8) -> bool {
    c.is_ascii_lowercase()
}
fn g_isupper(c: u8) -> bool {
    c.is_ascii_uppercase()
}
fn g_iscntrl(c: u8) -> bool {
    c < 0x20 || c == 0x7f
}
fn g_ispunct(c: u8) -> bool {
    matches!(c, 33..=47 | 58..=64 | 91..=96 | 123..=126)
}
fn g_isxdigit(c: u8) -> bool {
    c.is_ascii_hexdigit()
}
fn g_isblank(c: u8) -> bool {
    c == b' ' || c == b'\t'
}
fn g_isgraph(c: u8) -> bool {
    (0x21..=0x7e).contains(&c)
}
fn is_glob_special(c: u8) -> bool {
    matches!(c, b'*' | b'?' | b'[' | b'\\')
}
fn strchr_slash(s: &[u8], from: usize) -> Option<usize> {
    (from..s.len()).find(|&i| s[i] == b'/')
}

/// `pat` is the C variable `pattern` (start of this call's pattern), `p`/`text` are indices.
fn dowild(pfull: &[u8], pstart: usize, tfull: &[u8], tstart: usize, flags: u32) -> i32 {
    let mut p = pstart;
    let mut text = tstart;
    let pattern = pstart;
    loop {
        let mut p_ch = at(pfull, p);
        if p_ch == 0 {
            break;
        }
        let mut t_ch = at(tfull, text);
        if t_ch == 0 && p_ch != b'*' {
            return WM_ABORT_ALL;
        }
        if flags & WM_CASEFOLD != 0 && g_isupper(t_ch) {
            t_ch = t_ch.to_ascii_lowercase();
        }
        if flags & WM_CASEFOLD != 0 && g_isupper(p_ch) {
            p_ch = p_ch.to_ascii_lowercase();
        }
        match p_ch {
            b'?' => {
                if flags & WM_PATHNAME != 0 && t_ch == b'/' {
                    return WM_NOMATCH;
                }
            }
            b'*' => {
                let match_slash;
                p += 1;
                if at(pfull, p) == b'*' {
                    let prev_p: isize = p as isize - 2;
                    loop {
                        p += 1;
                        if at(pfull, p) != b'*' {
                            break;
                        }
                    }
                    if flags & WM_PATHNAME == 0 {
                        match_slash = true;
                    } else if (prev_p < pattern as isize || at(pfull, prev_p as usize) == b'/')
                        && (at(pfull, p) == 0
                            || at(pfull, p) == b'/'
                            || (at(pfull, p) == b'\\' && at(pfull, p + 1) == b'/'))
                    {
                        if at(pfull, p) == b'/' && dowild(pfull, p + 1, tfull, text, flags) == WM_MATCH {
                            return WM_MATCH;
                        }
                        match_slash = true;
                    } else {
                        match_slash = false;
                    }
                } else {
                    match_slash = flags & WM_PATHNAME == 0;
                }
                if at(pfull, p) == 0 {
                    if !match_slash && strchr_slash(tfull, text).is_some() {
                        return WM_NOMATCH;
                    }
                    return WM_MATCH;
                } else if !match_slash && at(pfull, p) == b'/' {
                    match strchr_slash(tfull, text) {
                        None => return WM_NOMATCH,
                        Some(s) => text = s,
                    }
                    // break out of the switch: the for loop's increment consumes the slash
                    text += 1;
                    p += 1;
                    continue;
                }
                loop {
                    if t_ch == 0 {
                        break;
                    }
                    if !is_glob_special(at(pfull, p)) {
                        p_ch = at(pfull, p);
                        if flags & WM_CASEFOLD != 0 && g_isupper(p_ch) {
                            p_ch = p_ch.to_ascii_lowercase();
                        }
                        loop {
                            t_ch = at(tfull, text);
                            if !(t_ch != 0 && (match_slash || t_ch != b'/')) {
                                break;
                            }
                            if flags & WM_CASEFOLD != 0 && g_isupper(t_ch) {
                                t_ch = t_ch.to_ascii_lowercase();
                            }
                            if t_ch == p_ch {
                                break;
                            }
                            text += 1;
                        }
                        if t_ch != p_ch {
                            return WM_NOMATCH;
                        }
                    }
                    let matched = dowild(pfull, p, tfull, text, flags);
                    if matched != WM_NOMATCH {
                        if !match_slash || matched != WM_ABORT_TO_STARSTAR {
                            return matched;
                        }
                    } else if !match_slash && t_ch == b'/' {
                        return WM_ABORT_TO_STARSTAR;
                    }
                    text += 1;
                    t_ch = at(tfull, text);
                }
                return WM_ABORT_ALL;
            }
            b'[' => {
                p += 1;
                p_ch = at(pfull, p);
                if p_ch == b'^' {
                    p_ch = b'!';
                }
                let negated = p_ch == b'!';
                if negated {
                    p += 1;
                    p_ch = at(pfull, p);
                }
                let mut prev_ch: u8 = 0;
                let mut matched = false;
                loop {
                    // do { ... } while (prev_ch = p_ch, (p_ch = *++p) != ']');
                    'body: {
                        if p_ch == 0 {
                            return WM_ABORT_ALL;
                        }
                        if p_ch == b'\\' {
                            p += 1;
                            p_ch = at(pfull, p);
                            if p_ch == 0 {
                                return WM_ABORT_ALL;
                            }
                            if t_ch == p_ch {
                                matched = true;
                            }
                        } else if p_ch == b'-' && prev_ch != 0 && at(pfull, p + 1) != 0 && at(pfull, p + 1) != b']' {
                            p += 1;
                            p_ch = at(pfull, p);
                            if p_ch == b'\\' {
                                p += 1;
                                p_ch = at(pfull, p);
                                if p_ch == 0 {
                                    return WM_ABORT_ALL;
                                }
                            }
                            if t_ch <= p_ch && t_ch >= prev_ch {
                                matched = true;
                            } else if flags & WM_CASEFOLD != 0 && g_islower(t_ch) {
                                let t_ch_upper = t_ch.to_ascii_uppercase();
                                if t_ch_upper <= p_ch && t_ch_upper >= prev_ch {
                                    matched = true;
                                }
                            }
                            p_ch = 0;
                        } else if p_ch == b'[' && at(pfull, p + 1) == b':' {
                            p += 2;
                            let s = p;
                            loop {
                                p_ch = at(pfull, p);
                                if p_ch == 0 || p_ch == b']' {
                                    break;
                                }
                                p += 1;
                            }
                            if p_ch == 0 {
                                return WM_ABORT_ALL;
                            }
                            let i: isize = p as isize - s as isize - 1;
                            if i < 0 || at(pfull, p - 1) != b':' {
                                p = s - 2;
                                p_ch = b'[';
                                if t_ch == p_ch {
                                    matched = true;
                                }
                                break 'body; // `continue` of the do-while: goes to the condition
                            }
                            let class = &pfull[s..s + i as usize];
                            let hit = match class {
                                b"alnum" => g_isalnum(t_ch),
                                b"alpha" => g_isalpha(t_ch),
                                b"blank" => g_isblank(t_ch),
                                b"cntrl" => g_iscntrl(t_ch),
                                b"digit" => g_isdigit(t_ch),
                                b"graph" => g_isgraph(t_ch),
                                b"lower" => g_islower(t_ch),
                                b"print" => g_isprint(t_ch),
                                b"punct" => g_ispunct(t_ch),
                                b"space" => g_isspace(t_ch),
                                b"upper" => g_isupper(t_ch) || (flags & WM_CASEFOLD != 0 && g_islower(t_ch)),
                                b"xdigit" => g_isxdigit(t_ch),
                                _ => return WM_ABORT_ALL,
                            };
                            if hit {
                                matched = true;
                            }
                            p_ch = 0;
                        } else if t_ch == p_ch {
                            matched = true;
                        }
                    }
                    prev_ch = p_ch;
                    p += 1;
                    p_ch = at(pfull, p);
                    if p_ch == b']' {
                        break;
                    }
                }
                if matched == negated || (flags & WM_PATHNAME != 0 && t_ch == b'/') {
                    return WM_NOMATCH;
                }
            }
            _ => {
                if p_ch == b'\\' {
                    p += 1;
                    p_ch = at(pfull, p);
                }
                if t_ch != p_ch {
                    return WM_NOMATCH;
                }
            }
        }
        text += 1;
        p += 1;
    }
    if at(tfull, text) != 0 {
        WM_NOMATCH
    } else {
        WM_MATCH
    }
}

pub fn wildmatch(p: &[u8], t: &[u8], flags: u32) -> bool {
    dowild(p, 0, t, 0, flags) == WM_MATCH
}

// ---- dir.c ---------------------------------------------------------------------------------------
fn ps_eq_n(item: &Item, a: &[u8], b: &[u8], n: usize) -> bool {
    // !ps_strncmp(item, a, b, n) for NUL-free strings
    for k in 0..n {
        let (x, y) = (at(a, k), at(b, k));
        let same = if item.magic & ICASE != 0 { x.to_ascii_lowercase() == y.to_ascii_lowercase() } else { x == y };
        if !same {
            return false;
        }
        if x == 0 {
            return true;
        }
    }
    true
}

fn git_fnmatch(item: &Item, pattern: &[u8], string: &[u8], prefix: usize) -> bool {
    let (mut pattern, mut string) = (pattern, string);
    if prefix > 0 {
        if !ps_eq_n(item, pattern, string, prefix) {
            return false;
        }
        pattern = &pattern[prefix.min(pattern.len())..];
        string = &string[prefix.min(string.len())..];
    }
    if item.onestar {
        let pat = &pattern[1.min(pattern.len())..];
        if string.len() < pat.len() {
            return false;
        }
        let tail = &string[string.len() - pat.len()..];
        return ps_eq_n(item, pat, tail, pat.len().max(tail.len()) + 1);
    }
    let cf = if item.magic & ICASE != 0 { WM_CASEFOLD } else { 0 };
    if item.magic & GLOB != 0 {
        wildmatch(pattern, string, WM_PATHNAME | cf)
    } else {
        wildmatch(pattern, string, cf)
    }
}

pub const MATCHED_RECURSIVELY: i32 = 1;
pub const MATCHED_FNMATCH: i32 = 2;
pub const MATCHED_EXACTLY: i32 = 3;

/// match_pathspec_item with prefix = 0 and flags = DO_MATCH_DIRECTORY iff is_dir
pub fn match_pathspec_item(
    item: &Item,
    name: &[u8],
    is_dir: bool,
    attr_ok: &mut dyn FnMut(&Item, &[u8]) -> bool,
) -> i32 {
    let m = &item.m[..];
    let (matchlen, namelen) = (m.len(), name.len());
    if item.prefix > 0 && item.magic & ICASE != 0 {
        // strncmp(item->match, name, item->prefix) != 0
        for k in 0..item.prefix {
            if at(m, k) != at(name, k) {
                return 0;
            }
        }
    }
    if !item.attrs.is_empty() && !attr_ok(item, name) {
        return 0;
    }
    if m.is_empty() {
        return MATCHED_RECURSIVELY;
    }
    if matchlen <= namelen && ps_eq_n(item, m, name, matchlen) {
        if matchlen == namelen {
            return MATCHED_EXACTLY;
        }
        if m[matchlen - 1] == b'/' || name[matchlen] == b'/' {
            return MATCHED_RECURSIVELY;
        }
    } else if is_dir && m[matchlen - 1] == b'/' && namelen == matchlen - 1 && ps_eq_n(item, m, name, namelen) {
        return MATCHED_EXACTLY;
    }
    if item.nowildcard_len < item.m.len() && git_fnmatch(item, m, name, item.nowildcard_len) {
        return MATCHED_FNMATCH;
    }
    0
}

fn do_match(items: &[Item], name: &[u8], is_dir: bool, exclude: bool, attr_ok: &mut dyn FnMut(&Item, &[u8]) -> bool) -> i32 {
    let mut retval = 0;
    for it in items.iter().rev() {
        if (it.magic & EXCLUDE != 0) != exclude {
            continue;
        }
        let how = match_pathspec_item(it, name, is_dir, attr_ok);
        if how > retval {
            retval = how;
        }
    }
    retval
}

pub fn match_pathspec(items: &[Item], name: &[u8], is_dir: bool, attr_ok: &mut dyn FnMut(&Item, &[u8]) -> bool) -> bool {
    if items.is_empty() {
        return true;
    }
    let positive = do_match(items, name, is_dir, false, attr_ok);
    let any_exclude = items.iter().any(|i| i.magic & EXCLUDE != 0);
    if !any_exclude || positive == 0 {
        return positive != 0;
    }
    do_match(items, name, is_dir, true, attr_ok) == 0
}

/// dir.c common_prefix_len
pub fn common_prefix_len(items: &[Item]) -> usize {
    let mut max = 0usize;
    for (n, it) in items.iter().enumerate() {
        if it.magic & EXCLUDE != 0 {
            continue;
        }
        let item_len = if it.magic & ICASE != 0 { it.prefix } else { it.nowildcard_len };
        let (mut i, mut len) = (0usize, 0usize);
        while i < item_len && (n == 0 || i < max) {
            let c = at(&it.m, i);
            if c != at(&items[0].m, i) {
                break;
            }
            if c == b'/' {
                len = i + 1;
            }
            i += 1;
        }
        if n == 0 || len < max {
            max = len;
            if max == 0 {
                break;
            }
        }
    }
    max
}

/// ls-files skips the first common_prefix_len bytes of every item, also of exclude items that do not
/// start with the common prefix (out-of-bounds reads included): on such inputs real git is not a reference.
pub fn ls_files_offset_quirk(items: &[Item]) -> bool {
    let n = common_prefix_len(items);
    if n == 0 {
        return false;
    }
    let first = items.iter().find(|i| i.magic & EXCLUDE == 0).map(|i| i.m[..n.min(i.m.len())].to_vec());
    let cp = match first {
        Some(c) => c,
        None => return false,
    };
    items.iter().any(|i| i.magic & EXCLUDE != 0 && !i.m.starts_with(&cp))
}
