//! Case generator for C07. All randomness from the given Rng; `git` (when present) is used as a
//! deterministic function to turn random base/target pairs into real deltas.
use gixv_common::*;
use std::io::Write;
use std::process::{Command, Stdio};

fn hdr(kind: u64, size: u64, dist: u64, id: Vec<u8>, po: u64, hl: u64, tail: Vec<u8>) -> Case {
    vec![tag("hdr"), num(kind), num(size), num(dist), id, num(po), num(hl), tail]
}

/// value with a uniformly chosen bit width, so that every encoded length is equally likely
fn wide(rng: &mut Rng) -> u64 {
    let bits = rng.range(0, 64) as u32;
    if bits == 0 {
        0
    } else if bits == 64 {
        rng.next()
    } else {
        let top = 1u64 << (bits - 1);
        top | (rng.next() & (top - 1))
    }
}

fn size_boundaries() -> Vec<u64> {
    let mut v = vec![0u64, 1, 2, 14, 15, 16, 17, u64::MAX, u64::MAX - 1, 1 << 63, (1 << 63) - 1, (1 << 63) + 1];
    // the size field grows by one byte at 2^(4+7k)
    for k in 0..=8u32 {
        let t = 1u64 << (4 + 7 * k);
        v.extend_from_slice(&[t - 1, t, t + 1]);
    }
    for k in 1..=9u32 {
        let t = 1u64 << (7 * k);
        v.extend_from_slice(&[t - 1, t, t + 1]);
    }
    v
}

fn dist_boundaries() -> Vec<u64> {
    let mut v = vec![0u64, 1, 2, 126, 127, 128, 129, u64::MAX, u64::MAX - 1, 1 << 63, (1 << 63) - 1, (1 << 63) + 1];
    // the offset encoding grows by one byte at 128 + 128^2 + ... + 128^k
    let mut t: u128 = 0;
    for k in 1..=9u32 {
        t += 1u128 << (7 * k);
        if t + 1 < (1u128 << 64) {
            let t = t as u64;
            v.extend_from_slice(&[t - 2, t - 1, t, t + 1]);
        }
        let p = 1u64 << (7 * k);
        v.extend_from_slice(&[p - 1, p, p + 1]);
    }
    v
}

fn cont_bytes(rng: &mut Rng, n: usize) -> Vec<u8> {
    // bytes that are mostly continuation bytes, so that long varints appear
    (0..n)
        .map(|_| match rng.below(8) {
            0 => rng.next() as u8 & 0x7f,
            1 => 0x80,
            2 => 0xff,
            _ => rng.next() as u8 | 0x80,
        })
        .collect()
}

fn cb(rng: &mut Rng, lo: i64, hi: i64) -> Vec<u8> {
    let n = rng.range(lo, hi) as usize;
    cont_bytes(rng, n)
}
fn rb(rng: &mut Rng, lo: i64, hi: i64) -> Vec<u8> {
    let n = rng.range(lo, hi) as usize;
    rng.bytes(n)
}

pub fn varint(mut v: u64) -> Vec<u8> {
    let mut out = Vec::new();
    loop {
        let b = (v & 0x7f) as u8;
        v >>= 7;
        if v == 0 {
            out.push(b);
            return out;
        }
        out.push(b | 0x80);
    }
}

#[derive(Clone)]
enum Ins {
    Copy(u64, u64),
    Insert(Vec<u8>),
}

fn encode_ins(rng: &mut Rng, i: &Ins, canonical: bool, out: &mut Vec<u8>) {
    match i {
        Ins::Copy(ofs, len) => {
            let l = if *len == 0x10000 && (canonical || rng.chance(1, 2)) { 0 } else { *len };
            let bytes = [
                (*ofs & 0xff) as u8,
                (*ofs >> 8 & 0xff) as u8,
                (*ofs >> 16 & 0xff) as u8,
                (*ofs >> 24 & 0xff) as u8,
                (l & 0xff) as u8,
                (l >> 8 & 0xff) as u8,
                (l >> 16 & 0xff) as u8,
            ];
            let mut cmd = 0x80u8;
            let mut tail = Vec::new();
            for (k, b) in bytes.iter().enumerate() {
                if *b != 0 || (!canonical && rng.chance(1, 4)) {
                    cmd |= 1 << k;
                    tail.push(*b);
                }
            }
            out.push(cmd);
            out.extend_from_slice(&tail);
        }
        Ins::Insert(d) => {
            out.push(d.len() as u8);
            out.extend_from_slice(d);
        }
    }
}

fn eval_len(is: &[Ins]) -> u64 {
    is.iter().map(|i| match i { Ins::Copy(_, l) => *l, Ins::Insert(d) => d.len() as u64 }).sum()
}

fn random_base(rng: &mut Rng) -> Vec<u8> {
    let n = match rng.below(40) {
        0 => rng.range(65536, 70000) as usize,
        1 => 0,
        2..=5 => rng.range(250, 600) as usize,
        _ => rng.range(1, 80) as usize,
    };
    // cheap for big buffers: repeat a short random pattern with a counter
    if n > 1000 {
        let pat = rng.bytes(37);
        (0..n).map(|i| pat[i % 37] ^ (i / 37) as u8).collect()
    } else {
        rng.bytes(n)
    }
}

fn delta_case(rng: &mut Rng) -> Case {
    let base = random_base(rng);
    let bl = base.len() as u64;
    let n_ins = if rng.chance(1, 12) { 0 } else { rng.range(1, 6) as usize };
    let mut is = Vec::new();
    for _ in 0..n_ins {
        if rng.chance(3, 5) && bl > 0 {
            let (ofs, len) = match rng.below(12) {
                0 => (0, bl),
                1 if bl >= 0x10000 => (rng.below(bl - 0xffff), 0x10000),
                2 if bl >= 0x10000 => (rng.range(0x10000, bl as i64 - 1) as u64, rng.range(1, 300) as u64),
                3 => (rng.below(bl), rng.range(1, 400) as u64), // may be out of range
                4 if bl > 256 => (256 * rng.below(bl / 256), 1 + rng.below(bl % 256 + 1)),
                _ => {
                    let ofs = rng.below(bl);
                    (ofs, 1 + rng.below(bl - ofs))
                }
            };
            is.push(Ins::Copy(ofs, len.max(1)));
        } else {
            let n = match rng.below(10) {
                0 => 127,
                1 => 1,
                _ => rng.range(1, 20) as usize,
            };
            is.push(Ins::Insert(rng.bytes(n)));
        }
    }
    let canonical = rng.chance(2, 3);
    let mut body = Vec::new();
    for i in &is {
        encode_ins(rng, i, canonical, &mut body);
    }
    let mut rsz = eval_len(&is);
    let mut bsz = bl;
    match rng.below(24) {
        0 => rsz += 1,
        1 if rsz > 0 => rsz -= 1,
        2 if rsz > 0 => rsz = rng.below(rsz),
        3 => bsz += 1,
        _ => {}
    }
    let mut delta = varint(bsz);
    delta.extend_from_slice(&varint(rsz));
    delta.extend_from_slice(&body);
    // malformed stream
    match rng.below(24) {
        0 if !delta.is_empty() => {
            let i = rng.below(delta.len() as u64) as usize;
            delta[i] ^= 1 << rng.below(8);
        }
        1 if !delta.is_empty() => {
            let n = rng.below(delta.len() as u64) as usize;
            delta.truncate(n);
        }
        2 => delta.push(0),
        3 => {
            // a copy command with every flag set and random operands
            delta.push(0xff);
            delta.extend_from_slice(&rb(rng, 0, 7));
        }
        4 => {
            let at = rng.below(delta.len() as u64 + 1) as usize;
            delta.insert(at, rng.next() as u8);
        }
        _ => {}
    }
    vec![tag("ap"), base, delta]
}

// ---- deltas made by git --------------------------------------------------------------------

fn git(dir: &std::path::Path, args: &[&str], stdin: &[u8]) -> Option<Vec<u8>> {
    let mut ch = Command::new("/usr/bin/git")
        .args(args)
        .current_dir(dir)
        .env("HOME", dir)
        .env("GIT_CONFIG_NOSYSTEM", "1")
        .env("GIT_CONFIG_GLOBAL", "/dev/null")
        .env_remove("GIT_DIR")
        .stdin(Stdio::piped())
        .stdout(Stdio::piped())
        .stderr(Stdio::null())
        .spawn()
        .ok()?;
    {
        let mut si = ch.stdin.take()?;
        let _ = si.write_all(stdin);
    }
    let out = ch.wait_with_output().ok()?;
    if out.status.success() { Some(out.stdout) } else { None }
}

fn textish(rng: &mut Rng, lines: usize) -> Vec<Vec<u8>> {
    (0..lines)
        .map(|_| {
            let mut l = rng.word(b"abcdefghij klmnop", 3, 60);
            l.push(b'\n');
            l
        })
        .collect()
}

fn mutate(rng: &mut Rng, base: &[Vec<u8>]) -> Vec<Vec<u8>> {
    let mut t: Vec<Vec<u8>> = base.to_vec();
    let edits = rng.range(1, 6);
    for _ in 0..edits {
        let n = t.len();
        match rng.below(5) {
            0 if n > 0 => {
                let i = rng.below(n as u64) as usize;
                t[i] = textish(rng, 1).pop().unwrap();
            }
            1 if n > 1 => {
                let i = rng.below(n as u64) as usize;
                let k = (rng.below(4) as usize + 1).min(n - i);
                t.drain(i..i + k);
            }
            2 => {
                let i = rng.below(n as u64 + 1) as usize;
                let k = rng.range(1, 5) as usize;
                let add = textish(rng, k);
                for (j, l) in add.into_iter().enumerate() {
                    t.insert(i + j, l);
                }
            }
            3 if n > 4 => {
                // move a block
                let i = rng.below(n as u64 - 2) as usize;
                let k = (rng.below(6) as usize + 1).min(n - i);
                let blk: Vec<_> = t.drain(i..i + k).collect();
                let at = rng.below(t.len() as u64 + 1) as usize;
                for (j, l) in blk.into_iter().enumerate() {
                    t.insert(at + j, l);
                }
            }
            _ if n > 0 => {
                // duplicate a block at the end
                let i = rng.below(n as u64) as usize;
                let k = (rng.below(8) as usize + 1).min(n - i);
                let blk: Vec<_> = t[i..i + k].to_vec();
                t.extend(blk);
            }
            _ => {}
        }
    }
    t
}

/// naive reader of a pack entry header: (type, size, header length, ofs distance)
fn read_entry(p: &[u8], at: usize) -> Option<(u8, u64, usize)> {
    let mut i = at;
    let mut c = *p.get(i)?;
    i += 1;
    let ty = (c >> 4) & 7;
    let mut size = u64::from(c & 15);
    let mut sh = 4;
    while c & 0x80 != 0 {
        c = *p.get(i)?;
        i += 1;
        size |= u64::from(c & 0x7f) << sh;
        sh += 7;
    }
    if ty == 6 {
        loop {
            let c = *p.get(i)?;
            i += 1;
            if c & 0x80 == 0 {
                break;
            }
        }
    } else if ty == 7 {
        i += 20;
    }
    Some((ty, size, i - at))
}

fn inflate_at(p: &[u8], at: usize, size: usize) -> Option<(Vec<u8>, usize)> {
    let mut out = vec![0u8; size];
    let mut inf = gix_features::zlib::Inflate::default();
    let (_st, cin, cout) = inf.once(p.get(at..)?, &mut out).ok()?;
    if cout != size {
        return None;
    }
    Some((out, cin))
}

fn git_delta_cases(rng: &mut Rng, pairs: usize) -> Vec<Case> {
    let mut out = Vec::new();
    if pairs == 0 || !std::path::Path::new("/usr/bin/git").exists() {
        return out;
    }
    let dir = std::env::temp_dir().join(format!("gixv-c07-gen-{}-{}", std::process::id(), rng.next()));
    if std::fs::create_dir_all(&dir).is_err() {
        return out;
    }
    let run = |rng: &mut Rng, out: &mut Vec<Case>| -> Option<()> {
        git(&dir, &["init", "-q", "."], b"")?;
        // all blobs first, hashed by one process
        let mut blobs: Vec<(Vec<u8>, Vec<u8>)> = Vec::new();
        let mut paths = String::new();
        for k in 0..pairs {
            let lines = match rng.below(12) {
                0 => rng.range(1500, 2500) as usize, // > 64 KiB: copies of 0x10000, offsets above 0xffff
                1 => rng.range(1, 3) as usize,
                _ => rng.range(4, 120) as usize,
            };
            let a = textish(rng, lines);
            let b = mutate(rng, &a);
            let (a, b): (Vec<u8>, Vec<u8>) = (a.concat(), b.concat());
            std::fs::write(dir.join(format!("a{k}")), &a).ok()?;
            std::fs::write(dir.join(format!("b{k}")), &b).ok()?;
            paths.push_str(&format!("a{k}\nb{k}\n"));
            blobs.push((a, b));
        }
        let shas = String::from_utf8(git(&dir, &["hash-object", "-w", "--stdin-paths"], paths.as_bytes())?).ok()?;
        let shas: Vec<&str> = shas.lines().collect();
        if shas.len() != 2 * pairs {
            return None;
        }
        for (k, (a, b)) in blobs.into_iter().enumerate() {
            let (sa, sb) = (format!("{}\n", shas[2 * k]), format!("{}\n", shas[2 * k + 1]));
            if sa == sb {
                continue;
            }
            let list = format!("{sa}{sb}");
            let ofs = if k % 2 == 0 { "--delta-base-offset" } else { "--window=10" };
            let pack = git(&dir, &["pack-objects", "--stdout", "-q", "--threads=1", "--depth=5", ofs], list.as_bytes())?;
            // two entries; the second may be a delta against the first
            let (t1, s1, h1) = read_entry(&pack, 12)?;
            if t1 != 3 {
                continue;
            }
            let (first, cin) = inflate_at(&pack, 12 + h1, s1 as usize)?;
            let at2 = 12 + h1 + cin;
            let (t2, s2, h2) = read_entry(&pack, at2)?;
            if t2 != 6 && t2 != 7 {
                continue;
            }
            let (delta, _) = inflate_at(&pack, at2 + h2, s2 as usize)?;
            let (base, target) = if first == a { (a, b) } else if first == b { (b, a) } else { continue };
            out.push(vec![tag("gd"), base, target, delta]);
        }
        Some(())
    };
    let _ = run(rng, &mut out);
    let _ = std::fs::remove_dir_all(&dir);
    out
}

pub fn gen(rng: &mut Rng, n: usize) -> Vec<Case> {
    let mut out: Vec<Case> = Vec::new();
    // ---- boundary block -------------------------------------------------------------------
    let sizes = size_boundaries();
    let dists = dist_boundaries();
    for (k, s) in sizes.iter().enumerate() {
        let id = rng.bytes(20);
        let d = dists[k % dists.len()];
        out.push(hdr(3, *s, 0, id.clone(), 12, 20, vec![]));
        out.push(hdr(6, *s, d, id.clone(), 1000, 20, vec![0x80]));
        out.push(hdr(7, *s, 0, id.clone(), 77, 20, vec![0xff, 0x01]));
        out.push(hdr(1 + (k as u64 % 4), *s, 0, id, 0, 20, vec![]));
    }
    for (k, d) in dists.iter().enumerate() {
        let s = sizes[(k * 7) % sizes.len()];
        out.push(hdr(6, s, *d, vec![], 5, 20, vec![]));
        out.push(hdr(6, 0, *d, vec![], 1 << 40, 20, vec![0x81, 0x00]));
    }
    // data_offset arithmetic at the top of u64
    for po in [u64::MAX, u64::MAX - 1, u64::MAX - 2, u64::MAX - 21, u64::MAX - 22, u64::MAX - 30] {
        out.push(hdr(3, 1, 0, vec![], po, 20, vec![]));
        out.push(hdr(7, 100, 0, rng.bytes(20), po, 20, vec![]));
        out.push(hdr(6, 1 << 20, u64::MAX, vec![], po, 20, vec![]));
    }
    // hash_len other than 20
    for hl in [0u64, 1, 19, 21, 32] {
        out.push(hdr(7, 5, 0, rng.bytes(20), 12, hl, rng.bytes(14)));
        out.push(hdr(7, 5, 0, rng.bytes(20), 12, hl, vec![]));
        out.push(hdr(3, 5, 0, vec![], 12, hl, vec![]));
    }
    // raw decodes: empty, bad types, truncated, over-long continuation chains
    out.push(vec![tag("dec"), vec![], num(0), num(20)]);
    for ty in 0..8u8 {
        out.push(vec![tag("dec"), vec![ty << 4 | 3], num(9), num(20)]);
        out.push(vec![tag("dec"), vec![0x80 | ty << 4 | 3], num(9), num(20)]);
        for k in [8usize, 9, 10, 11, 20] {
            let mut b = vec![0x80 | ty << 4 | 0xf];
            b.extend(std::iter::repeat(0xff).take(k));
            b.push(0x7f);
            b.extend_from_slice(&[0x81, 0x82, 0x03]);
            b.extend_from_slice(&rng.bytes(20));
            out.push(vec![tag("dec"), b, num(1), num(20)]);
        }
    }
    for k in 0..=13usize {
        for fill in [0x80u8, 0xff, 0x81] {
            let mut b: Vec<u8> = std::iter::repeat(fill).take(k).collect();
            out.push(vec![tag("leb"), b.clone()]);
            b.push(0x7f);
            out.push(vec![tag("leb"), b.clone()]);
            let mut e = vec![0x6a];
            e.extend_from_slice(&b);
            out.push(vec![tag("dec"), e, num(3), num(20)]);
            let mut d = b.clone();
            d.push(0x05);
            d.extend_from_slice(&b);
            out.push(vec![tag("dh"), d]);
        }
    }
    out.push(vec![tag("dh"), vec![]]);
    out.push(vec![tag("ap"), vec![], vec![]]);
    out.push(vec![tag("ap"), vec![], vec![0, 0]]);
    out.push(vec![tag("ap"), b"abc".to_vec(), vec![3, 3, 0x90, 3]]);
    out.push(vec![tag("ap"), b"abc".to_vec(), vec![3, 2, 0x90, 3]]); // silent truncation
    out.push(vec![tag("ap"), b"abc".to_vec(), vec![3, 4, 0x90, 3]]); // short: assert fails
    out.push(vec![tag("ap"), b"abc".to_vec(), vec![3, 1, 0]]);
    // large bases: copies of exactly 0x10000 bytes (size written as 0, or as 00 00 01), offsets above 0xffff
    {
        let pat = rng.bytes(41);
        let base: Vec<u8> = (0..65536 + 300).map(|i| pat[i % 41] ^ (i / 41) as u8).collect();
        let bl = base.len() as u64;
        let lists: Vec<Vec<Ins>> = vec![
            vec![Ins::Copy(0, 0x10000)],
            vec![Ins::Copy(300, 0x10000), Ins::Insert(b"x".to_vec())],
            vec![Ins::Copy(65536, 300), Ins::Copy(0xffff, 2), Ins::Copy(0x10000, 1)],
            vec![Ins::Copy(1, 0xffff), Ins::Copy(0, 0x10001), Ins::Copy(65700, 136)],
            vec![Ins::Insert(vec![7; 127]), Ins::Copy(0, bl)],
        ];
        for (k, is) in lists.iter().enumerate() {
            for canonical in [true, false] {
                let mut body = Vec::new();
                for i in is {
                    encode_ins(rng, i, canonical, &mut body);
                }
                let mut delta = varint(bl);
                delta.extend_from_slice(&varint(eval_len(is)));
                delta.extend_from_slice(&body);
                if k == 0 || canonical {
                    out.push(vec![tag("ap"), base.clone(), delta]);
                }
            }
        }
    }
    // ---- deltas made by git ------------------------------------------------------------------
    let pairs = (n / 40).min(1000);
    let mut gd = git_delta_cases(rng, pairs);
    out.append(&mut gd);
    // ---- random mixture -----------------------------------------------------------------------
    while out.len() < n {
        match rng.below(20) {
            0..=6 => {
                let kind = *rng.pick(&[1u64, 2, 3, 4, 6, 6, 6, 7, 7]);
                let size = if rng.chance(1, 6) { *rng.pick(&sizes) } else { wide(rng) };
                let dist = if rng.chance(1, 6) { *rng.pick(&dists) } else { wide(rng) };
                let po = match rng.below(10) {
                    0 => u64::MAX - rng.below(40),
                    1 => 0,
                    _ => rng.next() >> 16,
                };
                let hl = if rng.chance(1, 15) { *rng.pick(&[0u64, 19, 21, 32]) } else { 20 };
                let tail = if rng.chance(1, 2) { cb(rng, 0, 4) } else { vec![] };
                out.push(hdr(kind, size, dist, rng.bytes(20), po, hl, tail));
            }
            7..=8 => {
                // malformed / arbitrary header bytes
                let mut b = match rng.below(3) {
                    0 => rb(rng, 0, 30),
                    1 => {
                        let mut b = vec![rng.next() as u8 | 0x80];
                        b.extend(cb(rng, 0, 14));
                        b.extend(rb(rng, 0, 24));
                        b
                    }
                    _ => {
                        // a valid header, then damaged
                        let kind = *rng.pick(&[3u64, 6, 7]);
                        let mut b = super::git_header(kind, wide(rng), wide(rng), &rng.bytes(20));
                        match rng.below(3) {
                            0 => {
                                let n = rng.below(b.len() as u64) as usize;
                                b.truncate(n);
                            }
                            1 => {
                                let i = rng.below(b.len() as u64) as usize;
                                b[i] ^= 1 << rng.below(8);
                            }
                            _ => b.extend(rng.bytes(3)),
                        }
                        b
                    }
                };
                if rng.chance(1, 10) {
                    b.extend(rng.bytes(25));
                }
                let po = if rng.chance(1, 10) { u64::MAX - rng.below(30) } else { rng.next() >> 20 };
                let hl = if rng.chance(1, 10) { rng.below(34) } else { 20 };
                out.push(vec![tag("dec"), b, num(po), num(hl)]);
            }
            9..=10 => {
                let mut b = cb(rng, 0, 12);
                if rng.chance(4, 5) {
                    b.push(rng.next() as u8 & 0x7f);
                }
                if rng.chance(1, 3) {
                    b.extend(rng.bytes(2));
                }
                out.push(vec![tag("leb"), b]);
            }
            11 => {
                let mut d = if rng.chance(2, 3) { varint(wide(rng)) } else { cb(rng, 0, 12) };
                if rng.chance(2, 3) {
                    d.extend(varint(wide(rng)));
                } else {
                    d.extend(cb(rng, 0, 12));
                }
                d.extend(rb(rng, 0, 30));
                out.push(vec![tag("dh"), d]);
            }
            _ => out.push(delta_case(rng)),
        }
    }
    out.truncate(n.max(1));
    out
}
