//! C07 harness: pack entry header codec (Header::write_to, Entry::from_bytes / from_read,
//! gix_features::decode::{leb64, leb64_from_read}) and the delta interpreter
//! (data::delta::{decode_header_size, apply}, private, reached through File::decode_header and
//! File::decode_entry with an out-of-pack base).
use gix_pack::data::{self, entry::Header, Entry};
use gixv_common::*;
use std::io::{self, Read, Write};
use std::panic::{catch_unwind, AssertUnwindSafe};
use std::sync::atomic::{AtomicU64, Ordering};

const LIMIT: u64 = 300_000;

// ------------------------------------------------------------------------------------------
// helpers
// ------------------------------------------------------------------------------------------

fn guard(f: impl FnOnce() -> String) -> String {
    catch_unwind(AssertUnwindSafe(f)).unwrap_or_else(|_| "PANIC".into())
}

/// A reader that hands out one byte per call and reports `Interrupted` on every third call.
struct Trickle<'a> {
    data: &'a [u8],
    pos: usize,
    calls: usize,
}
impl Read for Trickle<'_> {
    fn read(&mut self, buf: &mut [u8]) -> io::Result<usize> {
        self.calls += 1;
        if self.calls % 3 == 0 {
            return Err(io::Error::new(io::ErrorKind::Interrupted, "again"));
        }
        if buf.is_empty() || self.pos >= self.data.len() {
            return Ok(0);
        }
        buf[0] = self.data[self.pos];
        self.pos += 1;
        Ok(1)
    }
}

fn header_of(kind: u64, dist: u64, id: &[u8]) -> Header {
    match kind {
        1 => Header::Commit,
        2 => Header::Tree,
        3 => Header::Blob,
        4 => Header::Tag,
        6 => Header::OfsDelta { base_distance: dist },
        _ => {
            let mut b = [0u8; 20];
            for (i, x) in id.iter().take(20).enumerate() {
                b[i] = *x;
            }
            Header::RefDelta { base_id: gix_hash::ObjectId::from_bytes_or_panic(&b) }
        }
    }
}

fn show_entry(e: &Entry) -> String {
    let (name, extra) = match e.header {
        Header::Commit => ("Commit", String::new()),
        Header::Tree => ("Tree", String::new()),
        Header::Blob => ("Blob", String::new()),
        Header::Tag => ("Tag", String::new()),
        Header::RefDelta { base_id } => ("RefDelta", format!(" {}", hexs(base_id.as_bytes()))),
        Header::OfsDelta { base_distance } => ("OfsDelta", format!(" {base_distance}")),
    };
    format!("{name} {} {}{extra}", e.decompressed_size, e.data_offset)
}

fn mem_decode(d: &[u8], po: u64, hl: usize) -> Result<Result<(Entry, u64), u8>, ()> {
    catch_unwind(AssertUnwindSafe(|| match Entry::from_bytes(d, po, hl) {
        Ok(e) => {
            let consumed = e.data_offset.wrapping_sub(po);
            let rem = (d.len() as u64).wrapping_sub(consumed);
            Ok((e, rem))
        }
        Err(e) => Err(e.type_id),
    }))
    .map_err(|_| ())
}

/// Ok(Ok((entry, remaining))) | Ok(Err(kind)) | Err(()) = panic
fn stream_decode(d: &[u8], po: u64, hl: usize, trickle: bool) -> Result<Result<(Entry, u64), &'static str>, ()> {
    catch_unwind(AssertUnwindSafe(|| {
        let (res, rem) = if trickle {
            let mut r = Trickle { data: d, pos: 0, calls: 0 };
            let res = Entry::from_read(&mut r, po, hl);
            (res, (d.len() - r.pos) as u64)
        } else {
            let mut r: &[u8] = d;
            let res = Entry::from_read(&mut r, po, hl);
            (res, r.len() as u64)
        };
        match res {
            Ok(e) => Ok((e, rem)),
            Err(e) if e.kind() == io::ErrorKind::UnexpectedEof => Err("Eof"),
            Err(e) if e.kind() == io::ErrorKind::Other => Err("BadType"),
            Err(e) if e.kind() == io::ErrorKind::InvalidData => Err("TooLong"),
            Err(_) => Err("Io"),
        }
    }))
    .map_err(|_| ())
}

fn dec_transcript(d: &[u8], po: u64, hl: usize) -> String {
    let m = match mem_decode(d, po, hl) {
        Ok(Ok((e, rem))) => format!("ok {} rem={rem}", show_entry(&e)),
        Ok(Err(t)) => format!("err BadType {t}"),
        Err(()) => "PANIC".into(),
    };
    let s = match stream_decode(d, po, hl, true) {
        Ok(Ok((e, rem))) => format!("ok {} rem={rem}", show_entry(&e)),
        Ok(Err(k)) => format!("err {k}"),
        Err(()) => "PANIC".into(),
    };
    format!("m {m} | s {s}")
}

// ---- packs on disk, to reach the private delta functions through the public API ------------

static COUNTER: AtomicU64 = AtomicU64::new(0);
struct TmpFile(std::path::PathBuf);
impl Drop for TmpFile {
    fn drop(&mut self) {
        let _ = std::fs::remove_file(&self.0);
    }
}

fn deflate(data: &[u8]) -> Vec<u8> {
    let mut w = gix_features::zlib::stream::deflate::Write::new(Vec::new());
    w.write_all(data).expect("deflate");
    w.flush().expect("deflate flush");
    w.into_inner()
}

/// A pack with a single REF_DELTA entry (at offset 12) whose instructions are `delta`.
fn pack_with_ref_delta(delta: &[u8]) -> (TmpFile, data::File) {
    let mut p = Vec::new();
    p.extend_from_slice(b"PACK");
    p.extend_from_slice(&2u32.to_be_bytes());
    p.extend_from_slice(&1u32.to_be_bytes());
    // entry header written by hand (git's format), not with the code under test
    let mut size = delta.len() as u64;
    let mut c = (7u8 << 4) | (size & 15) as u8;
    size >>= 4;
    while size != 0 {
        p.push(c | 0x80);
        c = (size & 0x7f) as u8;
        size >>= 7;
    }
    p.push(c);
    p.extend_from_slice(&[0x11u8; 20]);
    p.extend_from_slice(&deflate(delta));
    p.extend_from_slice(&[0u8; 20]);
    let n = COUNTER.fetch_add(1, Ordering::SeqCst);
    let path = std::env::temp_dir().join(format!("gixv-c07-{}-{}.pack", std::process::id(), n));
    std::fs::write(&path, &p).expect("write pack");
    let f = data::File::at(&path, gix_hash::Kind::Sha1).expect("open pack");
    (TmpFile(path), f)
}

/// decode_entry of the single delta entry with `base` supplied as out-of-pack object.
/// Ok((object_size, bytes)) or Err(error name); panics propagate.
fn decode_with_base(base: &[u8], delta: &[u8]) -> Result<(u64, Vec<u8>), String> {
    let (_tmp, file) = pack_with_ref_delta(delta);
    let entry = file.entry(12).map_err(|_| "EntryType".to_string())?;
    let mut out = Vec::new();
    let mut inflate = gix_features::zlib::Inflate::default();
    let base_owned = base.to_vec();
    let resolve = move |_id: &gix_hash::oid, out: &mut Vec<u8>| {
        out.clear();
        out.extend_from_slice(&base_owned);
        Some(data::decode::entry::ResolvedBase::OutOfPack { kind: gix_object::Kind::Blob, end: base_owned.len() })
    };
    match file.decode_entry(entry, &mut out, &mut inflate, &resolve, &mut gix_pack::cache::Never) {
        Ok(o) => Ok((o.object_size, out)),
        Err(e) => Err(match e {
            data::decode::Error::ZlibInflate(_) => "Zlib".into(),
            data::decode::Error::DeltaBaseUnresolved(_) => "Unresolved".into(),
            data::decode::Error::EntryType(_) => "EntryType".into(),
            data::decode::Error::OutOfMemory => "OutOfMemory".into(),
        }),
    }
}

fn header_object_size(delta: &[u8]) -> Result<u64, String> {
    let (_tmp, file) = pack_with_ref_delta(delta);
    let entry = file.entry(12).map_err(|_| "EntryType".to_string())?;
    let mut inflate = gix_features::zlib::Inflate::default();
    let resolve = |_id: &gix_hash::oid| {
        Some(data::decode::header::ResolvedBase::OutOfPack { kind: gix_object::Kind::Blob, num_deltas: None })
    };
    file.decode_header(entry, &mut inflate, &resolve).map(|o| o.object_size).map_err(|_| "Err".to_string())
}

/// naive varint of git's delta size header (get_delta_hdr_size): (value mod 2^64 with shift
/// amounts masked as the release build does, length in bytes)
fn naive_varint(d: &[u8]) -> (u64, usize) {
    let (mut v, mut n, mut sh) = (0u64, 0usize, 0u32);
    for b in d {
        n += 1;
        v |= u64::from(b & 0x7f).wrapping_shl(sh);
        sh += 7;
        if b & 0x80 == 0 {
            break;
        }
    }
    (v, n)
}

fn ap_transcript(base: &[u8], delta: &[u8]) -> String {
    let (bsz, l1) = naive_varint(delta);
    let (rsz, l2) = naive_varint(&delta[l1..]);
    if l1 > 10 || l2 > 10 {
        return "long".into();
    }
    if bsz != base.len() as u64 || rsz > LIMIT {
        return "skip".into();
    }
    guard(|| match decode_with_base(base, delta) {
        Ok((sz, bytes)) => format!("ok {sz} {}", hexs(&bytes)),
        Err(e) => format!("err {e}"),
    })
}

fn imp(c: &Case) -> String {
    match f_str(c, 0) {
        b"hdr" => {
            let h = header_of(f_u64(c, 1), f_u64(c, 3), f_str(c, 4));
            let size = f_u64(c, 2);
            let mut buf = Vec::new();
            let written = match catch_unwind(AssertUnwindSafe(|| h.write_to(size, &mut buf))) {
                Ok(Ok(n)) => n,
                Ok(Err(_)) => return "w err".into(),
                Err(_) => return "w PANIC".into(),
            };
            let mut all = buf.clone();
            all.extend_from_slice(f_str(c, 7));
            format!("w {} {written} | {}", hexs(&buf), dec_transcript(&all, f_u64(c, 5), f_u64(c, 6) as usize))
        }
        b"dec" => dec_transcript(f_str(c, 1), f_u64(c, 2), f_u64(c, 3) as usize),
        b"leb" => {
            let d = f_str(c, 1).to_vec();
            let d2 = d.clone();
            let m = guard(move || {
                let (v, n) = gix_features::decode::leb64(&d);
                format!("ok {v} {n}")
            });
            let s = guard(move || {
                let mut r = Trickle { data: &d2, pos: 0, calls: 0 };
                match gix_features::decode::leb64_from_read(&mut r) {
                    Ok((v, n)) => format!("ok {v} {n}"),
                    Err(e) if e.kind() == io::ErrorKind::UnexpectedEof => "err Eof".into(),
                    Err(e) if e.kind() == io::ErrorKind::InvalidData => "err TooLong".into(),
                    Err(_) => "err Io".into(),
                }
            });
            format!("m {m} | s {s}")
        }
        b"dh" => {
            let d = f_str(c, 1).to_vec();
            guard(move || match header_object_size(&d) {
                Ok(n) => format!("ok {n}"),
                Err(e) => format!("err {e}"),
            })
        }
        b"ap" => ap_transcript(f_str(c, 1), f_str(c, 2)),
        b"gd" => ap_transcript(f_str(c, 1), f_str(c, 3)),
        _ => "?".into(),
    }
}

// ------------------------------------------------------------------------------------------
// independent oracles (git's formats, written from git's C sources, plain Rust)
// ------------------------------------------------------------------------------------------

/// pack-write.c encode_in_pack_object_header + builtin/pack-objects.c write_no_reuse_object (ofs)
fn git_header(kind: u64, size: u64, dist: u64, id: &[u8]) -> Vec<u8> {
    let mut out = Vec::new();
    let mut s = size;
    let mut c = ((kind as u8) << 4) | (s & 15) as u8;
    s >>= 4;
    while s != 0 {
        out.push(c | 0x80);
        c = (s & 0x7f) as u8;
        s >>= 7;
    }
    out.push(c);
    if kind == 6 {
        let mut dh = [0u8; 10];
        let mut pos = 9;
        let mut ofs = dist;
        dh[pos] = (ofs & 127) as u8;
        loop {
            ofs >>= 7;
            if ofs == 0 {
                break;
            }
            ofs -= 1;
            pos -= 1;
            dh[pos] = 128 | (ofs & 127) as u8;
        }
        out.extend_from_slice(&dh[pos..]);
    } else if kind == 7 {
        let mut b = [0u8; 20];
        for (i, x) in id.iter().take(20).enumerate() {
            b[i] = *x;
        }
        out.extend_from_slice(&b);
    }
    out
}

/// patch-delta.c: None when git would reject the delta.
fn git_patch_delta(base: &[u8], delta: &[u8]) -> Option<Vec<u8>> {
    fn hdr(d: &[u8], pos: &mut usize) -> Option<u64> {
        let (mut v, mut sh) = (0u64, 0u32);
        loop {
            let b = *d.get(*pos)?;
            *pos += 1;
            if sh < 64 {
                v |= u64::from(b & 0x7f) << sh;
            }
            sh += 7;
            if b & 0x80 == 0 {
                return Some(v);
            }
        }
    }
    if delta.len() < 4 {
        return None; // DELTA_SIZE_MIN
    }
    let mut i = 0usize;
    let bsz = hdr(delta, &mut i)?;
    if bsz != base.len() as u64 {
        return None;
    }
    let rsz = hdr(delta, &mut i)?;
    let mut out: Vec<u8> = Vec::new();
    while i < delta.len() {
        let cmd = delta[i];
        i += 1;
        if cmd & 0x80 != 0 {
            let (mut ofs, mut size) = (0u64, 0u64);
            for (bit, sh) in [(1u8, 0u32), (2, 8), (4, 16), (8, 24)] {
                if cmd & bit != 0 {
                    ofs |= u64::from(*delta.get(i)?) << sh;
                    i += 1;
                }
            }
            for (bit, sh) in [(0x10u8, 0u32), (0x20, 8), (0x40, 16)] {
                if cmd & bit != 0 {
                    size |= u64::from(*delta.get(i)?) << sh;
                    i += 1;
                }
            }
            if size == 0 {
                size = 0x10000;
            }
            if ofs + size > base.len() as u64 || out.len() as u64 + size > rsz {
                return None;
            }
            out.extend_from_slice(&base[ofs as usize..(ofs + size) as usize]);
        } else if cmd != 0 {
            let n = cmd as usize;
            if i + n > delta.len() || (out.len() + n) as u64 > rsz {
                return None;
            }
            out.extend_from_slice(&delta[i..i + n]);
            i += n;
        } else {
            return None;
        }
    }
    if out.len() as u64 != rsz {
        return None;
    }
    Some(out)
}


/// Is `body` exactly git's minimal encoding (Spec.encode_delta) of a list of in-range instructions?
/// Parses the instructions and re-encodes them with diff-delta.c's rule: operand bytes that are
/// zero are omitted, size 0x10000 is written as 0, inserts are 1..127 bytes.
fn is_git_canonical(base_len: u64, body: &[u8]) -> Result<usize, String> {
    let mut i = 0usize;
    let mut re = Vec::new();
    let mut n_ins = 0;
    while i < body.len() {
        let cmd = body[i];
        i += 1;
        n_ins += 1;
        if cmd & 0x80 != 0 {
            let mut v = [0u8; 7];
            for k in 0..7 {
                if cmd & (1 << k) != 0 {
                    v[k] = *body.get(i).ok_or("truncated copy")?;
                    i += 1;
                }
            }
            let ofs = u64::from(v[0]) | u64::from(v[1]) << 8 | u64::from(v[2]) << 16 | u64::from(v[3]) << 24;
            let mut size = u64::from(v[4]) | u64::from(v[5]) << 8 | u64::from(v[6]) << 16;
            if size == 0 {
                size = 0x10000;
            }
            if ofs + size > base_len {
                return Err(format!("copy {ofs}+{size} outside base {base_len}"));
            }
            let enc = if size == 0x10000 { 0 } else { size };
            let ops = [ofs & 255, ofs >> 8 & 255, ofs >> 16 & 255, ofs >> 24 & 255, enc & 255, enc >> 8 & 255, enc >> 16 & 255];
            let mut c = 0x80u8;
            let mut tail = Vec::new();
            for (k, b) in ops.iter().enumerate() {
                if *b != 0 {
                    c |= 1 << k;
                    tail.push(*b as u8);
                }
            }
            re.push(c);
            re.extend(tail);
        } else if cmd != 0 {
            let n = cmd as usize;
            let lit = body.get(i..i + n).ok_or("truncated insert")?;
            re.push(cmd);
            re.extend_from_slice(lit);
            i += n;
        } else {
            return Err("cmd 0".into());
        }
    }
    if re != body {
        return Err("not the minimal encoding".into());
    }
    Ok(n_ins)
}

fn same_entry(a: &Entry, b: &Entry) -> bool {
    a.header == b.header && a.decompressed_size == b.decompressed_size && a.data_offset == b.data_offset
}

fn prop_decoded(bytes: &[u8], po: u64, hl: usize) -> Verdict {
    // raw bytes: memory and stream decoders must agree wherever both return, and a decoded
    // entry re-encodes to the bytes consumed when these are git's (minimal) encoding
    let m = mem_decode(bytes, po, hl);
    let s1 = stream_decode(bytes, po, hl, false);
    let s2 = stream_decode(bytes, po, hl, true);
    let show = |r: &Result<Result<(Entry, u64), &'static str>, ()>| match r {
        Ok(Ok((e, rem))) => format!("ok {} rem={rem}", show_entry(e)),
        Ok(Err(k)) => format!("err {k}"),
        Err(()) => "PANIC".into(),
    };
    if show(&s1) != show(&s2) {
        return Verdict::fail("stream-chunking", format!("{} vs {}", show(&s1), show(&s2)));
    }
    match (&m, &s1) {
        (Ok(Ok((e, rem))), Ok(Ok((e2, rem2)))) => {
            if !same_entry(e, e2) || rem != rem2 {
                return Verdict::fail("mem-stream-differ", format!("{} vs {}", show_entry(e), show_entry(e2)));
            }
            let consumed = bytes.len() - *rem as usize;
            let mut re = Vec::new();
            let n = e.header.write_to(e.decompressed_size, &mut re).unwrap();
            if re == bytes[..consumed] {
                if n != consumed {
                    return Verdict::fail("written-count", format!("{n} vs {consumed}"));
                }
                Verdict::ok(true, "dec-canonical")
            } else {
                Verdict::ok(false, "dec-noncanonical")
            }
        }
        (Ok(Ok(_)), other) => Verdict::fail("mem-ok-stream-not", show(other)),
        (Ok(Err(t)), Ok(Err("BadType"))) => Verdict::ok(false, format!("dec-badtype{t}")),
        (Ok(Err(_)), other) => Verdict::fail("mem-badtype-stream-not", show(other)),
        (Err(()), Ok(Ok(_))) => Verdict::fail("mem-panic-stream-ok", ""),
        (Err(()), _) => Verdict::ok(false, "dec-malformed"),
    }
}

fn prop_delta(base: &[u8], delta: &[u8], target: Option<&[u8]>) -> Verdict {
    let want = git_patch_delta(base, delta);
    if let (Some(t), Some(w)) = (target, &want) {
        if t != w.as_slice() {
            return Verdict::fail("oracle-vs-git-target", "patch-delta oracle does not reproduce git's target");
        }
    }
    if target.is_some() && want.is_none() {
        return Verdict::fail("oracle-rejects-git-delta", "");
    }
    if target.is_some() {
        // the tested half of "any delta git produces": it is Spec.encode_delta of in-range instructions
        let (_, l1) = naive_varint(delta);
        let (_, l2) = naive_varint(&delta[l1..]);
        if let Err(e) = is_git_canonical(base.len() as u64, &delta[l1 + l2..]) {
            return Verdict::fail("git-delta-not-spec-encoding", e);
        }
        if delta[..l1] != generate::varint(base.len() as u64)[..] {
            return Verdict::fail("git-delta-size-header", "");
        }
    }
    match want {
        Some(w) => {
            if w.len() as u64 > LIMIT {
                return Verdict::ok(false, "delta-too-large");
            }
            let bo = base.to_vec();
            let dl = delta.to_vec();
            match catch_unwind(AssertUnwindSafe(move || decode_with_base(&bo, &dl))) {
                Ok(Ok((sz, got))) => {
                    if got != w {
                        Verdict::fail("delta-wrong-object", format!("got {} bytes, want {}", got.len(), w.len()))
                    } else if sz != w.len() as u64 {
                        Verdict::fail("delta-wrong-size", format!("{sz}"))
                    } else {
                        Verdict::ok(true, if target.is_some() { "git-delta-ok" } else { "delta-ok" })
                    }
                }
                Ok(Err(e)) => Verdict::fail("delta-valid-rejected", e),
                Err(_) => Verdict::fail("delta-valid-panics", ""),
            }
        }
        None => Verdict::ok(false, "delta-malformed"),
    }
}

fn prop(c: &Case) -> Verdict {
    match f_str(c, 0) {
        b"hdr" => {
            let (kind, size, dist, id) = (f_u64(c, 1), f_u64(c, 2), f_u64(c, 3), f_str(c, 4));
            let (po, hl, tail) = (f_u64(c, 5), f_u64(c, 6) as usize, f_str(c, 7));
            let h = header_of(kind, dist, id);
            let mut buf = Vec::new();
            let written = match catch_unwind(AssertUnwindSafe(|| h.write_to(size, &mut buf))) {
                Ok(Ok(n)) => n,
                _ => return Verdict::fail("write-fails", ""),
            };
            if written != buf.len() {
                return Verdict::fail("written-count", format!("{written} vs {}", buf.len()));
            }
            if h.size(size) != buf.len() {
                return Verdict::fail("size-fn", format!("{}", h.size(size)));
            }
            let want = git_header(kind, size, dist, id);
            if buf != want {
                return Verdict::fail("header-format", format!("{} vs git {}", hexs(&buf), hexs(&want)));
            }
            if kind == 7 && hl != 20 {
                return Verdict::ok(false, "hdr-hashlen");
            }
            if po.checked_add(written as u64).is_none() {
                return Verdict::ok(false, "hdr-offset-overflow");
            }
            let mut all = buf.clone();
            all.extend_from_slice(tail);
            let expect = Entry { header: h, decompressed_size: size, data_offset: po + written as u64 };
            match mem_decode(&all, po, hl) {
                Ok(Ok((e, rem))) => {
                    if !same_entry(&e, &expect) {
                        return Verdict::fail("roundtrip-mem", format!("{} want {}", show_entry(&e), show_entry(&expect)));
                    }
                    if rem as usize != tail.len() {
                        return Verdict::fail("roundtrip-mem-consumed", format!("rem {rem}"));
                    }
                    if e.header_size() != written || e.pack_offset() != po {
                        return Verdict::fail("entry-header-size", "");
                    }
                }
                Ok(Err(t)) => return Verdict::fail("roundtrip-mem", format!("err type {t}")),
                Err(()) => return Verdict::fail("roundtrip-mem", "panic"),
            }
            for trickle in [false, true] {
                match stream_decode(&all, po, hl, trickle) {
                    Ok(Ok((e, rem))) => {
                        if !same_entry(&e, &expect) {
                            return Verdict::fail("roundtrip-stream", format!("{} want {}", show_entry(&e), show_entry(&expect)));
                        }
                        if rem as usize != tail.len() {
                            return Verdict::fail("roundtrip-stream-consumed", format!("rem {rem}"));
                        }
                    }
                    Ok(Err(k)) => return Verdict::fail("roundtrip-stream", format!("err {k}")),
                    Err(()) => return Verdict::fail("roundtrip-stream", "panic"),
                }
            }
            Verdict::ok(true, match kind { 6 => "hdr-ofs", 7 => "hdr-ref", _ => "hdr-base" })
        }
        b"dec" => prop_decoded(f_str(c, 1), f_u64(c, 2), f_u64(c, 3) as usize),
        b"leb" => {
            let d = f_str(c, 1).to_vec();
            let d1 = d.clone();
            let m = catch_unwind(AssertUnwindSafe(move || gix_features::decode::leb64(&d1)));
            let d2 = d.clone();
            let s = catch_unwind(AssertUnwindSafe(move || {
                let mut r: &[u8] = &d2;
                gix_features::decode::leb64_from_read(&mut r).ok()
            }));
            match (m, s) {
                (Ok((v, n)), Ok(Some((v2, n2)))) => {
                    if (v, n) != (v2, n2) {
                        return Verdict::fail("leb-mem-stream-differ", format!("{v} {n} vs {v2} {n2}"));
                    }
                    // the offset encoding is a bijection: re-encoding gives the bytes consumed
                    // (as long as the value did not exceed 64 bits while decoding)
                    let re = git_header(6, 0, v, &[]);
                    if re[1..] == d[..n] {
                        let mut out = Vec::new();
                        Header::OfsDelta { base_distance: v }.write_to(0, &mut out).unwrap();
                        if out[1..] != d[..n] {
                            return Verdict::fail("leb-reencode", hexs(&out));
                        }
                        Verdict::ok(true, "leb-ok")
                    } else {
                        Verdict::ok(false, "leb-overflowed")
                    }
                }
                (Ok(_), _) => Verdict::fail("leb-mem-ok-stream-not", ""),
                (Err(_), Ok(Some(_))) => Verdict::fail("leb-mem-panic-stream-ok", ""),
                (Err(_), _) => Verdict::ok(false, "leb-malformed"),
            }
        }
        b"dh" => {
            let d = f_str(c, 1);
            let buf = &d[..d.len().min(32)];
            let (_, l1) = naive_varint(buf);
            let (rsz, l2) = naive_varint(&buf[l1..]);
            let complete = |s: &[u8], l: usize| l >= 1 && l <= 9 && s[l - 1] & 0x80 == 0;
            if !(complete(buf, l1) && complete(&buf[l1..], l2)) {
                return Verdict::ok(false, "dh-malformed");
            }
            let d2 = d.to_vec();
            match catch_unwind(AssertUnwindSafe(move || header_object_size(&d2))) {
                Ok(Ok(n)) if n == rsz => Verdict::ok(true, "dh-ok"),
                Ok(Ok(n)) => Verdict::fail("delta-header-size", format!("{n} want {rsz}")),
                Ok(Err(e)) => Verdict::fail("delta-header-size", e),
                Err(_) => Verdict::fail("delta-header-size", "panic"),
            }
        }
        b"ap" => prop_delta(f_str(c, 1), f_str(c, 2), None),
        b"gd" => prop_delta(f_str(c, 1), f_str(c, 3), Some(f_str(c, 2))),
        _ => Verdict::ok(false, "?"),
    }
}

mod generate;

fn main() {
    main_with(Harness { gen: generate::gen, imp, prop, git: None, deadline: std::time::Duration::from_secs(20) });
}
