(* C07 — lemmas about the delta interpreter. *)
From Coq Require Import ZArith Lia ZifyBool ZifyNat ZifyN.
From GixV.Base Require Import Bytes BytesFacts Outcome.
From GixV.C07 Require Import Model Spec ProofsHeader.
Ltac Zify.zify_post_hook ::= Z.div_mod_to_equations.
Local Open Scope N_scope.

(* ---- command byte ------------------------------------------------------------------------------ *)

Lemma cmd_byte_bits f0 f1 f2 f3 f4 f5 f6 :
  let c := cmd_byte f0 f1 f2 f3 f4 f5 f6 in
  N.testbit c 0 = f0 /\ N.testbit c 1 = f1 /\ N.testbit c 2 = f2 /\ N.testbit c 3 = f3 /\
  N.testbit c 4 = f4 /\ N.testbit c 5 = f5 /\ N.testbit c 6 = f6 /\ 128 <= c /\ c < 256.
Proof. destruct f0, f1, f2, f3, f4, f5, f6; vm_compute; repeat split; discriminate. Qed.

Lemma opt_byte_optb f v rest : v < 256 -> covers f v ->
  opt_byte f (optb f v ++ rest) = Ok (v, rest).
Proof.
  intros Hv Hc. destruct f; cbn [optb app opt_byte].
  - rewrite b2N_N2b by exact Hv. reflexivity.
  - destruct (N.eq_dec v 0) as [->|E]; [reflexivity|]. specialize (Hc E). discriminate.
Qed.

(* ---- one instruction ----------------------------------------------------------------------------- *)

Lemma room_step (room : nat) (w : bytes) : (room - length (take_room room w) = room - length w)%nat.
Proof. unfold take_room. rewrite firstn_length. lia. Qed.

Lemma firstn_room (room : nat) (w r : bytes) :
  firstn room (w ++ r) = take_room room w ++ firstn (room - length (take_room room w)) r.
Proof. rewrite room_step. unfold take_room. apply firstn_app. Qed.

Lemma apply_copy_step f base room k ofs n rest :
  valid base (Copy ofs n) -> flags_cover k ofs n ->
  apply_loop (S f) base room (encode_copy k ofs n ++ rest) =
    obind (apply_loop f base (room - length (take_room room (eval1 base (Copy ofs n)))) rest)
          (fun r => Ok (take_room room (eval1 base (Copy ofs n)) ++ r)).
Proof.
  intros (V1 & V2 & V3 & V4) Hc. unfold flags_cover, encode_copy in *.
  destruct k as [f0 f1 f2 f3 f4 f5 f6]. cbn [k0 k1 k2 k3 k4 k5 k6] in *.
  cbn [copy_operands] in *.
  set (n' := if n =? 65536 then 0 else n) in *.
  destruct Hc as (C0 & C1 & C2 & C3 & C4 & C5 & C6).
  destruct (cmd_byte_bits f0 f1 f2 f3 f4 f5 f6) as (B0 & B1 & B2 & B3 & B4 & B5 & B6 & Blo & Bhi).
  set (c := cmd_byte f0 f1 f2 f3 f4 f5 f6) in *.
  cbn [app apply_loop]. rewrite b2N_N2b by exact Bhi.
  destruct (N.leb_spec 128 c); [|lia].
  rewrite B0, B1, B2, B3, B4, B5, B6.
  repeat rewrite <- app_assoc.
  rewrite opt_byte_optb by (try apply N.mod_lt; auto; lia). cbn [obind].
  rewrite opt_byte_optb by (try apply N.mod_lt; auto; lia). cbn [obind].
  rewrite opt_byte_optb by (try apply N.mod_lt; auto; lia). cbn [obind].
  rewrite opt_byte_optb by (try apply N.mod_lt; auto; lia). cbn [obind].
  rewrite opt_byte_optb by (try apply N.mod_lt; auto; lia). cbn [obind].
  rewrite opt_byte_optb by (try apply N.mod_lt; auto; lia). cbn [obind].
  rewrite opt_byte_optb by (try apply N.mod_lt; auto; lia). cbn [obind].
  assert (Ho : ofs mod 256 + 256 * ((ofs / 256) mod 256) + 65536 * ((ofs / 65536) mod 256) +
               16777216 * ((ofs / 16777216) mod 256) = ofs) by lia.
  assert (Hn : n' mod 256 + 256 * ((n' / 256) mod 256) + 65536 * ((n' / 65536) mod 256) = n').
  { assert (n' < 16777216) by (subst n'; destruct (n =? 65536); lia). lia. }
  rewrite Ho, Hn.
  assert (Hsz : (if n' =? 0 then 65536 else n') = n).
  { subst n'. destruct (N.eqb_spec n 65536) as [->|E]; [reflexivity|].
    destruct (N.eqb_spec n 0); [lia | reflexivity]. }
  rewrite Hsz. destruct (N.leb_spec (ofs + n) (len base)); [|lia].
  cbn [eval1]. reflexivity.
Qed.

Lemma apply_insert_step f base room d rest : valid base (Insert d) ->
  apply_loop (S f) base room ((N2b (len d) :: d) ++ rest) =
    obind (apply_loop f base (room - length (take_room room d)) rest)
          (fun r => Ok (take_room room d ++ r)).
Proof.
  intros (V1 & V2). cbn [app apply_loop]. rewrite b2N_N2b by lia.
  destruct (N.leb_spec 128 (len d)); [lia|].
  destruct (N.eqb_spec (len d) 0); [lia|].
  destruct (N.leb_spec (len d) (len (d ++ rest))); [|rewrite len_app in *; lia].
  assert (E : N.to_nat (len d) = length d) by (unfold len; lia). rewrite !E.
  rewrite firstn_app, Nat.sub_diag, firstn_all. cbn [firstn]. rewrite app_nil_r.
  rewrite skipn_app, Nat.sub_diag, skipn_all. cbn [skipn app]. reflexivity.
Qed.

Lemma apply_einstr_step f base room e rest : evalid base e ->
  apply_loop (S f) base room (encode_einstr e ++ rest) =
    obind (apply_loop f base (room - length (take_room room (eval1 base (fst e)))) rest)
          (fun r => Ok (take_room room (eval1 base (fst e)) ++ r)).
Proof.
  destruct e as [[ofs n|d] k]; unfold evalid, encode_einstr; cbn [fst snd]; intros [V C].
  - apply apply_copy_step; assumption.
  - apply apply_insert_step; assumption.
Qed.

(* ---- a whole body ------------------------------------------------------------------------------- *)

Lemma apply_body base : forall es fuel room,
  (length es < fuel)%nat -> Forall (evalid base) es ->
  (room <= length (eval base (map fst es)))%nat ->
  apply_loop fuel base room (encode_body es) = Ok (firstn room (eval base (map fst es))).
Proof.
  induction es as [|e es IH]; intros fuel room Hf Hv Hr.
  - cbn in Hr. assert (room = 0)%nat by lia. subst room.
    destruct fuel; [cbn in Hf; lia|]. reflexivity.
  - destruct fuel as [|f]; [lia|]. cbn [length] in Hf.
    inversion Hv as [|? ? Ve Vs]; subst.
    unfold encode_body, eval in *. cbn [flat_map map] in *.
    rewrite apply_einstr_step by exact Ve.
    rewrite app_length in Hr.
    rewrite IH; [| lia | exact Vs | rewrite room_step; lia ].
    cbn [obind]. rewrite <- firstn_room. reflexivity.
Qed.

Lemma encode_einstr_nonempty base e : evalid base e -> (1 <= length (encode_einstr e))%nat.
Proof.
  destruct e as [[ofs n|d] k]; unfold encode_einstr, encode_copy; cbn [fst snd copy_operands length]; lia.
Qed.

Lemma encode_body_length base es : Forall (evalid base) es -> (length es <= length (encode_body es))%nat.
Proof.
  induction 1 as [|e es Ve _ IH]; [cbn; lia|].
  unfold encode_body in *. cbn [flat_map length]. rewrite app_length.
  pose proof (encode_einstr_nonempty base e Ve). lia.
Qed.

Lemma apply_encoded base es room : Forall (evalid base) es ->
  (room <= length (eval base (map fst es)))%nat ->
  apply base room (encode_body es) = Ok (firstn room (eval base (map fst es))).
Proof.
  intros Hv Hr. unfold apply. apply apply_body; try assumption.
  pose proof (encode_body_length base es Hv). lia.
Qed.

(* git's flag choice covers *)
Lemma git_flags_cover ofs n : flags_cover (git_flags ofs n) ofs n.
Proof.
  unfold flags_cover, git_flags. cbn [copy_operands k0 k1 k2 k3 k4 k5 k6].
  unfold covers, nz. repeat split; intros H; apply Bool.negb_true_iff; apply N.eqb_neq; exact H.
Qed.

Lemma git_einstr_valid base i : valid base i -> evalid base (git_einstr i).
Proof.
  intros V. destruct i as [ofs n|d]; unfold evalid, git_einstr; cbn [fst snd]; split; auto.
  apply git_flags_cover.
Qed.

Lemma map_fst_git is : map fst (map git_einstr is) = is.
Proof. induction is as [|i is IH]; [reflexivity|]. cbn [map]. rewrite IH. destruct i; reflexivity. Qed.

Lemma apply_git_encoded base is : Forall (valid base) is ->
  apply base (length (eval base is)) (encode_delta is) = Ok (eval base is).
Proof.
  intros Hv. unfold encode_delta.
  rewrite <- (map_fst_git is) at 1 3.
  rewrite apply_encoded.
  - rewrite firstn_all. reflexivity.
  - apply Forall_map. eapply Forall_impl; [|exact Hv]. intros i. apply git_einstr_valid.
  - lia.
Qed.

(* ---- totality: any base, any target length, any bytes ---------------------------------------------- *)

Definition good (room : nat) (o : outcome bytes err) : Prop :=
  match o with Ok r => length r = room | Panic => True | _ => False end.

Lemma opt_byte_cases fl d :
  (exists v d', opt_byte fl d = Ok (v, d') /\ (length d' <= length d)%nat) \/ opt_byte fl d = Panic.
Proof.
  destruct fl; cbn [opt_byte].
  - destruct d as [|x d']; [right; reflexivity|]. left. exists (b2N x), d'. split; [reflexivity|cbn; lia].
  - left. exists 0, d. split; [reflexivity|lia].
Qed.

Lemma take_room_le room w : (length (take_room room w) <= room)%nat.
Proof. unfold take_room. rewrite firstn_length. lia. Qed.

Lemma good_step room w o : good (room - length (take_room room w)) o ->
  good room (obind o (fun r => Ok (take_room room w ++ r))).
Proof.
  pose proof (take_room_le room w). destruct o; cbn [obind good]; auto.
  intros E. rewrite app_length. lia.
Qed.

Lemma apply_loop_good : forall f base room data, (length data < f)%nat ->
  good room (apply_loop f base room data).
Proof.
  induction f as [|f IH]; intros base room data Hf; [lia|].
  cbn [apply_loop]. destruct data as [|x d].
  - destruct (Nat.eqb_spec room 0); cbn [good]; [subst; reflexivity | exact I].
  - cbn [length] in Hf. destruct (128 <=? b2N x).
    + destruct (opt_byte_cases (N.testbit (b2N x) 0) d) as [(v0 & d0 & E0 & L0)|E0]; rewrite E0; cbn [obind good]; [|exact I].
      destruct (opt_byte_cases (N.testbit (b2N x) 1) d0) as [(v1 & d1 & E1 & L1)|E1]; rewrite E1; cbn [obind good]; [|exact I].
      destruct (opt_byte_cases (N.testbit (b2N x) 2) d1) as [(v2 & d2 & E2 & L2)|E2]; rewrite E2; cbn [obind good]; [|exact I].
      destruct (opt_byte_cases (N.testbit (b2N x) 3) d2) as [(v3 & d3 & E3 & L3)|E3]; rewrite E3; cbn [obind good]; [|exact I].
      destruct (opt_byte_cases (N.testbit (b2N x) 4) d3) as [(v4 & d4 & E4 & L4)|E4]; rewrite E4; cbn [obind good]; [|exact I].
      destruct (opt_byte_cases (N.testbit (b2N x) 5) d4) as [(v5 & d5 & E5 & L5)|E5]; rewrite E5; cbn [obind good]; [|exact I].
      destruct (opt_byte_cases (N.testbit (b2N x) 6) d5) as [(v6 & d6 & E6 & L6)|E6]; rewrite E6; cbn [obind good]; [|exact I].
      match goal with |- good _ (if ?c then _ else Panic) => destruct c end; [|exact I].
      apply good_step. apply IH. lia.
    + destruct (b2N x =? 0); [exact I|]. destruct (b2N x <=? len d); [|exact I].
      apply good_step. apply IH. rewrite skipn_length. lia.
Qed.

Lemma apply_total base n data :
  apply base n data = Panic \/ exists r, apply base n data = Ok r /\ length r = n.
Proof.
  pose proof (apply_loop_good (S (length data)) base n data (Nat.lt_succ_diag_r _)) as G.
  unfold apply. destruct (apply_loop _ _ _ _) as [r| | |]; cbn [good] in G; try contradiction.
  - right. eauto.
  - left. reflexivity.
Qed.

(* a target longer than what the instructions produce: the final assertion fails *)
Lemma apply_body_short base : forall es fuel room,
  (length es < fuel)%nat -> Forall (evalid base) es ->
  (length (eval base (map fst es)) < room)%nat ->
  apply_loop fuel base room (encode_body es) = Panic.
Proof.
  induction es as [|e es IH]; intros fuel room Hf Hv Hr.
  - destruct fuel; [cbn in Hf; lia|]. cbn in Hr |- *. destruct (Nat.eqb_spec room 0); [lia|reflexivity].
  - destruct fuel as [|f]; [lia|]. cbn [length] in Hf.
    inversion Hv as [|? ? Ve Vs]; subst.
    unfold encode_body, eval in *. cbn [flat_map map] in *.
    rewrite apply_einstr_step by exact Ve.
    rewrite app_length in Hr.
    rewrite IH; [reflexivity | lia | exact Vs | rewrite room_step; lia ].
Qed.

Lemma apply_encoded_short base es room : Forall (evalid base) es ->
  (length (eval base (map fst es)) < room)%nat -> apply base room (encode_body es) = Panic.
Proof.
  intros Hv Hr. unfold apply. apply apply_body_short; try assumption.
  pose proof (encode_body_length base es Hv). lia.
Qed.
