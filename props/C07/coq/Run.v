(* C07 — transcript printer: the same observable line the Rust harness prints for a case.
   cases:
     hdr <kind> <size> <dist> <id20> <pack_offset> <hash_len> <tail>   write, then decode (bytes ++ tail)
     dec <bytes> <pack_offset> <hash_len>                               decode raw bytes (memory + stream)
     leb <bytes>                                                        gix_features::decode::leb64 / leb64_from_read
     dh  <delta>                                                        File::decode_header of a REF_DELTA entry
     ap  <base> <delta>                                                 File::decode_entry, base supplied out of pack
     gd  <base> <target> <delta>                                        same; delta came from `git pack-objects` *)
From GixV.Base Require Import Bytes Outcome.
From GixV.C07 Require Import Model.
Local Open Scope N_scope.

Definition dec (n : N) : bytes := N_to_dec n.

Definition show_header (h : header) : bytes :=
  match h with
  | Commit => bs "Commit" | Tree => bs "Tree" | Blob => bs "Blob" | Tag => bs "Tag"
  | RefDelta _ => bs "RefDelta" | OfsDelta _ => bs "OfsDelta"
  end.

Definition show_entry (e : entry) : bytes :=
  show_header (e_header e) ++ bs " " ++ dec (e_size e) ++ bs " " ++ dec (e_data_offset e) ++
  match e_header e with
  | RefDelta id => bs " " ++ hex_encode id
  | OfsDelta d => bs " " ++ dec d
  | _ => []
  end.

Definition show_err (m : src) (e : err) : bytes :=
  match e with
  | Eof => bs "err Eof"
  | TooLong => bs "err TooLong"
  | BadType t => match m with Mem => bs "err BadType " ++ dec t | Stream => bs "err BadType" end
  end.

Definition show {A} (m : src) (f : A -> bytes) (o : outcome A err) : bytes :=
  match o with
  | Ok a => bs "ok " ++ f a
  | Err e => show_err m e
  | Panic => bs "PANIC"
  | OutOfFuel => bs "HANG"
  end.

Definition show_dec (bd : build) (d : bytes) (po hl : N) : bytes :=
  let one m := show m (fun '(e, rest) => show_entry e ++ bs " rem=" ++ dec (len rest))
                    (entry_from bd m d po hl) in
  bs "m " ++ one Mem ++ bs " | s " ++ one Stream.

Definition header_of (kind dist : N) (id : bytes) : header :=
  if kind =? 1 then Commit else if kind =? 2 then Tree else if kind =? 3 then Blob
  else if kind =? 4 then Tag else if kind =? 6 then OfsDelta dist else RefDelta id.

Definition show_leb (bd : build) (d : bytes) : bytes :=
  let one m := show m (fun '(v, n, _) => dec v ++ bs " " ++ dec n) (leb64 bd m d) in
  bs "m " ++ one Mem ++ bs " | s " ++ one Stream.

(* number of bytes of the varint at the start of d (up to and including the first byte < 128) *)
Fixpoint varint_len (d : bytes) : N :=
  match d with
  | [] => 0
  | x :: d' => if b2N x <? 128 then 1 else 1 + varint_len d'
  end.

Definition LIMIT : N := 300000.

Definition show_ap (bd : build) (base delta : bytes) : bytes :=
  let l1 := varint_len delta in
  let l2 := varint_len (skipn (N.to_nat l1) delta) in
  if (10 <? l1) || (10 <? l2) then bs "long"
  else
    match delta_sizes bd delta with
    | Ok (bsz, rsz, _) =>
        if (bsz =? len base) && (rsz <=? LIMIT) then
          show Mem (fun '(rsz, r) => dec rsz ++ bs " " ++ hex_encode r) (resolve_one bd base delta)
        else bs "skip"
    | _ => bs "PANIC"
    end.

Definition run_model (bd : build) (fs : list bytes) : bytes :=
  let op := nth_field 0 fs in
  if bytes_eqb op (bs "hdr") then
    let h := header_of (field_N 1 fs) (field_N 3 fs) (nth_field 4 fs) in
    match write_to bd h (field_N 2 fs) with
    | Ok (b, n) =>
        bs "w " ++ hex_encode b ++ bs " " ++ dec n ++ bs " | " ++
        show_dec bd (b ++ nth_field 7 fs) (field_N 5 fs) (field_N 6 fs)
    | Panic => bs "w PANIC"
    | OutOfFuel => bs "w HANG"
    | Err _ => bs "w err"
    end
  else if bytes_eqb op (bs "dec") then
    show_dec bd (nth_field 1 fs) (field_N 2 fs) (field_N 3 fs)
  else if bytes_eqb op (bs "leb") then
    show_leb bd (nth_field 1 fs)
  else if bytes_eqb op (bs "dh") then
    show Mem (fun '(_, rsz, _) => dec rsz) (delta_sizes bd (firstn 32 (nth_field 1 fs)))
  else if bytes_eqb op (bs "ap") then
    show_ap bd (nth_field 1 fs) (nth_field 2 fs)
  else if bytes_eqb op (bs "gd") then
    show_ap bd (nth_field 1 fs) (nth_field 3 fs)
  else bs "?".

Definition run (fs : list bytes) : bytes :=
  match fs with
  | mode :: rest =>
      if bytes_eqb mode (bs "model-release") then run_model Release rest else run_model Debug rest
  | [] => bs "?"
  end.
