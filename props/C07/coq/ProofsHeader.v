(* C07 — lemmas about the entry header codec (size field, offset encoding, whole entry). *)
From Coq Require Import ZArith Lia ZifyBool ZifyNat ZifyN.
From GixV.Base Require Import Bytes BytesFacts Outcome.
From GixV.C07 Require Import Model.
Ltac Zify.zify_post_hook ::= Z.div_mod_to_equations.
Local Open Scope N_scope.

Lemma U64_eq : U64 = 2 ^ 64. Proof. reflexivity. Qed.
Global Opaque U64.

Lemma b2N_N2b n : n < 256 -> b2N (N2b n) = n.
Proof. apply b2N_N2b_small. Qed.

Lemma len_app a b : len (a ++ b) = len a + len b.
Proof. unfold len. rewrite app_length. lia. Qed.
Lemma len_cons x a : len (x :: a) = 1 + len a.
Proof. unfold len. cbn [length]. lia. Qed.
Lemma len_nil : len [] = 0. Proof. reflexivity. Qed.

(* ---- u64 primitives on values that fit ---------------------------------------------------- *)

Lemma add64_ok bd a b : a + b < U64 -> add64 bd a b = Ok (a + b).
Proof. intros H. unfold add64. destruct (N.ltb_spec (a + b) U64); [reflexivity | lia]. Qed.

Lemma shl64_ok bd a s : s < 64 -> a * 2 ^ s < U64 -> shl64 bd a s = Ok (a * 2 ^ s).
Proof.
  intros Hs H. unfold shl64. destruct (N.ltb_spec s 64); [|lia].
  rewrite N.mod_small by exact H. reflexivity.
Qed.

Lemma ok3 (a a' b b' : N) (c : bytes) : a = a' -> b = b' -> @Ok _ err (a, b, c) = Ok (a', b', c).
Proof. intros -> ->. reflexivity. Qed.

(* ---- the size field ----------------------------------------------------------------------- *)

Lemma size_tail_total : forall f c size, size < 2 ^ (7 * N.of_nat f) ->
  exists x l, size_tail (S f) c size = Ok (x :: l).
Proof.
  induction f as [|f IH]; intros c size H.
  - cbn in H. assert (size = 0) by lia. subst. cbn [size_tail]. rewrite N.eqb_refl. eauto.
  - cbn [size_tail]. destruct (N.eqb_spec size 0) as [E|E]; [eauto|].
    fold (size_tail (S f) (size mod 128) (size / 128)).
    destruct (IH (size mod 128) (size / 128)) as (x & l & E2).
    { replace (7 * N.of_nat (S f)) with (7 + 7 * N.of_nat f) in H by lia.
      rewrite N.pow_add_r in H. change (2 ^ 7) with 128 in H. lia. }
    change (size_tail (S f) (size mod 128) (size / 128)) with
      (size_tail (S f) (size mod 128) (size / 128)).
    cbn [size_tail] in E2 |- *. rewrite E2. cbn [obind]. eauto.
Qed.

(* decoding what [size_tail] wrote: the loop of parse_header_info, started on the first byte,
   adds size * 2^s to the accumulator and stops exactly at the end of the field *)
Lemma hdr_loop_size_tail bd m : forall f c size x l, size_tail f c size = Ok (x :: l) -> c < 128 ->
  forall rest i acc s, acc + size * 2 ^ s < U64 ->
  b2N x mod 128 = c /\
  hdr_loop bd m (l ++ rest) (b2N x) i acc s = Ok (acc + size * 2 ^ s, i + len l, rest).
Proof.
  induction f as [|f IH]; intros c size x l E Hc rest i acc s Hb; [discriminate|].
  cbn [size_tail] in E. destruct (N.eqb_spec size 0) as [E0|E0].
  - apply Ok_inj in E. injection E as <- <-. subst size.
    rewrite b2N_N2b by lia. split; [apply N.mod_small; lia|].
    cbn [app]. destruct rest; cbn [hdr_loop]; destruct (N.ltb_spec c 128); try lia;
      rewrite len_nil; apply ok3; lia.
  - destruct (size_tail f (size mod 128) (size / 128)) as [l2| | |] eqn:E2; try discriminate.
    cbn [obind] in E. apply Ok_inj in E. injection E as <- <-.
    destruct l2 as [|x2 l2'].
    { destruct f; [discriminate|]. cbn [size_tail] in E2.
      destruct (size / 128 =? 0); [discriminate|].
      destruct (size_tail f _ _); discriminate. }
    rewrite b2N_N2b by lia. split; [lia|].
    assert (Hs : s < 64).
    { destruct (N.lt_ge_cases s 64) as [?|Hge]; [assumption|].
      assert (H1 : U64 <= 2 ^ s) by (rewrite U64_eq; apply N.pow_le_mono_r; lia).
      assert (H2 : 1 * 2 ^ s <= size * 2 ^ s) by (apply N.mul_le_mono_r; lia).
      remember (2 ^ s) as p. remember (size * p) as q. lia. }
    assert (Hdm : size = 128 * (size / 128) + size mod 128) by (apply N.div_mod'; lia).
    assert (Hp : 2 ^ (s + 7) = 128 * 2 ^ s) by (rewrite N.pow_add_r; change (2 ^ 7) with 128; lia).
    assert (Hsplit : size * 2 ^ s = (size mod 128) * 2 ^ s + (size / 128) * 2 ^ (s + 7)).
    { rewrite Hp. rewrite Hdm at 1. lia. }
    assert (Hm : size mod 128 < 128) by (apply N.mod_lt; lia).
    destruct (IH _ _ _ _ E2 Hm rest (i + 1) (acc + (size mod 128) * 2 ^ s) (s + 7)) as [Hx2 Hrec].
    { lia. }
    cbn [app hdr_loop]. destruct (N.ltb_spec (c + 128) 128); [lia|].
    rewrite Hx2. rewrite shl64_ok by lia. cbn [obind].
    rewrite add64_ok by lia. cbn [obind].
    rewrite Hrec. rewrite len_cons. apply ok3; lia.
Qed.

(* ---- the offset encoding ("leb64" with the +1 per continuation byte) ------------------------ *)

Definition cont (x : byte) : Prop := 128 <= b2N x.

(* value + 1 after reading the continuation bytes [l], starting from value + 1 = w *)
Fixpoint wval (w : N) (l : bytes) : N :=
  match l with
  | [] => w
  | x :: t => wval (w * 128 + b2N x mod 128 + 1) t
  end.

Lemma wval_app w a b : wval w (a ++ b) = wval (wval w a) b.
Proof. revert w. induction a as [|x a IH]; intros w; cbn [app wval]; [reflexivity | apply IH]. Qed.

Lemma wval_ge l : forall w, w <= wval w l.
Proof. induction l as [|x l IH]; intros w; cbn [wval]; [lia|]. specialize (IH (w * 128 + b2N x mod 128 + 1)). lia. Qed.

(* largest n the encoder can finish with k loop iterations left *)
Fixpoint ebound (k : nat) : N :=
  match k with O => 0 | S k' => 128 * ebound k' + 255 end.

Lemma ebound_9 : U64 - 1 <= ebound 9.
Proof. rewrite U64_eq. vm_compute. discriminate. Qed.

Lemma leb_enc_loop_spec bd : forall k n acc, n <= ebound k ->
  exists pre, leb_enc_loop bd k n acc = Ok (pre ++ acc) /\ Forall cont pre /\
              wval 0 pre = n / 128 /\ (length pre <= k)%nat.
Proof.
  induction k as [|k IH]; intros n acc Hn.
  - cbn [ebound] in Hn. assert (n = 0) by lia. subst n. exists []. cbn. repeat split; constructor.
  - cbn [leb_enc_loop]. cbn [ebound] in Hn. destruct (N.eqb_spec (n / 128) 0) as [E|E].
    + exists []. rewrite E. cbn. repeat split; [constructor | lia].
    + destruct (IH (n / 128 - 1) (N2b (128 + (n / 128 - 1) mod 128) :: acc)) as (pre & E1 & F & W & L).
      { lia. }
      exists (pre ++ [N2b (128 + (n / 128 - 1) mod 128)]).
      rewrite <- app_assoc. cbn [app]. split; [exact E1|].
      assert (Hb : b2N (N2b (128 + (n / 128 - 1) mod 128)) = 128 + (n / 128 - 1) mod 128)
        by (apply b2N_N2b; lia).
      repeat split.
      * apply Forall_app. split; [exact F|]. constructor; [|constructor]. unfold cont. rewrite Hb. lia.
      * rewrite wval_app, W. cbn [wval]. rewrite Hb. lia.
      * rewrite app_length. cbn [length]. lia.
Qed.

(* the decoder over continuation bytes [pre] and a final byte [last] *)
Lemma leb_loop_spec bd m last rest : last < 128 -> forall pre c i v,
  128 <= c -> Forall cont pre ->
  wval (v + 1) pre * 128 + last < U64 -> i + len pre + 1 <= 10 ->
  leb_loop bd m (pre ++ N2b last :: rest) c i v = Ok (wval (v + 1) pre * 128 + last, i + len pre + 1, rest).
Proof.
  intros Hl. induction pre as [|x pre IH]; intros c i v Hc F Hb Hi.
  - cbn [app wval] in *. rewrite len_nil in *. cbn [leb_loop].
    destruct (N.ltb_spec c 128); [lia|]. rewrite b2N_N2b by lia.
    assert (Ht : (10 <? i + 1) && (match m, bd with Stream, _ => true | Mem, Debug => true | Mem, Release => false end) = false).
    { destruct (N.ltb_spec 10 (i + 1)); [lia | reflexivity]. }
    rewrite Ht. rewrite add64_ok by lia. cbn [obind].
    rewrite shl64_ok by (change (2 ^ 7) with 128; lia). cbn [obind]. change (2 ^ 7) with 128.
    rewrite (N.mod_small last 128) by lia. rewrite add64_ok by lia. cbn [obind].
    destruct rest; cbn [leb_loop]; destruct (N.ltb_spec last 128); try lia; apply ok3; lia.
  - cbn [app wval] in *. rewrite len_cons in *. inversion F as [|? ? Fx F']; subst.
    pose proof (wval_ge pre ((v + 1) * 128 + b2N x mod 128 + 1)) as Hge.
    cbn [leb_loop]. destruct (N.ltb_spec c 128); [lia|].
    assert (Ht : (10 <? i + 1) && (match m, bd with Stream, _ => true | Mem, Debug => true | Mem, Release => false end) = false).
    { destruct (N.ltb_spec 10 (i + 1)); [lia | reflexivity]. }
    rewrite Ht. rewrite add64_ok by lia. cbn [obind].
    rewrite shl64_ok by (change (2 ^ 7) with 128; lia). cbn [obind]. change (2 ^ 7) with 128.
    rewrite add64_ok by lia. cbn [obind].
    rewrite IH.
    + apply ok3; [|lia]. replace ((v + 1) * 128 + b2N x mod 128 + 1) with ((v + 1) * 128 + b2N x mod 128 + 1) by lia. reflexivity.
    + exact Fx.
    + exact F'.
    + exact Hb.
    + lia.
Qed.

Lemma leb64_encode_decode bd m n rest : n < U64 ->
  exists e, leb64_encode bd n = Ok e /\ (1 <= length e <= 10)%nat /\
            leb64 bd m (e ++ rest) = Ok (n, len e, rest).
Proof.
  intros Hn. unfold leb64_encode.
  destruct (leb_enc_loop_spec bd 9 n [N2b (n mod 128)]) as (pre & E & F & W & L).
  { pose proof ebound_9. lia. }
  exists (pre ++ [N2b (n mod 128)]). split; [exact E|]. split.
  { rewrite app_length. cbn [length]. lia. }
  assert (Hlast : n mod 128 < 128) by (apply N.mod_lt; lia).
  assert (Hdm : n = n / 128 * 128 + n mod 128) by (rewrite (N.div_mod' n 128) at 1; lia).
  rewrite <- app_assoc. cbn [app]. destruct pre as [|x pre].
  - cbn [app wval] in *. unfold leb64. rewrite b2N_N2b by lia.
    destruct rest; cbn [leb_loop]; destruct (N.ltb_spec (n mod 128) 128); try lia;
      rewrite N.mod_small by lia; apply ok3; first [lia | reflexivity].
  - cbn [app]. unfold leb64. inversion F as [|? ? Fx F']; subst.
    cbn [wval] in W. rewrite N.mul_0_l, N.add_0_l in W.
    rewrite leb_loop_spec; try assumption.
    + rewrite W. apply ok3; [lia|]. rewrite len_cons, len_app, len_cons, len_nil. lia.
    + rewrite W. lia.
    + cbn [length] in L. unfold len. lia.
Qed.

Ltac eqb_num :=
  repeat match goal with
  | |- context [N.eqb ?a ?b] =>
      let v := eval vm_compute in (N.eqb a b) in
      match v with
      | true => change (N.eqb a b) with true
      | false => change (N.eqb a b) with false
      end
  end; cbv iota.

(* ---- whole entries ------------------------------------------------------------------------------ *)

Definition wf_header (h : header) : Prop :=
  match h with
  | RefDelta id => length id = 20%nat
  | OfsDelta d => d < U64
  | _ => True
  end.

Lemma type_id_small h : 1 <= type_id h <= 7.
Proof. destruct h; cbn; lia. Qed.

Lemma first_byte_fields x ty sz : ty <= 7 -> b2N x mod 128 = ty * 16 + sz mod 16 ->
  (b2N x / 16) mod 8 = ty /\ b2N x mod 16 = sz mod 16.
Proof. intros Ht H. pose proof (b2N_lt x). lia. Qed.

Lemma read_id_ok m id rest : length id = 20%nat -> read_id m (id ++ rest) 20 = Ok (id, rest).
Proof.
  intros L. assert (F : firstn 20 (id ++ rest) = id).
  { rewrite <- L. rewrite firstn_app, Nat.sub_diag, firstn_all. cbn. apply app_nil_r. }
  assert (S : skipn 20 (id ++ rest) = rest).
  { rewrite <- L. rewrite skipn_app, Nat.sub_diag, skipn_all. reflexivity. }
  assert (Hl : 20 <= len (id ++ rest)) by (rewrite len_app; unfold len; lia).
  unfold read_id. destruct m.
  - destruct (N.leb_spec 20 (len (id ++ rest))); [|lia]. change (20 =? 20) with true.
    cbn [andb]. rewrite F, S. reflexivity.
  - change (20 <? 20) with false. cbv iota. destruct (N.ltb_spec (len (id ++ rest)) 20); [lia|].
    change (20 =? 20) with true. cbv iota. rewrite F, S. reflexivity.
Qed.

Lemma size_field_roundtrip bd m ty size more : size < U64 -> ty <= 7 ->
  exists hd, size_tail 10 (ty * 16 + size mod 16) (size / 16) = Ok hd /\ (1 <= length hd <= 10)%nat /\
             parse_header_info bd m (hd ++ more) = Ok (ty, size, len hd, more).
Proof.
  intros Hs Ht.
  destruct (size_tail_total 9 (ty * 16 + size mod 16) (size / 16)) as (x & l & E).
  { rewrite U64_eq in Hs. change (7 * N.of_nat 9) with 63. 
    assert (size / 16 < 2 ^ 60).
    { apply N.div_lt_upper_bound; [lia|]. change (16 * 2 ^ 60) with (2 ^ 64). exact Hs. }
    assert (2 ^ 60 < 2 ^ 63) by (apply N.pow_lt_mono_r; lia). lia. }
  exists (x :: l). split; [exact E|].
  assert (Hc : ty * 16 + size mod 16 < 128) by lia.
  assert (Hdm : size mod 16 + size / 16 * 2 ^ 4 = size) by (change (2 ^ 4) with 16; lia).
  destruct (hdr_loop_size_tail bd m 10 _ _ _ _ E Hc more 1 (size mod 16) 4) as [Hx Hrec].
  { rewrite Hdm. exact Hs. }
  destruct (first_byte_fields x ty size Ht Hx) as [F1 F2].
  split.
  { (* length: at most 10 because nine continuation steps exhaust 60 bits *)
    assert (L : forall f c s y t, size_tail f c s = Ok (y :: t) -> (length (y :: t) <= f)%nat).
    { clear. induction f as [|f IH]; intros c s y t E; [discriminate|]. cbn [size_tail] in E.
      destruct (s =? 0).
      - apply Ok_inj in E. injection E as <- <-. cbn. lia.
      - destruct (size_tail f (s mod 128) (s / 128)) as [[|y2 t2]| | |] eqn:E2; try discriminate.
        + destruct f; [discriminate|]. cbn [size_tail] in E2. destruct (s / 128 =? 0); [discriminate|].
          destruct (size_tail f _ _); discriminate.
        + cbn [obind] in E. apply Ok_inj in E. injection E as <- <-.
          specialize (IH _ _ _ _ E2). cbn [length] in *. lia. }
    specialize (L _ _ _ _ _ E). cbn [length] in *. lia. }
  cbn [app parse_header_info]. rewrite F2, Hrec. cbn [obind]. rewrite F1, Hdm, len_cons. reflexivity.
Qed.

Lemma entry_roundtrip bd m h size po rest : size < U64 -> wf_header h ->
  exists b, write_to bd h size = Ok (b, len b) /\ (1 <= length b <= 30)%nat /\
    (po + len b < U64 ->
     entry_from bd m (b ++ rest) po 20 =
       Ok ({| e_header := h; e_size := size; e_data_offset := po + len b |}, rest)).
Proof.
  intros Hs Hw. pose proof (type_id_small h) as Ht. unfold write_to, entry_from.
  destruct h as [| | | |id|d].
  1-4: destruct (size_field_roundtrip bd m _ size rest Hs (proj2 Ht)) as (hd & E & L & P);
       rewrite E; cbn [obind]; exists hd; split; [reflexivity|]; split; [lia|]; intros Ho;
       rewrite P; cbn [obind type_id]; eqb_num; cbn [obind]; rewrite add64_ok by exact Ho; reflexivity.
  - cbn [wf_header] in Hw.
    destruct (size_field_roundtrip bd m _ size (id ++ rest) Hs (proj2 Ht)) as (hd & E & L & P).
    rewrite E. cbn [obind]. exists (hd ++ id). rewrite len_app. split; [reflexivity|].
    split; [rewrite app_length; lia|]. intros Ho.
    rewrite <- app_assoc, P. cbn [obind type_id]. eqb_num. rewrite read_id_ok by exact Hw. cbn [obind].
    replace (len id) with 20 in * by (unfold len; lia).
    rewrite add64_ok by exact Ho. reflexivity.
  - cbn [wf_header] in Hw.
    destruct (leb64_encode_decode bd m d rest Hw) as (e & Ee & Le & De).
    destruct (size_field_roundtrip bd m _ size (e ++ rest) Hs (proj2 Ht)) as (hd & E & L & P).
    rewrite E. cbn [obind]. rewrite Ee. cbn [obind]. exists (hd ++ e). rewrite len_app.
    split; [reflexivity|]. split; [rewrite app_length; lia|]. intros Ho.
    rewrite <- app_assoc, P. cbn [obind type_id]. eqb_num.
    rewrite De. cbn [obind]. rewrite add64_ok by exact Ho. reflexivity.
Qed.
