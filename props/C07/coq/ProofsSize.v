(* C07 — the size headers of a delta (decode_header_size) and the composition used by decode_entry. *)
From Coq Require Import ZArith Lia ZifyBool ZifyNat ZifyN.
From GixV.Base Require Import Bytes BytesFacts Outcome.
From GixV.C07 Require Import Model Spec ProofsHeader ProofsDelta.
Ltac Zify.zify_post_hook ::= Z.div_mod_to_equations.
Local Open Scope N_scope.

Lemma testbit_small a i n : a < 2 ^ i -> i <= n -> N.testbit a n = false.
Proof.
  intros Ha Hn. destruct (N.eq_dec a 0) as [->|Hz]; [apply N.bits_0|].
  apply N.bits_above_log2. apply N.log2_lt_pow2; [lia|].
  assert (2 ^ i <= 2 ^ n) by (apply N.pow_le_mono_r; lia). lia.
Qed.

Lemma lor_disjoint a b i : a < 2 ^ i -> N.lor a (b * 2 ^ i) = a + b * 2 ^ i.
Proof.
  intros Ha. assert (L : N.land a (b * 2 ^ i) = 0).
  { apply N.bits_inj_0. intros n. rewrite N.land_spec.
    destruct (N.lt_ge_cases n i) as [Hlt|Hge].
    - rewrite N.mul_pow2_bits_low by exact Hlt. apply Bool.andb_false_r.
    - rewrite (testbit_small a i n Ha Hge). reflexivity. }
  rewrite N.add_nocarry_lxor by exact L. symmetry. apply N.lxor_lor. exact L.
Qed.

Lemma dhs_varint bd : forall f n rest i acc consumed,
  n < 2 ^ (7 * N.of_nat (S f)) -> acc < 2 ^ i -> i < 64 -> acc + n * 2 ^ i < U64 ->
  dhs_loop bd (varint_fuel (S f) n ++ rest) i acc consumed =
    Ok (acc + n * 2 ^ i, consumed + len (varint_fuel (S f) n)).
Proof.
  induction f as [|f IH]; intros n rest i acc consumed Hn Ha Hi Hb.
  - change (7 * N.of_nat 1) with 7 in Hn. change (2 ^ 7) with 128 in Hn.
    cbn [varint_fuel]. destruct (N.ltb_spec n 128) as [Hs|Hs]; [|lia].
    cbn [app dhs_loop]. rewrite b2N_N2b by lia. rewrite N.mod_small by lia.
    rewrite shl64_ok by lia. cbn [obind]. destruct (N.ltb_spec n 128); [|lia].
    rewrite lor_disjoint by exact Ha. rewrite len_cons, len_nil. reflexivity.
  - remember (S f) as f1 eqn:Ef1.
    cbn [varint_fuel]. destruct (N.ltb_spec n 128) as [Hs|Hs].
    + cbn [app dhs_loop]. rewrite b2N_N2b by lia. rewrite N.mod_small by lia.
      rewrite shl64_ok by lia. cbn [obind]. destruct (N.ltb_spec n 128); [|lia].
      rewrite lor_disjoint by exact Ha. rewrite len_cons, len_nil. reflexivity.
    + assert (Hp : 2 ^ (i + 7) = 128 * 2 ^ i) by (rewrite N.pow_add_r; change (2 ^ 7) with 128; lia).
      assert (Hdm : n = 128 * (n / 128) + n mod 128) by (apply N.div_mod'; lia).
      assert (Hm : n mod 128 < 128) by (apply N.mod_lt; lia).
      assert (Hsplit : n * 2 ^ i = (n mod 128) * 2 ^ i + (n / 128) * 2 ^ (i + 7)).
      { rewrite Hp. rewrite Hdm at 1. lia. }
      assert (Hq : 1 <= n / 128) by lia.
      assert (Hi7 : i + 7 < 64).
      { destruct (N.lt_ge_cases (i + 7) 64) as [?|Hge]; [assumption|].
        assert (H1 : U64 <= 2 ^ (i + 7)) by (rewrite U64_eq; apply N.pow_le_mono_r; lia).
        assert (H2 : 1 * 2 ^ (i + 7) <= n / 128 * 2 ^ (i + 7)) by (apply N.mul_le_mono_r; lia).
        remember (2 ^ (i + 7)) as p. remember (n / 128 * p) as q. remember (n mod 128 * 2 ^ i) as q2. lia. }
      cbn [app dhs_loop]. rewrite b2N_N2b by lia.
      replace ((128 + n mod 128) mod 128) with (n mod 128) by lia.
      assert (Hle : n mod 128 * 2 ^ i <= 127 * 2 ^ i) by (apply N.mul_le_mono_r; lia).
      rewrite shl64_ok; [| lia | remember (n mod 128 * 2 ^ i) as q2; remember (n / 128 * 2 ^ (i + 7)) as q; lia].
      cbn [obind]. destruct (N.ltb_spec (128 + n mod 128) 128); [lia|].
      rewrite lor_disjoint by exact Ha.
      rewrite IH.
      * rewrite len_cons. f_equal. f_equal; [|lia].
        remember (n mod 128 * 2 ^ i) as q2; remember (n / 128 * 2 ^ (i + 7)) as q. lia.
      * replace (7 * N.of_nat (S f1)) with (7 + 7 * N.of_nat f1) in Hn by lia.
        rewrite N.pow_add_r in Hn. change (2 ^ 7) with 128 in Hn. lia.
      * rewrite Hp. remember (2 ^ i) as p. remember (n mod 128 * p) as q2. lia.
      * exact Hi7.
      * remember (n mod 128 * 2 ^ i) as q2; remember (n / 128 * 2 ^ (i + 7)) as q. lia.
Qed.

Lemma varint_length : forall f n, (1 <= f)%nat -> (1 <= length (varint_fuel f n) <= f)%nat.
Proof.
  induction f as [|f IH]; intros n Hf; [lia|]. cbn [varint_fuel].
  destruct (n <? 128); cbn [length]; [lia|].
  destruct f; [cbn; lia|]. specialize (IH (n / 128) ltac:(lia)). lia.
Qed.

Lemma decode_header_size_varint bd n rest : n < U64 ->
  decode_header_size bd (varint n ++ rest) = Ok (n, len (varint n)).
Proof.
  intros Hn. unfold decode_header_size, varint.
  rewrite dhs_varint.
  - f_equal. f_equal; lia.
  - rewrite U64_eq in Hn. change (7 * N.of_nat 10) with 70.
    assert (2 ^ 64 < 2 ^ 70) by (apply N.pow_lt_mono_r; lia). lia.
  - cbn. lia.
  - lia.
  - change (2 ^ 0) with 1. lia.
Qed.

(* what decode_entry computes for a one-delta chain whose base comes from outside the pack *)
Lemma resolve_one_git bd base is :
  len base < U64 -> len (eval base is) < U64 -> Forall (valid base) is ->
  (is <> [] \/ base <> []) ->
  resolve_one bd base (varint (len base) ++ varint (len (eval base is)) ++ encode_delta is) =
    Ok (len (eval base is), eval base is).
Proof.
  intros Hb Ht Hv Hne. unfold resolve_one, delta_sizes.
  rewrite decode_header_size_varint by exact Hb. cbn [obind].
  assert (E1 : N.to_nat (len (varint (len base))) = length (varint (len base))) by (unfold len; lia).
  rewrite E1, skipn_app, Nat.sub_diag, skipn_all. cbn [skipn app].
  rewrite decode_header_size_varint by exact Ht. cbn [obind].
  assert (E2 : N.to_nat (len (varint (len (eval base is)))) = length (varint (len (eval base is))))
    by (unfold len; lia).
  rewrite E2, skipn_app, Nat.sub_diag, skipn_all. cbn [skipn app].
  assert (Hnz : (N.max (len base) (len (eval base is)) =? 0) &&
                negb (len (varint (len base) ++ varint (len (eval base is)) ++ encode_delta is) =? 0) = false).
  { destruct (N.eqb_spec (N.max (len base) (len (eval base is))) 0) as [E|E]; [|reflexivity].
    exfalso. assert (Lb : len base = 0) by lia. assert (Lt : len (eval base is) = 0) by lia.
    destruct Hne as [Hne|Hne].
    - destruct is as [|i is']; [congruence|]. inversion Hv as [|? ? Vi _]; subst.
      unfold eval in Lt. cbn [flat_map] in Lt. rewrite len_app in Lt.
      destruct i as [ofs n|d]; cbn [valid eval1] in *.
      + lia.
      + lia.
    - destruct base; [congruence|]. rewrite len_cons in Lb. lia. }
  rewrite Hnz.
  assert (E3 : N.to_nat (len (eval base is)) = length (eval base is)) by (unfold len; lia).
  rewrite E3, apply_git_encoded by exact Hv. reflexivity.
Qed.
