(* C07 — model of the pack entry header codec and of the delta interpreter.
   Sources (pinned tree):
     gix-pack/src/data/entry/header.rs   Header::write_to, leb64_encode
     gix-pack/src/data/entry/decode.rs   Entry::from_bytes / from_read, parse_header_info,
                                          streaming_parse_header_info
     gix-features/src/decode.rs          leb64, leb64_from_read
     gix-pack/src/data/delta.rs          decode_header_size, apply
   and the composition in gix-pack/src/data/file/decode/{entry.rs,header.rs} through which the
   private delta functions are reached (decode_entry with an out-of-pack base, decode_header).

   u64 arithmetic is explicit: [add64] is `+`/`+=` (debug build: overflow panics, release: wraps),
   [shl64] is `<<` (debug: a shift amount >= 64 panics, release: the amount is masked with 63; bits
   shifted out are lost silently in both builds).  [build] selects the profile.

   The in-memory and the streaming decoders are textually the same loops in the Rust source except
   for what happens at the end of the input: indexing `data[i]` panics, `read_exact` returns
   `UnexpectedEof`.  They are modelled by one definition with a [src] parameter. *)
From GixV.Base Require Import Bytes Outcome.
Local Open Scope N_scope.
Local Open Scope outcome_scope.

Inductive build := Debug | Release.
Inductive src := Mem | Stream.
Inductive err := Eof | BadType (t : N) | TooLong.

Definition U64 : N := 18446744073709551616.

Definition add64 (bd : build) (a b : N) : outcome N err :=
  if a + b <? U64 then Ok (a + b)
  else match bd with Debug => Panic | Release => Ok ((a + b) mod U64) end.

(* a << s on u64 *)
Definition shl64 (bd : build) (a s : N) : outcome N err :=
  if s <? 64 then Ok ((a * 2 ^ s) mod U64)
  else match bd with Debug => Panic | Release => Ok ((a * 2 ^ (s mod 64)) mod U64) end.

Definition len (l : bytes) : N := N.of_nat (length l).

(* ---- Header ---------------------------------------------------------------------------- *)

Inductive header := Commit | Tree | Blob | Tag | RefDelta (id : bytes) | OfsDelta (dist : N).

Definition type_id (h : header) : N :=
  match h with
  | Commit => 1 | Tree => 2 | Blob => 3 | Tag => 4 | OfsDelta _ => 6 | RefDelta _ => 7
  end.

(* the loop of write_to:  while size != 0 { emit c|0x80; c = size & 0x7f; size >>= 7 } emit c
   (c < 128 always, so c | 0x80 = c + 128) *)
Fixpoint size_tail (fuel : nat) (c size : N) : outcome bytes err :=
  match fuel with
  | O => OutOfFuel
  | S f =>
      if size =? 0 then Ok [N2b c]
      else r <- size_tail f (size mod 128) (size / 128) ;; Ok (N2b (c + 128) :: r)
  end.

(* leb64_encode: buf[9] = n & 0x7f; for out in buf[..9].rev() { n >>= 7; if n == 0 {break}
   n -= 1; *out = 0x80 | n & 0x7f }; debug_assert_eq!(n, 0) *)
Fixpoint leb_enc_loop (bd : build) (k : nat) (n : N) (acc : bytes) : outcome bytes err :=
  match k with
  | O => if n =? 0 then Ok acc else match bd with Debug => Panic | Release => Ok acc end
  | S k' =>
      let n1 := n / 128 in
      if n1 =? 0 then Ok acc
      else let n2 := n1 - 1 in leb_enc_loop bd k' n2 (N2b (128 + n2 mod 128) :: acc)
  end.
Definition leb64_encode (bd : build) (n : N) : outcome bytes err :=
  leb_enc_loop bd 9 n [N2b (n mod 128)].

(* Header::write_to(size, out) with out = Vec<u8>: the bytes written and the returned count *)
Definition write_to (bd : build) (h : header) (size : N) : outcome (bytes * N) err :=
  hd <- size_tail 10 (type_id h * 16 + size mod 16) (size / 16) ;;
  match h with
  | RefDelta id => Ok (hd ++ id, len hd + len id)
  | OfsDelta d => e <- leb64_encode bd d ;; Ok (hd ++ e, len hd + len e)
  | _ => Ok (hd, len hd)
  end.

(* ---- decoding -------------------------------------------------------------------------- *)

Definition end_of_input {A} (m : src) : outcome A err :=
  match m with Mem => Panic | Stream => Err Eof end.

(* parse_header_info / streaming_parse_header_info, after the first byte [c]:
   while c & 0x80 != 0 { c = next; i += 1; size += u64::from(c & 0x7f) << s; s += 7 }
   returns (size, i, rest of input) *)
Fixpoint hdr_loop (bd : build) (m : src) (r : bytes) (c i size s : N) : outcome (N * N * bytes) err :=
  if c <? 128 then Ok (size, i, r)
  else match r with
       | [] => end_of_input m
       | x :: r' =>
           let c' := b2N x in
           sh <- shl64 bd (c' mod 128) s ;;
           sz <- add64 bd size sh ;;
           hdr_loop bd m r' c' (i + 1) sz (s + 7)
       end.

(* (type_id, size, consumed, rest) *)
Definition parse_header_info (bd : build) (m : src) (d : bytes) : outcome (N * N * N * bytes) err :=
  match d with
  | [] => end_of_input m
  | x :: r =>
      let c := b2N x in
      ' (size, i, r1) <- hdr_loop bd m r c 1 (c mod 16) 4 ;;
      Ok ((c / 16) mod 8, size, i, r1)
  end.

(* leb64 / leb64_from_read after the first byte:
   while c & 0x80 != 0 { c = next; i += 1; CHECK; value += 1; value = (value << 7) + (c & 0x7f) }
   CHECK is `debug_assert!(i <= 10)` in leb64 (memory) and, since /repo 4aaf89841,
   `if i > 10 { return Err(InvalidData) }` in leb64_from_read (both builds). *)
Fixpoint leb_loop (bd : build) (m : src) (r : bytes) (c i value : N) : outcome (N * N * bytes) err :=
  if c <? 128 then Ok (value, i, r)
  else match r with
       | [] => end_of_input m
       | x :: r' =>
           let c' := b2N x in
           let i' := i + 1 in
           if (10 <? i') && (match m, bd with Stream, _ => true | Mem, Debug => true | Mem, Release => false end)
           then match m with Stream => Err TooLong | Mem => Panic end
           else
             v1 <- add64 bd value 1 ;;
             v2 <- shl64 bd v1 7 ;;
             v3 <- add64 bd v2 (c' mod 128) ;;
             leb_loop bd m r' c' i' v3
       end.

Definition leb64 (bd : build) (m : src) (d : bytes) : outcome (N * N * bytes) err :=
  match d with
  | [] => end_of_input m
  | x :: r => let c := b2N x in leb_loop bd m r c 1 (c mod 128)
  end.

Record entry := { e_header : header; e_size : N; e_data_offset : N }.

(* the REF_DELTA arm: `&d[consumed..][..hash_len]` + from_bytes_or_panic  (memory)
                      `&mut buf[..hash_len]` (buf is 20 bytes), read_exact, from_bytes_or_panic (stream) *)
Definition read_id (m : src) (r : bytes) (hash_len : N) : outcome (bytes * bytes) err :=
  match m with
  | Mem =>
      if (hash_len <=? len r) && (hash_len =? 20)
      then Ok (firstn 20 r, skipn 20 r) else Panic
  | Stream =>
      if 20 <? hash_len then Panic
      else if len r <? hash_len then Err Eof
      else if hash_len =? 20 then Ok (firstn 20 r, skipn 20 r) else Panic
  end.

(* Entry::from_bytes (m = Mem) / Entry::from_read (m = Stream); also returns the unread input *)
Definition entry_from (bd : build) (m : src) (d : bytes) (pack_offset hash_len : N)
  : outcome (entry * bytes) err :=
  ' (ty, size, consumed, r1) <- parse_header_info bd m d ;;
  ' (h, consumed, r2) <-
      (if ty =? 6 then
         ' (dist, n, r2) <- leb64 bd m r1 ;; Ok (OfsDelta dist, consumed + n, r2)
       else if ty =? 7 then
         ' (id, r2) <- read_id m r1 hash_len ;; Ok (RefDelta id, consumed + hash_len, r2)
       else if ty =? 3 then Ok (Blob, consumed, r1)
       else if ty =? 2 then Ok (Tree, consumed, r1)
       else if ty =? 1 then Ok (Commit, consumed, r1)
       else if ty =? 4 then Ok (Tag, consumed, r1)
       else Err (BadType ty)) ;;
  off <- add64 bd pack_offset consumed ;;
  Ok ({| e_header := h; e_size := size; e_data_offset := off |}, r2).

(* ---- delta ----------------------------------------------------------------------------- *)

(* decode_header_size: for cmd in d { consumed += 1; size |= (cmd & 0x7f) << i; i += 7;
                                      if cmd & 0x80 == 0 { break } }  *)
Fixpoint dhs_loop (bd : build) (d : bytes) (i size consumed : N) : outcome (N * N) err :=
  match d with
  | [] => Ok (size, consumed)
  | x :: d' =>
      let c := b2N x in
      sh <- shl64 bd (c mod 128) i ;;
      let size' := N.lor size sh in
      if c <? 128 then Ok (size', consumed + 1)
      else dhs_loop bd d' (i + 7) size' (consumed + 1)
  end.
Definition decode_header_size (bd : build) (d : bytes) : outcome (N * N) err :=
  dhs_loop bd d 0 0 0.

(* `if cmd & bit != 0 { v = data[i]; i += 1 }` *)
Definition opt_byte (flag : bool) (d : bytes) : outcome (N * bytes) err :=
  if flag then match d with [] => Panic | x :: d' => Ok (b2N x, d') end
  else Ok (0, d).

(* std::io::Write for &mut [u8]: copies min(len) bytes, never fails *)
Definition take_room (room : nat) (w : bytes) : bytes := firstn room w.

(* apply(base, target, data): [room] is target.len(); the result is what was written into target.
   Each iteration consumes at least one byte of [data]; fuel = length data + 1 is enough. *)
Fixpoint apply_loop (fuel : nat) (base : bytes) (room : nat) (data : bytes) : outcome bytes err :=
  match fuel with
  | O => OutOfFuel
  | S f =>
      match data with
      | [] => if Nat.eqb room 0 then Ok [] else Panic       (* assert_eq!(target.len(), 0) *)
      | x :: d =>
          let c := b2N x in
          if 128 <=? c then
            ' (o0, d) <- opt_byte (N.testbit c 0) d ;;
            ' (o1, d) <- opt_byte (N.testbit c 1) d ;;
            ' (o2, d) <- opt_byte (N.testbit c 2) d ;;
            ' (o3, d) <- opt_byte (N.testbit c 3) d ;;
            ' (s0, d) <- opt_byte (N.testbit c 4) d ;;
            ' (s1, d) <- opt_byte (N.testbit c 5) d ;;
            ' (s2, d) <- opt_byte (N.testbit c 6) d ;;
            let ofs := o0 + 256 * o1 + 65536 * o2 + 16777216 * o3 in
            let size := s0 + 256 * s1 + 65536 * s2 in
            let size := if size =? 0 then 65536 else size in
            if ofs + size <=? len base then                     (* &base[ofs..ofs + size] *)
              let w := take_room room (firstn (N.to_nat size) (skipn (N.to_nat ofs) base)) in
              r <- apply_loop f base (room - length w) d ;; Ok (w ++ r)
            else Panic
          else if c =? 0 then Panic                             (* unsupported command code 0 *)
          else if c <=? len d then                              (* &data[i..i + size] *)
            let w := take_room room (firstn (N.to_nat c) d) in
            r <- apply_loop f base (room - length w) (skipn (N.to_nat c) d) ;; Ok (w ++ r)
          else Panic
      end
  end.

Definition apply (base : bytes) (target_len : nat) (data : bytes) : outcome bytes err :=
  apply_loop (S (length data)) base target_len data.

(* The composition in File::resolve_deltas for a chain of one delta whose base is supplied from
   outside the pack (ResolvedBase::OutOfPack): the two size headers are read, then
   apply(&source[..base_size], &mut target[..result_size], rest).  Only the case
   base_size = length base is modelled (otherwise the source buffer contains unrelated bytes;
   that buffer layout belongs to C08).  Returns (base_size, result_size, object). *)
Definition delta_sizes (bd : build) (delta : bytes) : outcome (N * N * bytes) err :=
  ' (bsz, o1) <- decode_header_size bd delta ;;
  let rest := skipn (N.to_nat o1) delta in
  ' (rsz, o2) <- decode_header_size bd rest ;;
  Ok (bsz, rsz, skipn (N.to_nat o2) rest).

Definition resolve_one (bd : build) (base delta : bytes) : outcome (N * bytes) err :=
  ' (bsz, rsz, ins) <- delta_sizes bd delta ;;
  (* buffer layout of resolve_deltas: with both sizes 0 and a non-empty delta the instructions
     are "rescued" with `instructions.copy_from_slice(&buffers[delta_range])` where buffers is
     empty: slice index panic (observed; the layout itself is C08's subject) *)
  if (N.max bsz rsz =? 0) && negb (len delta =? 0) then Panic
  else
    r <- apply base (N.to_nat rsz) ins ;;
    Ok (rsz, r).
