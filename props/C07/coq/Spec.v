(* C07 — specification side of the delta format: a delta body is a list of instructions, with
   git's byte encoding (diff-delta.c / patch-delta.c): a copy command is 0x80 | flags, followed by
   the offset bytes (little endian, 4) and size bytes (3) whose flag is set; a byte that is zero
   may be omitted (flag clear); size 0x10000 is written as size 0.  An insert is its length
   (1..127) followed by the literal bytes. *)
From GixV.Base Require Import Bytes Outcome.
From GixV.C07 Require Import Model.
Local Open Scope N_scope.

Inductive instr := Copy (ofs n : N) | Insert (d : bytes).

Definition eval1 (base : bytes) (i : instr) : bytes :=
  match i with
  | Copy ofs n => firstn (N.to_nat n) (skipn (N.to_nat ofs) base)
  | Insert d => d
  end.
Definition eval (base : bytes) (is : list instr) : bytes := flat_map (eval1 base) is.

Definition valid (base : bytes) (i : instr) : Prop :=
  match i with
  | Copy ofs n => 1 <= n /\ n < 16777216 /\ ofs < 4294967296 /\ ofs + n <= len base
  | Insert d => 1 <= len d /\ len d <= 127
  end.

Definition optb (f : bool) (v : N) : bytes := if f then [N2b v] else [].
Definition b2n (f : bool) : N := if f then 1 else 0.
Definition cmd_byte (f0 f1 f2 f3 f4 f5 f6 : bool) : N :=
  128 + b2n f0 + 2 * b2n f1 + 4 * b2n f2 + 8 * b2n f3 + 16 * b2n f4 + 32 * b2n f5 + 64 * b2n f6.

(* which operand bytes are written: a non-zero byte must be, a zero byte may be *)
Record flags := { k0 : bool; k1 : bool; k2 : bool; k3 : bool; k4 : bool; k5 : bool; k6 : bool }.
Definition covers (f : bool) (v : N) : Prop := v <> 0 -> f = true.

Definition copy_operands (ofs n : N) : list N :=
  let n' := if n =? 65536 then 0 else n in
  [ofs mod 256; (ofs / 256) mod 256; (ofs / 65536) mod 256; (ofs / 16777216) mod 256;
   n' mod 256; (n' / 256) mod 256; (n' / 65536) mod 256].

Definition encode_copy (k : flags) (ofs n : N) : bytes :=
  match copy_operands ofs n with
  | [o0; o1; o2; o3; s0; s1; s2] =>
      N2b (cmd_byte (k0 k) (k1 k) (k2 k) (k3 k) (k4 k) (k5 k) (k6 k)) ::
      optb (k0 k) o0 ++ optb (k1 k) o1 ++ optb (k2 k) o2 ++ optb (k3 k) o3 ++
      optb (k4 k) s0 ++ optb (k5 k) s1 ++ optb (k6 k) s2
  | _ => []
  end.

Definition flags_cover (k : flags) (ofs n : N) : Prop :=
  match copy_operands ofs n with
  | [o0; o1; o2; o3; s0; s1; s2] =>
      covers (k0 k) o0 /\ covers (k1 k) o1 /\ covers (k2 k) o2 /\ covers (k3 k) o3 /\
      covers (k4 k) s0 /\ covers (k5 k) s1 /\ covers (k6 k) s2
  | _ => False
  end.

(* git's own choice: exactly the non-zero bytes *)
Definition nz (v : N) : bool := negb (v =? 0).
Definition git_flags (ofs n : N) : flags :=
  match copy_operands ofs n with
  | [o0; o1; o2; o3; s0; s1; s2] =>
      {| k0 := nz o0; k1 := nz o1; k2 := nz o2; k3 := nz o3; k4 := nz s0; k5 := nz s1; k6 := nz s2 |}
  | _ => {| k0 := true; k1 := true; k2 := true; k3 := true; k4 := true; k5 := true; k6 := true |}
  end.

(* an encoded instruction: the instruction together with the flag choice for a copy *)
Definition einstr := (instr * flags)%type.
Definition encode_einstr (e : einstr) : bytes :=
  match fst e with
  | Copy ofs n => encode_copy (snd e) ofs n
  | Insert d => N2b (len d) :: d
  end.
Definition evalid (base : bytes) (e : einstr) : Prop :=
  valid base (fst e) /\ match fst e with Copy ofs n => flags_cover (snd e) ofs n | Insert _ => True end.

Definition encode_body (es : list einstr) : bytes := flat_map encode_einstr es.

(* git's encoding of an instruction list *)
Definition git_einstr (i : instr) : einstr :=
  (i, match i with Copy ofs n => git_flags ofs n | Insert _ => git_flags 0 0 end).
Definition encode_delta (is : list instr) : bytes := encode_body (map git_einstr is).

(* size header of a delta (varint, 7 bits per byte, least significant first) *)
Fixpoint varint_fuel (fuel : nat) (n : N) : bytes :=
  match fuel with
  | O => []
  | S f => if n <? 128 then [N2b n] else N2b (128 + n mod 128) :: varint_fuel f (n / 128)
  end.
Definition varint (n : N) : bytes := varint_fuel 10 n.
