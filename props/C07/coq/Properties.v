(* C07 — Pack entry headers and deltas encode and decode losslessly.
   Only statements here; every proof is [exact <lemma>].
   Model: Model.v.  [bd] ranges over the debug and the release build (overflow checks on / off),
   [m] over the in-memory decoder (Entry::from_bytes) and the streaming one (Entry::from_read).
   U64 = 2^64; [len] is the length as N. *)
From GixV.Base Require Import Bytes BytesFacts Outcome.
From GixV.C07 Require Import Model Spec ProofsHeader ProofsDelta ProofsSize.
Local Open Scope N_scope.

(* Every header kind, every size below 2^64, every base distance below 2^64 (0 included) and every
   20-byte base id: write_to succeeds in both builds (no overflow, the debug assertion of
   leb64_encode holds), reports the number of bytes it wrote, and both decoders, given those
   bytes followed by ANY further input [rest], return the same kind, size, distance / id, a data
   offset of pack_offset + written, and leave exactly [rest] unread. *)
Theorem header_RT : forall bd m h size po rest, size < U64 -> wf_header h ->
  exists b, write_to bd h size = Ok (b, len b) /\ (1 <= length b <= 30)%nat /\
    (po + len b < U64 ->
     entry_from bd m (b ++ rest) po 20 =
       Ok ({| e_header := h; e_size := size; e_data_offset := po + len b |}, rest)).
Proof. exact entry_roundtrip. Qed.

(* the offset encoding on its own (gix_features::decode::leb64 / leb64_from_read against
   leb64_encode): 1..10 bytes, decodes to the same number consuming exactly those bytes *)
Theorem ofs_distance_RT : forall bd m n rest, n < U64 ->
  exists e, leb64_encode bd n = Ok e /\ (1 <= length e <= 10)%nat /\
            leb64 bd m (e ++ rest) = Ok (n, len e, rest).
Proof. exact leb64_encode_decode. Qed.

(* non-vacuity: the largest distance with the largest size, streamed, in the debug build *)
Example header_RT_example :
  let b := map N2b [239;255;255;255;255;255;255;255;255;15;128;254;254;254;254;254;254;254;254;127] in
  write_to Debug (OfsDelta 18446744073709551615) 18446744073709551615 = Ok (b, 20) /\
  entry_from Debug Stream (b ++ [x80]) 7 20 =
    Ok ({| e_header := OfsDelta 18446744073709551615; e_size := 18446744073709551615;
           e_data_offset := 27 |}, [x80]).
Proof. split; vm_compute; reflexivity. Qed.

(* ---- deltas (Spec.v: instruction lists, git's byte encoding) ------------------------------------------ *)

(* Applying the encoding git produces for ANY list of valid instructions (copy ranges inside the
   base, 1 <= copy size < 2^24, offsets < 2^32, inserts of 1..127 bytes; zero operand bytes omitted,
   size 0x10000 written as 0) to a target buffer of the right length yields exactly the bytes the
   instructions denote; no panic, no hang. *)
Theorem apply_is_semantics : forall base is, Forall (valid base) is ->
  apply base (length (eval base is)) (encode_delta is) = Ok (eval base is).
Proof. exact apply_git_encoded. Qed.

(* The same for every admissible encoding, not only git's minimal one (a zero operand byte may be
   written explicitly), and for a target buffer that is SHORTER than the output: apply then
   returns the first [room] bytes without any error (std::io::Write for &mut [u8] truncates) —
   git's patch_delta rejects such a delta. *)
Theorem apply_any_encoding_truncates : forall base es room, Forall (evalid base) es ->
  (room <= length (eval base (map fst es)))%nat ->
  apply base room (encode_body es) = Ok (firstn room (eval base (map fst es))).
Proof. exact apply_encoded. Qed.

(* ... and a target buffer that is LONGER than the output makes apply panic (assert_eq!(target.len(), 0)) *)
Theorem apply_short_output_panics : forall base es room, Forall (evalid base) es ->
  (length (eval base (map fst es)) < room)%nat -> apply base room (encode_body es) = Panic.
Proof. exact apply_encoded_short. Qed.

(* Malformed input characterised: for ANY base, target length and delta bytes, apply either panics
   or returns a completely written target; it never loops (the fuel length+1 suffices) and never
   returns an error. *)
Theorem apply_total : forall base n data,
  apply base n data = Panic \/ exists r, apply base n data = Ok r /\ length r = n.
Proof. exact ProofsDelta.apply_total. Qed.

(* non-vacuity: copy "bc", insert "XY", copy the whole base; and a truncating target *)
Example apply_example :
  let base := bs "abcd" in
  let is := [Copy 1 2; Insert (bs "XY"); Copy 0 4] in
  Forall (valid base) is /\ eval base is = bs "bcXYabcd" /\
  encode_delta is = map N2b [145;1;2; 2;88;89; 144;4] /\
  apply base 8 (encode_delta is) = Ok (bs "bcXYabcd") /\
  apply base 3 (encode_delta is) = Ok (bs "bcX") /\
  apply base 9 (encode_delta is) = Panic /\
  apply base 8 (map N2b [145;1]) = Panic /\ apply base 0 [x00] = Panic.
Proof.
  cbv zeta. split.
  { repeat constructor; vm_compute; try discriminate; reflexivity. }
  repeat split; vm_compute; reflexivity.
Qed.

(* the two size headers in front of the instructions: git's varint of any size below 2^64 is read
   back exactly, consuming exactly its bytes, in both builds *)
Theorem delta_size_header_RT : forall bd n rest, n < U64 ->
  decode_header_size bd (varint n ++ rest) = Ok (n, len (varint n)).
Proof. exact decode_header_size_varint. Qed.

(* The composition decode_entry performs for a delta whose base is supplied by the caller: for a
   delta as git writes it (base size, target size, git-encoded valid instructions) the object
   returned is exactly the target the instructions denote, with its size.  (The degenerate
   empty base + empty instruction list is excluded: there the code panics, see NOTES.md.) *)
Theorem decode_git_delta_exact : forall bd base is,
  len base < U64 -> len (eval base is) < U64 -> Forall (valid base) is ->
  (is <> [] \/ base <> []) ->
  resolve_one bd base (varint (len base) ++ varint (len (eval base is)) ++ encode_delta is) =
    Ok (len (eval base is), eval base is).
Proof. exact resolve_one_git. Qed.

(* the excluded degenerate case really panics (base empty, delta 00 00) *)
Example decode_empty_delta_panics : resolve_one Debug [] [x00; x00] = Panic /\
                                    resolve_one Release [] [x00; x00] = Panic.
Proof. split; vm_compute; reflexivity. Qed.
