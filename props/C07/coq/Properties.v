(* C07 — Pack entry headers and deltas encode and decode losslessly.
   Only statements here; every proof is [exact <lemma>].
   Model: Model.v.  [bd] ranges over the debug and the release build (overflow checks on / off),
   [m] over the in-memory decoder (Entry::from_bytes) and the streaming one (Entry::from_read).
   U64 = 2^64; [len] is the length as N. *)
From GixV.Base Require Import Bytes BytesFacts Outcome.
From GixV.C07 Require Import Model ProofsHeader.
Local Open Scope N_scope.

(* Every header kind, every size below 2^64, every base distance below 2^64 (0 included) and every
   20-byte base id: write_to succeeds in both builds (no overflow, the debug assertion of
   leb64_encode holds), reports the number of bytes it wrote, and both decoders, given those
   bytes followed by ANY further input [rest], return the same kind, size, distance / id, a data
   offset of pack_offset + written, and leave exactly [rest] unread. *)
Theorem header_RT : forall bd m h size po rest, size < U64 -> wf_header h ->
  exists b, write_to bd h size = Ok (b, len b) /\ (1 <= length b <= 30)%nat /\
    (po + len b < U64 ->
     entry_from bd m (b ++ rest) po 20 =
       Ok ({| e_header := h; e_size := size; e_data_offset := po + len b |}, rest)).
Proof. exact entry_roundtrip. Qed.

(* the offset encoding on its own (gix_features::decode::leb64 / leb64_from_read against
   leb64_encode): 1..10 bytes, decodes to the same number consuming exactly those bytes *)
Theorem ofs_distance_RT : forall bd m n rest, n < U64 ->
  exists e, leb64_encode bd n = Ok e /\ (1 <= length e <= 10)%nat /\
            leb64 bd m (e ++ rest) = Ok (n, len e, rest).
Proof. exact leb64_encode_decode. Qed.

(* non-vacuity: the largest distance with the largest size, streamed, in the debug build *)
Example header_RT_example :
  let b := map N2b [239;255;255;255;255;255;255;255;255;15;128;254;254;254;254;254;254;254;254;127] in
  write_to Debug (OfsDelta 18446744073709551615) 18446744073709551615 = Ok (b, 20) /\
  entry_from Debug Stream (b ++ [x80]) 7 20 =
    Ok ({| e_header := OfsDelta 18446744073709551615; e_size := 18446744073709551615;
           e_data_offset := 27 |}, [x80]).
Proof. split; vm_compute; reflexivity. Qed.
