(* C34 — specification side.

   1. [sh_words]: how a POSIX shell (XCU 2.2 Quoting, 2.3 Token Recognition, 2.6 Word Expansions) turns the text of a
      simple command into its words, for the fragment of the language that needs no expansion at all:
        - blanks (space, tab) separate words;
        - single quotes keep every byte up to the next single quote literally (2.2.2);
        - \c outside quotes keeps c literally (2.2.1), except \<newline> (a line continuation);
        - every other byte stands for itself, UNLESS it is one of the bytes that may be special to the shell
          (2.2: | & ; < > ( ) $ backquote backslash double-quote single-quote space tab newline, and * ? [ # ~ = %), or ! { } (reserved words), or NUL.
      Outside that fragment (an unquoted special byte, an unterminated quote, a trailing backslash) the result is
      [None]: "anything may happen".  So [sh_words s = Some ws] is a strong statement: the shell sees exactly the
      words ws, no expansion, no substitution, no redirection, no second command.
      (The first word must not be a reserved word, an alias or an assignment for the line to be a simple
      command; `git-upload-pack`/`git-receive-pack` are none of these, and `=` never appears unquoted.)
      The definition is validated against /bin/sh by the harness's `git` function on generated lines.

   2. [scan_options]: how ssh / plink / putty find their first operand (the destination): getopt-style, left to right,
      an element starting with '-' is an option (some options consume the next element), the first element that is
      not an option and not consumed is the destination.  This is the contract assumed of those programs. *)
From GixV.Base Require Import Bytes.
From GixV.C34 Require Model.

(* ---------------------------------------------------------------------------------------------- *)

Inductive mode := Out | In | Sq | Esc.

Definition is_blank (c : byte) : bool := beqb c x20 || beqb c x09.

(* bytes that are not allowed to appear unquoted in the fragment *)
Definition SH_SPECIAL : bytes :=
  [x00; x0a; x21; x22; x23; x24; x25; x26; x28; x29; x2a; x3b; x3c; x3d; x3e; x3f; x5b; x60; x7b; x7c; x7d; x7e].
  (* NUL LF ! double-quote # $ % & ( ) * ; < = > ? [ backquote { | } ~   (single quote, backslash, space and tab are handled before) *)
Definition sh_special (c : byte) : bool := existsb (beqb c) SH_SPECIAL.

Definition push (c : byte) (ws : list bytes) : list bytes :=
  match ws with
  | w :: t => (c :: w) :: t
  | [] => [[c]]
  end.

(* In the modes In, Sq, Esc a word is in progress: the head of the result is the rest of that word. *)
Fixpoint go (m : mode) (l : bytes) : option (list bytes) :=
  match l with
  | [] => match m with Out => Some [] | In => Some [[]] | Sq => None | Esc => None end
  | c :: r =>
      match m with
      | Out | In =>
          if is_blank c then
            match m with
            | In => option_map (cons []) (go Out r)
            | _ => go Out r
            end
          else if beqb c x27 then go Sq r
          else if beqb c x5c then go Esc r
          else if sh_special c then None
          else option_map (push c) (go In r)
      | Sq => if beqb c x27 then go In r else option_map (push c) (go Sq r)
      | Esc => if beqb c x0a then None else option_map (push c) (go In r)
      end
  end.

Definition sh_words (line : bytes) : option (list bytes) := go Out line.

(* a word that can be written without any quoting *)
Definition plain_byte (c : byte) : bool :=
  negb (is_blank c || beqb c x27 || beqb c x5c || sh_special c).
Definition plain_word (w : bytes) : bool :=
  match w with [] => false | _ => forallb plain_byte w end.

(* ---------------------------------------------------------------------------------------------- *)

Definition starts_with_dash (a : bytes) : bool :=
  match a with c :: _ => beqb c x2d | [] => false end.

(* [takes_arg o]: option element [o] consumes the following element as its argument *)
Fixpoint scan_options (takes_arg : bytes -> bool) (args : list bytes) : list bytes * list bytes :=
  match args with
  | [] => ([], [])
  | a :: r =>
      if starts_with_dash a then
        if takes_arg a then
          match r with
          | v :: r' => let '(o, rest) := scan_options takes_arg r' in (a :: v :: o, rest)
          | [] => ([a], [])
          end
        else let '(o, rest) := scan_options takes_arg r in (a :: o, rest)
      else ([], args)
  end.

(* OpenSSH: `-o option`, `-p port` (attached or separate), …; PuTTY family: `-P port`, `-batch` *)
Definition ssh_takes_arg (a : bytes) : bool :=
  bytes_eqb a (bs "-o") || bytes_eqb a (bs "-p") || bytes_eqb a (bs "-P").

(* ---------------------------------------------------------------------------------------------- *)
(* What may stand in front of the destination on the ssh client's command line.  A function of the program kind,
   the protocol version and the PORT NUMBER only: no byte of a user name, host name or path can occur in it. *)
Definition option_words (k : Model.kind) (version : N) (port : option N) : list bytes :=
  match k with
  | Model.Ssh =>
      (if negb (N.eqb version 1) then [bs "-o"; bs "SendEnv=GIT_PROTOCOL"] else [])
      ++ match port with Some p => [bs "-p" ++ N_to_dec p] | None => [] end
  | Model.Plink | Model.Putty => match port with Some p => [bs "-P"; N_to_dec p] | None => [] end
  | Model.TortoisePlink => bs "-batch" :: match port with Some p => [bs "-P"; N_to_dec p] | None => [] end
  | Model.Simple => []
  end.

(* user@host, or host *)
Definition destination (user : option bytes) (host : bytes) : bytes :=
  match user with Some us => us ++ x40 :: host | None => host end.

(* the head of the argv the OS receives: the program itself, or /bin/sh -c SCRIPT -- where SCRIPT is the configured
   ssh command, possibly followed by "$@" (never anything derived from the URL) *)
Definition argv_head (cmd : bytes) (head : list bytes) : Prop :=
  head = [cmd] \/
  exists script, head = [bs "/bin/sh"; bs "-c"; script; bs "--"] /\ (script = cmd \/ script = cmd ++ bs " ""$@""").
