(* C34 — executable model of the code that turns a git URL into the argv of a spawned transport program.
   Sources (as they ARE at the pinned tree):
     gix-url/src/lib.rs            looks_like_command_line_option, Url::{user,host}_as_argument
     gix-url/src/expand_path.rs    for_shell
     gix-quote/src/single.rs       single
     gix-command/src/lib.rs        prepare, Prepare::{with_shell, arg, args, env}, From<Prepare> for Command (unix arm,
                                   allow_manual_arg_splitting = cfg!(windows) = false)
     gix-transport/src/client/blocking_io/ssh/program_kind.rs   ProgramKind::{exe, prepare_invocation}, From<&OsStr>
     gix-transport/src/client/blocking_io/ssh/mod.rs            connect::Options::ssh_command, connect
     gix-transport/src/client/blocking_io/file.rs               SpawnProcessOnDemand::{new_ssh,new_local,set_identity,
                                                                handshake up to and including the spawn}, connect
   Library code modelled here (validated only by the correspondence run):
     bstr: find_byteset, ByteSlice::trim (the Unicode White_Space DFA; see [ws_len]), to_os_str_lossy (unix: identity);
     std: Path::file_stem (unix), OsStr::to_str (UTF-8 validity), str::eq_ignore_ascii_case, u16 Display,
          std::process::Command refusing NUL bytes in program/arguments.
   NO proofs in this file. *)
From GixV.Base Require Import Bytes Outcome.
Local Open Scope N_scope.

(* ---------------------------------------------------------------------------------------------- *)
(* small byte-string helpers *)

Fixpoint mem (b : byte) (l : bytes) : bool :=
  match l with [] => false | x :: r => beqb b x || mem b r end.

Fixpoint starts_with (pre l : bytes) : bool :=
  match pre, l with
  | [], _ => true
  | x :: p', y :: l' => beqb x y && starts_with p' l'
  | _ :: _, [] => false
  end.

(* str::contains / bstr contains_str for a non-empty needle *)
Fixpoint contains (needle l : bytes) : bool :=
  starts_with needle l || match l with [] => false | _ :: r => contains needle r end.

(* [[T]]::join(sep) *)
Fixpoint join_with (sep : byte) (ls : list bytes) : bytes :=
  match ls with
  | [] => []
  | [x] => x
  | x :: r => x ++ sep :: join_with sep r
  end.

(* bstr find_byteset: index of the first byte that is a member of [set] *)
Fixpoint find_byteset (set l : bytes) : option nat :=
  match l with
  | [] => None
  | c :: r => if mem c set then Some O else option_map S (find_byteset set r)
  end.

(* slicing with Rust's panics *)
Definition slice_to (l : bytes) (n : nat) : outcome bytes unit :=
  if Nat.leb n (length l) then Ok (firstn n l) else Panic.
Definition slice_from (l : bytes) (n : nat) : outcome bytes unit :=
  if Nat.leb n (length l) then Ok (skipn n l) else Panic.
Definition index (l : bytes) (n : nat) : outcome byte unit :=
  match nth_error l n with Some b => Ok b | None => Panic end.

(* ---------------------------------------------------------------------------------------------- *)
(* UTF-8: core::str::from_utf8 validity *)

Definition in_range (lo hi : N) (b : byte) : bool := N.leb lo (b2N b) && N.leb (b2N b) hi.
Definition is_cont (b : byte) : bool := in_range 128 191 b.
Definition ok3 (b c : byte) : bool :=
  let x := b2N b in
  if N.eqb x 224 then in_range 160 191 c
  else if N.leb 225 x && N.leb x 236 then in_range 128 191 c
  else if N.eqb x 237 then in_range 128 159 c
  else if N.leb 238 x && N.leb x 239 then in_range 128 191 c
  else false.
Definition ok4 (b c : byte) : bool :=
  let x := b2N b in
  if N.eqb x 240 then in_range 144 191 c
  else if N.leb 241 x && N.leb x 243 then in_range 128 191 c
  else if N.eqb x 244 then in_range 128 143 c
  else false.
Definition char_width (b : byte) : N :=
  let x := b2N b in
  if N.ltb x 128 then 1
  else if N.leb 194 x && N.leb x 223 then 2
  else if N.leb 224 x && N.leb x 239 then 3
  else if N.leb 240 x && N.leb x 244 then 4
  else 0.
Fixpoint utf8_valid (l : bytes) : bool :=
  match l with
  | [] => true
  | b :: r =>
      let w := char_width b in
      if N.eqb w 1 then utf8_valid r
      else if N.eqb w 2 then
        match r with c1 :: r1 => is_cont c1 && utf8_valid r1 | _ => false end
      else if N.eqb w 3 then
        match r with c1 :: c2 :: r2 => ok3 b c1 && is_cont c2 && utf8_valid r2 | _ => false end
      else if N.eqb w 4 then
        match r with c1 :: c2 :: c3 :: r3 => ok4 b c1 && is_cont c2 && is_cont c3 && utf8_valid r3 | _ => false end
      else false
  end.

(* ---------------------------------------------------------------------------------------------- *)
(* bstr ByteSlice::trim — Unicode White_Space:
   U+0009..000D, 0020, 0085, 00A0, 1680, 2000..200A, 2028, 2029, 202F, 205F, 3000 (UTF-8 encoded). *)

Definition ws1 (a : byte) : bool := in_range 9 13 a || beqb a x20.
Definition ws2 (a b : byte) : bool := beqb a xc2 && (beqb b x85 || beqb b xa0).
Definition ws3 (a b c : byte) : bool :=
  (beqb a xe1 && beqb b x9a && beqb c x80)
  || (beqb a xe2 && beqb b x80 && (in_range 128 138 c || beqb c xa8 || beqb c xa9 || beqb c xaf))
  || (beqb a xe2 && beqb b x81 && beqb c x9f)
  || (beqb a xe3 && beqb b x80 && beqb c x80).

(* byte length of the white-space character at the head of [l]; 0 when there is none *)
Definition ws_len (l : bytes) : nat :=
  match l with
  | a :: r =>
      if ws1 a then 1%nat
      else match r with
           | b :: r2 =>
               if ws2 a b then 2%nat
               else match r2 with
                    | c :: _ => if ws3 a b c then 3%nat else O
                    | [] => O
                    end
           | [] => O
           end
  | [] => O
  end.

Fixpoint trim_start_f (fuel : nat) (l : bytes) : bytes :=
  match fuel with
  | O => l
  | S f => match ws_len l with O => l | n => trim_start_f f (skipn n l) end
  end.
Definition trim_start (l : bytes) : bytes := trim_start_f (length l) l.

(* the same, read from the end (the reverse DFA): works on the REVERSED string *)
Definition ws_len_rev (l : bytes) : nat :=
  match l with
  | a :: r =>
      if ws1 a then 1%nat
      else match r with
           | b :: r2 =>
               if ws2 b a then 2%nat
               else match r2 with
                    | c :: _ => if ws3 c b a then 3%nat else O
                    | [] => O
                    end
           | [] => O
           end
  | [] => O
  end.
Fixpoint trim_rev_f (fuel : nat) (l : bytes) : bytes :=
  match fuel with
  | O => l
  | S f => match ws_len_rev l with O => l | n => trim_rev_f f (skipn n l) end
  end.
Definition trim_end (l : bytes) : bytes := rev (trim_rev_f (length l) (rev l)).
(* ByteSlice::trim = self.trim_start().trim_end() *)
Definition trim (l : bytes) : bytes := trim_end (trim_start l).

(* ---------------------------------------------------------------------------------------------- *)
(* gix-url *)

Record url := mkUrl {
  u_ssh  : bool;              (* scheme == Scheme::Ssh *)
  u_user : option bytes;
  u_host : option bytes;
  u_port : option N;          (* u16 *)
  u_path : bytes }.

Inductive safety := Absent | Usable (s : bytes) | Dangerous (s : bytes).

(* looks_like_command_line_option: b.first() == Some(&b'-') *)
Definition looks_like_option (b : bytes) : bool :=
  match b with c :: _ => beqb c x2d | [] => false end.

Definition as_argument (o : option bytes) : safety :=
  match o with
  | Some s => if looks_like_option s then Dangerous s else Usable s
  | None => Absent
  end.
Definition user_as_argument (u : url) : safety := as_argument (u_user u).
Definition host_as_argument (u : url) : safety := as_argument (u_host u).

(* expand_path::for_shell (as fixed, see NOTES.md): `/~...` loses its leading slash, nothing else changes *)
Definition for_shell (p : bytes) : bytes :=
  if starts_with [x2f; x7e] p then skipn 1 p else p.

(* ---------------------------------------------------------------------------------------------- *)
(* gix_quote::single, at slice-index fidelity: the `while let Some(pos) = value.find_byteset(b"'!")` loop *)

Definition QUOTE_SET : bytes := [x27; x21].       (* b"'!" *)

Fixpoint single_loop (fuel : nat) (value quoted : bytes) : outcome bytes unit :=
  match fuel with
  | O => OutOfFuel
  | S f =>
      match find_byteset QUOTE_SET value with
      | Some pos =>
          (pre <- slice_to value pos ;;
           c <- index value pos ;;
           rest <- slice_from value (pos + 1) ;;
           single_loop f rest (quoted ++ pre ++ [x27; x5c] ++ [c] ++ [x27]))%outcome
      | None => Ok (quoted ++ value ++ [x27])
      end
  end.
Definition single (value : bytes) : outcome bytes unit :=
  single_loop (S (length value)) value [x27].

(* ---------------------------------------------------------------------------------------------- *)
(* gix-command *)

Record prepare := mkPrepare {
  p_command   : bytes;
  p_use_shell : bool;
  p_args      : list bytes;
  p_env       : list (bytes * bytes) }.

(* OsStr::to_str is Some iff the bytes are UTF-8 *)
Definition SHELL_META : bytes := bs "|&;<>()$`\""' " ++ [x09; x0a] ++ bs "*?[#~=%".
(* Prepare::with_shell *)
Definition with_shell_needed (cmd : bytes) : bool :=
  if utf8_valid cmd then match find_byteset SHELL_META cmd with Some _ => true | None => false end
  else true.

Definition gix_prepare (cmd : bytes) : prepare := mkPrepare cmd false [] [].
Definition p_with_shell (p : prepare) : prepare :=
  mkPrepare (p_command p) (with_shell_needed (p_command p)) (p_args p) (p_env p).
Definition p_arg (p : prepare) (a : bytes) : prepare :=
  mkPrepare (p_command p) (p_use_shell p) (p_args p ++ [a]) (p_env p).
Definition p_args_add (p : prepare) (l : list bytes) : prepare :=
  mkPrepare (p_command p) (p_use_shell p) (p_args p ++ l) (p_env p).
Definition p_env_add (p : prepare) (k v : bytes) : prepare :=
  mkPrepare (p_command p) (p_use_shell p) (p_args p) (p_env p ++ [(k, v)]).
Definition p_set_shell (p : prepare) (b : bool) : prepare :=
  mkPrepare (p_command p) b (p_args p) (p_env p).

(* From<Prepare> for Command, unix, allow_manual_arg_splitting = false: the complete argv, program first *)
Definition to_argv (p : prepare) : list bytes :=
  if p_use_shell p then
    let script :=
      match p_args p with
      | [] => p_command p
      | _ => if utf8_valid (p_command p) && contains (bs "$@") (p_command p)
             then p_command p
             else p_command p ++ bs " ""$@"""
      end in
    [bs "/bin/sh"; bs "-c"; script; bs "--"] ++ p_args p
  else p_command p :: p_args p.

(* ---------------------------------------------------------------------------------------------- *)
(* std::path (unix) Path::file_stem, for ProgramKind::from(&OsStr) *)

Definition is_sep (b : byte) : bool := beqb b x2f.
Definition is_dot (b : byte) : bool := beqb b x2e.
Definition has_root (p : bytes) : bool := match p with b :: _ => is_sep b | [] => false end.
Definition include_cur_dir (p : bytes) : bool :=
  if has_root p then false
  else match p with
       | [d] => is_dot d
       | d :: b :: _ => is_dot d && is_sep b
       | [] => false
       end.
Definition len_before_body (p : bytes) : nat :=
  ((if has_root p then 1 else 0) + (if include_cur_dir p then 1 else 0))%nat.
Inductive comp := CParent | CNormal (n : bytes).
Definition classify (c : bytes) : option comp :=
  if bytes_eqb c (bs ".") then None
  else if bytes_eqb c (bs "..") then Some CParent
  else match c with [] => None | _ => Some (CNormal c) end.
(* Components::next_back over the reversed body; [acc] collects the component in forward order *)
Fixpoint back_scan (rb : bytes) (acc : bytes) : option comp :=
  match rb with
  | [] => classify acc
  | b :: r =>
      if is_sep b then
        match classify acc with
        | Some k => Some k
        | None => back_scan r []
        end
      else back_scan r (b :: acc)
  end.
Definition file_name (p : bytes) : option bytes :=
  match back_scan (rev (skipn (len_before_body p) p)) [] with
  | Some (CNormal n) => Some n
  | _ => None
  end.
Fixpoint rsplit_at (f : byte -> bool) (l : bytes) : option bytes * bytes :=
  match l with
  | [] => (None, [])
  | b :: r =>
      match rsplit_at f r with
      | (Some bef, aft) => (Some (b :: bef), aft)
      | (None, aft) => if f b then (Some [], aft) else (None, b :: aft)
      end
  end.
Definition file_stem (p : bytes) : option bytes :=
  match file_name p with
  | Some f =>
      if bytes_eqb f (bs "..") then Some f
      else match rsplit_at is_dot f with
           | (None, aft) => Some aft
           | (Some [], _) => Some f
           | (Some bef, _) => Some bef
           end
  | None => None
  end.

Definition ascii_lower (b : byte) : byte :=
  if in_range 65 90 b then N2b (b2N b + 32) else b.
Definition eq_ignore_ascii_case (a b : bytes) : bool := bytes_eqb (map ascii_lower a) (map ascii_lower b).

(* ---------------------------------------------------------------------------------------------- *)
(* gix-transport: ssh program kinds *)

Inductive kind := Ssh | Plink | Putty | TortoisePlink | Simple.
Definition kind_eqb (a b : kind) : bool :=
  match a, b with
  | Ssh, Ssh | Plink, Plink | Putty, Putty | TortoisePlink, TortoisePlink | Simple, Simple => true
  | _, _ => false
  end.

(* ProgramKind::exe *)
Definition kind_exe (k : kind) : option bytes :=
  match k with
  | Ssh => Some (bs "ssh") | Plink => Some (bs "plink") | Putty => Some (bs "putty")
  | TortoisePlink => Some (bs "tortoiseplink.exe") | Simple => None
  end.

(* From<&OsStr> for ProgramKind *)
Definition kind_from_cmd (cmd : bytes) : kind :=
  match file_stem cmd with
  | None => Simple
  | Some stem =>
      if negb (utf8_valid stem) then Simple             (* OsStr::to_str *)
      else if eq_ignore_ascii_case stem (bs "ssh") then Ssh
      else if eq_ignore_ascii_case stem (bs "plink") then Plink
      else if eq_ignore_ascii_case stem (bs "putty") then Putty
      else if eq_ignore_ascii_case stem (bs "tortoiseplink") then TortoisePlink
      else Simple
  end.

Inductive inv_err :=
| AmbiguousUserName (user : bytes)
| AmbiguousHostName (host : bytes)
| Unsupported.

(* Protocol as usize: V0 = 0, V1 = 1, V2 = 2 *)
Definition env_protocol (version : N) : bytes := bs "version=" ++ N_to_dec version.

(* ProgramKind::prepare_invocation *)
Definition prepare_invocation (k : kind) (ssh_cmd : bytes) (u : url) (version : N) (disallow_shell : bool)
  : outcome prepare inv_err :=
  let p0 := p_with_shell (gix_prepare ssh_cmd) in
  let p1 := if disallow_shell then p_set_shell p0 false else p0 in
  let stage1 : outcome prepare inv_err :=
    match k with
    | Ssh =>
        let p2 := if negb (N.eqb version 1)
                  then p_env_add (p_args_add p1 [bs "-o"; bs "SendEnv=GIT_PROTOCOL"]) (bs "GIT_PROTOCOL") (env_protocol version)
                  else p1 in
        Ok (match u_port u with Some port => p_arg p2 (bs "-p" ++ N_to_dec port) | None => p2 end)
    | Plink | Putty | TortoisePlink =>
        let p2 := if kind_eqb k TortoisePlink then p_arg p1 (bs "-batch") else p1 in
        Ok (match u_port u with Some port => p_arg (p_arg p2 (bs "-P")) (N_to_dec port) | None => p2 end)
    | Simple =>
        match u_port u with Some _ => Err Unsupported | None => Ok p1 end
    end in
  (p <- stage1 ;;
   host_arg <- match user_as_argument u, host_as_argument u with
               | Usable user, Usable host => Ok (user ++ x40 :: host)
               | Usable user, Dangerous host => Ok (user ++ x40 :: host)
               | Absent, Usable host => Ok host
               | Dangerous user, _ => Err (AmbiguousUserName user)
               | _, Dangerous host => Err (AmbiguousHostName host)
               | _, Absent => Panic
               end ;;
   Ok (p_env_add (p_env_add (p_arg p host_arg) (bs "LANG") (bs "C")) (bs "LC_ALL") (bs "C")))%outcome.

(* ---------------------------------------------------------------------------------------------- *)
(* gix-transport: SpawnProcessOnDemand *)

Record transport := mkTransport {
  t_url        : url;
  t_path       : bytes;
  t_ssh        : option (bytes * kind);          (* ssh_cmd *)
  t_envs       : list (bytes * bytes);
  t_disallow   : bool;
  t_version    : N }.

Inductive client_err :=
| SshInvocation (e : inv_err)
| AmbiguousPath (p : bytes)
| InvokeProgram
| AuthenticationUnsupported.

(* what gets spawned: complete argv (program first) and the environment variables that were set *)
Record spawned := mkSpawned { s_argv : list bytes; s_env : list (bytes * bytes) }.

(* Service::as_str *)
Definition service_str (receive : bool) : bytes :=
  if receive then bs "git-receive-pack" else bs "git-upload-pack".

(* std::process::Command::spawn refuses NUL in the program or an argument (io::ErrorKind::InvalidInput);
   [exec_ok use_shell] says whether the exec itself succeeds (does the program exist) *)
Definition has_nul (a : bytes) : bool := mem x00 a.
Definition spawn (exec_ok : bool -> bool) (p : prepare) (more_env : list (bytes * bytes)) : outcome spawned client_err :=
  let argv := to_argv p in
  if existsb has_nul argv then Err InvokeProgram
  else if exec_ok (p_use_shell p) then Ok (mkSpawned argv (p_env p ++ more_env))
  else Err InvokeProgram.

(* the check in handshake(): self.path.trim().first() == Some(&b'-') *)
Definition path_is_ambiguous (path : bytes) : bool :=
  match trim path with c :: _ => beqb c x2d | [] => false end.

(* set_identity *)
Definition set_identity (t : transport) (username : bytes) : outcome transport client_err :=
  if u_ssh (t_url t) then
    let u := t_url t in
    let u' := mkUrl (u_ssh u) (match username with [] => None | _ => Some username end) (u_host u) (u_port u) (u_path u) in
    Ok (mkTransport u' (t_path t) (t_ssh t) (t_envs t) (t_disallow t) (t_version t))
  else Err AuthenticationUnsupported.

(* handshake(), up to and including the spawn *)
Definition handshake (exec_ok : bool -> bool) (t : transport) (receive : bool) : outcome spawned client_err :=
  let service := service_str receive in
  (cmd <- match t_ssh t with
          | Some (command, k) =>
              match prepare_invocation k command (t_url t) (t_version t) (t_disallow t) with
              | Ok p => Ok p
              | Err e => Err (SshInvocation e)
              | Panic => Panic
              | OutOfFuel => OutOfFuel
              end
          | None => Ok (gix_prepare service)
          end ;;
   if path_is_ambiguous (t_path t) then Err (AmbiguousPath (t_path t))
   else
     cmd2 <- match t_ssh t with
             | Some _ =>
                 match single (t_path t) with
                 | Ok q => Ok (p_arg (p_arg cmd service) q)
                 | Err _ => Panic
                 | Panic => Panic
                 | OutOfFuel => OutOfFuel
                 end
             | None => Ok (p_arg cmd (t_path t))
             end ;;
     spawn exec_ok cmd2 (t_envs t))%outcome.

(* file::connect = new_local.  Url::from_parts(File, None, None, None, None, path, true).expect("valid url")
   serialises the url (alternative form: just the path bytes) and parses it again with gix_url::parse; when that fails
   (empty path, "://" forms the url crate rejects, ":"-forms without a path) the expect panics.  gix_url::parse is
   not modelled here (C33 does): [reparse_ok] is its verdict on the path, supplied by the harness. *)
Definition connect_local (path : bytes) (version : N) (reparse_ok : bool) : outcome transport client_err :=
  if reparse_ok then
      Ok (mkTransport (mkUrl false None None None path) path None
            (if negb (N.eqb version 1) then [(bs "GIT_PROTOCOL", env_protocol version)] else [])
            false version)
  else Panic.

(* ssh::connect *)
Record ssh_options := mkOpts { o_command : option bytes; o_disallow : bool; o_kind : option kind }.
Definition ssh_command (o : ssh_options) : bytes :=
  match o_command o with
  | Some c => c
  | None => match o_kind o with
            | Some k => match kind_exe k with Some e => e | None => bs "ssh" end
            | None => bs "ssh"
            end
  end.

Inductive connect_err := UnsupportedScheme | ConnAmbiguousHostName (host : bytes).

(* [probe_ok]: does `ssh_cmd -G host` exit successfully.  Returns the argv of the probe, if one was made. *)
Definition connect_ssh (u : url) (version : N) (o : ssh_options) (probe_ok : bool)
  : outcome (option (list bytes) * transport) connect_err :=
  if negb (u_ssh u) || match u_host u with None => true | Some _ => false end then Err UnsupportedScheme
  else
    let ssh_cmd := ssh_command o in
    let k0 := match o_kind o with Some k => k | None => kind_from_cmd ssh_cmd end in
    (pk <- (if match o_kind o with None => true | Some _ => false end && kind_eqb k0 Simple then
              match host_as_argument u with
              | Usable host =>
                  Ok (Some (to_argv (p_arg (p_arg (p_with_shell (gix_prepare ssh_cmd)) (bs "-G")) host)),
                      if probe_ok then Ssh else Simple)
              | Dangerous host => Err (ConnAmbiguousHostName host)
              | Absent => Panic
              end
            else Ok (None, k0)) ;;
     let '(probe, k) := pk in
     Ok (probe, mkTransport u (for_shell (u_path u)) (Some (ssh_cmd, k)) [] (o_disallow o) version))%outcome.
