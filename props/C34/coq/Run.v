(* C34 — transcript printer: the same observable string the Rust harness prints for a case. *)
From GixV.Base Require Import Bytes Outcome.
From GixV.C34 Require Import Model Spec SpecSh.
Local Open Scope N_scope.

Definition hexlist (l : list bytes) : bytes :=
  bs "(" ++ join_with x2c (map hex_encode l) ++ bs ")".

Definition kind_name (k : kind) : bytes :=
  match k with
  | Ssh => bs "Ssh" | Plink => bs "Plink" | Putty => bs "Putty"
  | TortoisePlink => bs "TortoisePlink" | Simple => bs "Simple"
  end.
Definition kind_of_N (n : N) : option kind :=
  match n with
  | 0 => Some Ssh | 1 => Some Plink | 2 => Some Putty | 3 => Some TortoisePlink | 4 => Some Simple
  | _ => None
  end.

Definition flag (n : nat) (fs : list bytes) : bool := bytes_eqb (nth_field n fs) (bs "1").
Definition opt_field (n : nat) (fs : list bytes) : option bytes :=
  if flag n fs then Some (nth_field (S n) fs) else None.
Definition opt_field_N (n : nat) (fs : list bytes) : option N :=
  if flag n fs then Some (field_N (S n) fs) else None.

Definition inv_err_show (e : inv_err) : bytes :=
  match e with
  | AmbiguousUserName u => bs "AmbiguousUserName " ++ hex_encode u
  | AmbiguousHostName h => bs "AmbiguousHostName " ++ hex_encode h
  | Unsupported => bs "Unsupported"
  end.

Fixpoint env_lookup (k : bytes) (env : list (bytes * bytes)) : option bytes :=
  match env with
  | [] => None
  | (k', v) :: r => match env_lookup k r with Some x => Some x | None => if bytes_eqb k k' then Some v else None end
  end.
Definition env_show (k : bytes) (env : list (bytes * bytes)) : bytes :=
  match env_lookup k env with Some v => bs "=" ++ hex_encode v | None => bs "-" end.
Definition envs_show (env : list (bytes * bytes)) : bytes :=
  env_show (bs "GIT_PROTOCOL") env ++ bs " " ++ env_show (bs "LANG") env ++ bs " " ++ env_show (bs "LC_ALL") env.

Definition prepare_show (p : prepare) : bytes :=
  bool_to_bytes (p_use_shell p) ++ bs " " ++ hexlist (p_args p) ++ bs " " ++ envs_show (p_env p)
  ++ bs " " ++ hexlist (to_argv p).

Definition client_err_show (e : client_err) : bytes :=
  match e with
  | SshInvocation e => bs "SshInvocation " ++ inv_err_show e
  | AmbiguousPath p => bs "AmbiguousPath " ++ hex_encode p
  | InvokeProgram => bs "InvokeProgram"
  | AuthenticationUnsupported => bs "AuthenticationUnsupported"
  end.

(* what the spawned program sees: its arguments, without argv[0]; under a shell without the
   ["/bin/sh"; "-c"; script; "--"] head (the harness's fake program strips the words of its own command line) *)
Definition spawned_show (use_shell_head : bool) (s : spawned) : bytes :=
  bs "spawn " ++ envs_show (s_env s) ++ bs " " ++
  hexlist (if use_shell_head then skipn 4 (s_argv s) else skipn 1 (s_argv s)).

Definition is_sh_head (argv : list bytes) : bool :=
  match argv with a :: _ => bytes_eqb a (bs "/bin/sh") | [] => false end.

Definition url_of_fields (n : nat) (fs : list bytes) : url :=
  (* n: sshscheme, userP user hostP host portP port path *)
  mkUrl (flag n fs) (opt_field (n + 1) fs) (opt_field (n + 3) fs) (opt_field_N (n + 5) fs) (nth_field (n + 7) fs).

Definition show_words (o : option (list bytes)) : bytes :=
  match o with Some ws => bs "words " ++ hexlist ws | None => bs "outside" end.

Definition run_model (fs : list bytes) : bytes :=
  let op := nth_field 0 fs in
  if bytes_eqb op (bs "quote") then
    match single (nth_field 1 fs) with
    | Ok q => bs "ok " ++ hex_encode q
    | Err _ => bs "err"
    | Panic => bs "PANIC"
    | OutOfFuel => bs "HANG"
    end
  else if bytes_eqb op (bs "forshell") then
    bs "ok " ++ hex_encode (for_shell (nth_field 1 fs))
  else if bytes_eqb op (bs "trim") then
    bs "ok " ++ hex_encode (trim (nth_field 1 fs))
  else if bytes_eqb op (bs "kindof") then
    bs "ok " ++ kind_name (kind_from_cmd (nth_field 1 fs))
  else if bytes_eqb op (bs "argv") then
    (* argv use_shell cmd nargs a1 .. an *)
    let n := N.to_nat (field_N 3 fs) in
    let p := mkPrepare (nth_field 2 fs) (flag 1 fs) (firstn n (skipn 4 fs)) [] in
    bs "ok " ++ hexlist (to_argv p)
  else if bytes_eqb op (bs "inv") then
    (* inv kind ver disallow cmd sshscheme userP user hostP host portP port path *)
    match kind_of_N (field_N 1 fs) with
    | None => bs "?"
    | Some k =>
        match prepare_invocation k (nth_field 4 fs) (url_of_fields 5 fs) (field_N 2 fs) (flag 3 fs) with
        | Ok p => bs "ok " ++ prepare_show p
        | Err e => bs "err " ++ inv_err_show e
        | Panic => bs "PANIC"
        | OutOfFuel => bs "HANG"
        end
    end
  else if bytes_eqb op (bs "hs") then
    (* hs cmdsel kind ver disallow probe_ok receive identP ident sshscheme userP user hostP host portP port path *)
    let cmdsel := field_N 1 fs in
    let cmd := if N.eqb cmdsel 0 then bs "fakessh"
               else if N.eqb cmdsel 1 then bs "fakessh --fake-extra"
               else bs "/nonexistent/gixv-c34-ssh" in
    let exec_ok := fun use_shell : bool =>
                     if N.eqb cmdsel 0 then true else if N.eqb cmdsel 1 then use_shell else false in
    let o := mkOpts (Some cmd) (flag 4 fs) (kind_of_N (field_N 2 fs)) in
    match connect_ssh (url_of_fields 9 fs) (field_N 3 fs) o (flag 5 fs) with
    | Err UnsupportedScheme => bs "err UnsupportedScheme"
    | Err (ConnAmbiguousHostName h) => bs "err ConnAmbiguousHostName " ++ hex_encode h
    | Panic => bs "PANIC"
    | OutOfFuel => bs "HANG"
    | Ok (probe, t) =>
        let pre := match probe with
                   | Some argv =>
                       if N.eqb cmdsel 2 then bs ""
                       else bs "probe " ++ hexlist (if is_sh_head argv then skipn 4 argv else skipn 1 argv) ++ bs " "
                   | None => bs ""
                   end in
        let t1 := if flag 7 fs then set_identity t (nth_field 8 fs) else Ok t in
        pre ++
        match t1 with
        | Ok t2 =>
            match handshake exec_ok t2 (flag 6 fs) with
            | Ok s => spawned_show (is_sh_head (s_argv s)) s
            | Err e => bs "err " ++ client_err_show e
            | Panic => bs "PANIC"
            | OutOfFuel => bs "HANG"
            end
        | Err e => bs "err " ++ client_err_show e
        | Panic => bs "PANIC"
        | OutOfFuel => bs "HANG"
        end
    end
  else if bytes_eqb op (bs "local") then
    (* local ver receive reparse_ok path *)
    match connect_local (nth_field 4 fs) (field_N 1 fs) (flag 3 fs) with
    | Ok t =>
        match handshake (fun _ => true) t (flag 2 fs) with
        | Ok s => spawned_show false s
        | Err e => bs "err " ++ client_err_show e
        | Panic => bs "PANIC"
        | OutOfFuel => bs "HANG"
        end
    | Err e => bs "err " ++ client_err_show e
    | Panic => bs "PANIC"
    | OutOfFuel => bs "HANG"
    end
  else bs "?".

(* the word-splitting specification, compared with a real /bin/sh by the harness's `git` function *)
Definition run_spec (fs : list bytes) : bytes :=
  let op := nth_field 0 fs in
  if bytes_eqb op (bs "quote") then
    match single (nth_field 1 fs) with
    | Ok q => show_words (sh_words (bs "git-upload-pack " ++ q))
    | _ => bs "-"
    end
  else if bytes_eqb op (bs "shwords") then show_words (sh_words (nth_field 1 fs))
  else if bytes_eqb op (bs "shc") then
    (* shc script nargs a1 .. an *)
    let n := N.to_nat (field_N 2 fs) in
    show_words (sh_c_words (firstn n (skipn 3 fs)) (nth_field 1 fs))
  else bs "-".

Definition run (fs : list bytes) : bytes :=
  match fs with
  | mode :: rest => if bytes_eqb mode (bs "spec") then run_spec rest else run_model rest
  | [] => bs "?"
  end.
