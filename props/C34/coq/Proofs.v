(* C34 — lemmas: gix_quote::single, the shell word specification, bstr trim. *)
From Coq Require Import Lia.
From GixV.Base Require Import Bytes BytesFacts Outcome.
From GixV.C34 Require Import Model Spec.

(* ---------------------------------------------------------------------------------------------- *)
(* find_byteset *)

Definition clean (set l : bytes) : bool := forallb (fun x => negb (mem x set)) l.

Lemma find_byteset_Some set : forall l pos, find_byteset set l = Some pos ->
  exists pre c rest, l = pre ++ c :: rest /\ length pre = pos /\ mem c set = true /\ clean set pre = true.
Proof.
  induction l as [|c r IH]; intros pos H; cbn [find_byteset] in H; [discriminate|].
  destruct (mem c set) eqn:Hm.
  - injection H as <-. exists [], c, r. repeat split; auto.
  - destruct (find_byteset set r) as [n|] eqn:Hf; cbn in H; [|discriminate].
    injection H as <-. destruct (IH n eq_refl) as (pre & c' & rest & -> & Hl & Hc & Hp).
    exists (c :: pre), c', rest. repeat split; auto.
    + cbn. now rewrite Hl.
    + unfold clean in *. cbn [forallb]. now rewrite Hm, Hp.
Qed.

Lemma find_byteset_None set : forall l, find_byteset set l = None -> clean set l = true.
Proof.
  induction l as [|c r IH]; intros H; cbn [find_byteset] in H; [reflexivity|].
  destruct (mem c set) eqn:Hm; [discriminate|].
  destruct (find_byteset set r); [discriminate|]. unfold clean in *. cbn [forallb]. now rewrite Hm, IH.
Qed.

(* ---------------------------------------------------------------------------------------------- *)
(* gix_quote::single in closed form *)

Fixpoint single_body (v : bytes) : bytes :=
  match v with
  | [] => []
  | c :: r => if mem c QUOTE_SET then x27 :: x5c :: c :: x27 :: single_body r else c :: single_body r
  end.

Lemma single_body_clean : forall l r, clean QUOTE_SET l = true -> single_body (l ++ r) = l ++ single_body r.
Proof.
  induction l as [|c l IH]; intros r H; [reflexivity|].
  cbn [clean forallb] in H. apply andb_prop in H as [Hc Hl].
  cbn [app single_body]. apply negb_true_iff in Hc. rewrite Hc. f_equal. now apply IH.
Qed.

Lemma firstn_len_app {A} (a b : list A) : firstn (length a) (a ++ b) = a.
Proof. induction a; cbn; [now destruct b | now f_equal]. Qed.
Lemma skipn_len_app {A} (a b : list A) : skipn (length a) (a ++ b) = b.
Proof. induction a; cbn; auto. Qed.
Lemma nth_error_len_app {A} (a : list A) x b : nth_error (a ++ x :: b) (length a) = Some x.
Proof. induction a; cbn; auto. Qed.

Lemma single_loop_closed : forall fuel value quoted, (length value < fuel)%nat ->
  single_loop fuel value quoted = Ok (quoted ++ single_body value ++ [x27]).
Proof.
  induction fuel as [|f IH]; intros value quoted Hlen; [lia|].
  cbn [single_loop]. destruct (find_byteset QUOTE_SET value) as [pos|] eqn:Hf.
  - destruct (find_byteset_Some _ _ _ Hf) as (pre & c & rest & -> & Hl & Hc & Hp). subst pos.
    unfold slice_to, slice_from, index.
    rewrite app_length in *. cbn [length] in *.
    replace (Nat.leb (length pre) (length pre + S (length rest))) with true
      by (symmetry; apply PeanoNat.Nat.leb_le; lia).
    replace (Nat.leb (length pre + 1) (length pre + S (length rest))) with true
      by (symmetry; apply PeanoNat.Nat.leb_le; lia).
    rewrite firstn_len_app, nth_error_len_app.
    cbn [obind].
    replace (length pre + 1)%nat with (length (pre ++ [c])) by (rewrite app_length; cbn; lia).
    replace (pre ++ c :: rest) with ((pre ++ [c]) ++ rest) at 1 by (now rewrite <- app_assoc).
    rewrite skipn_len_app.
    rewrite IH by lia.
    rewrite single_body_clean by exact Hp. cbn [single_body]. rewrite Hc.
    f_equal. rewrite <- !app_assoc. cbn [app]. reflexivity.
  - pose proof (single_body_clean value [] (find_byteset_None _ _ Hf)) as E.
    rewrite app_nil_r in E. cbn [single_body] in E. rewrite app_nil_r in E. now rewrite E.
Qed.

Lemma L_single_closed v : single v = Ok (x27 :: single_body v ++ [x27]).
Proof. unfold single. rewrite single_loop_closed by lia. reflexivity. Qed.

Lemma L_single_total v : exists q, single v = Ok q /\ starts_with_dash q = false.
Proof. eexists. split; [apply L_single_closed | reflexivity]. Qed.

(* ---------------------------------------------------------------------------------------------- *)
(* the shell sees one word *)

Definition prepend (p : bytes) (ws : list bytes) : list bytes := fold_right push ws p.

Lemma prepend_cons p : forall x ws, prepend p (x :: ws) = (p ++ x) :: ws.
Proof. induction p as [|c p IH]; intros; cbn; [reflexivity|]. unfold prepend in IH. now rewrite IH. Qed.

Lemma option_map_push_prepend c r (o : option (list bytes)) :
  option_map (push c) (option_map (prepend r) o) = option_map (prepend (c :: r)) o.
Proof. now destruct o. Qed.

Lemma mem_quote_set c : mem c QUOTE_SET = beqb c x27 || beqb c x21.
Proof. unfold QUOTE_SET. cbn [mem]. now rewrite orb_false_r. Qed.

Lemma go_Sq_body : forall p rest,
  go Sq (single_body p ++ x27 :: rest) = option_map (prepend p) (go In rest).
Proof.
  induction p as [|c p IH]; intros rest.
  - cbn. now destruct (go In rest).
  - cbn [single_body]. rewrite mem_quote_set.
    destruct (beqb c x27) eqn:H27.
    + apply beqb_eq in H27. subst c. cbn [orb app].
      change (go Sq (x27 :: x5c :: x27 :: x27 :: single_body p ++ x27 :: rest))
        with (option_map (push x27) (go Sq (single_body p ++ x27 :: rest))).
      rewrite IH. apply option_map_push_prepend.
    + cbn [orb]. destruct (beqb c x21) eqn:H21.
      * apply beqb_eq in H21. subst c. cbn [app].
        change (go Sq (x27 :: x5c :: x21 :: x27 :: single_body p ++ x27 :: rest))
          with (option_map (push x21) (go Sq (single_body p ++ x27 :: rest))).
        rewrite IH. apply option_map_push_prepend.
      * cbn [app go]. rewrite H27. rewrite IH. apply option_map_push_prepend.
Qed.

Lemma sh_words_quoted p : sh_words (x27 :: single_body p ++ [x27]) = Some [p].
Proof.
  unfold sh_words.
  change (go Out (x27 :: single_body p ++ [x27])) with (go Sq (single_body p ++ [x27])).
  rewrite go_Sq_body. cbn [go option_map]. now rewrite prepend_cons, app_nil_r.
Qed.

Lemma plain_byte_inv c : plain_byte c = true ->
  is_blank c = false /\ beqb c x27 = false /\ beqb c x5c = false /\ sh_special c = false.
Proof.
  unfold plain_byte. intros H. apply negb_true_iff in H.
  apply orb_false_iff in H as [H H4]. apply orb_false_iff in H as [H H3]. apply orb_false_iff in H as [H1 H2].
  auto.
Qed.

Lemma go_In_plain : forall w rest, forallb plain_byte w = true ->
  go In (w ++ x20 :: rest) = option_map (cons w) (go Out rest).
Proof.
  induction w as [|c w IH]; intros rest H.
  - cbn. reflexivity.
  - cbn [forallb] in H. apply andb_prop in H as [Hc Hw].
    destruct (plain_byte_inv _ Hc) as (H1 & H2 & H3 & H4).
    cbn [app go]. rewrite H1, H2, H3, H4. rewrite (IH _ Hw). now destruct (go Out rest).
Qed.

Lemma go_Out_plain : forall w rest, plain_word w = true ->
  go Out (w ++ x20 :: rest) = option_map (cons w) (go Out rest).
Proof.
  intros [|c w] rest H; [discriminate|].
  cbn [plain_word] in H. pose proof (go_In_plain (c :: w) rest H) as E.
  cbn [forallb] in H. apply andb_prop in H as [Hc _].
  destruct (plain_byte_inv _ Hc) as (H1 & H2 & H3 & H4).
  refine (eq_trans _ E). cbn [app go]. now rewrite H1, H2, H3, H4.
Qed.

Lemma join_sp_cons w L : L <> [] -> join_sp (w :: L) = w ++ x20 :: join_sp L.
Proof. destruct L; [congruence|reflexivity]. Qed.

Lemma L_quote_is_one_word : forall words p q,
  forallb plain_word words = true -> single p = Ok q ->
  sh_words (join_sp (words ++ [q])) = Some (words ++ [p]).
Proof.
  intros words p q Hw Hq. rewrite L_single_closed in Hq. apply Ok_inj in Hq. subst q.
  induction words as [|w ws IH].
  - cbn [app join_sp]. apply sh_words_quoted.
  - cbn [forallb] in Hw. apply andb_prop in Hw as [H1 H2].
    rewrite <- !app_comm_cons.
    rewrite join_sp_cons by (destruct ws; discriminate).
    unfold sh_words in *. refine (eq_trans (go_Out_plain _ _ H1) _).
    rewrite (IH H2). reflexivity.
Qed.

(* ---------------------------------------------------------------------------------------------- *)
(* bstr trim keeps a leading dash *)

Lemma ws_len_dash r : ws_len (x2d :: r) = O.
Proof. destruct r as [|b [|c r]]; reflexivity. Qed.

Lemma trim_start_dash r : trim_start (x2d :: r) = x2d :: r.
Proof. unfold trim_start. cbn [length trim_start_f]. now rewrite ws_len_dash. Qed.

Lemma trim_rev_keeps_last : forall fuel m, exists m', trim_rev_f fuel (m ++ [x2d]) = m' ++ [x2d].
Proof.
  induction fuel as [|f IH]; intros m; [now exists m|].
  cbn [trim_rev_f].
  destruct m as [|a [|b [|c m]]].
  - exists []. reflexivity.
  - cbn [app ws_len_rev]. destruct (ws1 a).
    + cbn [skipn]. apply (IH []).
    + change (ws2 x2d a) with false. cbn iota. now exists [a].
  - cbn [app ws_len_rev]. destruct (ws1 a).
    + cbn [skipn]. apply (IH [b]).
    + destruct (ws2 b a).
      * cbn [skipn]. apply (IH []).
      * change (ws3 x2d b a) with false. cbn iota. now exists [a; b].
  - cbn [app ws_len_rev]. destruct (ws1 a).
    + cbn [skipn]. apply (IH (b :: c :: m)).
    + destruct (ws2 b a).
      * cbn [skipn]. apply (IH (c :: m)).
      * destruct (ws3 c b a).
        -- cbn [skipn]. apply (IH m).
        -- now exists (a :: b :: c :: m).
Qed.

Lemma trim_dash r : exists t, trim (x2d :: r) = x2d :: t.
Proof.
  unfold trim. rewrite trim_start_dash. unfold trim_end.
  destruct (trim_rev_keeps_last (length (x2d :: r)) (rev r)) as (m' & E).
  cbn [rev]. rewrite E. rewrite rev_app_distr. cbn. eauto.
Qed.

Lemma L_unambiguous_path_has_no_dash p : path_is_ambiguous p = false -> starts_with_dash p = false.
Proof.
  intros H. destruct p as [|c r]; [reflexivity|]. cbn [starts_with_dash].
  destruct (beqb c x2d) eqn:E; [|reflexivity].
  apply beqb_eq in E. subst c. unfold path_is_ambiguous in H.
  destruct (trim_dash r) as (t & Ht). rewrite Ht in H. cbn in H. discriminate.
Qed.

(* for_shell *)
Lemma L_for_shell_spec p :
  for_shell p = (if starts_with [x2f; x7e] p then skipn 1 p else p) /\
  (starts_with_dash (for_shell p) = true -> starts_with_dash p = true).
Proof.
  split; [reflexivity|]. unfold for_shell.
  destruct (starts_with [x2f; x7e] p) eqn:E; [|auto].
  destruct p as [|a [|b r]]; cbn [starts_with] in E; try discriminate.
  apply andb_prop in E as [_ E]. apply andb_prop in E as [E _]. apply beqb_eq in E. subst b.
  cbn. discriminate.
Qed.

Lemma L_single_injective p1 p2 q : single p1 = Ok q -> single p2 = Ok q -> p1 = p2.
Proof.
  intros H1 H2.
  pose proof (L_quote_is_one_word [] p1 q eq_refl H1) as E1.
  pose proof (L_quote_is_one_word [] p2 q eq_refl H2) as E2.
  rewrite E1 in E2. now injection E2.
Qed.
