(* C34 — No URL can inject arguments into spawned transport programs.
   Only statements here; every proof is [exact <lemma>].
   Model: Model.v (gix-url argument classification and for_shell, gix_quote::single, gix-command's Prepare -> argv,
   gix-transport's ProgramKind::prepare_invocation, ssh::connect, SpawnProcessOnDemand::handshake up to the spawn).
   Spec.v: [sh_words] (what a POSIX shell makes of a command line of literal words; None = outside that fragment),
   [scan_options ssh_takes_arg] (how ssh/plink/putty find their first operand), [option_words] (the only things that
   may precede the destination: a function of program kind, protocol version and port number alone),
   [destination user host] = user@host or host, [argv_head cmd head]: head is [cmd] or [/bin/sh; -c; cmd or cmd "$@"; --]. *)
From GixV.Base Require Import Bytes BytesFacts Outcome.
From GixV.C34 Require Import Model Spec SpecSh Proofs ProofsArgs ProofsSh.

(* ---- quoting -------------------------------------------------------------------------------------------------- *)

(* gix_quote::single never fails, never panics, needs at most len+1 loop rounds, and has the closed form
   ' body ' where body replaces each ' by '\'' and each ! by '\!' ; the result never starts with a dash *)
Theorem single_closed_form : forall v, single v = Ok (x27 :: single_body v ++ [x27]).
Proof. exact L_single_closed. Qed.

Theorem single_total : forall v, exists q, single v = Ok q /\ starts_with_dash q = false.
Proof. exact L_single_total. Qed.

(* THE quoting theorem: for ALL byte strings p, a shell reading  w1 w2 … wn 'quoted p'  (the wi plain words such as
   git-upload-pack) sees exactly the words w1 … wn p: one word for p, its bytes unchanged, nothing expanded *)
Theorem quote_is_one_word : forall words p q,
  forallb plain_word words = true -> single p = Ok q ->
  sh_words (join_sp (words ++ [q])) = Some (words ++ [p]).
Proof. exact L_quote_is_one_word. Qed.

(* hence no two paths are quoted alike *)
Theorem single_injective : forall p1 p2 q, single p1 = Ok q -> single p2 = Ok q -> p1 = p2.
Proof. exact L_single_injective. Qed.

(* ---- argument classification and the ssh command line ----------------------------------------------------------- *)

(* whenever prepare_invocation succeeds, its arguments are option_words (no URL text but the port number) followed by
   exactly one more element, the destination, which does not start with a dash; the command is the configured one *)
Theorem invocation_arguments : forall k cmd u version disallow p,
  prepare_invocation k cmd u version disallow = Ok p ->
  exists host,
    u_host u = Some host /\
    p_args p = option_words k version (u_port u) ++ [destination (u_user u) host] /\
    starts_with_dash (destination (u_user u) host) = false /\
    p_command p = cmd /\
    p_use_shell p = (if disallow then false else with_shell_needed cmd) /\
    accepts k u = true.
Proof. exact L_invocation_ok. Qed.

(* it succeeds exactly for the URLs [accepts] describes: host present; user (if any) without leading dash, else host
   without leading dash; no port for the Simple kind … *)
Theorem invocation_accepts : forall k cmd u version disallow,
  accepts k u = true -> exists p, prepare_invocation k cmd u version disallow = Ok p.
Proof. exact L_invocation_accepts. Qed.

(* … and every refusal names its reason *)
Theorem invocation_rejections : forall k cmd u version disallow,
  accepts k u = false ->
  match prepare_invocation k cmd u version disallow with
  | Ok _ => False
  | Err (AmbiguousUserName us) => u_user u = Some us /\ starts_with_dash us = true
  | Err (AmbiguousHostName h) => u_user u = None /\ u_host u = Some h /\ starts_with_dash h = true
  | Err Unsupported => k = Simple /\ u_port u <> None
  | Panic => u_host u = None
  | OutOfFuel => False
  end.
Proof. exact L_invocation_rejects. Qed.

(* a getopt-style scan of  option_words ++ dest :: tail  stops exactly at dest: whatever follows the options is the
   first operand, for every kind, version and port and ANY tail *)
Theorem destination_is_first_operand : forall k version port dest tail,
  starts_with_dash dest = false ->
  scan_options ssh_takes_arg (option_words k version port ++ dest :: tail) = (option_words k version port, dest :: tail).
Proof. exact L_destination_is_first_operand. Qed.

(* ---- the /bin/sh wrapper of gix-command --------------------------------------------------------------------------- *)

(* `sh -c 'w1 … wn "$@"' NAME args…` runs exactly w1 … wn args…, every argument one word with its bytes unchanged,
   for ALL argument lists (sh_c_words: Spec.sh_words plus the expansion of a stand-alone "$@") *)
Theorem sh_c_passes_arguments : forall cmd_words args,
  forallb plain_word cmd_words = true ->
  sh_c_words args (join_sp (cmd_words ++ [bs """$@"""])) = Some (cmd_words ++ args).
Proof. exact L_sh_c_passes_arguments. Qed.

(* … so, when the configured ssh command consists of plain words (`ssh -v`), the argv gix-command hands to the OS in
   shell mode makes the shell start  cmd_words ++ args *)
Theorem shell_wrapper_is_transparent : forall cmd_words p a args,
  forallb plain_word cmd_words = true -> cmd_words <> [] ->
  p_command p = join_sp cmd_words -> p_use_shell p = true -> p_args p = a :: args ->
  contains (bs "$@") (p_command p) = false ->
  exists script, to_argv p = [bs "/bin/sh"; bs "-c"; script; bs "--"] ++ a :: args /\
                 sh_c_words (a :: args) script = Some (cmd_words ++ a :: args).
Proof. exact L_shell_wrapper_is_transparent. Qed.

(* ---- the path guard ------------------------------------------------------------------------------------------------ *)

(* bstr's Unicode-aware trim never removes a leading dash: a path that passes handshake()'s check does not start with one *)
Theorem unambiguous_path_has_no_dash : forall p, path_is_ambiguous p = false -> starts_with_dash p = false.
Proof. exact L_unambiguous_path_has_no_dash. Qed.

(* for_shell only ever drops the slash in front of a tilde; it cannot produce a leading dash *)
Theorem for_shell_spec : forall p,
  for_shell p = (if starts_with [x2f; x7e] p then skipn 1 p else p) /\
  (starts_with_dash (for_shell p) = true -> starts_with_dash p = true).
Proof. exact L_for_shell_spec. Qed.

(* ---- handshake: what is spawned ------------------------------------------------------------------------------- *)

(* ssh transport: if anything is spawned, its argv is  head ++ option_words ++ [dest; service; 'path']  with dest the
   first operand, and the remote command line  service 'path'  is read by a shell as [service; path] *)
Theorem ssh_handshake_spawns_only_this : forall exec_ok t receive s cmd k,
  t_ssh t = Some (cmd, k) ->
  handshake exec_ok t receive = Ok s ->
  exists host q head,
    let opts := option_words k (t_version t) (u_port (t_url t)) in
    let dest := destination (u_user (t_url t)) host in
    u_host (t_url t) = Some host /\
    single (t_path t) = Ok q /\
    s_argv s = head ++ opts ++ [dest; service_str receive; q] /\
    argv_head cmd head /\
    starts_with_dash dest = false /\
    starts_with_dash (t_path t) = false /\
    scan_options ssh_takes_arg (opts ++ [dest; service_str receive; q]) = (opts, [dest; service_str receive; q]) /\
    sh_words (join_sp [service_str receive; q]) = Some [service_str receive; t_path t] /\
    Forall (fun a => has_nul a = false) (s_argv s).
Proof. exact L_handshake_ssh. Qed.

(* local transport: argv is exactly [service; path] and the path does not start with a dash *)
Theorem local_handshake_spawns_only_this : forall exec_ok t receive s,
  t_ssh t = None ->
  handshake exec_ok t receive = Ok s ->
  s_argv s = [service_str receive; t_path t] /\ starts_with_dash (t_path t) = false.
Proof. exact L_handshake_local. Qed.

(* both transports: a path starting with a dash never reaches a program *)
Theorem dash_path_is_never_spawned : forall exec_ok t receive,
  starts_with_dash (t_path t) = true ->
  match handshake exec_ok t receive with Ok _ => False | _ => True end.
Proof. exact L_handshake_refuses_dash_path. Qed.

(* ---- connect ------------------------------------------------------------------------------------------------------ *)

(* ssh::connect keeps the URL, derives the remote path with for_shell, and its `-G` feature probe (if made) is
   head ++ [-G; host] with a host that does not start with a dash *)
Theorem connect_ssh_facts : forall u version o probe_ok probe t,
  connect_ssh u version o probe_ok = Ok (probe, t) ->
  t_url t = u /\ t_path t = for_shell (u_path u) /\ t_version t = version /\
  (exists k, t_ssh t = Some (ssh_command o, k)) /\
  (forall argv, probe = Some argv ->
     exists host head, u_host u = Some host /\ starts_with_dash host = false /\
                       argv = head ++ [bs "-G"; host] /\ argv_head (ssh_command o) head).
Proof. exact L_connect_ssh. Qed.

(* set_identity replaces the user only *)
Theorem set_identity_changes_user_only : forall t name t',
  set_identity t name = Ok t' ->
  t_path t' = t_path t /\ t_ssh t' = t_ssh t /\ t_version t' = t_version t /\
  u_host (t_url t') = u_host (t_url t) /\ u_port (t_url t') = u_port (t_url t).
Proof. exact L_set_identity. Qed.

(* ---- the property, end to end ---------------------------------------------------------------------------------- *)

(* For ANY url, options, version, service: if connect + handshake spawn a program, then its argv is
   head ++ option_words ++ [user@host | host ; service ; quoted], the destination is the first operand and does not
   start with a dash, and the remote shell reads  service quoted  as exactly two words: the service and the URL's path
   (minus the slash in front of a tilde), byte for byte; that path does not start with a dash. *)
Theorem url_to_remote_word : forall u version o probe_ok probe t exec_ok receive s,
  connect_ssh u version o probe_ok = Ok (probe, t) ->
  handshake exec_ok t receive = Ok s ->
  exists host q head k,
    let opts := option_words k version (u_port u) in
    let dest := destination (u_user u) host in
    u_host u = Some host /\
    s_argv s = head ++ opts ++ [dest; service_str receive; q] /\
    argv_head (ssh_command o) head /\
    scan_options ssh_takes_arg (opts ++ [dest; service_str receive; q]) = (opts, [dest; service_str receive; q]) /\
    starts_with_dash dest = false /\
    sh_words (service_str receive ++ x20 :: q) = Some [service_str receive; remote_path u] /\
    starts_with_dash (remote_path u) = false.
Proof. exact L_url_to_remote_word. Qed.

(* ---- non-vacuity ------------------------------------------------------------------------------------------------ *)

Example single_example : single (bs "it's!") = Ok (bs "'it'\''s'\!''").
Proof. reflexivity. Qed.

Example one_word_example :
  sh_words (bs "git-upload-pack 'it'\''s a $(repo)'\!''") = Some [bs "git-upload-pack"; bs "it's a $(repo)!"].
Proof. reflexivity. Qed.

Example sh_words_is_not_trivial :
  sh_words (bs "a $(b)") = None /\ sh_words (bs "a 'b") = None /\ sh_words (bs "a  'b c'\ d") = Some [bs "a"; bs "b c d"].
Proof. repeat split. Qed.

Definition example_url : url :=
  mkUrl true (Some (bs "git")) (Some (bs "-oProxyCommand=x")) (Some 2222%N) (bs "/~/it's").

Example end_to_end_example :
  exists t s,
    connect_ssh example_url 2 (mkOpts None false None) true = Ok (None, t) /\
    handshake (fun _ => true) t false = Ok s /\
    s_argv s = [bs "ssh"; bs "-o"; bs "SendEnv=GIT_PROTOCOL"; bs "-p2222"; bs "git@-oProxyCommand=x";
                bs "git-upload-pack"; bs "'~/it'\''s'"].
Proof. eexists. eexists. repeat split. Qed.

Example rejection_examples :
  prepare_invocation Ssh (bs "ssh") (mkUrl true None (Some (bs "-oProxyCommand=x")) None (bs "/p")) 2 false
    = Err (AmbiguousHostName (bs "-oProxyCommand=x")) /\
  prepare_invocation Plink (bs "plink") (mkUrl true (Some (bs "-l")) (Some (bs "h")) None (bs "/p")) 2 false
    = Err (AmbiguousUserName (bs "-l")) /\
  path_is_ambiguous (bs " -x") = true /\ path_is_ambiguous (bs "/-x") = false /\
  accepts Ssh example_url = true.
Proof. repeat split. Qed.

Example shell_wrapper_example :
  sh_c_words [bs "-p22"; bs "git@-oProxyCommand=x"; bs "git-upload-pack"; bs "'~/it'\''s'"] (bs "ssh -v ""$@""")
  = Some [bs "ssh"; bs "-v"; bs "-p22"; bs "git@-oProxyCommand=x"; bs "git-upload-pack"; bs "'~/it'\''s'"].
Proof. reflexivity. Qed.

Example probe_example :
  exists t, connect_ssh (mkUrl true None (Some (bs "host")) None (bs "/p")) 2 (mkOpts (Some (bs "my ssh")) false None) false
            = Ok (Some [bs "/bin/sh"; bs "-c"; bs "my ssh ""$@"""; bs "--"; bs "-G"; bs "host"], t).
Proof. eexists. reflexivity. Qed.
