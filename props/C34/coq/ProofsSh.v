(* C34 — lemmas about `sh -c 'cmd "$@"' -- args`. *)
From GixV.Base Require Import Bytes BytesFacts Outcome.
From GixV.C34 Require Import Model Spec SpecSh Proofs.

Lemma plain_not_dq c : plain_byte c = true -> beqb c x22 = false.
Proof.
  intros H. destruct (plain_byte_inv _ H) as (_ & _ & _ & H4).
  destruct (beqb c x22) eqn:E; [|reflexivity]. apply beqb_eq in E. subst c. discriminate.
Qed.

Lemma go_c_In_plain args : forall w rest, forallb plain_byte w = true ->
  go_c args In (w ++ x20 :: rest) = option_map (cons w) (go_c args Out rest).
Proof.
  induction w as [|c w IH]; intros rest H.
  - reflexivity.
  - cbn [forallb] in H. apply andb_prop in H as [Hc Hw].
    destruct (plain_byte_inv _ Hc) as (H1 & H2 & H3 & H4). pose proof (plain_not_dq _ Hc) as H5.
    cbn [app go_c]. rewrite H1, H2, H3, H5, H4. rewrite (IH _ Hw). now destruct (go_c args Out rest).
Qed.

Lemma go_c_Out_plain args : forall w rest, plain_word w = true ->
  go_c args Out (w ++ x20 :: rest) = option_map (cons w) (go_c args Out rest).
Proof.
  intros [|c w] rest H; [discriminate|].
  cbn [plain_word] in H. pose proof (go_c_In_plain args (c :: w) rest H) as E.
  cbn [forallb] in H. apply andb_prop in H as [Hc _].
  destruct (plain_byte_inv _ Hc) as (H1 & H2 & H3 & H4). pose proof (plain_not_dq _ Hc) as H5.
  refine (eq_trans _ E). cbn [app go_c]. now rewrite H1, H2, H3, H5, H4.
Qed.

(* the script gix-command builds: the command's words, then "$@" *)
Lemma L_sh_c_passes_arguments : forall cmd_words args,
  forallb plain_word cmd_words = true ->
  sh_c_words args (join_sp (cmd_words ++ [bs """$@"""])) = Some (cmd_words ++ args).
Proof.
  intros cmd_words args H. unfold sh_c_words.
  induction cmd_words as [|w ws IH].
  - cbn. now rewrite app_nil_r.
  - cbn [forallb] in H. apply andb_prop in H as [H1 H2].
    rewrite <- app_comm_cons. rewrite join_sp_cons by (destruct ws; discriminate).
    refine (eq_trans (go_c_Out_plain args _ _ H1) _). now rewrite (IH H2).
Qed.

Lemma join_sp_snoc : forall ws x, ws <> [] -> join_sp (ws ++ [x]) = join_sp ws ++ x20 :: x.
Proof.
  induction ws as [|w ws IH]; intros x H; [congruence|].
  destruct ws as [|w2 ws]; [reflexivity|].
  rewrite <- app_comm_cons. rewrite !join_sp_cons by discriminate.
  rewrite IH by discriminate. now rewrite <- app_assoc.
Qed.

(* the same, phrased on gix-command's argv: when the configured command consists of plain words (`ssh -v`, `my-ssh`),
   the argv [/bin/sh; -c; script; --] ++ args makes the shell run exactly cmd_words ++ args *)
Lemma L_shell_wrapper_is_transparent : forall cmd_words p a args,
  forallb plain_word cmd_words = true -> cmd_words <> [] ->
  p_command p = join_sp cmd_words -> p_use_shell p = true -> p_args p = a :: args ->
  contains (bs "$@") (p_command p) = false ->
  exists script, to_argv p = [bs "/bin/sh"; bs "-c"; script; bs "--"] ++ a :: args /\
                 sh_c_words (a :: args) script = Some (cmd_words ++ a :: args).
Proof.
  intros cmd_words p a args Hw Hne Hc Hs Ha Hno.
  unfold to_argv. rewrite Hs, Ha, Hno, andb_false_r.
  eexists. split; [reflexivity|].
  rewrite Hc. rewrite <- (L_sh_c_passes_arguments cmd_words (a :: args) Hw). f_equal.
  rewrite join_sp_snoc by exact Hne. reflexivity.
Qed.
