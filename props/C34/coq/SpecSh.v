(* C34 — specification, second part: `sh -c SCRIPT NAME ARG…`.
   [sh_c_words args script]: the words of the simple command SCRIPT when the positional parameters are [args].
   Same fragment as [Spec.sh_words] (literal words only) plus ONE expansion: a word that is exactly "$@" (in double
   quotes, standing alone between blanks) expands to all positional parameters, each one word, unchanged
   (XCU 2.5.2 Special Parameters: "@ … within double-quotes … each positional parameter shall expand as a separate
   field").  Everything else involving a double quote or a dollar sign is outside the fragment (None).
   Validated against /bin/sh by the harness's `git` function (op `shc`). *)
From GixV.Base Require Import Bytes.
From GixV.C34 Require Import Spec.

Definition ends_word (l : bytes) : bool := match l with [] => true | b :: _ => is_blank b end.

Fixpoint go_c (args : list bytes) (m : mode) (l : bytes) : option (list bytes) :=
  match l with
  | [] => match m with Out => Some [] | In => Some [[]] | Sq => None | Esc => None end
  | c :: r =>
      match m with
      | Out | In =>
          if is_blank c then
            match m with
            | In => option_map (cons []) (go_c args Out r)
            | _ => go_c args Out r
            end
          else if beqb c x27 then go_c args Sq r
          else if beqb c x5c then go_c args Esc r
          else if beqb c x22 then
            match m, r with
            | Out, d :: a :: q :: r' =>
                if beqb d x24 && beqb a x40 && beqb q x22 && ends_word r'
                then option_map (app args) (go_c args Out r')
                else None
            | _, _ => None
            end
          else if sh_special c then None
          else option_map (push c) (go_c args In r)
      | Sq => if beqb c x27 then go_c args In r else option_map (push c) (go_c args Sq r)
      | Esc => if beqb c x0a then None else option_map (push c) (go_c args In r)
      end
  end.

Definition sh_c_words (args : list bytes) (script : bytes) : option (list bytes) := go_c args Out script.
