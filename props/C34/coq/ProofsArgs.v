(* C34 — lemmas: argument assembly (prepare_invocation, handshake, connect). *)
From Coq Require Import Lia.
From GixV.Base Require Import Bytes BytesFacts Outcome.
From GixV.C34 Require Import Model Spec Proofs.
Local Open Scope N_scope.

(* ---------------------------------------------------------------------------------------------- *)
(* decimal numbers are never empty *)

Lemma N_to_dec_fuel_nonempty : forall f n acc, acc <> [] -> N_to_dec_fuel f n acc <> [].
Proof.
  induction f as [|f IH]; intros n acc H; cbn [N_to_dec_fuel]; [exact H|].
  destruct (N.eqb (N.div n 10) 0); [discriminate|]. apply IH. discriminate.
Qed.
Lemma N_to_dec_nonempty n : N_to_dec n <> [].
Proof.
  unfold N_to_dec. cbn [N_to_dec_fuel].
  destruct (N.eqb (N.div n 10) 0); [discriminate|]. apply N_to_dec_fuel_nonempty. discriminate.
Qed.

(* ---------------------------------------------------------------------------------------------- *)
(* prepare_invocation *)

Definition accepts (k : kind) (u : url) : bool :=
  match u_host u with
  | None => false
  | Some host =>
      match u_user u with
      | Some us => negb (starts_with_dash us)
      | None => negb (starts_with_dash host)
      end
  end && match k, u_port u with Simple, Some _ => false | _, _ => true end.

Ltac msimpl :=
  cbn [p_arg p_args p_args_add p_env_add p_set_shell p_with_shell gix_prepare p_command p_use_shell p_env
       obind kind_eqb negb app u_user u_host u_port destination].
Ltac msimpl_in H :=
  cbn [p_arg p_args p_args_add p_env_add p_set_shell p_with_shell gix_prepare p_command p_use_shell p_env
       obind kind_eqb negb app u_user u_host u_port destination] in H.

Lemma dest_no_dash us h : starts_with_dash us = false -> starts_with_dash (us ++ x40 :: h) = false.
Proof. destruct us; intros H; [reflexivity | exact H]. Qed.

Lemma L_invocation_ok : forall k cmd u version disallow p,
  prepare_invocation k cmd u version disallow = Ok p ->
  exists host,
    u_host u = Some host /\
    p_args p = option_words k version (u_port u) ++ [destination (u_user u) host] /\
    starts_with_dash (destination (u_user u) host) = false /\
    p_command p = cmd /\
    p_use_shell p = (if disallow then false else with_shell_needed cmd) /\
    accepts k u = true.
Proof.
  intros k cmd [sch user host port path] version disallow p H.
  unfold prepare_invocation, user_as_argument, host_as_argument, as_argument, accepts, option_words in *.
  cbn [u_user u_host u_port] in *.
  change looks_like_option with starts_with_dash in *.
  destruct host as [h|]; destruct user as [us|];
    try (destruct (starts_with_dash us) eqn:Eu); try (destruct (starts_with_dash h) eqn:Eh);
    destruct k; destruct port as [pt|]; destruct (N.eqb version 1) eqn:Ev; destruct disallow;
    msimpl_in H; try discriminate; apply Ok_inj in H; subst p; exists h; msimpl;
    repeat split; auto using dest_no_dash.
Qed.

Lemma L_invocation_accepts : forall k cmd u version disallow,
  accepts k u = true -> exists p, prepare_invocation k cmd u version disallow = Ok p.
Proof.
  intros k cmd [sch user host port path] version disallow H.
  unfold prepare_invocation, user_as_argument, host_as_argument, as_argument, accepts in *.
  cbn [u_user u_host u_port] in *.
  change looks_like_option with starts_with_dash in *.
  destruct host as [h|]; destruct user as [us|];
    try (destruct (starts_with_dash us) eqn:Eu); try (destruct (starts_with_dash h) eqn:Eh);
    destruct k; destruct port as [pt|]; cbn [negb andb] in H; try discriminate;
    destruct (N.eqb version 1); destruct disallow; msimpl; eauto.
Qed.

Lemma L_invocation_rejects : forall k cmd u version disallow,
  accepts k u = false ->
  match prepare_invocation k cmd u version disallow with
  | Ok _ => False
  | Err (AmbiguousUserName us) => u_user u = Some us /\ starts_with_dash us = true
  | Err (AmbiguousHostName h) => u_user u = None /\ u_host u = Some h /\ starts_with_dash h = true
  | Err Unsupported => k = Simple /\ u_port u <> None
  | Panic => u_host u = None
  | OutOfFuel => False
  end.
Proof.
  intros k cmd [sch user host port path] version disallow H.
  unfold prepare_invocation, user_as_argument, host_as_argument, as_argument, accepts in *.
  cbn [u_user u_host u_port] in *.
  change looks_like_option with starts_with_dash in *.
  destruct host as [h|]; destruct user as [us|];
    try (destruct (starts_with_dash us) eqn:Eu); try (destruct (starts_with_dash h) eqn:Eh);
    destruct k; destruct port as [pt|]; cbn [negb andb] in H; try discriminate;
    destruct (N.eqb version 1); destruct disallow; msimpl; repeat split; auto; discriminate.
Qed.

(* ---------------------------------------------------------------------------------------------- *)
(* the destination is the first operand *)

Lemma scan_dest dest tail : starts_with_dash dest = false ->
  scan_options ssh_takes_arg (dest :: tail) = ([], dest :: tail).
Proof. intros H. cbn [scan_options]. now rewrite H. Qed.

Lemma scan_flag a r : starts_with_dash a = true -> ssh_takes_arg a = false ->
  scan_options ssh_takes_arg (a :: r) = let '(o, rest) := scan_options ssh_takes_arg r in (a :: o, rest).
Proof. intros H1 H2. cbn [scan_options]. now rewrite H1, H2. Qed.

Lemma scan_arg a v r : starts_with_dash a = true -> ssh_takes_arg a = true ->
  scan_options ssh_takes_arg (a :: v :: r) = let '(o, rest) := scan_options ssh_takes_arg r in (a :: v :: o, rest).
Proof. intros H1 H2. cbn [scan_options]. now rewrite H1, H2. Qed.

Lemma scan_port_ssh p dest tail : starts_with_dash dest = false ->
  scan_options ssh_takes_arg ((bs "-p" ++ N_to_dec p) :: dest :: tail) = ([bs "-p" ++ N_to_dec p], dest :: tail).
Proof.
  intros H. pose proof (N_to_dec_nonempty p) as Hn.
  destruct (N_to_dec p) as [|d ds] eqn:E; [congruence|].
  rewrite scan_flag by reflexivity. now rewrite scan_dest.
Qed.

Lemma scan_port_putty p dest tail : starts_with_dash dest = false ->
  scan_options ssh_takes_arg (bs "-P" :: N_to_dec p :: dest :: tail) = ([bs "-P"; N_to_dec p], dest :: tail).
Proof. intros H. rewrite scan_arg by reflexivity. now rewrite scan_dest. Qed.

Lemma L_destination_is_first_operand : forall k version port dest tail,
  starts_with_dash dest = false ->
  scan_options ssh_takes_arg (option_words k version port ++ dest :: tail) = (option_words k version port, dest :: tail).
Proof.
  intros k version port dest tail H.
  destruct k; destruct port as [p|]; unfold option_words; destruct (N.eqb version 1); cbn [negb app];
    repeat (rewrite scan_arg by reflexivity);
    repeat (rewrite scan_flag by reflexivity);
    rewrite ?scan_port_ssh, ?scan_port_putty, ?scan_dest by exact H; reflexivity.
Qed.

(* ---------------------------------------------------------------------------------------------- *)
(* to_argv *)

Lemma L_to_argv_head p : exists head, to_argv p = head ++ p_args p /\ argv_head (p_command p) head.
Proof.
  unfold to_argv, argv_head. destruct (p_use_shell p).
  - destruct (p_args p) eqn:Ea.
    + eexists. split; [reflexivity|]. right. eexists. split; [reflexivity|]. now left.
    + destruct (utf8_valid (p_command p) && contains (bs "$@") (p_command p));
        (eexists; split; [reflexivity|]; right; eexists; split; [reflexivity|]); [now left | now right].
  - exists [p_command p]. split; [reflexivity|]. now left.
Qed.

Lemma plain_service r : plain_word (service_str r) = true.
Proof. destruct r; reflexivity. Qed.
Lemma service_no_dash r : starts_with_dash (service_str r) = false.
Proof. destruct r; reflexivity. Qed.

(* ---------------------------------------------------------------------------------------------- *)
(* handshake *)

Lemma L_handshake_ssh : forall exec_ok t receive s cmd k,
  t_ssh t = Some (cmd, k) ->
  handshake exec_ok t receive = Ok s ->
  exists host q head,
    let opts := option_words k (t_version t) (u_port (t_url t)) in
    let dest := destination (u_user (t_url t)) host in
    u_host (t_url t) = Some host /\
    single (t_path t) = Ok q /\
    s_argv s = head ++ opts ++ [dest; service_str receive; q] /\
    argv_head cmd head /\
    starts_with_dash dest = false /\
    starts_with_dash (t_path t) = false /\
    scan_options ssh_takes_arg (opts ++ [dest; service_str receive; q]) = (opts, [dest; service_str receive; q]) /\
    sh_words (join_sp [service_str receive; q]) = Some [service_str receive; t_path t] /\
    Forall (fun a => has_nul a = false) (s_argv s).
Proof.
  intros exec_ok t receive s cmd k Hssh H.
  unfold handshake in H. rewrite Hssh in H.
  destruct (prepare_invocation k cmd (t_url t) (t_version t) (t_disallow t)) as [p| | |] eqn:Hp;
    cbn [obind] in H; try discriminate.
  destruct (path_is_ambiguous (t_path t)) eqn:Hamb; [discriminate|].
  pose proof (L_single_closed (t_path t)) as Hq. rewrite Hq in H. cbn [obind] in H.
  unfold spawn in H.
  destruct (existsb has_nul _) eqn:Hnul; [discriminate|].
  destruct (exec_ok _); [|discriminate]. apply Ok_inj in H. subst s. cbn [s_argv].
  destruct (L_invocation_ok _ _ _ _ _ _ Hp) as (host & Hh & Hargs & Hd & Hc & _ & _).
  set (q := x27 :: single_body (t_path t) ++ [x27]) in *.
  set (p2 := p_arg (p_arg p (service_str receive)) q) in *.
  destruct (L_to_argv_head p2) as (head & Hv & Hhead).
  exists host, q, head. cbn zeta.
  assert (Hargs2 : p_args p2 = option_words k (t_version t) (u_port (t_url t)) ++
                   [destination (u_user (t_url t)) host; service_str receive; q]).
  { subst p2. cbn [p_arg p_args]. rewrite Hargs. rewrite <- !app_assoc. reflexivity. }
  repeat split.
  - exact Hh.
  - exact Hq.
  - rewrite Hv, Hargs2. reflexivity.
  - subst p2. cbn [p_arg p_command] in Hhead. now rewrite Hc in Hhead.
  - exact Hd.
  - now apply L_unambiguous_path_has_no_dash.
  - apply L_destination_is_first_operand. exact Hd.
  - apply (L_quote_is_one_word [service_str receive] (t_path t) q); [|exact Hq].
    cbn [forallb]. now rewrite plain_service.
  - apply Forall_forall. intros a Ha.
    destruct (has_nul a) eqn:E; [|reflexivity].
    assert (existsb has_nul (to_argv p2) = true) by (apply existsb_exists; eauto). congruence.
Qed.

Lemma L_handshake_local : forall exec_ok t receive s,
  t_ssh t = None ->
  handshake exec_ok t receive = Ok s ->
  s_argv s = [service_str receive; t_path t] /\ starts_with_dash (t_path t) = false.
Proof.
  intros exec_ok t receive s Hssh H.
  unfold handshake in H. rewrite Hssh in H. cbn [obind] in H.
  destruct (path_is_ambiguous (t_path t)) eqn:Hamb; [discriminate|].
  cbn [obind] in H. unfold spawn in H.
  destruct (existsb has_nul _); [discriminate|].
  destruct (exec_ok _); [|discriminate]. apply Ok_inj in H. subst s.
  split; [reflexivity | now apply L_unambiguous_path_has_no_dash].
Qed.

(* a path that could be read as an option is always refused, before anything is spawned *)
Lemma L_handshake_refuses_dash_path : forall exec_ok t receive,
  starts_with_dash (t_path t) = true ->
  match handshake exec_ok t receive with Ok _ => False | _ => True end.
Proof.
  intros exec_ok t receive Hd.
  destruct (handshake exec_ok t receive) as [s| | |] eqn:H; auto.
  destruct (t_ssh t) as [[cmd k]|] eqn:Hssh.
  - destruct (L_handshake_ssh _ _ _ _ _ _ Hssh H) as (? & ? & ? & _ & _ & _ & _ & _ & Hn & _). congruence.
  - destruct (L_handshake_local _ _ _ _ Hssh H) as [_ Hn]. congruence.
Qed.

(* ---------------------------------------------------------------------------------------------- *)
(* connect *)

Lemma L_connect_ssh : forall u version o probe_ok probe t,
  connect_ssh u version o probe_ok = Ok (probe, t) ->
  t_url t = u /\ t_path t = for_shell (u_path u) /\ t_version t = version /\
  (exists k, t_ssh t = Some (ssh_command o, k)) /\
  (forall argv, probe = Some argv ->
     exists host head, u_host u = Some host /\ starts_with_dash host = false /\
                       argv = head ++ [bs "-G"; host] /\ argv_head (ssh_command o) head).
Proof.
  intros u version o probe_ok probe t H. unfold connect_ssh in H.
  destruct (negb (u_ssh u) || _); [discriminate|].
  destruct ((match o_kind o with None => true | Some _ => false end) &&
            kind_eqb (match o_kind o with Some k => k | None => kind_from_cmd (ssh_command o) end) Simple).
  - unfold host_as_argument, as_argument in H. destruct (u_host u) as [h|] eqn:Hh; [|discriminate].
    change looks_like_option with starts_with_dash in H.
    destruct (starts_with_dash h) eqn:Ed; [discriminate|].
    cbn [obind] in H. apply Ok_inj in H. injection H as <- <-. cbn [t_url t_path t_version t_ssh].
    repeat split; eauto.
    intros argv Ha. injection Ha as <-.
    set (p := p_arg (p_arg (p_with_shell (gix_prepare (ssh_command o))) (bs "-G")) h).
    destruct (L_to_argv_head p) as (head & Hv & Hhead).
    exists h, head. repeat split; auto.
  - cbn [obind] in H. apply Ok_inj in H. injection H as <- <-. cbn [t_url t_path t_version t_ssh].
    repeat split; eauto. intros argv Ha. discriminate.
Qed.

Lemma L_set_identity : forall t name t',
  set_identity t name = Ok t' ->
  t_path t' = t_path t /\ t_ssh t' = t_ssh t /\ t_version t' = t_version t /\
  u_host (t_url t') = u_host (t_url t) /\ u_port (t_url t') = u_port (t_url t).
Proof.
  intros t name t' H. unfold set_identity in H.
  destruct (u_ssh (t_url t)); [|discriminate]. apply Ok_inj in H. subst t'. cbn. auto.
Qed.

(* ---------------------------------------------------------------------------------------------- *)
(* URL -> what the remote shell runs *)

Definition remote_path (u : url) : bytes :=
  if starts_with [x2f; x7e] (u_path u) then skipn 1 (u_path u) else u_path u.

Lemma L_url_to_remote_word : forall u version o probe_ok probe t exec_ok receive s,
  connect_ssh u version o probe_ok = Ok (probe, t) ->
  handshake exec_ok t receive = Ok s ->
  exists host q head k,
    let opts := option_words k version (u_port u) in
    let dest := destination (u_user u) host in
    u_host u = Some host /\
    s_argv s = head ++ opts ++ [dest; service_str receive; q] /\
    argv_head (ssh_command o) head /\
    scan_options ssh_takes_arg (opts ++ [dest; service_str receive; q]) = (opts, [dest; service_str receive; q]) /\
    starts_with_dash dest = false /\
    sh_words (service_str receive ++ x20 :: q) = Some [service_str receive; remote_path u] /\
    starts_with_dash (remote_path u) = false.
Proof.
  intros u version o probe_ok probe t exec_ok receive s Hc Hh.
  destruct (L_connect_ssh _ _ _ _ _ _ Hc) as (Hu & Hp & Hv & (k & Hssh) & _).
  destruct (L_handshake_ssh _ _ _ _ _ _ Hssh Hh) as (host & q & head & H1 & H2 & H3 & H4 & H5 & H6 & H7 & H8 & _).
  rewrite Hu, Hv in *. rewrite Hp in *.
  exists host, q, head, k. cbn zeta. repeat split; auto.
Qed.
