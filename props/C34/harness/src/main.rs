//! C34 harness: URL components -> argv of the spawned transport program.
//!
//! Cheap observations: gix_quote::single, gix_url::expand_path::for_shell, bstr trim, ProgramKind::from,
//! Command::from(Prepare) (get_program/get_args), ProgramKind::prepare_invocation (cfg(gix_verif) hook).
//! End-to-end observations (`hs`, `local`): ssh::connect / file::connect + Transport::handshake really spawn a
//! program; that program is THIS binary (started with GIXV_C34_OUT set), which records the argv and the
//! environment it was given and exits.  The remote shell is a real /bin/sh kept as a co-process.
use bstr::{BString, ByteSlice};
use gix_transport::client::{self, ssh, Transport, TransportWithoutIO};
use gix_transport::{Protocol, Service};
use gix_url::testing::TestUrlExtension;
use gixv_common::*;
use std::ffi::{OsStr, OsString};
use std::io::{Read, Write};
use std::os::unix::ffi::{OsStrExt, OsStringExt};
use std::path::PathBuf;
use std::sync::{Mutex, OnceLock};

// ------------------------------------------------------------------------------------------------
// the fake program

fn hexlist(args: &[Vec<u8>]) -> String {
    format!("({})", args.iter().map(|a| hexs(a)).collect::<Vec<_>>().join(","))
}
fn parse_hexlist(s: &str) -> Option<Vec<Vec<u8>>> {
    let s = s.strip_prefix('(')?.strip_suffix(')')?;
    if s.is_empty() {
        return Some(vec![vec![]]);
    }
    let mut out = Vec::new();
    for p in s.split(',') {
        if p.len() % 2 != 0 || !p.bytes().all(|b| b.is_ascii_hexdigit()) {
            return None;
        }
        out.push(if p.is_empty() { vec![] } else { unhex(p) });
    }
    Some(out)
}

fn fake(out: OsString) -> ! {
    let mut args: Vec<Vec<u8>> = std::env::args_os().skip(1).map(|a| a.into_vec()).collect();
    if args.first().map(|a| a.as_slice()) == Some(b"--fake-extra") {
        args.remove(0);
    }
    let envs = |k: &str| match std::env::var_os(k) {
        Some(v) => format!("={}", hexs(v.as_bytes())),
        None => "-".into(),
    };
    // an empty argument list prints as "()" — the model prints hexlist [] = "()" as well
    let list = if args.is_empty() { "()".to_string() } else { hexlist(&args) };
    let line = format!("{} {} {} {}\n", envs("GIT_PROTOCOL"), envs("LANG"), envs("LC_ALL"), list);
    if let Ok(mut f) = std::fs::OpenOptions::new().create(true).append(true).open(&out) {
        let _ = f.write_all(line.as_bytes());
    }
    let code = if args.first().map(|a| a.as_slice()) == Some(b"-G") {
        if std::env::var("GIXV_C34_PROBE").ok().as_deref() == Some("1") {
            0
        } else {
            1
        }
    } else {
        0
    };
    std::process::exit(code)
}

struct E2e {
    out: PathBuf,
    exe: PathBuf,
}
const SHELL_META: &[u8] = b"|&;<>()$`\\\"' \t\n*?[#~=%";
fn e2e() -> &'static E2e {
    static E: OnceLock<E2e> = OnceLock::new();
    E.get_or_init(|| {
        let exe = std::env::current_exe().expect("current_exe");
        assert!(
            exe.as_os_str().as_bytes().find_byteset(SHELL_META).is_none() && exe.to_str().is_some(),
            "the harness path must be free of shell metacharacters: {exe:?}"
        );
        let tmp = std::env::temp_dir();
        // stale directories of earlier runs
        if let Ok(rd) = std::fs::read_dir(&tmp) {
            for e in rd.flatten() {
                if e.file_name().to_string_lossy().starts_with("gixv-c34-e2e-") {
                    let old = e
                        .metadata()
                        .and_then(|m| m.modified())
                        .ok()
                        .and_then(|t| t.elapsed().ok())
                        .map_or(false, |d| d.as_secs() > 3 * 3600);
                    if old {
                        let _ = std::fs::remove_dir_all(e.path());
                    }
                }
            }
        }
        let dir = tmp.join(format!("gixv-c34-e2e-{}", std::process::id()));
        let _ = std::fs::remove_dir_all(&dir);
        std::fs::create_dir_all(&dir).expect("e2e dir");
        for name in ["git-upload-pack", "git-receive-pack"] {
            std::os::unix::fs::symlink(&exe, dir.join(name)).expect("symlink");
        }
        let mut path = dir.clone().into_os_string();
        if let Some(p) = std::env::var_os("PATH") {
            path.push(":");
            path.push(p);
        }
        std::env::set_var("PATH", path);
        let out = dir.join("out");
        std::env::set_var("GIXV_C34_OUT", &out);
        E2e { out, exe }
    })
}
fn take_lines() -> Vec<String> {
    let e = e2e();
    let s = std::fs::read_to_string(&e.out).unwrap_or_default();
    let _ = std::fs::remove_file(&e.out);
    s.lines().map(|l| l.to_string()).collect()
}

// ------------------------------------------------------------------------------------------------
// case fields

struct UrlF {
    ssh: bool,
    user: Option<Vec<u8>>,
    host: Option<Vec<u8>>,
    port: Option<u16>,
    path: Vec<u8>,
}
fn flag(c: &Case, i: usize) -> bool {
    f_str(c, i) == b"1"
}
fn opt(c: &Case, i: usize) -> Option<Vec<u8>> {
    flag(c, i).then(|| f_str(c, i + 1).to_vec())
}
fn url_fields(c: &Case, n: usize) -> UrlF {
    UrlF {
        ssh: flag(c, n),
        user: opt(c, n + 1),
        host: opt(c, n + 3),
        port: flag(c, n + 5).then(|| f_u64(c, n + 6) as u16),
        path: f_str(c, n + 7).to_vec(),
    }
}
fn push_url(c: &mut Case, u: &UrlF) {
    let b = |x: bool| if x { tag("1") } else { tag("0") };
    c.push(b(u.ssh));
    c.push(b(u.user.is_some()));
    c.push(u.user.clone().unwrap_or_default());
    c.push(b(u.host.is_some()));
    c.push(u.host.clone().unwrap_or_default());
    c.push(b(u.port.is_some()));
    c.push(num(u.port.unwrap_or(0)));
    c.push(u.path.clone());
}
fn build_url(f: &UrlF) -> Option<gix_url::Url> {
    let s = |o: &Option<Vec<u8>>| match o {
        Some(v) => String::from_utf8(v.clone()).ok().map(Some),
        None => Some(None),
    };
    Some(gix_url::Url::from_parts_unchecked(
        if f.ssh { gix_url::Scheme::Ssh } else { gix_url::Scheme::File },
        s(&f.user)?,
        None,
        s(&f.host)?,
        f.port,
        BString::from(f.path.clone()),
        false,
    ))
}
fn kind_of(n: u64) -> Option<ssh::ProgramKind> {
    Some(match n {
        0 => ssh::ProgramKind::Ssh,
        1 => ssh::ProgramKind::Plink,
        2 => ssh::ProgramKind::Putty,
        3 => ssh::ProgramKind::TortoisePlink,
        4 => ssh::ProgramKind::Simple,
        _ => return None,
    })
}
fn version_of(n: u64) -> Protocol {
    match n {
        0 => Protocol::V0,
        1 => Protocol::V1,
        _ => Protocol::V2,
    }
}
fn env_show(env: &[(OsString, OsString)], k: &str) -> String {
    match env.iter().rev().find(|(a, _)| a == k) {
        Some((_, v)) => format!("={}", hexs(v.as_bytes())),
        None => "-".into(),
    }
}
fn os(b: &[u8]) -> &OsStr {
    OsStr::from_bytes(b)
}
fn command_argv(p: gix_command::Prepare) -> Vec<Vec<u8>> {
    let cmd = std::process::Command::from(p);
    let mut v = vec![cmd.get_program().as_bytes().to_vec()];
    v.extend(cmd.get_args().map(|a| a.as_bytes().to_vec()));
    v
}
fn inv_err(e: &ssh::invocation::Error) -> String {
    match e {
        ssh::invocation::Error::AmbiguousUserName { user } => format!("AmbiguousUserName {}", hexs(user.as_bytes())),
        ssh::invocation::Error::AmbiguousHostName { host } => format!("AmbiguousHostName {}", hexs(host.as_bytes())),
        ssh::invocation::Error::Unsupported { .. } => "Unsupported".into(),
    }
}

// ------------------------------------------------------------------------------------------------
// the implementation's observable behaviour

fn exec_inv(c: &Case) -> String {
    let Some(k) = kind_of(f_u64(c, 1)) else { return "?".into() };
    let Some(url) = build_url(&url_fields(c, 5)) else { return "notutf8".into() };
    match k.verif_prepare_invocation(os(f_str(c, 4)), &url, version_of(f_u64(c, 2)), flag(c, 3)) {
        Ok(p) => {
            let args: Vec<Vec<u8>> = p.args.iter().map(|a| a.as_bytes().to_vec()).collect();
            let envs = format!(
                "{} {} {}",
                env_show(&p.env, "GIT_PROTOCOL"),
                env_show(&p.env, "LANG"),
                env_show(&p.env, "LC_ALL")
            );
            let shell = p.use_shell as u8;
            format!("ok {} {} {} {}", shell, hexlist0(&args), envs, hexlist0(&command_argv(p)))
        }
        Err(e) => format!("err {}", inv_err(&e)),
    }
}
/// like hexlist, but the empty list prints as "()" (hexlist of [""] prints "()" too; the model has the same ambiguity)
fn hexlist0(args: &[Vec<u8>]) -> String {
    hexlist(args)
}

fn exec_hs(c: &Case) -> String {
    let e = e2e();
    let _ = take_lines();
    let cmdsel = f_u64(c, 1);
    let exe = e.exe.to_str().expect("checked").to_string();
    let command: OsString = match cmdsel {
        0 => exe.into(),
        1 => format!("{exe} --fake-extra").into(),
        _ => "/nonexistent/gixv-c34-ssh".into(),
    };
    std::env::set_var("GIXV_C34_PROBE", if flag(c, 5) { "1" } else { "0" });
    let Some(url) = build_url(&url_fields(c, 9)) else { return "notutf8".into() };
    let options = ssh::connect::Options { command: Some(command), disallow_shell: flag(c, 4), kind: kind_of(f_u64(c, 2)) };
    let mut t = match ssh::connect(url, version_of(f_u64(c, 3)), options, false) {
        Ok(t) => t,
        Err(ssh::Error::UnsupportedScheme(_)) => return "err UnsupportedScheme".into(),
        Err(ssh::Error::AmbiguousHostName { host }) => return format!("err ConnAmbiguousHostName {}", hexs(host.as_bytes())),
    };
    let mut out = String::new();
    let probe = take_lines();
    if cmdsel != 2 {
        if let Some(l) = probe.first() {
            // "<3 env fields> (args)"
            let args = l.rsplit(' ').next().unwrap_or("");
            out.push_str(&format!("probe {args} "));
        }
        if probe.len() > 1 {
            return format!("{out}TOO-MANY-PROBES");
        }
    }
    if flag(c, 7) {
        let Ok(name) = String::from_utf8(f_str(c, 8).to_vec()) else { return "notutf8".into() };
        if let Err(err) = t.set_identity(client::Account { username: name, password: String::new() }) {
            return format!("{out}err {}", client_err(&err));
        }
    }
    let service = if flag(c, 6) { Service::ReceivePack } else { Service::UploadPack };
    let res = t.handshake(service, &[]).map(|_| ());
    drop(t);
    let lines = take_lines();
    match res {
        Err(err @ (client::Error::SshInvocation(_) | client::Error::AmbiguousPath { .. } | client::Error::InvokeProgram { .. })) => {
            if !lines.is_empty() {
                return format!("{out}SPAWNED-DESPITE-ERROR");
            }
            format!("{out}err {}", client_err(&err))
        }
        _ => match lines.as_slice() {
            [l] => format!("{out}spawn {l}"),
            [] => format!("{out}NOTHING-RECORDED"),
            _ => format!("{out}SPAWNED-TWICE"),
        },
    }
}
fn client_err(e: &client::Error) -> String {
    match e {
        client::Error::SshInvocation(e) => format!("SshInvocation {}", inv_err(e)),
        client::Error::AmbiguousPath { path } => format!("AmbiguousPath {}", hexs(path)),
        client::Error::InvokeProgram { .. } => "InvokeProgram".into(),
        client::Error::AuthenticationUnsupported => "AuthenticationUnsupported".into(),
        _ => "other".into(),
    }
}

fn exec_local(c: &Case) -> String {
    let _ = e2e();
    let _ = take_lines();
    let path = f_str(c, 4).to_vec();
    if gix_url::parse(path.as_bstr()).is_ok() != flag(c, 3) {
        return "REPARSE-MISMATCH".into();
    }
    let mut t = client::file::connect(path, version_of(f_u64(c, 1)), false).expect("infallible");
    let service = if flag(c, 2) { Service::ReceivePack } else { Service::UploadPack };
    let res = t.handshake(service, &[]).map(|_| ());
    drop(t);
    let lines = take_lines();
    match res {
        Err(err @ (client::Error::SshInvocation(_) | client::Error::AmbiguousPath { .. } | client::Error::InvokeProgram { .. })) => {
            if !lines.is_empty() {
                return "SPAWNED-DESPITE-ERROR".into();
            }
            format!("err {}", client_err(&err))
        }
        _ => match lines.as_slice() {
            [l] => format!("spawn {l}"),
            [] => "NOTHING-RECORDED".into(),
            _ => "SPAWNED-TWICE".into(),
        },
    }
}

fn kind_name(k: ssh::ProgramKind) -> &'static str {
    match k {
        ssh::ProgramKind::Ssh => "Ssh",
        ssh::ProgramKind::Plink => "Plink",
        ssh::ProgramKind::Putty => "Putty",
        ssh::ProgramKind::TortoisePlink => "TortoisePlink",
        ssh::ProgramKind::Simple => "Simple",
    }
}

fn exec_argv(c: &Case) -> Vec<Vec<u8>> {
    let n = f_u64(c, 3) as usize;
    let mut p = gix_command::prepare(os(f_str(c, 2)).to_owned());
    p.use_shell = flag(c, 1);
    for i in 0..n {
        p = p.arg(os(f_str(c, 4 + i)).to_owned());
    }
    command_argv(p)
}

fn imp(c: &Case) -> String {
    match f_str(c, 0) {
        b"quote" => format!("ok {}", hexs(&gix_quote::single(f_str(c, 1).as_bstr()))),
        b"forshell" => format!("ok {}", hexs(&gix_url::expand_path::for_shell(f_str(c, 1).into()))),
        b"trim" => format!("ok {}", hexs(f_str(c, 1).trim())),
        b"kindof" => format!("ok {}", kind_name(ssh::ProgramKind::from(os(f_str(c, 1))))),
        b"argv" => format!("ok {}", hexlist(&exec_argv(c))),
        b"inv" => exec_inv(c),
        b"hs" => exec_hs(c),
        b"local" => exec_local(c),
        _ => "?".into(),
    }
}

// ------------------------------------------------------------------------------------------------
// oracles

/// POSIX word splitting of a simple command made of literal words only; None outside that fragment.
/// Independent re-statement (iterative) of coq/Spec.v [sh_words].
fn rust_split(line: &[u8]) -> Option<Vec<Vec<u8>>> {
    rust_split_c(line, None)
}
/// the same with positional parameters: a word that is exactly `"$@"` stands for all of them
fn rust_split_c(line: &[u8], args: Option<&[Vec<u8>]>) -> Option<Vec<Vec<u8>>> {
    let mut words = Vec::new();
    let mut cur: Option<Vec<u8>> = None;
    let mut i = 0;
    while i < line.len() {
        let c = line[i];
        match c {
            b' ' | b'\t' => {
                if let Some(w) = cur.take() {
                    words.push(w);
                }
            }
            b'\'' => {
                let end = line[i + 1..].iter().position(|b| *b == b'\'')?;
                cur.get_or_insert_with(Vec::new).extend_from_slice(&line[i + 1..i + 1 + end]);
                i += end + 1;
            }
            b'\\' => {
                let n = *line.get(i + 1)?;
                if n == b'\n' {
                    return None;
                }
                cur.get_or_insert_with(Vec::new).push(n);
                i += 1;
            }
            b'"' if args.is_some()
                && cur.is_none()
                && line[i + 1..].starts_with(b"$@\"")
                && line.get(i + 4).map_or(true, |b| *b == b' ' || *b == b'\t') =>
            {
                words.extend(args.unwrap().iter().cloned());
                i += 3;
            }
            0 | b'\n' | b'!' | b'"' | b'#' | b'$' | b'%' | b'&' | b'(' | b')' | b'*' | b';' | b'<' | b'=' | b'>' | b'?'
            | b'[' | b'`' | b'{' | b'|' | b'}' | b'~' => return None,
            _ => cur.get_or_insert_with(Vec::new).push(c),
        }
        i += 1;
    }
    if let Some(w) = cur.take() {
        words.push(w);
    }
    Some(words)
}

struct Sh {
    child: std::process::Child,
    stdin: std::process::ChildStdin,
    stdout: std::process::ChildStdout,
    n: u64,
}
/// Ask a real /bin/sh (one long-lived co-process) for the words of `fragment`. Only call this with fragments
/// [rust_split] accepts: they consist of literal words, so nothing is executed but `printf`.
fn sh_words(fragment: &[u8]) -> Result<Vec<Vec<u8>>, String> {
    sh_words_c(fragment, &[])
}
/// plain single-quote quoting for the oracle's own use (not gix_quote)
fn oracle_quote(a: &[u8]) -> Vec<u8> {
    let mut v = vec![b'\''];
    for b in a {
        if *b == b'\'' {
            v.extend_from_slice(b"'\\''");
        } else {
            v.push(*b);
        }
    }
    v.push(b'\'');
    v
}
fn sh_words_c(fragment: &[u8], args: &[Vec<u8>]) -> Result<Vec<Vec<u8>>, String> {
    static SH: Mutex<Option<Sh>> = Mutex::new(None);
    let mut g = SH.lock().unwrap_or_else(|e| e.into_inner());
    if fragment.contains(&0) {
        return Err("nul".into());
    }
    if g.is_none() {
        let mut child = std::process::Command::new("/bin/sh")
            .env_clear()
            .current_dir(std::env::temp_dir())
            .stdin(std::process::Stdio::piped())
            .stdout(std::process::Stdio::piped())
            .stderr(std::process::Stdio::null())
            .spawn()
            .map_err(|e| e.to_string())?;
        let stdin = child.stdin.take().unwrap();
        let stdout = child.stdout.take().unwrap();
        *g = Some(Sh { child, stdin, stdout, n: 0 });
    }
    let sh = g.as_mut().unwrap();
    sh.n += 1;
    let nonce = format!("gixv{}x{}", std::process::id(), sh.n);
    let mut script = b"set --".to_vec();
    for a in args {
        if a.contains(&0) {
            return Err("nul".into());
        }
        script.push(b' ');
        script.extend(oracle_quote(a));
    }
    script.extend_from_slice(b"\nprintf '%s\\0' X ");
    script.extend_from_slice(fragment);
    script.extend_from_slice(format!("\nprintf '\\001%s\\001\\0' {nonce}\n").as_bytes());
    let marker = format!("\x01{nonce}\x01\0").into_bytes();
    let res = (|| -> Result<Vec<u8>, String> {
        sh.stdin.write_all(&script).map_err(|e| e.to_string())?;
        sh.stdin.flush().map_err(|e| e.to_string())?;
        let mut buf = Vec::new();
        let mut chunk = [0u8; 4096];
        loop {
            let n = sh.stdout.read(&mut chunk).map_err(|e| e.to_string())?;
            if n == 0 {
                return Err("sh exited".into());
            }
            buf.extend_from_slice(&chunk[..n]);
            if buf.ends_with(&marker) {
                buf.truncate(buf.len() - marker.len());
                return Ok(buf);
            }
        }
    })();
    match res {
        Ok(buf) => {
            // "X\0w1\0w2\0"
            let mut parts: Vec<Vec<u8>> = buf.split(|b| *b == 0).map(|w| w.to_vec()).collect();
            if parts.pop().map_or(true, |l| !l.is_empty()) || parts.first().map(|x| x.as_slice()) != Some(b"X") {
                return Err(format!("unexpected sh output {:?}", buf.as_bstr()));
            }
            parts.remove(0);
            Ok(parts)
        }
        Err(e) => {
            if let Some(mut s) = g.take() {
                let _ = s.child.kill();
                let _ = s.child.wait();
            }
            Err(e)
        }
    }
}

/// the remote path the property expects for a URL path: `/~…` loses its leading slash, everything else is unchanged
fn expected_remote_path(path: &[u8]) -> Vec<u8> {
    if path.starts_with(b"/~") {
        path[1..].to_vec()
    } else {
        path.to_vec()
    }
}
/// first non-whitespace character is '-' (std's notion of Unicode White_Space on the lossily decoded text)
fn dash_after_ws(p: &[u8]) -> bool {
    String::from_utf8_lossy(p).trim_start().starts_with('-')
}

/// Check a remote command line `service 'path'` with both oracles.
fn check_remote(line: &[u8], service: &[u8], want_path: &[u8]) -> Result<(), (String, String)> {
    let want = vec![service.to_vec(), want_path.to_vec()];
    match rust_split(line) {
        None => return Err(("remote-line-not-inert".into(), format!("{:?}", line.as_bstr()))),
        Some(ws) if ws != want => return Err(("remote-words-differ".into(), format!("{:?} -> {:?}", line.as_bstr(), ws))),
        Some(_) => {}
    }
    match sh_words(line) {
        Ok(ws) if ws == want => Ok(()),
        Ok(ws) => Err(("remote-words-differ-sh".into(), format!("{:?} -> {:?}", line.as_bstr(), ws))),
        Err(e) => Err(("sh-oracle-failed".into(), e)),
    }
}

const ALLOWED_FIXED: &[&[u8]] = &[b"-o", b"SendEnv=GIT_PROTOCOL", b"-batch", b"-P"];
/// getopt-style scan of what the ssh-like program receives: Ok(index of the destination)
fn scan_destination(args: &[Vec<u8>], port: Option<u16>) -> Result<usize, String> {
    let mut i = 0;
    while i < args.len() && args[i].first() == Some(&b'-') {
        let takes = matches!(args[i].as_slice(), b"-o" | b"-p" | b"-P");
        let n = if takes { 2 } else { 1 };
        for a in &args[i..(i + n).min(args.len())] {
            let port_ok = port.map_or(false, |p| a == p.to_string().as_bytes() || *a == format!("-p{p}").into_bytes());
            if !(ALLOWED_FIXED.contains(&a.as_slice()) || port_ok) {
                return Err(format!("{:?} in option position", a.as_bstr()));
            }
        }
        i += n;
    }
    if i >= args.len() {
        return Err("no destination".into());
    }
    Ok(i)
}

fn effective_user(c: &Case, u: &UrlF) -> Option<Vec<u8>> {
    if flag(c, 7) {
        let id = f_str(c, 8);
        (!id.is_empty()).then(|| id.to_vec())
    } else {
        u.user.clone()
    }
}

fn check_ssh_args(args: &[Vec<u8>], user: &Option<Vec<u8>>, u: &UrlF, tail: Option<(&[u8], &[u8])>) -> Verdict {
    let d = match scan_destination(args, u.port) {
        Ok(d) => d,
        Err(e) => return Verdict::fail("url-data-in-option-position", e),
    };
    let host = u.host.clone().unwrap_or_default();
    let want_dest = match user {
        Some(us) => [us.as_slice(), b"@", host.as_slice()].concat(),
        None => host.clone(),
    };
    if args[d] != want_dest {
        return Verdict::fail("destination-mismatch", format!("{:?} vs {:?}", args[d].as_bstr(), want_dest.as_bstr()));
    }
    match tail {
        None => {
            if args.len() != d + 1 {
                return Verdict::fail("extra-arguments", "");
            }
        }
        Some((service, path)) => {
            if args.len() != d + 3 || args[d + 1] != service {
                return Verdict::fail("remote-command-shape", format!("{} args after destination", args.len() - d - 1));
            }
            let want_path = expected_remote_path(path);
            if want_path.first() == Some(&b'-') {
                return Verdict::fail("remote-path-is-option", format!("{:?}", want_path.as_bstr()));
            }
            let line = [args[d + 1].as_slice(), b" ", args[d + 2].as_slice()].concat();
            if let Err((class, detail)) = check_remote(&line, service, &want_path) {
                return Verdict::fail(class, detail);
            }
        }
    }
    let dashy = user.as_ref().map_or(false, |x| x.first() == Some(&b'-'))
        || host.first() == Some(&b'-')
        || tail.map_or(false, |(_, p)| p.contains(&b'\'') || p.contains(&b'!'));
    Verdict::ok(true, if dashy { "accepted-hostile" } else { "accepted" })
}

fn rejection(transcript: &str, user: &Option<Vec<u8>>, u: &UrlF, path: Option<&[u8]>) -> Verdict {
    let user_dash = user.as_ref().map_or(false, |x| x.first() == Some(&b'-'));
    let host_dash = u.host.as_ref().map_or(false, |x| x.first() == Some(&b'-'));
    let t = transcript.trim_start_matches("err ").trim_start_matches("SshInvocation ");
    let (class, justified) = if t.starts_with("AmbiguousUserName") {
        ("rejected-user", user_dash)
    } else if t.starts_with("AmbiguousHostName") || t.starts_with("ConnAmbiguousHostName") {
        ("rejected-host", host_dash)
    } else if t.starts_with("AmbiguousPath") {
        ("rejected-path", path.map_or(false, |p| dash_after_ws(&expected_remote_path(p))))
    } else if t.starts_with("Unsupported") {
        ("rejected-port-or-scheme", true)
    } else if t.starts_with("InvokeProgram") {
        return Verdict::ok(false, "spawn-failed");
    } else {
        return Verdict::ok(false, "other-error");
    };
    if justified {
        Verdict::ok(true, class)
    } else {
        Verdict::ok(false, format!("{class}-overcautious"))
    }
}

fn prop(c: &Case) -> Verdict {
    match f_str(c, 0) {
        b"quote" => {
            let p = f_str(c, 1);
            let q = gix_quote::single(p.as_bstr());
            if q.first() == Some(&b'-') {
                return Verdict::fail("quoted-starts-with-dash", "");
            }
            if p.contains(&0) {
                // NUL can be in no argv and in no shell script: only the Rust oracle has a say
                let line = [b"git-upload-pack ".as_slice(), q.as_slice()].concat();
                let inert = rust_split(&line.iter().map(|b| if *b == 0 { b'N' } else { *b }).collect::<Vec<_>>());
                let want = vec![b"git-upload-pack".to_vec(), p.iter().map(|b| if *b == 0 { b'N' } else { *b }).collect()];
                return if inert == Some(want) {
                    Verdict::ok(true, "quote-nul")
                } else {
                    Verdict::fail("remote-words-differ", "nul case")
                };
            }
            let line = [b"git-upload-pack ".as_slice(), q.as_slice()].concat();
            match check_remote(&line, b"git-upload-pack", p) {
                Ok(()) => Verdict::ok(
                    !p.is_empty(),
                    if p.contains(&b'\'') || p.contains(&b'!') { "quote-escapes" } else { "quote-plain" },
                ),
                Err((class, detail)) => Verdict::fail(class, detail),
            }
        }
        b"shwords" | b"shc" => Verdict::ok(false, "spec-validation"),
        b"forshell" => {
            let p = f_str(c, 1);
            let got = gix_url::expand_path::for_shell(p.into());
            let want = expected_remote_path(p);
            if got.as_slice() != want.as_slice() {
                return Verdict::fail("remote-path-bytes-changed", format!("{:?} -> {:?}", p.as_bstr(), got));
            }
            if got.first() == Some(&b'-') && p.first() != Some(&b'-') {
                return Verdict::fail("for-shell-makes-option", format!("{:?}", got));
            }
            Verdict::ok(p.starts_with(b"/~"), if p.starts_with(b"/~") { "forshell-tilde" } else { "forshell-same" })
        }
        b"trim" => {
            let p = f_str(c, 1);
            match std::str::from_utf8(p) {
                Ok(s) => {
                    if s.trim().as_bytes() == p.trim() {
                        Verdict::ok(s.trim().len() != s.len(), "trim-utf8")
                    } else {
                        Verdict::fail("trim-differs-from-std", format!("{:?}", s))
                    }
                }
                Err(_) => {
                    // whatever trim does to ill-formed text, a leading '-' must stay in front
                    if p.first() == Some(&b'-') && p.trim().first() != Some(&b'-') {
                        Verdict::fail("trim-eats-dash", "")
                    } else {
                        Verdict::ok(false, "trim-illformed")
                    }
                }
            }
        }
        b"kindof" => Verdict::ok(false, "kindof"),
        b"argv" => {
            let argv = exec_argv(c);
            let n = f_u64(c, 3) as usize;
            let args: Vec<Vec<u8>> = (0..n).map(|i| f_str(c, 4 + i).to_vec()).collect();
            let cmd = f_str(c, 2);
            let ok = if flag(c, 1) {
                argv.len() == 4 + n
                    && argv[0] == b"/bin/sh"
                    && argv[1] == b"-c"
                    && argv[3] == b"--"
                    && argv[4..] == args[..]
                    && (argv[2] == cmd || argv[2] == [cmd, b" \"$@\""].concat())
            } else {
                argv.len() == 1 + n && argv[0] == cmd && argv[1..] == args[..]
            };
            if ok {
                Verdict::ok(n > 0, if flag(c, 1) { "argv-shell" } else { "argv-direct" })
            } else {
                Verdict::fail("arguments-not-passed-verbatim", format!("{:?}", argv))
            }
        }
        b"inv" => {
            let u = url_fields(c, 5);
            if u.host.is_none() {
                // prepare_invocation() is crate-private; its only caller, ssh::connect(), refuses URLs without a
                // host (the `hs` cases go through it). Called directly through the hook it panics with "BUG: host
                // should always be present": unreachable for users of the crate, not a finding.
                return Verdict::ok(false, "inv-hostless");
            }
            let t = exec_inv(c);
            if let Some(rest) = t.strip_prefix("ok ") {
                let f: Vec<&str> = rest.split(' ').collect();
                let (Some(args), Some(argv)) = (f.get(1).and_then(|s| parse_hexlist(s)), f.get(5).and_then(|s| parse_hexlist(s))) else {
                    return Verdict::fail("harness-parse", t);
                };
                // the argv handed to the OS carries the arguments verbatim behind the program / the sh head
                let cmd = f_str(c, 4);
                let head_ok = if f[0] == "1" {
                    argv.len() == 4 + args.len()
                        && argv[0] == b"/bin/sh"
                        && argv[1] == b"-c"
                        && (argv[2] == cmd || argv[2] == [cmd, b" \"$@\""].concat())
                        && argv[3] == b"--"
                        && argv[4..] == args[..]
                } else {
                    argv.len() == 1 + args.len() && argv[0] == cmd && argv[1..] == args[..]
                };
                if !head_ok {
                    return Verdict::fail("arguments-not-passed-verbatim", format!("{:?}", argv));
                }
                check_ssh_args(&args, &u.user, &u, None)
            } else if t.starts_with("err ") {
                rejection(&t, &u.user, &u, None)
            } else {
                Verdict::ok(false, "inv-other")
            }
        }
        b"hs" => {
            let u = url_fields(c, 9);
            let user = effective_user(c, &u);
            let service: &[u8] = if flag(c, 6) { b"git-receive-pack" } else { b"git-upload-pack" };
            let t = exec_hs(c);
            let mut rest = t.as_str();
            if let Some(r) = rest.strip_prefix("probe ") {
                let (list, r2) = r.split_once(' ').unwrap_or((r, ""));
                let Some(pargs) = parse_hexlist(list) else { return Verdict::fail("harness-parse", t.clone()) };
                let host = u.host.clone().unwrap_or_default();
                if pargs != vec![b"-G".to_vec(), host.clone()] || host.first() == Some(&b'-') {
                    return Verdict::fail("probe-arguments", format!("{:?}", pargs));
                }
                rest = r2;
            }
            if let Some(r) = rest.strip_prefix("spawn ") {
                let f: Vec<&str> = r.split(' ').collect();
                let Some(args) = f.get(3).and_then(|s| parse_hexlist(s)) else { return Verdict::fail("harness-parse", t.clone()) };
                check_ssh_args(&args, &user, &u, Some((service, &u.path)))
            } else if rest.starts_with("err ") {
                rejection(rest, &user, &u, Some(&u.path))
            } else {
                Verdict::ok(false, "hs-other")
            }
        }
        b"local" => {
            let path = f_str(c, 4);
            if !flag(c, 3) {
                return Verdict::ok(false, "local-unparsable");
            }
            let t = exec_local(c);
            if let Some(r) = t.strip_prefix("spawn ") {
                let f: Vec<&str> = r.split(' ').collect();
                let Some(args) = f.get(3).and_then(|s| parse_hexlist(s)) else { return Verdict::fail("harness-parse", t.clone()) };
                if args != vec![path.to_vec()] {
                    return Verdict::fail("local-path-changed", format!("{:?}", args));
                }
                if path.first() == Some(&b'-') {
                    return Verdict::fail("local-path-is-option", format!("{:?}", path.as_bstr()));
                }
                Verdict::ok(true, "local-spawn")
            } else if t.starts_with("err AmbiguousPath") {
                if dash_after_ws(path) {
                    Verdict::ok(true, "rejected-path")
                } else {
                    Verdict::ok(false, "rejected-path-overcautious")
                }
            } else {
                Verdict::ok(false, "local-other")
            }
        }
        _ => Verdict::ok(false, "?"),
    }
}

/// Spec validation: what a real /bin/sh makes of a line, where the line is inert.
fn git(c: &Case) -> String {
    let line = match f_str(c, 0) {
        b"quote" => {
            let q = gix_quote::single(f_str(c, 1).as_bstr());
            [b"git-upload-pack ".as_slice(), q.as_slice()].concat()
        }
        b"shwords" => f_str(c, 1).to_vec(),
        b"shc" => {
            let n = f_u64(c, 2) as usize;
            let args: Vec<Vec<u8>> = (0..n).map(|i| f_str(c, 3 + i).to_vec()).collect();
            let line = f_str(c, 1);
            if line.contains(&0) || args.iter().any(|a| a.contains(&0)) || rust_split_c(line, Some(&args)).is_none() {
                return "-".into();
            }
            return match sh_words_c(line, &args) {
                Ok(ws) => format!("words {}", if ws.is_empty() { "()".to_string() } else { hexlist(&ws) }),
                Err(e) => format!("sh-failed {e}"),
            };
        }
        _ => return "-".into(),
    };
    if line.contains(&0) || rust_split(&line).is_none() {
        return "-".into();
    }
    match sh_words(&line) {
        Ok(ws) => format!("words {}", if ws.is_empty() { "()".to_string() } else { hexlist(&ws) }),
        Err(e) => format!("sh-failed {e}"),
    }
}

// ------------------------------------------------------------------------------------------------
// generator

const META: &[u8] = b"'!\\\"$`;&|()<> \t\n*?[]#~=%{}-/ab.:@'!''-";
const WS: &[&[u8]] = &[
    b" ", b"\t", b"\n", b"\x0b", b"\x0c", b"\r", b"\xc2\x85", b"\xc2\xa0", b"\xe1\x9a\x80", b"\xe2\x80\x80", b"\xe2\x80\x8a",
    b"\xe2\x80\xa8", b"\xe2\x80\xa9", b"\xe2\x80\xaf", b"\xe2\x81\x9f", b"\xe3\x80\x80",
];
const NEAR_WS: &[&[u8]] = &[
    b"\x08", b"\x0e", b"\x1f", b"\xc2\x84", b"\xc2\x86", b"\xc2\xa1", b"\xc2", b"\xe1\x9a\x81", b"\xe1\x9a", b"\xe2\x80\x8b",
    b"\xe2\x80\xaa", b"\xe2\x80\xae", b"\xe2\x80", b"\xe2\x81\xa0", b"\xe3\x80\x81", b"\xe3\x80", b"\x85", b"\xa0", b"\x80",
    b"\xe2\x80\x7f", b"\xef\xbb\xbf", b"\xe1\xa0\x8e",
];
const DASHY: &[&[u8]] = &[
    b"-", b"--", b"-G", b"-oProxyCommand=open$IFS-aCalculator", b"-F/dev/null", b"-p22", b"-P", b"-batch", b"-o", b"--upload-pack=x",
    b"-e", b"-v", b"-ofoo=bar", b"-@", b"-'",
];
const HOSTS: &[&[u8]] = &[b"host", b"host.xy", b"example.com", b"[::1]", b"127.0.0.1", b"h", b"", b"xn--bcher-kva", b"a-b", b"h@x", b"b\xc3\xbccher"];
const USERS: &[&[u8]] = &[b"user", b"git", b"u", b"", b"a b", b"a@b", b"j\xc3\xb6", b"user-name", b"u'!"];
const PATHS: &[&[u8]] = &[
    b"/repo.git", b"repo", b"/~/repo", b"/~user/repo", b"/~", b"/~/", b"/~-x/repo", b"/", b"", b"~/repo", b"../x", b"/a b/c", b"/it's",
    b"/a!b", b"/$HOME", b"/`id`", b"/x;id", b"/a\nb", b"/~/it's/!", b"//~/x", b"/~u/", b"/~//", b"/~u//x/", b"/-x", b"/~/-x",
];
const CMDS: &[&[u8]] = &[
    b"ssh", b"ssh -v", b"/usr/bin/ssh", b"plink.exe", b"a$b", b"my ssh", b"ssh \"$@\" -x", b"x$@", b"ss\xff", b"ss\xff$@", b"", b"SSH.EXE",
    b"putty", b"TortoisePlink.exe", b"./ssh", b"ssh~", b"ssh=1", b"ssh%", b"ssh\ttab", b"c:\\ssh", b"$@",
];
const STEMS: &[&[u8]] = &[
    b"ssh", b"SSH", b"sSh.exe", b"plink", b"PLINK.EXE", b"putty", b"Putty.exe", b"tortoiseplink", b"TortoisePlink.exe",
    b"tortoiseplink.exe.bak", b"ssh.", b".ssh", b"..", b".", b"", b"ssh/", b"ssh//", b"ssh/.", b"ssh/..", b"a/ssh", b"/", b"ssh.tar.gz",
    b"ssh -v", b"ss\xffh", b"ssh\xff.exe", b"\xc5\xbfsh", b"ssh/./", b"./ssh", b"plink/.//", b"x/putty.", b"..ssh", b"ssh..",
];

fn pk<'a>(rng: &mut Rng, xs: &'a [&'a [u8]]) -> &'a [u8] {
    *rng.pick(xs)
}
fn soup(rng: &mut Rng, max: usize) -> Vec<u8> {
    let n = rng.range(0, max as i64) as usize;
    let mut v = Vec::new();
    for _ in 0..n {
        match rng.below(20) {
            0..=12 => v.push(*rng.pick(META)),
            13..=15 => v.push(*rng.pick(b"ab-/~'!")),
            16 => v.push(rng.range(1, 255) as u8),
            17 => v.extend_from_slice(pk(rng, WS)),
            18 => v.extend_from_slice(pk(rng, NEAR_WS)),
            _ => v.extend_from_slice("ü€😀".chars().nth(rng.below(3) as usize).unwrap().to_string().as_bytes()),
        }
    }
    v
}
/// valid UTF-8 text (users and hosts are Strings)
fn text_soup(rng: &mut Rng, max: usize) -> Vec<u8> {
    let n = rng.range(0, max as i64) as usize;
    let mut v = Vec::new();
    for _ in 0..n {
        match rng.below(10) {
            0..=6 => v.push(*rng.pick(META)),
            7 => v.push(*rng.pick(b"ab-@")),
            8 => v.extend_from_slice(pk(rng, WS)),
            _ => v.extend_from_slice("ü€😀".chars().nth(rng.below(3) as usize).unwrap().to_string().as_bytes()),
        }
    }
    v
}
fn gen_name(rng: &mut Rng, base: &[&[u8]]) -> Vec<u8> {
    match rng.below(10) {
        0..=3 => pk(rng, base).to_vec(),
        4..=6 => {
            let mut v = pk(rng, DASHY).to_vec();
            if rng.chance(1, 3) {
                v.extend(text_soup(rng, 6));
            }
            v
        }
        7 => {
            // something in front of a dash
            let mut v = if rng.chance(1, 2) { pk(rng, WS).to_vec() } else { vec![*rng.pick(b"@ '\"")] };
            v.extend_from_slice(pk(rng, DASHY));
            v
        }
        _ => text_soup(rng, 10),
    }
}
fn gen_path(rng: &mut Rng) -> Vec<u8> {
    match rng.below(16) {
        0..=2 => pk(rng, PATHS).to_vec(),
        3..=4 => {
            let mut v = pk(rng, DASHY).to_vec();
            v.extend(soup(rng, 6));
            v
        }
        5..=6 => {
            // white space (or nearly white space) in front of a dash
            let mut v = Vec::new();
            for _ in 0..rng.range(1, 3) {
                v.extend_from_slice(if rng.chance(3, 4) { pk(rng, WS) } else { pk(rng, NEAR_WS) });
            }
            v.extend_from_slice(pk(rng, DASHY));
            if rng.chance(1, 3) {
                v.extend_from_slice(pk(rng, WS));
            }
            v
        }
        7..=8 => {
            let mut v = b"/~".to_vec();
            v.extend(soup(rng, 12));
            v
        }
        9 => {
            let mut v = pk(rng, PATHS).to_vec();
            v.extend(soup(rng, 8));
            v
        }
        10 => {
            // NUL somewhere
            let mut v = soup(rng, 6);
            v.push(0);
            v.extend(soup(rng, 3));
            v
        }
        11 => {
            let mut v = b"/".to_vec();
            v.extend(soup(rng, 10));
            v
        }
        _ => soup(rng, 16),
    }
}
fn gen_url(rng: &mut Rng) -> UrlF {
    // a tenth of the URLs come from gix_url::parse on hostile text: what a caller can really obtain
    if rng.chance(1, 10) {
        for _ in 0..20 {
            let user = gen_name(rng, USERS);
            let host = gen_name(rng, HOSTS);
            let path = gen_path(rng);
            let mut t = Vec::new();
            let scp = rng.chance(1, 3);
            if !scp {
                t.extend_from_slice(b"ssh://");
            }
            if rng.chance(2, 3) {
                t.extend_from_slice(&user);
                t.push(b'@');
            }
            t.extend_from_slice(&host);
            if rng.chance(1, 4) {
                t.extend_from_slice(format!(":{}", rng.range(0, 65535)).as_bytes());
            }
            t.push(if scp { b':' } else { b'/' });
            t.extend_from_slice(&path);
            if let Ok(u) = gix_url::parse(t.as_bstr()) {
                return UrlF {
                    ssh: u.scheme == gix_url::Scheme::Ssh,
                    user: u.user().map(|s| s.as_bytes().to_vec()),
                    host: u.host().map(|s| s.as_bytes().to_vec()),
                    port: u.port,
                    path: u.path.to_vec(),
                };
            }
        }
    }
    UrlF {
        ssh: !rng.chance(1, 30),
        user: rng.chance(3, 5).then(|| gen_name(rng, USERS)),
        host: (!rng.chance(1, 25)).then(|| gen_name(rng, HOSTS)),
        port: rng.chance(1, 3).then(|| *rng.pick(&[0u16, 1, 22, 42, 2222, 65535, 9, 10, 99, 100, 999, 1000, 9999, 10000])),
        path: gen_path(rng),
    }
}
fn gen_line(rng: &mut Rng) -> Vec<u8> {
    // command lines for the spec validation: words, quotes, escapes, and the occasional special byte
    let mut v = Vec::new();
    for _ in 0..rng.range(0, 5) {
        if rng.chance(4, 5) {
            v.extend_from_slice(pk(rng, &[b" ", b"  ", b"\t", b" \t "]));
        }
        for _ in 0..rng.range(1, 3) {
            match rng.below(8) {
                0..=1 => v.extend(rng.word(b"ab-/.,:+@^_]", 1, 4)),
                2..=3 => {
                    v.push(b'\'');
                    v.extend(soup(rng, 6).into_iter().filter(|b| *b != b'\''));
                    v.push(b'\'');
                }
                4 => {
                    v.push(b'\\');
                    v.push(*rng.pick(b"'!\\\"$`;&|()<> \t*?[]#~=%{}-ab"));
                }
                5 => v.extend_from_slice(&gix_quote::single(soup(rng, 8).as_bstr())),
                6 => v.push(*rng.pick(b"ab-\x7f\x01\x80\xff\x81\x88")),
                _ => {
                    if rng.chance(1, 4) {
                        v.push(*rng.pick(META))
                    } else {
                        v.extend(rng.word(b"xyz", 1, 2))
                    }
                }
            }
        }
    }
    v
}

/// `sh -c SCRIPT -- ARGS`: scripts as gix-command builds them (command words, then "$@") and near misses
fn gen_shc(rng: &mut Rng, i: usize) -> Case {
    let mut script = match i % 5 {
        0 => b"ssh".to_vec(),
        1 => b"ssh -v".to_vec(),
        2 => b"/usr/bin/my-ssh  -F 'my config'".to_vec(),
        _ => gen_line(rng),
    };
    match rng.below(10) {
        0 => script.extend_from_slice(b" \"$@\"x"),
        1 => script.extend_from_slice(b"\"$@\""),
        2 => script.extend_from_slice(b" \"$@\" tail"),
        3 => script.extend_from_slice(b" \"$@"),
        4 => {}
        _ => script.extend_from_slice(b" \"$@\""),
    }
    let nargs = rng.below(4);
    let mut c = vec![tag("shc"), script, num(nargs)];
    for _ in 0..nargs {
        c.push(match rng.below(3) {
            0 => pk(rng, DASHY).to_vec(),
            1 => gen_path(rng).into_iter().filter(|b| *b != 0).collect(),
            _ => text_soup(rng, 8),
        });
    }
    c
}
fn gen_inv(rng: &mut Rng) -> Case {
    let mut c = vec![tag("inv"), num(rng.below(5)), num(rng.below(3)), num(rng.below(2))];
    c.push(if rng.chance(1, 2) { b"ssh".to_vec() } else { pk(rng, CMDS).to_vec() });
    push_url(&mut c, &gen_url(rng));
    c
}
fn gen_hs(rng: &mut Rng) -> Case {
    let cmdsel = *rng.pick(&[0u64, 0, 0, 1, 1, 2]);
    let kind = *rng.pick(&[0u64, 0, 1, 2, 3, 4, 5, 5]);
    let probe_ok = cmdsel != 2 && rng.chance(1, 2);
    let mut c = vec![tag("hs"), num(cmdsel), num(kind), num(rng.below(3)), num(rng.chance(1, 4) as u8), num(probe_ok as u8)];
    c.push(num(rng.chance(1, 4) as u8));
    let ident = rng.chance(1, 5);
    c.push(num(ident as u8));
    c.push(if ident { gen_name(rng, USERS).into_iter().filter(|b| *b != 0).collect() } else { vec![] });
    let mut u = gen_url(rng);
    // keep most hosts/users harmless so that the path handling is reached
    if rng.chance(1, 2) {
        u.ssh = true;
        u.host = Some(pk(rng, HOSTS).to_vec());
        u.user = rng.chance(1, 2).then(|| pk(rng, USERS).to_vec());
        if kind == 4 || kind == 5 {
            u.port = None;
        }
    }
    push_url(&mut c, &u);
    c
}
fn gen_local(rng: &mut Rng) -> Case {
    let path = gen_path(rng);
    let ok = gix_url::parse(path.as_bstr()).is_ok();
    vec![tag("local"), num(rng.below(3)), num(rng.chance(1, 4) as u8), num(ok as u8), path]
}

fn gen(rng: &mut Rng, n: usize) -> Vec<Case> {
    let mut out: Vec<Case> = Vec::new();
    // ---- boundary block
    for p in PATHS.iter().chain(DASHY.iter()) {
        out.push(vec![tag("quote"), p.to_vec()]);
        out.push(vec![tag("forshell"), p.to_vec()]);
    }
    for p in [&b"'"[..], b"!", b"''", b"'!", b"!'", b"\\", b"\\'", b"'\\''", b"a'b", b"a!b", b"\"", b"$(id)", b"\n", b"a\nb'", b" ", b"\xff'\xfe!", b"\x81\x82\x88"] {
        out.push(vec![tag("quote"), p.to_vec()]);
    }
    for l in [&b""[..], b" ", b"a", b"a b", b" a  b ", b"''", b"'' ''", b"a''b", b"'a'\\''b'", b"\\a", b"a\\ b", b"'a", b"a\\", b"a;b", b"a'\n'b", b"\\\n", b"a\\!b", b"'\\!'", b"a#b", b"-x '-y'"] {
        out.push(vec![tag("shwords"), l.to_vec()]);
    }
    for _ in 0..120 {
        out.push(vec![tag("shwords"), gen_line(rng)]);
    }
    for _ in 0..60 {
        out.push(vec![tag("quote"), if rng.chance(1, 2) { gen_path(rng) } else { soup(rng, 30) }]);
    }
    for i in 0..50 {
        out.push(gen_shc(rng, i));
    }
    for w in WS.iter().chain(NEAR_WS.iter()) {
        for tail in [&b"-x"[..], b"x", b""] {
            let p = [w, tail].concat();
            out.push(vec![tag("trim"), p.clone()]);
            out.push(vec![tag("trim"), [b"-a".as_slice(), w].concat()]);
            out.push(vec![tag("trim"), [w, w, tail, w].concat()]);
            if !tail.is_empty() {
                let mut c = vec![tag("hs"), num(2), num(0), num(2), num(0), num(0), num(0), num(0), vec![]];
                push_url(&mut c, &UrlF { ssh: true, user: None, host: Some(b"host".to_vec()), port: None, path: p.clone() });
                out.push(c);
            }
        }
    }
    for s in STEMS {
        out.push(vec![tag("kindof"), s.to_vec()]);
    }
    for cmd in CMDS {
        for shell in [0u8, 1] {
            out.push(vec![tag("argv"), num(shell), cmd.to_vec(), num(0)]);
            out.push(vec![tag("argv"), num(shell), cmd.to_vec(), num(2), b"-x".to_vec(), b"a b".to_vec()]);
        }
    }
    // every kind x version x port x user/host danger
    for kind in 0..5u64 {
        for ver in 0..3u64 {
            for port in [None, Some(0u16), Some(65535)] {
                for (user, host) in [
                    (None, Some(&b"host"[..])),
                    (Some(&b"user"[..]), Some(&b"host"[..])),
                    (Some(&b"-ouser"[..]), Some(&b"host"[..])),
                    (Some(&b"user"[..]), Some(&b"-ohost"[..])),
                    (None, Some(&b"-ohost"[..])),
                    (Some(&b""[..]), Some(&b"-ohost"[..])),
                    (Some(&b"-u"[..]), Some(&b"-h"[..])),
                    (None, None),
                    (Some(&b"user"[..]), None),
                    (Some(&b"-user"[..]), None),
                ] {
                    let mut c = vec![tag("inv"), num(kind), num(ver), num(0), b"ssh".to_vec()];
                    push_url(
                        &mut c,
                        &UrlF { ssh: true, user: user.map(|x| x.to_vec()), host: host.map(|x| x.to_vec()), port, path: b"/p".to_vec() },
                    );
                    out.push(c);
                }
            }
        }
    }
    // a few end-to-end cases of every flavour
    for cmdsel in 0..3u64 {
        for kind in [0u64, 3, 4, 5] {
            for (user, host, path) in [
                (None, &b"host"[..], &b"/~/it's a 'repo'!"[..]),
                (Some(&b"user"[..]), b"-ohost", b"/x"),
                (None, b"-ohost", b"/x"),
                (Some(&b"user"[..]), b"host", b"-x"),
            ] {
                let mut c = vec![tag("hs"), num(cmdsel), num(kind), num(2), num(0), num((cmdsel != 2) as u8), num(0), num(0), vec![]];
                push_url(&mut c, &UrlF { ssh: true, user: user.map(|x| x.to_vec()), host: Some(host.to_vec()), port: None, path: path.to_vec() });
                out.push(c);
            }
        }
    }
    for p in [&b"/repo"[..], b"-x", b" -x", b"", b"a:b", b":", b"x://y", b"/a b'c", b"\xc2\xa0-x", b"a\0b"] {
        let ok = gix_url::parse(p.as_bstr()).is_ok();
        out.push(vec![tag("local"), num(2), num(0), num(ok as u8), p.to_vec()]);
    }
    // ---- random mixture; end-to-end cases (they spawn processes) are a bounded share
    let e2e_every = 14usize;
    while out.len() < n {
        if out.len() % e2e_every == 0 {
            out.push(if rng.chance(3, 4) { gen_hs(rng) } else { gen_local(rng) });
            continue;
        }
        match rng.below(20) {
            0..=4 => out.push(vec![tag("quote"), gen_path(rng)]),
            5 => out.push(vec![tag("quote"), soup(rng, 40)]),
            6 => out.push(vec![tag("shwords"), gen_line(rng)]),
            7..=8 => out.push(vec![tag("forshell"), {
                let mut p = gen_path(rng);
                if rng.chance(1, 2) && !p.starts_with(b"/~") {
                    p.splice(0..0, b"/~".iter().copied());
                }
                p
            }]),
            9 => out.push(gen_inv(rng)),
            10 => out.push(vec![tag("trim"), {
                let mut p = gen_path(rng);
                if rng.chance(1, 2) {
                    p.extend_from_slice(pk(rng, WS));
                }
                p
            }]),
            11 => out.push(vec![tag("kindof"), {
                let mut s = if rng.chance(1, 2) { b"/usr/bin/".to_vec() } else { vec![] };
                s.extend_from_slice(pk(rng, STEMS));
                if rng.chance(1, 4) {
                    s.extend(rng.word(b"./ xS", 0, 3));
                }
                s
            }]),
            12 => {
                let nargs = rng.below(4);
                let mut c = vec![tag("argv"), num(rng.below(2)), pk(rng, CMDS).to_vec(), num(nargs)];
                for _ in 0..nargs {
                    c.push(gen_name(rng, USERS));
                }
                out.push(c);
            }
            _ => out.push(gen_inv(rng)),
        }
    }
    out.truncate(n.max(1));
    out
}

fn main() {
    if let Some(out) = std::env::var_os("GIXV_C34_OUT") {
        fake(out);
    }
    for k in ["LANG", "LC_ALL", "GIT_PROTOCOL"] {
        std::env::remove_var(k);
    }
    main_with(Harness { gen, imp, prop, git: Some(git), deadline: std::time::Duration::from_secs(180) });
}
