(* C11 — the header written by encode::loose_header is read back by decode::loose_header, whatever follows it *)
From Coq Require Import ZArith NArith Lia ZifyBool ZifyNat ZifyN List.
From GixV.Base Require Import Bytes BytesFacts Outcome.
From GixV.C11 Require Import Model ProofsDec.
Ltac Zify.zify_post_hook ::= Z.div_mod_to_equations.
Local Open Scope N_scope.

Lemma find_byte_app b a r :
  forallb (fun x => negb (beqb x b)) a = true -> find_byte b (a ++ b :: r) = Some (length a).
Proof.
  induction a as [|y a IH]; cbn [app find_byte forallb length]; intros Hn.
  - assert (beqb b b = true) as -> by (apply beqb_eq; reflexivity). reflexivity.
  - apply Bool.andb_true_iff in Hn. destruct Hn as [Hy Ha].
    destruct (beqb y b); [discriminate|]. rewrite (IH Ha). reflexivity.
Qed.

Lemma digit_not_sep : forall b,
  (negb (is_digit b) || (negb (beqb b x20) && negb (beqb b x00) && negb (beqb b x2b) && negb (beqb b x2d)))%bool = true.
Proof. apply forall_bytes. vm_compute. reflexivity. Qed.

Lemma digits_free (c : byte) l :
  (forall b, is_digit b = true -> beqb b c = false) ->
  forallb is_digit l = true -> forallb (fun x => negb (beqb x c)) l = true.
Proof.
  intros Hc. induction l as [|b l IH]; cbn [forallb]; [reflexivity|]. intros Hd.
  apply Bool.andb_true_iff in Hd. destruct Hd as [Hb Hl]. rewrite (Hc b Hb), (IH Hl). reflexivity.
Qed.

Lemma digit_sep b : is_digit b = true ->
  beqb b x20 = false /\ beqb b x00 = false /\ beqb b x2b = false /\ beqb b x2d = false.
Proof.
  intros Hd. pose proof (digit_not_sep b) as D. rewrite Hd in D. cbn [negb orb] in D.
  repeat (apply Bool.andb_true_iff in D; destruct D as [D ?]).
  repeat split; apply Bool.negb_true_iff; assumption.
Qed.

Lemma kind_free k : forallb (fun x => negb (beqb x x20)) (kind_bytes k) = true /\
                    forallb (fun x => negb (beqb x x00)) (kind_bytes k) = true /\
                    kind_from_bytes (kind_bytes k) = Some k /\ (length (kind_bytes k) <= 6)%nat.
Proof. destruct k; vm_compute; repeat split; try reflexivity; lia. Qed.

Lemma dec_acc_mono l : forall acc v, dec_to_N_acc l acc = Some v -> acc <= v.
Proof.
  induction l as [|b l IH]; cbn [dec_to_N_acc]; intros acc v E.
  - injection E as <-. lia.
  - destruct (is_digit b); [|discriminate]. apply IH in E. lia.
Qed.

Lemma to_unsigned_acc_dec l : forall acc v,
  dec_to_N_acc l acc = Some v -> v <= U64_MAX -> to_unsigned_acc l acc = Some v.
Proof.
  induction l as [|b l IH]; cbn [dec_to_N_acc to_unsigned_acc]; intros acc v E Hv; [exact E|].
  unfold digit_val. destruct (is_digit b); [|discriminate].
  pose proof (dec_acc_mono _ _ _ E) as M.
  destruct (N.ltb_spec U64_MAX (acc * 10)) as [C|C]; [lia|].
  destruct (N.ltb_spec U64_MAX (acc * 10 + (b2N b - 48))) as [C2|C2]; [lia|].
  apply IH; [|exact Hv]. rewrite <- E. f_equal. lia.
Qed.

Lemma to_signed_N_to_dec n : n <= U64_MAX -> to_signed (N_to_dec n) = Some n.
Proof.
  intros Hn. pose proof (dec_to_N_N_to_dec n) as E. pose proof (N_to_dec_all_digits n) as D.
  unfold dec_to_N in E. destruct (N_to_dec n) as [|d ds] eqn:EN; [discriminate|].
  cbn [forallb] in D. apply Bool.andb_true_iff in D. destruct D as [Dd _].
  destruct (digit_sep d Dd) as (_ & _ & P & M).
  unfold to_signed. rewrite P, M. unfold to_unsigned. apply to_unsigned_acc_dec; assumption.
Qed.

Lemma N_to_dec_len_u64 n : n <= U64_MAX -> (length (N_to_dec n) <= 20)%nat.
Proof.
  intros Hn. destruct (digits_exist n) as (k & Hk & Hlt & Hge).
  rewrite (N_to_dec_length k n Hk Hlt Hge).
  destruct (le_lt_dec k 20) as [L|L]; [exact L|exfalso].
  destruct Hge as [->|Hge]; [lia|].
  assert (10 ^ 20 <= 10 ^ (N.of_nat k - 1)) as P by (apply N.pow_le_mono_r; lia).
  change (10 ^ 20) with 100000000000000000000 in P. unfold U64_MAX in Hn. lia.
Qed.

Lemma loose_header_length k n : n <= U64_MAX -> (length (loose_header k n) <= 28)%nat.
Proof.
  intros Hn. unfold loose_header. rewrite !app_length. cbn [length].
  pose proof (N_to_dec_len_u64 n Hn). destruct (kind_free k) as (_ & _ & _ & L). lia.
Qed.

Lemma firstn_app_exact {A} (a b : list A) : firstn (length a) (a ++ b) = a.
Proof. rewrite firstn_app, Nat.sub_diag, firstn_all. cbn [firstn]. apply app_nil_r. Qed.
Lemma skipn_app_exact {A} (a b : list A) : skipn (length a) (a ++ b) = b.
Proof. rewrite skipn_app, skipn_all, Nat.sub_diag. reflexivity. Qed.

(* decode::loose_header inverts encode::loose_header and does not look past the NUL *)
Lemma L_decode_encode k n rest : n <= U64_MAX ->
  decode_loose_header (loose_header k n ++ rest) = Ok (k, n, length (loose_header k n)).
Proof.
  intros Hn. destruct (kind_free k) as (K20 & K00 & KF & _).
  pose proof (N_to_dec_all_digits n) as D.
  unfold decode_loose_header, loose_header. rewrite <- !app_assoc. cbn [app].
  rewrite (find_byte_app x20 (kind_bytes k)) by exact K20.
  rewrite firstn_app_exact, KF.
  replace (kind_bytes k ++ x20 :: N_to_dec n ++ x00 :: rest)
    with ((kind_bytes k ++ x20 :: N_to_dec n) ++ x00 :: rest) by (rewrite <- app_assoc; reflexivity).
  rewrite (find_byte_app x00 (kind_bytes k ++ x20 :: N_to_dec n)).
  2:{ rewrite forallb_app. cbn [forallb]. rewrite K00. cbn [andb].
      assert (beqb x20 x00 = false) as -> by reflexivity. cbn [negb andb].
      apply digits_free; [|exact D]. intros b Hb. apply (digit_sep b Hb). }
  rewrite app_length. cbn [length].
  destruct (Nat.ltb_spec (length (kind_bytes k) + S (length (N_to_dec n))) (length (kind_bytes k) + 1)) as [C|C]; [lia|].
  rewrite <- app_assoc. cbn [app].
  replace (kind_bytes k ++ x20 :: N_to_dec n ++ x00 :: rest)
    with ((kind_bytes k ++ [x20]) ++ N_to_dec n ++ x00 :: rest) by (rewrite <- app_assoc; reflexivity).
  replace (length (kind_bytes k) + 1)%nat with (length (kind_bytes k ++ [x20])) by (rewrite app_length; reflexivity).
  rewrite skipn_app_exact.
  replace (length (kind_bytes k) + S (length (N_to_dec n)) - length (kind_bytes k ++ [x20]))%nat
    with (length (N_to_dec n)) by (rewrite app_length; cbn [length]; lia).
  rewrite firstn_app_exact, (to_signed_N_to_dec n Hn).
  do 2 f_equal. rewrite !app_length. cbn [length]. rewrite app_length. cbn [length]. lia.
Qed.

(* ---- decode::loose_header never panics: the slice input[kind_end+1..size_end] is never reversed ---- *)

Lemma find_byte_spec b l : forall n, find_byte b l = Some n ->
  exists a r, l = a ++ b :: r /\ length a = n /\ forallb (fun x => negb (beqb x b)) a = true.
Proof.
  induction l as [|x l IH]; cbn [find_byte]; intros n E; [discriminate|].
  destruct (beqb x b) eqn:B.
  - injection E as <-. apply beqb_eq in B. subst x. exists [], l. repeat split.
  - destruct (find_byte b l) as [m|]; [|discriminate]. cbn [option_map] in E. injection E as <-.
    destruct (IH m eq_refl) as (a & r & -> & La & Fa).
    exists (x :: a), r. cbn [app length forallb]. rewrite B, Fa, La. repeat split.
Qed.

Lemma kind_from_bytes_inv s k : kind_from_bytes s = Some k -> s = kind_bytes k.
Proof.
  unfold kind_from_bytes. intros E.
  destruct (bytes_eqb s (bs "tree")) eqn:E1; [apply bytes_eqb_eq in E1; injection E as <-; exact E1|].
  destruct (bytes_eqb s (bs "blob")) eqn:E2; [apply bytes_eqb_eq in E2; injection E as <-; exact E2|].
  destruct (bytes_eqb s (bs "commit")) eqn:E3; [apply bytes_eqb_eq in E3; injection E as <-; exact E3|].
  destruct (bytes_eqb s (bs "tag")) eqn:E4; [apply bytes_eqb_eq in E4; injection E as <-; exact E4|].
  discriminate.
Qed.

Lemma forallb_nth (P : byte -> bool) l i : forallb P l = true -> (i < length l)%nat -> P (nth i l x01) = true.
Proof.
  revert i. induction l as [|x l IH]; cbn [forallb length nth]; intros i F Hi; [lia|].
  apply Bool.andb_true_iff in F. destruct F as [Fx Fl].
  destruct i as [|i]; [exact Fx|]. apply IH; [exact Fl|lia].
Qed.

Lemma L_decode_never_panics input : decode_loose_header input <> Panic /\ decode_loose_header input <> OutOfFuel.
Proof.
  unfold decode_loose_header.
  destruct (find_byte x20 input) as [ke|] eqn:E20; [|split; discriminate].
  destruct (kind_from_bytes (firstn ke input)) as [k|] eqn:K; [|split; discriminate].
  destruct (find_byte x00 input) as [se|] eqn:E00; [|split; discriminate].
  destruct (Nat.ltb_spec se (ke + 1)) as [C|C].
  - exfalso.
    destruct (find_byte_spec _ _ _ E20) as (a & r & Hl & La & _).
    destruct (find_byte_spec _ _ _ E00) as (a' & r' & Hl' & La' & _).
    apply kind_from_bytes_inv in K.
    assert (Ha : a = kind_bytes k).
    { rewrite <- K, Hl, <- La. symmetry. apply firstn_app_exact. }
    destruct (kind_free k) as (_ & K00 & _ & _). rewrite <- Ha in K00.
    assert (N0 : nth se input x01 = x00).
    { rewrite Hl', <- La', app_nth2, Nat.sub_diag by lia. reflexivity. }
    destruct (Nat.eq_dec se ke) as [->|Ne].
    + rewrite Hl, <- La, app_nth2, Nat.sub_diag in N0 by lia. cbn [nth] in N0. discriminate.
    + rewrite Hl, app_nth1 in N0 by lia.
      pose proof (forallb_nth _ a se K00 ltac:(lia)) as F. cbn beta in F. rewrite N0 in F. discriminate.
  - destruct (to_signed _); split; discriminate.
Qed.
