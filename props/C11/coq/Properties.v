(* C11 — Loose objects written by gitoxide are git objects and read back exactly.
   Only statements here; every proof is [exact <lemma>].  Model: Model.v
   (gix-odb loose::Store::{write*, finalize_object, hash_path, find_inner, try_header},
    gix-features zlib::stream::inflate::read, gix-object {encode,decode}::loose_header, btoi).
   [zfile] is a file as flate2's decompressor sees it: [z_out] is everything that inflates from it,
   [z_end] says how the stream stops (ZEnd: proper end, ZMore: the file ends first, ZBad: corrupt). *)
From GixV.Base Require Import Bytes BytesFacts Outcome.
From GixV.C11 Require Import Model Proofs ProofsHeader ProofsRT.
Local Open Scope N_scope.

(* the object path is git's: a directory named by the first byte in hex, a file named by the other 19 *)
Theorem path_is_git_path : forall id, length id = 20%nat ->
  exists d f, hash_path id = Ok (d, f) /\ length d = 2%nat /\ length f = 38%nat /\
              d ++ f = hex_encode id /\ d = hex_encode (firstn 1 id) /\ f = hex_encode (skipn 1 id).
Proof. exact L_hash_path. Qed.

(* every writer stores deflate("<kind> <declared size>\0" ++ data) under the digest of exactly these
   bytes (git's object id when the declared size is the data's length), at git's path for that id *)
Theorem write_places_object_like_git : forall H deflate, (forall x, length (H x) = 20%nat) ->
  forall k declared data,
  exists w, store_write H deflate k declared data = Ok w /\
    w_id w = H (kind_bytes k ++ [x20] ++ N_to_dec declared ++ [x00] ++ data) /\
    w_dir w ++ w_name w = hex_encode (w_id w) /\ length (w_dir w) = 2%nat /\ length (w_name w) = 38%nat /\
    w_content w = deflate (loose_header k declared ++ data).
Proof. exact L_store_write. Qed.

(* the header gix writes is the header gix reads, for every u64 size, whatever follows it *)
Theorem header_roundtrip : forall k n rest, n <= U64_MAX ->
  decode_loose_header (loose_header k n ++ rest) = Ok (k, n, length (loose_header k n)).
Proof. exact L_decode_encode. Qed.

(* no bytes make the header decoder panic (its slice input[kind_end+1..size_end] is never reversed) *)
Theorem header_decode_never_panics : forall input,
  decode_loose_header input <> Panic /\ decode_loose_header input <> OutOfFuel.
Proof. exact L_decode_never_panics. Qed.

(* loose_RT: a file whose stream is complete and inflates to header ++ data reads back as exactly
   (kind, data) — for EVERY size, i.e. on both sides of the 64-byte header buffer, with or without
   bytes behind the stream.  Side conditions: the file is not empty, buffer sizes fit isize and the
   allocation succeeds. *)
Theorem loose_RT : forall alloc_ok f k data tail, f <> [] ->
  N.of_nat (length f) + len (loose_header k (len data) ++ data) <= ISIZE_MAX ->
  alloc_ok (N.of_nat (length f) + len (loose_header k (len data) ++ data)) = true ->
  find_inner alloc_ok (mkz f (loose_header k (len data) ++ data) ZEnd tail) = Ok (k, data).
Proof. exact L_loose_RT. Qed.

(* whenever find_inner returns an object the zlib stream in the file ended properly ... *)
Theorem found_object_needs_stream_end : forall alloc_ok zf r, find_inner alloc_ok zf = Ok r -> z_end zf = ZEnd.
Proof. exact L_find_ok_needs_end. Qed.

(* ... so a truncated file is never returned as an object, whatever could still be inflated from it,
   and neither is a corrupt one *)
Theorem truncated_is_error : forall alloc_ok zf r, z_end zf = ZMore -> find_inner alloc_ok zf <> Ok r.
Proof. exact L_truncated_is_error. Qed.
Theorem corrupt_is_error : forall alloc_ok zf r, z_end zf = ZBad -> find_inner alloc_ok zf <> Ok r.
Proof. exact L_corrupt_is_error. Qed.

(* try_header finds size and kind in the first 192 bytes of the file, complete or not *)
Theorem header_lookup : forall f k n rest e tail,
  f <> [] -> (length f <= 192)%nat -> n <= U64_MAX -> e <> ZBad ->
  try_header (Some (mkz f (loose_header k n ++ rest) e tail)) = Ok (Some (n, k)).
Proof. exact L_try_header. Qed.

(* End to end under the zlib contract (premises: inflate (deflate x) = x with a proper end; a stream
   is not empty; a strict prefix of a stream runs out of input): what write_buf stored is found
   again as the same kind and bytes, under git's id, at git's path ... *)
Theorem written_object_reads_back : forall alloc_ok H deflate zview,
  (forall x, length (H x) = 20%nat) ->
  (forall x, zview (deflate x) = mkz (deflate x) x ZEnd false) ->
  (forall x, deflate x <> []) ->
  forall k data w,
  N.of_nat (length (deflate (loose_header k (len data) ++ data))) + len (loose_header k (len data) ++ data) <= ISIZE_MAX ->
  alloc_ok (N.of_nat (length (deflate (loose_header k (len data) ++ data))) + len (loose_header k (len data) ++ data)) = true ->
  write_buf H deflate k data = Ok w ->
  find_inner alloc_ok (zview (w_content w)) = Ok (k, data) /\
  w_id w = H (kind_bytes k ++ [x20] ++ N_to_dec (len data) ++ [x00] ++ data) /\
  w_dir w ++ w_name w = hex_encode (w_id w).
Proof. exact L_write_then_find. Qed.

(* ... and every strict prefix of a file any writer produced is an error *)
Theorem truncated_written_file_is_error : forall alloc_ok H deflate zview,
  (forall x, length (H x) = 20%nat) ->
  (forall x p s, deflate x = p ++ s -> s <> [] -> z_end (zview p) = ZMore) ->
  forall k declared data w p s r,
  store_write H deflate k declared data = Ok w -> w_content w = p ++ s -> s <> [] ->
  find_inner alloc_ok (zview p) <> Ok r.
Proof. exact L_truncated_written_is_error. Qed.

(* ---- non-vacuity ---------------------------------------------------------------------------- *)

(* 57 bytes of data make 65 bytes with the header: one more than the header buffer *)
Example rt_across_header_buffer :
  find_inner (fun _ => true) (mkz [x78] (loose_header Blob 57 ++ repeat x61 57) ZEnd false)
  = Ok (Blob, repeat x61 57).
Proof. vm_compute. reflexivity. Qed.
Example rt_filling_header_buffer :
  find_inner (fun _ => true) (mkz [x78] (loose_header Blob 56 ++ repeat x61 56) ZEnd true)
  = Ok (Blob, repeat x61 56).
Proof. vm_compute. reflexivity. Qed.

(* the input of the former defect: everything was inflated, only the stream's trailer is cut off *)
Example truncated_trailer_example :
  find_inner (fun _ => true) (mkz [x78] (loose_header Blob 57 ++ repeat x61 57) ZMore false) = Err Corrupt /\
  find_inner (fun _ => true) (mkz [x78] (loose_header Blob 5 ++ bs "ab") ZMore false) = Err Corrupt.
Proof. vm_compute. split; reflexivity. Qed.

(* headers that used to panic the reader: declared size below what is there; sizes near u64::MAX *)
Example hostile_sizes :
  find_inner (fun _ => true) (mkz [x78] (bs "blob 1" ++ [x00] ++ repeat x61 100) ZEnd false) = Err Corrupt /\
  find_inner (fun _ => true) (mkz [x78] (bs "blob 18446744073709551615" ++ [x00] ++ repeat x61 100) ZEnd false) = Err Oom /\
  find_inner (fun _ => true) (mkz [x78] (bs "blob 9223372036854775808" ++ [x00] ++ repeat x61 100) ZEnd false) = Err Oom.
Proof. vm_compute. repeat split; reflexivity. Qed.

Example header_lookup_example :
  try_header (Some (mkz [x78] (loose_header Tag 70000 ++ repeat x61 300) ZMore false)) = Ok (Some (70000, Tag)).
Proof. vm_compute. reflexivity. Qed.
