(* C11 — Loose objects written by gitoxide are git objects and read back exactly.
   Only statements here; every proof is [exact <lemma>].  Model: Model.v. *)
From GixV.Base Require Import Bytes BytesFacts Outcome.
From GixV.C11 Require Import Model Proofs.
Local Open Scope N_scope.

(* the object path is git's: a directory named by the first byte in hex, a file named by the other 19 *)
Theorem path_is_git_path : forall id, length id = 20%nat ->
  exists d f, hash_path id = Ok (d, f) /\ length d = 2%nat /\ length f = 38%nat /\
              d ++ f = hex_encode id /\ d = hex_encode (firstn 1 id) /\ f = hex_encode (skipn 1 id).
Proof. exact L_hash_path. Qed.

(* a truncated file is never returned as an object, whatever could be inflated from it *)
Theorem truncated_is_error : forall alloc_ok zf r, z_end zf = ZMore -> find_inner alloc_ok zf <> Ok r.
Proof. exact L_truncated_is_error. Qed.
