(* C11 — what was written is read back: find_inner on a complete stream of header ++ data *)
From Coq Require Import ZArith NArith Lia ZifyBool ZifyNat ZifyN List.
From GixV.Base Require Import Bytes BytesFacts Outcome.
From GixV.C11 Require Import Model ProofsDec ProofsHeader Proofs.
Ltac Zify.zify_post_hook ::= Z.div_mod_to_equations.
Local Open Scope N_scope.

Lemma write_at_app f z w : write_at (f ++ z) (length f) w = f ++ w ++ skipn (length w) z.
Proof.
  unfold write_at. rewrite firstn_app_exact. do 2 f_equal.
  rewrite skipn_app, (skipn_all2 f) by lia.
  replace (length f + length w - length f)%nat with (length w) by lia. reflexivity.
Qed.

Lemma firstn_short {A} n (l : list A) : (length l <= n)%nat -> firstn n l = l.
Proof. apply firstn_all2. Qed.

Lemma resize_exact d junk : resize (d ++ junk) (length d) = d.
Proof.
  unfold resize. rewrite firstn_app_exact.
  replace (length d - length (d ++ junk))%nat with O by (rewrite app_length; lia).
  apply app_nil_r.
Qed.

Lemma zcall_first_end f out tail cap : f <> [] -> (length out <= cap)%nat ->
  zcall (mkz f out ZEnd tail) (zinit (mkz f out ZEnd tail)) cap FNone
  = (mks (length out) tail false Alive, length out, RStreamEnd).
Proof.
  intros Hf Hc. unfold zcall, zinit. cbn [dead fin pos in_left z_end z_out z_file z_tail is_bad is_finish negb andb orb].
  replace (length out - 0)%nat with (length out) by lia.
  destruct (Nat.ltb_spec cap (length out)) as [C|C]; [lia|]. reflexivity.
Qed.

Lemma zcall_first_block f out tail cap : f <> [] -> (cap < length out)%nat ->
  zcall (mkz f out ZEnd tail) (zinit (mkz f out ZEnd tail)) cap FNone
  = (mks cap true false Alive, cap, ROk).
Proof.
  intros Hf Hc. unfold zcall, zinit. cbn [dead fin pos in_left z_end z_out z_file z_tail is_bad is_finish negb andb orb].
  replace (length out - 0)%nat with (length out) by lia.
  destruct (Nat.ltb_spec cap (length out)) as [C|C]; [|lia]. reflexivity.
Qed.

Lemma read_loop_rest f out tail p : (p <= length out)%nat ->
  read_loop READ_FUEL (mkz f out ZEnd tail) (mks p true false Alive) (length out - p) 0
  = Ok (mks (length out) tail false Alive, (length out - p)%nat).
Proof.
  intros Hp. unfold READ_FUEL. cbn [read_loop in_left negb].
  unfold zcall. cbn [dead fin pos in_left z_end z_out z_file z_tail is_bad is_finish negb andb orb].
  destruct (Nat.ltb_spec (length out - p) (length out - p)) as [C|C]; [lia|].
  replace (p + (length out - p))%nat with (length out) by lia. reflexivity.
Qed.

Lemma zcall_final f out tail :
  zcall (mkz f out ZEnd tail) (mks (length out) tail false Alive) 0 FFinish
  = (mks (length out) tail true Alive, O, RStreamEnd).
Proof.
  unfold zcall. cbn [dead fin pos in_left z_end z_out z_file z_tail is_bad is_finish negb andb orb].
  rewrite Nat.sub_diag. cbn [Nat.ltb Nat.leb]. rewrite Nat.add_0_r. reflexivity.
Qed.

Section RT.
  Variable alloc_ok : N -> bool.
  Variables (f : bytes) (k : kind) (data : bytes) (tail : bool).
  Hypothesis Hf : f <> [].
  Hypothesis Hfit : N.of_nat (length f) + len (loose_header k (len data) ++ data) <= ISIZE_MAX.
  Hypothesis Halloc : alloc_ok (N.of_nat (length f) + len (loose_header k (len data) ++ data)) = true.

  Lemma L_loose_RT :
    find_inner alloc_ok (mkz f (loose_header k (len data) ++ data) ZEnd tail) = Ok (k, data).
  Proof.
    set (hdr := loose_header k (len data)) in *.
    assert (Hn : len data <= U64_MAX).
    { unfold len in *. rewrite app_length in Hfit. unfold ISIZE_MAX, U64_MAX in *. lia. }
    pose proof (loose_header_length k (len data) Hn) as Hh. fold hdr in Hh.
    pose proof (L_decode_encode k (len data)) as Hdec. fold hdr in Hdec.
    assert (HT : length (hdr ++ data) = (length hdr + length data)%nat) by apply app_length.
    unfold find_inner. cbn [z_file z_out].
    destruct (le_lt_dec (length (hdr ++ data)) HEADER_MAX_SIZE) as [Small|Big].
    - (* everything fits the header buffer: StreamEnd at once *)
      rewrite (zcall_first_end f (hdr ++ data) tail HEADER_MAX_SIZE Hf Small).
      unfold zbytes. cbn [z_out skipn]. rewrite firstn_all.
      rewrite write_at_app.
      destruct (Nat.ltb_spec (length (f ++ (hdr ++ data) ++ skipn (length (hdr ++ data)) (repeat x00 HEADER_MAX_SIZE)))
                  (length f + length (hdr ++ data))) as [C|C].
      { rewrite !app_length in C. lia. }
      rewrite skipn_app_exact, firstn_app_exact, <- app_assoc, (Hdec _ Hn). cbn [obind].
      destruct (N.ltb_spec U64_MAX (len data + N.of_nat (length hdr))) as [C2|C2].
      { unfold U64_MAX in *. unfold ISIZE_MAX, len in *. lia. }
      replace (N.of_nat (length (hdr ++ data)) =? len data + N.of_nat (length hdr)) with true
        by (symmetry; apply N.eqb_eq; unfold len; lia).
      cbn [negb]. unfold copy_within0.
      destruct (Nat.ltb_spec (length f + length (hdr ++ data)) (length f + length hdr)) as [C3|C3]; [lia|].
      match goal with |- context [Nat.ltb (length ?b) ?e] => destruct (Nat.ltb_spec (length b) e) as [C4|C4] end.
      { rewrite !app_length in C4. lia. }
      cbn [obind].
      replace (length f + length (hdr ++ data) - (length f + length hdr))%nat with (length data) by lia.
      replace (f ++ hdr ++ data ++ skipn (length (hdr ++ data)) (repeat x00 HEADER_MAX_SIZE))
        with ((f ++ hdr) ++ data ++ skipn (length (hdr ++ data)) (repeat x00 HEADER_MAX_SIZE))
        by (rewrite <- app_assoc; reflexivity).
      replace (length f + length hdr)%nat with (length (f ++ hdr)) by apply app_length.
      rewrite skipn_app_exact, firstn_app_exact.
      unfold len. rewrite Nat2N.id, resize_exact. reflexivity.
    - (* header buffer filled, the rest is read in the second phase *)
      rewrite (zcall_first_block f (hdr ++ data) tail HEADER_MAX_SIZE Hf Big).
      unfold zbytes. cbn [z_out skipn].
      assert (L64 : length (firstn HEADER_MAX_SIZE (hdr ++ data)) = HEADER_MAX_SIZE)
        by (apply firstn_length_le; lia).
      rewrite write_at_app, L64.
      replace (skipn HEADER_MAX_SIZE (repeat x00 HEADER_MAX_SIZE)) with (@nil byte) by reflexivity.
      rewrite app_nil_r.
      match goal with |- context [Nat.ltb (length ?b) ?e] => destruct (Nat.ltb_spec (length b) e) as [C|C] end.
      { rewrite app_length, L64 in C. lia. }
      rewrite skipn_app_exact, (firstn_short HEADER_MAX_SIZE (firstn HEADER_MAX_SIZE (hdr ++ data))) by lia.
      assert (E64 : firstn HEADER_MAX_SIZE (hdr ++ data) = hdr ++ firstn (HEADER_MAX_SIZE - length hdr) data).
      { rewrite firstn_app, (firstn_short HEADER_MAX_SIZE hdr); [reflexivity|]. unfold HEADER_MAX_SIZE. lia. }
      rewrite E64 at 1. rewrite (Hdec _ Hn). cbn [obind].
      destruct (N.ltb_spec U64_MAX (len data + N.of_nat (length hdr))) as [C2|C2].
      { unfold U64_MAX in *. unfold ISIZE_MAX, len in *. lia. }
      destruct (N.ltb_spec (len data + N.of_nat (length hdr)) (N.of_nat HEADER_MAX_SIZE)) as [C3|C3].
      { unfold len in *. lia. }
      replace (N.of_nat (length f) + (len data + N.of_nat (length hdr)))
        with (N.of_nat (length f) + len (hdr ++ data)) by (unfold len; lia).
      destruct (N.ltb_spec ISIZE_MAX (N.of_nat (length f) + len (hdr ++ data))) as [C4|C4]; [lia|].
      rewrite Halloc. cbn [negb orb].
      set (buf1 := f ++ firstn HEADER_MAX_SIZE (hdr ++ data)).
      assert (Lb1 : length buf1 = (length f + HEADER_MAX_SIZE)%nat) by (unfold buf1; rewrite app_length, L64; reflexivity).
      assert (ER : resize buf1 (N.to_nat (N.of_nat (length f) + len (hdr ++ data)))
                   = buf1 ++ repeat x00 (length (hdr ++ data) - HEADER_MAX_SIZE)).
      { unfold resize. rewrite firstn_short by (unfold len; lia). f_equal. f_equal. unfold len. lia. }
      rewrite ER.
      assert (Lb2 : length (buf1 ++ repeat x00 (length (hdr ++ data) - HEADER_MAX_SIZE))
                    = (length f + length (hdr ++ data))%nat)
        by (rewrite app_length, repeat_length, Lb1; lia).
      rewrite Lb2.
      destruct (Nat.ltb_spec (length f + length (hdr ++ data)) (length f)) as [C5|C5]; [lia|].
      destruct (Nat.ltb_spec (length f + length (hdr ++ data) - length f) HEADER_MAX_SIZE) as [C6|C6]; [lia|].
      replace (length f + length (hdr ++ data) - length f - HEADER_MAX_SIZE)%nat
        with (length (hdr ++ data) - HEADER_MAX_SIZE)%nat by lia.
      rewrite (read_loop_rest f (hdr ++ data) tail HEADER_MAX_SIZE) by lia. cbn [obind].
      replace (N.of_nat (length (hdr ++ data) - HEADER_MAX_SIZE) + N.of_nat HEADER_MAX_SIZE
               =? len data + N.of_nat (length hdr)) with true
        by (symmetry; apply N.eqb_eq; unfold len; lia).
      cbn [negb]. rewrite zcall_final.
      (* the buffer now holds file ++ header ++ data *)
      assert (EW : write_at (buf1 ++ repeat x00 (length (hdr ++ data) - HEADER_MAX_SIZE)) (length f + HEADER_MAX_SIZE)
                     (firstn (length (hdr ++ data) - HEADER_MAX_SIZE) (skipn HEADER_MAX_SIZE (hdr ++ data)))
                   = f ++ hdr ++ data).
      { rewrite <- Lb1, write_at_app.
        rewrite (firstn_short _ (skipn HEADER_MAX_SIZE (hdr ++ data))) by (rewrite skipn_length; lia).
        rewrite (@skipn_all2 _ (length (skipn HEADER_MAX_SIZE (hdr ++ data)))) by (rewrite skipn_length, repeat_length; lia).
        rewrite app_nil_r. unfold buf1. rewrite <- app_assoc. f_equal. apply firstn_skipn. }
      rewrite EW. unfold copy_within0.
      destruct (Nat.ltb_spec (length (f ++ hdr ++ data)) (length f + length hdr)) as [C7|C7].
      { rewrite !app_length in C7. lia. }
      rewrite Nat.ltb_irrefl. cbn [obind].
      replace (f ++ hdr ++ data) with ((f ++ hdr) ++ data) at 2 3 by (rewrite <- app_assoc; reflexivity).
      replace (length f + length hdr)%nat with (length (f ++ hdr)) by apply app_length.
      rewrite skipn_app_exact.
      replace (length (f ++ hdr ++ data) - length (f ++ hdr))%nat with (length data)
        by (rewrite !app_length; lia).
      rewrite (firstn_short (length data) data) by lia.
      unfold len. rewrite Nat2N.id, resize_exact. reflexivity.
  Qed.
End RT.

(* ---- try_header ------------------------------------------------------------------------- *)

Lemma L_try_header f k n rest e tail :
  f <> [] -> (length f <= 192)%nat -> n <= U64_MAX -> e <> ZBad ->
  try_header (Some (mkz f (loose_header k n ++ rest) e tail)) = Ok (Some (n, k)).
Proof.
  intros Hf Hl Hn He. pose proof (loose_header_length k n Hn) as Hh.
  unfold try_header. cbn [z_file]. unfold HDR_BUF_SIZE, HEADER_MAX_SIZE.
  destruct (Nat.ltb_spec (256 - 64) (length f)) as [C|C]; [lia|].
  set (hdr := loose_header k n) in *.
  assert (D : forall m, (length hdr <= m)%nat ->
            decode_loose_header (firstn m (hdr ++ rest)) = Ok (k, n, length hdr)).
  { intros m Hm. rewrite firstn_app, (firstn_short m hdr) by lia. apply L_decode_encode. exact Hn. }
  unfold zcall, zinit. cbn [dead fin pos in_left z_end z_out z_file z_tail is_finish negb andb orb].
  assert (is_bad e = false) as -> by (destruct e; try reflexivity; congruence). cbn [andb].
  destruct f as [|b f']; [congruence|]. cbn [length Nat.eqb negb].
  replace (length (hdr ++ rest) - 0)%nat with (length (hdr ++ rest)) by lia.
  assert (HT : length (hdr ++ rest) = (length hdr + length rest)%nat) by apply app_length.
  cbn [length] in Hl.
  destruct (Nat.ltb_spec (256 - S (length f')) (length (hdr ++ rest))) as [B|B].
  - unfold zbytes. cbn [z_out skipn]. rewrite D by lia. reflexivity.
  - destruct e; try congruence; unfold zbytes; cbn [z_out skipn];
      rewrite D by lia; reflexivity.
Qed.

(* ---- the whole path, under the zlib contract ------------------------------------------- *)

Section Contract.
  Variable alloc_ok : N -> bool.
  Variable H : bytes -> bytes.
  Variable deflate : bytes -> bytes.
  (* how flate2 sees the content of a file *)
  Variable zview : bytes -> zfile.
  Hypothesis H_len : forall x, length (H x) = 20%nat.
  Hypothesis zview_file : forall c, z_file (zview c) = c.
  (* inflate (deflate x) = x, ending properly and with nothing behind it; a stream is never empty *)
  Hypothesis inflate_deflate : forall x, zview (deflate x) = mkz (deflate x) x ZEnd false.
  Hypothesis deflate_nonempty : forall x, deflate x <> [].
  (* a strict prefix of a deflate stream runs out of input before the stream ends *)
  Hypothesis prefix_truncated : forall x p s, deflate x = p ++ s -> s <> [] -> z_end (zview p) = ZMore.

  Lemma L_write_then_find k data w :
    N.of_nat (length (deflate (loose_header k (len data) ++ data))) + len (loose_header k (len data) ++ data) <= ISIZE_MAX ->
    alloc_ok (N.of_nat (length (deflate (loose_header k (len data) ++ data))) + len (loose_header k (len data) ++ data)) = true ->
    write_buf H deflate k data = Ok w ->
    find_inner alloc_ok (zview (w_content w)) = Ok (k, data) /\
    w_id w = H (kind_bytes k ++ [x20] ++ N_to_dec (len data) ++ [x00] ++ data) /\
    w_dir w ++ w_name w = hex_encode (w_id w).
  Proof.
    intros Hfit Halloc Hw. unfold write_buf in Hw.
    destruct (L_store_write H deflate H_len k (len data) data) as (w' & E & Hid & Hp & _ & _ & Hc).
    rewrite E in Hw. apply Ok_inj in Hw. subst w'.
    rewrite Hc, inflate_deflate. split; [|split; assumption].
    apply L_loose_RT; [apply deflate_nonempty | exact Hfit | exact Halloc].
  Qed.

  Lemma L_truncated_written_is_error k declared data w p s r :
    store_write H deflate k declared data = Ok w -> w_content w = p ++ s -> s <> [] ->
    find_inner alloc_ok (zview p) <> Ok r.
  Proof.
    intros Hw Hc Hs.
    destruct (L_store_write H deflate H_len k declared data) as (w' & E & _ & _ & _ & _ & Hc').
    rewrite E in Hw. apply Ok_inj in Hw. subst w'. rewrite Hc' in Hc.
    intros F. apply L_find_ok_needs_end in F. rewrite (prefix_truncated _ _ _ Hc Hs) in F. discriminate.
  Qed.
End Contract.
