(* C11 — model of the loose object store of gix-odb.
   Sources (pinned tree, after the two `fix:` commits named in NOTES.md):
     gix-odb/src/store_impls/loose/mod.rs    hash_path, HEADER_MAX_SIZE
     gix-odb/src/store_impls/loose/write.rs  write / write_buf / write_stream / finalize_object
     gix-odb/src/store_impls/loose/find.rs   try_find / find_inner / try_header / contains
     gix-features/src/zlib/stream/inflate.rs read   (the loop around the decompressor)
     gix-features/src/zlib/mod.rs            Inflate::once
     gix-object/src/lib.rs                   decode::loose_header;  encode.rs loose_header;  kind.rs Kind::from_bytes
     gix-utils/src/btoi.rs                   to_signed::<u64> / to_unsigned::<u64>
   External components are NOT modelled byte by byte: SHA-1 is a function parameter [H], the
   compressor a function parameter [deflate], and a file as seen by the decompressor (flate2 with the
   miniz_oxide backend) is a [zfile] record that says what the file inflates to and how the stream
   stops; [zcall] is the behaviour of one `Decompress::decompress` call on it (see NOTES.md for the
   exact contract and for what is deliberately not distinguished).
   Buffers are modelled at slice-index fidelity: every slicing / split_at_mut / copy_within that
   can panic in Rust is a [Panic] here.  No proofs in this file. *)
From GixV.Base Require Import Bytes Outcome.
Local Open Scope N_scope.
Local Open Scope outcome_scope.

Definition len (b : bytes) : N := N.of_nat (length b).

(* ---- kinds and the loose header ------------------------------------------------------ *)

Inductive kind := Tree | Blob | Commit | Tag.

Definition kind_bytes (k : kind) : bytes :=
  match k with Tree => bs "tree" | Blob => bs "blob" | Commit => bs "commit" | Tag => bs "tag" end.

(* Kind::from_bytes *)
Definition kind_from_bytes (s : bytes) : option kind :=
  if bytes_eqb s (bs "tree") then Some Tree
  else if bytes_eqb s (bs "blob") then Some Blob
  else if bytes_eqb s (bs "commit") then Some Commit
  else if bytes_eqb s (bs "tag") then Some Tag
  else None.

(* gix_object::encode::loose_header(kind, size) *)
Definition loose_header (k : kind) (size : N) : bytes :=
  kind_bytes k ++ [x20] ++ N_to_dec size ++ [x00].

Inductive err := Decode | Corrupt | Oom.

Definition U64_MAX : N := 18446744073709551615.
Definition ISIZE_MAX : N := 9223372036854775807.

(* bstr find_byte *)
Fixpoint find_byte (b : byte) (l : bytes) : option nat :=
  match l with
  | [] => None
  | x :: r => if beqb x b then Some O else option_map S (find_byte b r)
  end.

(* char::to_digit(10) *)
Definition digit_val (b : byte) : option N := if is_digit b then Some (b2N b - 48) else None.

(* btoi::to_unsigned::<u64>: checked_mul(10) then checked_add(digit); every failure is an error *)
Fixpoint to_unsigned_acc (l : bytes) (acc : N) : option N :=
  match l with
  | [] => Some acc
  | b :: r =>
      match digit_val b with
      | None => None
      | Some x =>
          let m := acc * 10 in
          if U64_MAX <? m then None
          else let a := m + x in if U64_MAX <? a then None else to_unsigned_acc r a
      end
  end.
Definition to_unsigned (l : bytes) : option N :=
  match l with [] => None | _ => to_unsigned_acc l 0 end.

(* the `-` branch of to_signed::<u64>: result starts at 0, checked_mul, checked_sub(digit):
   succeeds only while every digit is 0 *)
Fixpoint neg_acc (l : bytes) : option N :=
  match l with
  | [] => Some 0
  | b :: r => match digit_val b with
              | None => None
              | Some x => if x =? 0 then neg_acc r else None
              end
  end.

(* btoi::to_signed::<u64> *)
Definition to_signed (l : bytes) : option N :=
  match l with
  | [] => None
  | b :: r =>
      if beqb b x2b then to_unsigned r
      else if beqb b x2d then match r with [] => None | _ => neg_acc r end
      else to_unsigned l
  end.

(* gix_object::decode::loose_header(input) -> (kind, size, consumed) *)
Definition decode_loose_header (input : bytes) : outcome (kind * N * nat) err :=
  match find_byte x20 input with
  | None => Err Decode
  | Some kind_end =>
      match kind_from_bytes (firstn kind_end input) with
      | None => Err Decode
      | Some k =>
          match find_byte x00 input with
          | None => Err Decode
          | Some size_end =>
              (* &input[kind_end + 1..size_end] *)
              if Nat.ltb size_end (kind_end + 1) then Panic
              else
                match to_signed (firstn (size_end - (kind_end + 1)) (skipn (kind_end + 1) input)) with
                | None => Err Decode
                | Some size => Ok (k, size, S size_end)
                end
          end
      end
  end.

(* ---- loose::hash_path ----------------------------------------------------------------- *)

(* (directory name, file name) below the objects directory; `&buf[..2]`, `&buf[2..]` *)
Definition hash_path (id : bytes) : outcome (bytes * bytes) err :=
  let hex := hex_encode id in
  if Nat.ltb (length hex) 2 then Panic else Ok (firstn 2 hex, skipn 2 hex).

(* ---- the decompressor as seen through flate2 ------------------------------------------- *)

(* how the zlib stream in a file stops once everything in [z_out] has been produced *)
Inductive zend :=
| ZEnd    (* end of stream reached, checksum correct *)
| ZMore   (* the file ends before the stream does (truncated) *)
| ZBad.   (* the stream is corrupt at this point *)

Record zfile := mkz {
  z_file : bytes;   (* the bytes of the file *)
  z_out  : bytes;   (* everything that can be inflated from them *)
  z_end  : zend;
  z_tail : bool     (* ZEnd only: more bytes follow the end of the stream *)
}.

Inductive zdead := Alive | DeadData | DeadBuf.
Record zst := mks {
  pos : nat;          (* bytes handed out so far *)
  in_left : bool;     (* input not yet given to / consumed by the decompressor is non-empty *)
  fin : bool;         (* a call with FlushDecompress::Finish was made *)
  dead : zdead        (* miniz' sticky failure states *)
}.
Inductive flush := FNone | FFinish.
Inductive zres := ROk | RStreamEnd | RBufError | RErr.

Definition is_bad (e : zend) : bool := match e with ZBad => true | _ => false end.
Definition DICT_SIZE : N := 32768.
Definition is_finish (f : flush) : bool := match f with FFinish => true | FNone => false end.

(* one `Decompress::decompress(input = everything left, out = cap bytes, flush)`:
   (new state, bytes written, status).  "Blocked on output" is reported as ROk: flate2 says Ok or
   BufError there depending on internal buffering, and no caller modelled here tells them apart
   (see NOTES.md). *)
Definition zcall (zf : zfile) (st : zst) (cap : nat) (fl : flush) : zst * nat * zres :=
  match dead st with
  | DeadBuf => (st, O, RBufError)
  | DeadData => (st, O, RErr)
  | Alive =>
      if fin st && negb (is_finish fl) then (st, O, RErr)
      else
        let fin' := fin st || is_finish fl in
        let avail := (length (z_out zf) - pos st)%nat in
        if is_bad (z_end zf) && (len (z_out zf) <? DICT_SIZE) then
          (* miniz decodes ahead into its 32 KiB window: corruption before that is seen at once *)
          (mks (pos st + Nat.min cap avail) (in_left st) fin' DeadData, Nat.min cap avail, RErr)
        else if Nat.ltb cap avail then (mks (pos st + cap) true fin' Alive, cap, ROk)
        else
          match z_end zf with
          | ZEnd => (mks (pos st + avail) (z_tail zf) fin' Alive, avail, RStreamEnd)
          | ZBad => (mks (pos st + avail) (in_left st) fin' DeadData, avail, RErr)
          | ZMore =>
              match fl with
              | FNone => (mks (pos st + avail) false fin' Alive, avail,
                          if in_left st then ROk else RBufError)
              | FFinish => (mks (pos st + avail) false fin' DeadBuf, avail, RErr)
              end
          end
  end.

Definition zinit (zf : zfile) : zst :=
  mks O (negb (Nat.eqb (length (z_file zf)) O)) false Alive.

(* the bytes a call wrote: z_out[pos .. pos + n] *)
Definition zbytes (zf : zfile) (from n : nat) : bytes := firstn n (skipn from (z_out zf)).

(* gix_features::zlib::stream::inflate::read(rd, state, dst): total bytes written, or Err.
   `consumed != 0` holds exactly when input was left at the start of the iteration. *)
Fixpoint read_loop (fuel : nat) (zf : zfile) (st : zst) (dst_left total : nat)
  : outcome (zst * nat) err :=
  match fuel with
  | O => OutOfFuel
  | S f =>
      let eof := negb (in_left st) in
      let '(st', written, res) := zcall zf st dst_left (if eof then FFinish else FNone) in
      let total' := (total + written)%nat in
      let dst' := (dst_left - written)%nat in
      match res with
      | RStreamEnd => Ok (st', total')
      | RErr => Err Corrupt
      | ROk | RBufError =>
          if eof || Nat.eqb dst' O then Ok (st', total')
          else if in_left st || negb (Nat.eqb written O) then read_loop f zf st' dst' total'
          else Panic                         (* unreachable!("Definitely a bug somewhere") *)
      end
  end.
Definition READ_FUEL : nat := 4.

(* ---- Vec<u8> operations with their panics ---------------------------------------------- *)

Definition resize (buf : bytes) (n : nat) : bytes := firstn n buf ++ repeat x00 (n - length buf).

(* buf.copy_within(s..e, 0) *)
Definition copy_within0 (buf : bytes) (s e : nat) : outcome bytes err :=
  if Nat.ltb e s then Panic
  else if Nat.ltb (length buf) e then Panic
  else Ok (firstn (e - s) (skipn s buf) ++ skipn (e - s) buf).

(* overwrite buf[at .. at + length w] (the decompressor writing into its output slice) *)
Definition write_at (buf : bytes) (at_ : nat) (w : bytes) : bytes :=
  firstn at_ buf ++ w ++ skipn (at_ + length w) buf.

Definition HEADER_MAX_SIZE : nat := 64.

Section Find.
  (* allocation of a Vec of n bytes succeeds (try_reserve); beyond isize::MAX it never does *)
  Variable alloc_ok : N -> bool.

  (* loose::Store::find_inner for a file that exists *)
  Definition find_inner (zf : zfile) : outcome (kind * bytes) err :=
    let bytes_read := length (z_file zf) in
    (* buf.clear(); read_to_end(buf); buf.resize(bytes_read + HEADER_MAX_SIZE, 0) *)
    let buf := z_file zf ++ repeat x00 HEADER_MAX_SIZE in
    (* inflate.once(&input[..bytes_read], output) *)
    let '(st1, n, res) := zcall zf (zinit zf) HEADER_MAX_SIZE FNone in
    match res with
    | RErr => Err Corrupt                                   (* DecompressFile *)
    | RBufError => Err Corrupt                              (* status == BufError *)
    | ROk | RStreamEnd =>
        let buf := write_at buf bytes_read (zbytes zf O n) in
        let ds := bytes_read in
        (* &buf[ds..ds + consumed_out] *)
        if Nat.ltb (length buf) (ds + n) then Panic
        else
          '(k, size, hs) <- decode_loose_header (firstn n (skipn ds buf)) ;;
          (* size.checked_add(header_size) *)
          let swh := size + N.of_nat hs in
          if U64_MAX <? swh then Err Oom
          else
            body <-
              (match res with
               | RStreamEnd =>
                   if negb (N.of_nat n =? swh) then Err Corrupt          (* SizeMismatch *)
                   else copy_within0 buf (ds + hs) (ds + n)
               | _ =>
                   if swh <? N.of_nat n then Err Corrupt                 (* SizeMismatch *)
                   else
                     let new_len := N.of_nat bytes_read + swh in
                     if (ISIZE_MAX <? new_len) || negb (alloc_ok new_len) then Err Oom
                     else
                       let buf := resize buf (N.to_nat new_len) in
                       (* split_at_mut(bytes_read); &mut output[consumed_out..] *)
                       if Nat.ltb (length buf) bytes_read then Panic
                       else
                         let out_len := (length buf - bytes_read)%nat in
                         if Nat.ltb out_len n then Panic
                         else
                           '(st2, num) <- read_loop READ_FUEL zf st1 (out_len - n) O ;;
                           let buf := write_at buf (bytes_read + n) (zbytes zf n num) in
                           if negb (N.of_nat num + N.of_nat n =? swh) then Err Corrupt   (* SizeMismatch *)
                           else
                             (* the stream has to end here: decompress(rest, &mut [], Finish) *)
                             let '(_, _, res3) := zcall zf st2 O FFinish in
                             match res3 with
                             | RStreamEnd =>
                                 (* buf.copy_within(ds + header_size.., 0) *)
                                 copy_within0 buf (ds + hs) (length buf)
                             | _ => Err Corrupt
                             end
               end) ;;
            (* buf.resize(size, 0) — size fits usize on 64-bit *)
            Ok (k, resize body (N.to_nat size))
    end.

  (* loose::Store::try_find: a missing file is Ok(None) *)
  Definition try_find (file : option zfile) : outcome (option (kind * bytes)) err :=
    match file with
    | None => Ok None
    | Some zf => omap Some (find_inner zf)
    end.
End Find.

(* loose::Store::try_header.  [zh] describes the first min(192, file length) bytes of the file as
   the decompressor sees them.  Returns (size, kind). *)
Definition HDR_BUF_SIZE : nat := 256.
Definition try_header (zh : option zfile) : outcome (option (N * kind)) err :=
  match zh with
  | None => Ok None
  | Some zh =>
      let bytes_read := length (z_file zh) in
      if Nat.ltb (HDR_BUF_SIZE - HEADER_MAX_SIZE) bytes_read then Panic   (* not a read() result *)
      else
        let cap := (HDR_BUF_SIZE - bytes_read)%nat in
        let '(_, n, res) := zcall zh (zinit zh) cap FNone in
        match res with
        | RErr | RBufError => Err Corrupt
        | _ =>
            '(k, size, _) <- decode_loose_header (zbytes zh O n) ;;
            Ok (Some (size, k))
        end
  end.

(* ---- writing ---------------------------------------------------------------------------- *)

Section Store.
  Variable H : bytes -> bytes.          (* SHA-1 *)
  Variable deflate : bytes -> bytes.    (* deflate::Write + flush(): the complete zlib stream *)

  (* what write / write_buf / write_stream feed to hash::Write<deflate::Write<tempfile>>:
     the header with the size the caller declared, then the bytes the caller supplied *)
  Definition stored_stream (k : kind) (declared : N) (data : bytes) : bytes :=
    loose_header k declared ++ data.

  Record written := mkw { w_id : bytes; w_dir : bytes; w_name : bytes; w_content : bytes }.

  (* finalize_object: id = digest of everything written; the tempfile is renamed to hash_path(id) *)
  Definition store_write (k : kind) (declared : N) (data : bytes) : outcome written err :=
    let s := stored_stream k declared data in
    let id := H s in
    '(d, f) <- hash_path id ;;
    Ok (mkw id d f (deflate s)).

  Definition write_buf (k : kind) (data : bytes) := store_write k (len data) data.
  Definition write_stream (k : kind) (size : N) (data : bytes) := store_write k size data.
End Store.
