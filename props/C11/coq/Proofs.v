(* C11 — lemmas: object path, no stream end without ZEnd, truncated / corrupt files are errors *)
From Coq Require Import ZArith NArith Lia ZifyBool ZifyNat ZifyN List.
From GixV.Base Require Import Bytes BytesFacts Outcome.
From GixV.C11 Require Import Model ProofsDec.
Ltac Zify.zify_post_hook ::= Z.div_mod_to_equations.
Local Open Scope N_scope.

(* ---- hash_path --------------------------------------------------------------------------- *)

Lemma L_hash_path id : length id = 20%nat ->
  exists d f, hash_path id = Ok (d, f) /\ length d = 2%nat /\ length f = 38%nat /\
              d ++ f = hex_encode id /\ d = hex_encode (firstn 1 id) /\ f = hex_encode (skipn 1 id).
Proof.
  intros Hl. unfold hash_path.
  pose proof (hex_encode_length id) as HL. rewrite Hl in HL.
  destruct (Nat.ltb_spec (length (hex_encode id)) 2) as [C|C]; [lia|].
  exists (firstn 2 (hex_encode id)), (skipn 2 (hex_encode id)).
  destruct id as [|b id]; [discriminate|].
  split; [reflexivity|]. cbn [hex_encode firstn skipn].
  pose proof (hex_encode_length id) as HL2. cbn [length] in Hl.
  repeat split; try reflexivity. cbn [length] in *. lia.
Qed.

Section WithStore.
  Variable H : bytes -> bytes.
  Variable deflate : bytes -> bytes.
  Hypothesis H_len : forall x, length (H x) = 20%nat.

  Lemma L_store_write k declared data :
    exists w, store_write H deflate k declared data = Ok w /\
      w_id w = H (kind_bytes k ++ [x20] ++ N_to_dec declared ++ [x00] ++ data) /\
      w_dir w ++ w_name w = hex_encode (w_id w) /\ length (w_dir w) = 2%nat /\ length (w_name w) = 38%nat /\
      w_content w = deflate (loose_header k declared ++ data).
  Proof.
    unfold store_write, stored_stream.
    destruct (L_hash_path (H (loose_header k declared ++ data)) (H_len _)) as (d & f & E & Ld & Lf & Eq & _).
    rewrite E. cbn [obind]. eexists. split; [reflexivity|]. cbn [w_id w_dir w_name w_content].
    repeat split; try assumption; try reflexivity.
    unfold loose_header. rewrite <- !app_assoc. reflexivity.
  Qed.
End WithStore.

(* ---- the decompressor never reports the end of a stream that has none --------------------- *)

Lemma zcall_streamend zf st cap fl st' n :
  zcall zf st cap fl = (st', n, RStreamEnd) -> z_end zf = ZEnd.
Proof.
  unfold zcall. intros E.
  destruct (dead st); try discriminate E.
  destruct (fin st && negb (is_finish fl))%bool; try discriminate E.
  destruct (is_bad (z_end zf) && (len (z_out zf) <? DICT_SIZE))%bool; try discriminate E.
  destruct (Nat.ltb cap (length (z_out zf) - pos st)); try discriminate E.
  destruct (z_end zf); try reflexivity; try discriminate E.
  destruct fl; [destruct (in_left st)|]; discriminate E.
Qed.

Section WithAlloc.
  Variable alloc_ok : N -> bool.

  (* if find_inner returns an object, the stream in the file ended properly *)
  Lemma L_find_ok_needs_end zf r : find_inner alloc_ok zf = Ok r -> z_end zf = ZEnd.
  Proof.
    unfold find_inner. intros E.
    destruct (zcall zf (zinit zf) HEADER_MAX_SIZE FNone) as [[st1 n] res] eqn:E1.
    destruct res; try discriminate E.
    - (* ROk: the second phase has to see the end *)
      destruct (Nat.ltb _ _); try discriminate E.
      destruct (decode_loose_header _) as [[[k size] hs]| | |]; try discriminate E.
      cbn [obind] in E.
      destruct (U64_MAX <? _); try discriminate E.
      destruct (_ <? N.of_nat n); try discriminate E.
      destruct (_ || _)%bool; try discriminate E.
      destruct (Nat.ltb _ _); try discriminate E.
      destruct (Nat.ltb _ n); try discriminate E.
      destruct (read_loop _ _ _ _ _) as [[st2 num]| | |]; try discriminate E.
      cbn [obind] in E.
      destruct (negb _); try discriminate E.
      destruct (zcall zf st2 0 FFinish) as [[st3 n3] res3] eqn:E3.
      destruct res3; try discriminate E.
      exact (zcall_streamend _ _ _ _ _ _ E3).
    - exact (zcall_streamend _ _ _ _ _ _ E1).
  Qed.

  Lemma L_truncated_is_error zf r : z_end zf = ZMore -> find_inner alloc_ok zf <> Ok r.
  Proof. intros Hm E. apply L_find_ok_needs_end in E. congruence. Qed.

  Lemma L_corrupt_is_error zf r : z_end zf = ZBad -> find_inner alloc_ok zf <> Ok r.
  Proof. intros Hm E. apply L_find_ok_needs_end in E. congruence. Qed.
End WithAlloc.
