From GixV.Base Require Import Bytes BytesFacts Outcome.
From GixV.C11 Require Import Model.
