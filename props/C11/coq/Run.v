(* C11 — transcript printer: the same observable line the Rust harness prints for a case. *)
From GixV.Base Require Import Bytes Outcome.
From GixV.C11 Require Import Model.
Local Open Scope N_scope.

Definition err_name (e : err) : bytes :=
  match e with Decode => bs "Decode" | Corrupt => bs "Corrupt" | Oom => bs "Oom" end.

Definition fp (d : bytes) : N :=
  fold_left (fun h b => N.modulo (h * 31 + b2N b + 1) 4294967291) d 7.

Definition show {A} (f : A -> bytes) (o : outcome (option A) err) : bytes :=
  match o with
  | Ok (Some a) => bs "ok:" ++ f a
  | Ok None => bs "none"
  | Err e => bs "err:" ++ err_name e
  | Panic => bs "PANIC"
  | OutOfFuel => bs "HANG"
  end.

Definition show_obj (x : kind * bytes) : bytes :=
  kind_bytes (fst x) ++ bs ":" ++ N_to_dec (len (snd x)) ++ bs ":" ++ N_to_dec (fp (snd x)).
Definition show_hdr (x : N * kind) : bytes :=
  kind_bytes (snd x) ++ bs ":" ++ N_to_dec (fst x).

Definition alloc_ok_run (n : N) : bool := n <? 4294967296.

Definition show_reads (zf zh : option zfile) : bytes :=
  bs "find=" ++ show show_obj (try_find alloc_ok_run zf) ++ bs " hdr=" ++ show show_hdr (try_header zh).

Definition kind_of_name (s : bytes) : kind :=
  match kind_from_bytes s with Some k => k | None => Blob end.

Definition zend_of_name (s : bytes) : zend :=
  if bytes_eqb s (bs "end") then ZEnd else if bytes_eqb s (bs "more") then ZMore else ZBad.

(* cases:
     w <buf|stream|typed> <kind> <declared> <data> <sha1 of the stored stream>
     raw <id> <file> <z_out> <end|more|bad> <tail 0|1> <zh_out> <end|more|bad>
     miss <id> *)
Definition run_model (fs : list bytes) : bytes :=
  let op := nth_field 0 fs in
  if bytes_eqb op (bs "w") then
    let k := kind_of_name (nth_field 2 fs) in
    let data := nth_field 4 fs in
    let declared := if bytes_eqb (nth_field 1 fs) (bs "buf") then len data else field_N 3 fs in
    match store_write (fun _ => nth_field 5 fs) (fun x => x) k declared data with
    | Ok w =>
        let zf := mkz [x78] (stored_stream k declared data) ZEnd false in
        bs "id=" ++ hex_encode (w_id w) ++ bs " path=" ++ w_dir w ++ bs "/" ++ w_name w ++ bs " " ++
        show_reads (Some zf) (Some zf)
    | Err e => bs "err:" ++ err_name e
    | Panic => bs "PANIC"
    | OutOfFuel => bs "HANG"
    end
  else if bytes_eqb op (bs "raw") then
    let file := nth_field 2 fs in
    let zf := mkz file (nth_field 3 fs) (zend_of_name (nth_field 4 fs)) (N.eqb (field_N 5 fs) 1) in
    let zh := mkz (firstn 192 file) (nth_field 6 fs) (zend_of_name (nth_field 7 fs)) false in
    show_reads (Some zf) (Some zh)
  else if bytes_eqb op (bs "miss") then show_reads None None
  else bs "?".

Definition run (fs : list bytes) : bytes :=
  match fs with
  | _mode :: rest => run_model rest
  | [] => bs "?"
  end.
