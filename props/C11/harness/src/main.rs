//! C11 harness: gix_odb::loose::Store — write/write_buf/write_stream, try_find, try_header, object_path.
//!
//! Cases
//!   w <buf|stream|typed> <kind> <declared> <data> <sha1(header(declared) ++ data)>
//!   raw <id> <file> <z_out> <end|more|bad> <tail 0|1> <zh_out> <end|more|bad>
//!   miss <id>
//! The `z_*` fields describe the file as flate2's decompressor sees it (everything that inflates from
//! it, how the stream stops, whether bytes follow the stream); `zh_*` the same for the first 192 bytes.
//! They are computed in `gen` with flate2 directly and re-derived from the file in `prop`.
use flate2::{Compress, Compression, Decompress, FlushCompress, FlushDecompress, Status};
use gix_odb::Write as _;
use gixv_common::*;
use std::io::{BufRead, BufReader, Read, Write};
use std::path::{Path, PathBuf};
use std::process::{Child, ChildStdin, ChildStdout, Command, Stdio};
use std::sync::{Mutex, OnceLock};

// ---------------------------------------------------------------- helpers

fn base_tmp() -> PathBuf {
    let shm = Path::new("/dev/shm");
    if shm.is_dir() {
        shm.to_path_buf()
    } else {
        std::env::temp_dir()
    }
}

/// A hand-made bare repository for this process: `<root>/{HEAD,refs/,objects/}`.
fn root() -> &'static PathBuf {
    static ROOT: OnceLock<PathBuf> = OnceLock::new();
    ROOT.get_or_init(|| {
        let base = base_tmp();
        // sweep what earlier (killed) runs left behind
        if let Ok(rd) = std::fs::read_dir(&base) {
            for e in rd.flatten() {
                let name = e.file_name().to_string_lossy().into_owned();
                if name.starts_with("gixv-c11-") {
                    let old = e
                        .metadata()
                        .and_then(|m| m.modified())
                        .ok()
                        .and_then(|t| t.elapsed().ok())
                        .map_or(false, |d| d.as_secs() > 3 * 3600);
                    if old {
                        let _ = std::fs::remove_dir_all(e.path());
                    }
                }
            }
        }
        let r = base.join(format!("gixv-c11-{}", std::process::id()));
        let _ = std::fs::remove_dir_all(&r);
        make_bare(&r);
        r
    })
}

fn make_bare(r: &Path) {
    std::fs::create_dir_all(r.join("objects")).unwrap();
    std::fs::create_dir_all(r.join("refs/heads")).unwrap();
    std::fs::write(r.join("HEAD"), b"ref: refs/heads/main\n").unwrap();
}

fn store() -> gix_odb::loose::Store {
    gix_odb::loose::Store::at(root().join("objects"), gix_hash::Kind::Sha1)
}

fn kind_of(name: &[u8]) -> gix_object::Kind {
    gix_object::Kind::from_bytes(name).unwrap_or(gix_object::Kind::Blob)
}

fn header(kind: &[u8], size: u64) -> Vec<u8> {
    let mut v = kind.to_vec();
    v.push(b' ');
    v.extend_from_slice(size.to_string().as_bytes());
    v.push(0);
    v
}

fn sha1(parts: &[&[u8]]) -> Vec<u8> {
    let mut h = sha1_smol::Sha1::new();
    for p in parts {
        h.update(p);
    }
    h.digest().bytes().to_vec()
}

/// where git keeps the loose object `id`, relative to the objects directory
fn rel_path(id: &[u8]) -> String {
    let h = hexs(id);
    format!("{}/{}", &h[..2], &h[2..])
}

fn fp(d: &[u8]) -> u64 {
    let mut h: u64 = 7;
    for b in d {
        h = (h * 31 + *b as u64 + 1) % 4294967291;
    }
    h
}

fn deflate(data: &[u8], level: u32) -> Vec<u8> {
    let mut c = Compress::new(Compression::new(level), true);
    let mut out = Vec::with_capacity(data.len() + data.len() / 8 + 256);
    loop {
        let st = c
            .compress_vec(&data[c.total_in() as usize..], &mut out, FlushCompress::Finish)
            .unwrap();
        if st == Status::StreamEnd {
            return out;
        }
        out.reserve(4096);
    }
}

/// Everything that inflates from `file`, how the stream stops, and whether bytes follow its end.
fn inflate_all(file: &[u8]) -> (Vec<u8>, &'static str, bool) {
    let mut d = Decompress::new(true);
    let mut out: Vec<u8> = Vec::with_capacity(file.len() * 3 + 1024);
    loop {
        if out.len() == out.capacity() {
            out.reserve(out.capacity().max(1024));
        }
        let (bi, bo) = (d.total_in(), d.total_out());
        match d.decompress_vec(&file[bi as usize..], &mut out, FlushDecompress::None) {
            Err(_) => return (out, "bad", false),
            Ok(Status::StreamEnd) => {
                let tail = (d.total_in() as usize) < file.len();
                return (out, "end", tail);
            }
            Ok(_) => {
                if d.total_in() == bi && d.total_out() == bo && out.len() < out.capacity() {
                    return (out, "more", false);
                }
            }
        }
    }
}

fn raw_case(id: &[u8], file: &[u8]) -> Case {
    let (out, end, tail) = inflate_all(file);
    let (hout, hend, _) = inflate_all(&file[..file.len().min(192)]);
    vec![
        tag("raw"),
        id.to_vec(),
        file.to_vec(),
        out,
        tag(end),
        num(tail as u8),
        hout,
        tag(hend),
    ]
}

// ---------------------------------------------------------------- generator

const KINDS: [&str; 4] = ["blob", "tree", "commit", "tag"];

fn body(rng: &mut Rng, n: usize) -> Vec<u8> {
    match rng.below(5) {
        0 => rng.bytes(n),
        1 => {
            let p = 1 + rng.below(9) as usize;
            let pat = rng.bytes(p);
            (0..n).map(|i| pat[i % p]).collect()
        }
        2 => rng.word(b"ab \n", n, n),
        3 => vec![rng.next() as u8; n],
        _ => {
            // runs of random and repeated stretches
            let mut v = Vec::with_capacity(n);
            while v.len() < n {
                let l = 1 + rng.below(300) as usize;
                if rng.chance(1, 2) {
                    v.extend(rng.bytes(l));
                } else {
                    let b = rng.next() as u8;
                    v.extend(std::iter::repeat(b).take(l));
                }
            }
            v.truncate(n);
            v
        }
    }
}

fn w_case(mode: &str, kind: &str, declared: u64, data: Vec<u8>) -> Case {
    let decl = if mode == "buf" { data.len() as u64 } else { declared };
    let id = sha1(&[&header(kind.as_bytes(), decl), &data]);
    vec![tag("w"), tag(mode), tag(kind), num(decl), data, id]
}

fn size_pick(rng: &mut Rng) -> usize {
    match rng.below(100) {
        0..=54 => rng.below(201) as usize,
        55..=69 => rng.range(40, 80) as usize,
        70..=79 => rng.range(200, 3000) as usize,
        80..=81 => (4096 + rng.range(-40, 40)) as usize,
        82 => (8192 + rng.range(-40, 40)) as usize,
        83..=84 => (32768 + rng.range(-40, 40)) as usize,
        85 => {
            if rng.chance(1, 3) {
                (65536 + rng.range(-40, 40)) as usize
            } else {
                rng.range(3000, 40000) as usize
            }
        }
        _ => rng.below(120) as usize,
    }
}

fn truncations(out: &mut Vec<Case>, id: &[u8], file: &[u8], cuts: impl Iterator<Item = usize>) {
    for cut in cuts {
        if cut <= file.len() {
            out.push(raw_case(id, &file[..file.len() - cut]));
        }
    }
}

/// objects written by real git, one spawn per compression level
fn git_written(rng: &mut Rng, count: usize) -> Vec<(Vec<u8>, Vec<u8>)> {
    let mut res = Vec::new();
    let dir = base_tmp().join(format!("gixv-c11-gen-{}-{}", std::process::id(), rng.next() % 100000));
    let _ = std::fs::remove_dir_all(&dir);
    make_bare(&dir);
    let levels = ["-1", "0", "1", "9"];
    let per = count / levels.len() + 1;
    for (li, level) in levels.iter().enumerate() {
        let mut paths = String::new();
        for i in 0..per {
            let n = if i < 12 {
                [0usize, 1, 55, 56, 57, 58, 100, 4096, 32757, 32758, 300, 301][i] + if i == 10 && li == 0 { 65225 } else { 0 }
            } else {
                size_pick(rng)
            };
            let p = dir.join(format!("in-{li}-{i}"));
            std::fs::write(&p, body(rng, n)).unwrap();
            paths.push_str(p.to_str().unwrap());
            paths.push('\n');
        }
        let child = Command::new("git")
            .arg("-c")
            .arg(format!("core.compression={level}"))
            .args(["hash-object", "-w", "--stdin-paths"])
            .env("GIT_DIR", &dir)
            .env("GIT_CONFIG_NOSYSTEM", "1")
            .env("HOME", &dir)
            .stdin(Stdio::piped())
            .stdout(Stdio::piped())
            .stderr(Stdio::null())
            .spawn();
        let Ok(mut child) = child else { continue };
        child.stdin.take().unwrap().write_all(paths.as_bytes()).unwrap();
        let mut s = String::new();
        child.stdout.take().unwrap().read_to_string(&mut s).unwrap();
        let _ = child.wait();
        for line in s.lines() {
            let id = unhex(line.trim());
            if id.len() == 20 {
                if let Ok(f) = std::fs::read(dir.join("objects").join(rel_path(&id))) {
                    res.push((id, f));
                }
            }
        }
    }
    // a tree, a commit and a tag (contents are not checked with --literally)
    for (kind, content) in [
        ("tree", &b"100644 a\0aaaaaaaaaaaaaaaaaaaa"[..]),
        ("commit", &b"tree 4b825dc642cb6eb9a060e54bf8d69288fbee4904\nauthor a <a@b> 1 +0000\ncommitter a <a@b> 1 +0000\n\nm\n"[..]),
        ("tag", &b"object 4b825dc642cb6eb9a060e54bf8d69288fbee4904\ntype tree\ntag t\ntagger a <a@b> 1 +0000\n\nm\n"[..]),
    ] {
        let p = dir.join("lit");
        std::fs::write(&p, content).unwrap();
        let o = Command::new("git")
            .args(["hash-object", "-w", "--literally", "-t", kind])
            .arg(&p)
            .env("GIT_DIR", &dir)
            .env("GIT_CONFIG_NOSYSTEM", "1")
            .env("HOME", &dir)
            .stderr(Stdio::null())
            .output();
        if let Ok(o) = o {
            let id = unhex(String::from_utf8_lossy(&o.stdout).trim());
            if id.len() == 20 {
                if let Ok(f) = std::fs::read(dir.join("objects").join(rel_path(&id))) {
                    res.push((id, f));
                }
            }
        }
    }
    let _ = std::fs::remove_dir_all(&dir);
    res
}

const CRAFTED: &[&str] = &[
    "blob 18446744073709551615\0",
    "blob 18446744073709551614\0",
    "blob 18446744073709551590\0",
    "blob 9223372036854775808\0",
    "blob 9223372036854775807\0",
    "blob 9223372036854775700\0",
    "blob 18446744073709551616\0",
    "blob 99999999999999999999999\0",
    "blob -1\0",
    "blob -0\0",
    "blob -00\0",
    "blob -\0",
    "blob +5\0",
    "blob +\0",
    "blob 05\0",
    "blob  5\0",
    "blob 5",
    "blob \0",
    "blob\0",
    "bloc 5\0",
    "blob 5 \0",
    "blob 5\n\0",
    " 5\0",
    "\0",
    "",
    "blob\x005 ",
    "tree 5\0",
    "commit 5\0",
    "tag 5\0",
    "tags 5\0",
    "BLOB 5\0",
    "blob 5\0",
    "blob 100\0",
    "blob 1\0",
    "blob 0\0",
    "blob 56\0",
    "blob 57\0",
];

fn gen(rng: &mut Rng, n: usize) -> Vec<Case> {
    let mut out: Vec<Case> = Vec::new();
    out.push(vec![tag("miss"), rng.bytes(20)]);
    // --- boundary block -------------------------------------------------------------------
    // every size 0..=70 (the 64-byte header buffer is crossed at body length 56/57 for blobs), all modes
    for len in 0..=70usize {
        let mode = ["buf", "stream", "typed"][len % 3];
        let kind = KINDS[(len / 3) % 4];
        out.push(w_case(mode, kind, len as u64, body(rng, len)));
    }
    for (i, &len) in [4095usize, 4096, 4097, 8191, 8192, 8193, 32756, 32757, 32758, 32759, 32768, 65524, 65525, 65526, 65536, 70000].iter().enumerate() {
        // the zlib writer's buffer is 32 KiB; "blob 32757\0" + 32757 bytes is exactly 32768
        for (j, mode) in ["buf", "stream", "typed"].iter().enumerate() {
            if len < 10000 || (i + j) % 3 == 0 || len == 32757 {
                out.push(w_case(mode, "blob", len as u64, body(rng, len)));
            }
        }
    }
    // incompressible data: the compressed stream itself crosses the writer's 32 KiB output buffer
    for (i, &len) in [32740usize, 32768, 32800, 40000, 66000].iter().enumerate() {
        out.push(w_case("buf", "blob", len as u64, rng.bytes(len)));
        out.push(w_case(["stream", "typed"][i % 2], "blob", len as u64, rng.bytes(len)));
    }
    // declared size differs from what is streamed
    for (decl, len) in [(5u64, 6usize), (6, 5), (0, 1), (1, 0), (100, 200), (200, 100), (60, 70), (1, 100), (32757, 32758), (70000, 69999)] {
        out.push(w_case("stream", "blob", decl, body(rng, len)));
        out.push(w_case("typed", "commit", decl, body(rng, len)));
    }
    // raw files: complete, truncated at every byte (small) / near the end (large), garbage, flips
    for &len in &[0usize, 1, 10, 55, 56, 57, 58, 100, 300] {
        for level in [0u32, 1, 6] {
            let data = body(rng, len);
            let mut full = header(b"blob", len as u64);
            full.extend_from_slice(&data);
            let id = sha1(&[&full]);
            let f = deflate(&full, level);
            out.push(raw_case(&id, &f));
            if level == 1 || len == 10 || len == 57 {
                truncations(&mut out, &id, &f, 1..=f.len());
            } else {
                truncations(&mut out, &id, &f, [1usize, 4, 5, 6, f.len() / 2].into_iter());
            }
            let mut g = f.clone();
            g.extend_from_slice(b"garbage");
            out.push(raw_case(&id, &g));
            for k in 0..f.len().min(if level == 1 { 12 } else { 3 }) {
                let mut g = f.clone();
                let i = g.len() - 1 - k;
                g[i] ^= 1 << (k % 8);
                out.push(raw_case(&id, &g));
            }
        }
    }
    for &len in &[4096usize, 32757, 32758, 65525, 70000] {
        for level in [0u32, 1] {
            if len > 65000 && level == 0 {
                continue;
            }
            let data = body(rng, len);
            let mut full = header(b"blob", len as u64);
            full.extend_from_slice(&data);
            let id = sha1(&[&full]);
            let f = deflate(&full, level);
            out.push(raw_case(&id, &f));
            truncations(&mut out, &id, &f, [1usize, 4, 5, 9, f.len() / 2, f.len() - 2].into_iter());
            let mut g = f.clone();
            if level == 1 {
                g.push(0);
            } else {
                let i = g.len() - 1;
                g[i] ^= 0x40;
            }
            out.push(raw_case(&id, &g));
        }
    }
    // crafted headers with little and with much content behind them
    for h in CRAFTED {
        for extra in [0usize, 5, 57, 100] {
            let mut full = h.as_bytes().to_vec();
            full.extend(body(rng, extra));
            let id = sha1(&[&full]);
            out.push(raw_case(&id, &deflate(&full, 1)));
        }
    }
    // files that are no zlib streams at all
    for f in [&b""[..], b"x", b"\x78", b"\x78\x01", b"\x78\x9c", b"blob 1\0a", &[0u8; 70][..]] {
        out.push(raw_case(&rng.bytes(20), f));
    }
    // written by git
    let gw = git_written(rng, 60);
    for (i, (id, f)) in gw.iter().enumerate() {
        out.push(raw_case(id, f));
        if f.len() > 3000 {
            truncations(&mut out, id, f, [1usize + i % 6].into_iter());
        } else if i % 3 == 0 {
            truncations(&mut out, id, f, [1usize, 2, 3, 4, 5, 6, 8, 13, f.len() / 3].into_iter());
        }
    }
    // --- random mixture -------------------------------------------------------------------
    while out.len() < n {
        let mut len = size_pick(rng);
        let kind = *rng.pick(&KINDS);
        let which = rng.below(20);
        if which > 8 && len > 3000 && !rng.chance(1, 3) {
            len %= 200; // raw cases carry the file and what it inflates to: keep most of them small
        }
        match which {
            0..=8 => {
                let mode = *rng.pick(&["buf", "stream", "typed"]);
                let decl = if rng.chance(1, 12) {
                    (len as i64 + rng.range(-3, 3)).max(0) as u64
                } else {
                    len as u64
                };
                out.push(w_case(mode, kind, decl, body(rng, len)));
            }
            9..=11 => {
                // complete object produced by another compressor setting
                let data = body(rng, len);
                let mut full = header(kind.as_bytes(), len as u64);
                full.extend_from_slice(&data);
                out.push(raw_case(&sha1(&[&full]), &deflate(&full, *rng.pick(&[0u32, 1, 3, 6, 9]))));
            }
            12..=16 => {
                // truncated copy
                let data = body(rng, len);
                let mut full = header(kind.as_bytes(), len as u64);
                full.extend_from_slice(&data);
                let f = deflate(&full, *rng.pick(&[0u32, 1, 6]));
                let cut = if rng.chance(2, 3) {
                    1 + rng.below(8.min(f.len() as u64)) as usize
                } else {
                    1 + rng.below(f.len() as u64) as usize
                };
                out.push(raw_case(&sha1(&[&full]), &f[..f.len() - cut]));
            }
            17 => {
                // declared size off by a little, or garbage behind the stream
                let data = body(rng, len);
                let decl = (len as i64 + rng.range(-70, 70)).max(0) as u64;
                let mut full = header(kind.as_bytes(), decl);
                full.extend_from_slice(&data);
                let mut f = deflate(&full, 1);
                if rng.chance(1, 3) {
                    let k = 1 + rng.below(5) as usize;
                    f.extend(rng.bytes(k));
                }
                out.push(raw_case(&sha1(&[&full]), &f));
            }
            18 => {
                // one flipped bit (only where the model's view of miniz' look-ahead is exact)
                let len = if (30000..36000).contains(&len) { 100 } else { len };
                let data = body(rng, len);
                let mut full = header(kind.as_bytes(), len as u64);
                full.extend_from_slice(&data);
                let mut f = deflate(&full, *rng.pick(&[0u32, 1, 6]));
                let i = rng.below(f.len() as u64) as usize;
                f[i] ^= 1 << rng.below(8);
                let c = raw_case(&sha1(&[&full]), &f);
                let d = c[3].len();
                if !(32000..34000).contains(&d) {
                    out.push(c);
                }
            }
            _ => {
                let h = *rng.pick(CRAFTED);
                let mut full = h.as_bytes().to_vec();
                full.extend(body(rng, len.min(300)));
                out.push(raw_case(&sha1(&[&full]), &deflate(&full, 1)));
            }
        }
    }
    out.truncate(n.max(1));
    out
}

// ---------------------------------------------------------------- implementation transcript

struct Obj<'a> {
    kind: gix_object::Kind,
    declared: u64,
    data: &'a [u8],
}
impl gix_object::WriteTo for Obj<'_> {
    fn write_to(&self, out: &mut dyn std::io::Write) -> std::io::Result<()> {
        // in two pieces, as typed objects write field by field
        let (a, b) = self.data.split_at(self.data.len() / 2);
        out.write_all(a)?;
        out.write_all(b)
    }
    fn kind(&self) -> gix_object::Kind {
        self.kind
    }
    fn size(&self) -> u64 {
        self.declared
    }
}

/// a reader that hands out small and uneven pieces
struct Chunky<'a>(&'a [u8], usize);
impl Read for Chunky<'_> {
    fn read(&mut self, buf: &mut [u8]) -> std::io::Result<usize> {
        self.1 = self.1 % 97 + 1;
        let n = self.0.len().min(buf.len()).min(self.1 * 13);
        buf[..n].copy_from_slice(&self.0[..n]);
        self.0 = &self.0[n..];
        Ok(n)
    }
}

fn find_class(e: &gix_odb::loose::find::Error) -> &'static str {
    use gix_odb::loose::find::Error::*;
    match e {
        DecompressFile { .. } | SizeMismatch { .. } => "Corrupt",
        Decode(_) => "Decode",
        OutOfMemory { .. } => "Oom",
        Io { action, .. } => {
            if *action == "deflate" {
                "Corrupt"
            } else {
                "Io"
            }
        }
    }
}

type Found = Result<Option<(gix_object::Kind, Vec<u8>)>, &'static str>;
fn do_find(st: &gix_odb::loose::Store, id: &gix_hash::oid) -> Found {
    let mut buf = vec![0xAAu8; 7]; // stale content must not matter
    match st.try_find(id, &mut buf) {
        Ok(Some(d)) => Ok(Some((d.kind, d.data.to_vec()))),
        Ok(None) => Ok(None),
        Err(e) => Err(find_class(&e)),
    }
}
type Hdr = Result<Option<(u64, gix_object::Kind)>, &'static str>;
fn do_header(st: &gix_odb::loose::Store, id: &gix_hash::oid) -> Hdr {
    match st.try_header(id) {
        Ok(x) => Ok(x),
        Err(e) => Err(find_class(&e)),
    }
}

fn show_reads(f: &Found, h: &Hdr) -> String {
    let fs = match f {
        Ok(Some((k, d))) => format!("ok:{}:{}:{}", k, d.len(), fp(d)),
        Ok(None) => "none".into(),
        Err(c) => format!("err:{c}"),
    };
    let hs = match h {
        Ok(Some((s, k))) => format!("ok:{k}:{s}"),
        Ok(None) => "none".into(),
        Err(c) => format!("err:{c}"),
    };
    format!("find={fs} hdr={hs}")
}

fn do_write(st: &gix_odb::loose::Store, c: &Case) -> Result<gix_hash::ObjectId, String> {
    let kind = kind_of(f_str(c, 2));
    let data = f_str(c, 4);
    let declared = f_u64(c, 3);
    let r = match f_str(c, 1) {
        b"buf" => st.write_buf(kind, data),
        b"stream" => st.write_stream(kind, declared, &mut Chunky(data, declared as usize)),
        _ => st.write(&Obj { kind, declared, data }),
    };
    r.map_err(|e| format!("{e}"))
}

/// remove an object file and its (then empty) fan-out directory
fn unplace(p: &Path) {
    let _ = std::fs::remove_file(p);
    if let Some(d) = p.parent() {
        let _ = std::fs::remove_dir(d);
    }
}

fn place(id: &[u8], file: &[u8]) -> PathBuf {
    let p = root().join("objects").join(rel_path(id));
    std::fs::create_dir_all(p.parent().unwrap()).unwrap();
    let _ = std::fs::remove_file(&p);
    std::fs::write(&p, file).unwrap();
    p
}

fn imp(c: &Case) -> String {
    let st = store();
    match f_str(c, 0) {
        b"w" => match do_write(&st, c) {
            Ok(id) => {
                let p = st.object_path(&id);
                let rel = p
                    .strip_prefix(st.path())
                    .map(|r| r.to_string_lossy().replace('\\', "/"))
                    .unwrap_or_else(|_| "?".into());
                let s = format!("id={} path={} {}", id, rel, show_reads(&do_find(&st, &id), &do_header(&st, &id)));
                unplace(&p);
                s
            }
            Err(_) => "err:Write".into(),
        },
        b"raw" => {
            let id = gix_hash::ObjectId::from_bytes_or_panic(f_str(c, 1));
            let p = place(id.as_bytes(), f_str(c, 2));
            let s = show_reads(&do_find(&st, &id), &do_header(&st, &id));
            unplace(&p);
            s
        }
        b"miss" => {
            let id = gix_hash::ObjectId::from_bytes_or_panic(f_str(c, 1));
            let _ = std::fs::remove_file(root().join("objects").join(rel_path(id.as_bytes())));
            show_reads(&do_find(&st, &id), &do_header(&st, &id))
        }
        _ => "?".into(),
    }
}

// ---------------------------------------------------------------- git as oracle

struct GitBatch {
    child: Child,
    stdin: ChildStdin,
    stdout: BufReader<ChildStdout>,
}
static GIT: Mutex<Option<GitBatch>> = Mutex::new(None);

/// `git cat-file --batch` on the process' repository: Some((kind, data)) or None when git does not have / cannot read it
fn git_cat(id_hex: &str) -> Option<(String, Vec<u8>)> {
    let mut g = GIT.lock().unwrap_or_else(|e| e.into_inner());
    if g.is_none() {
        let mut child = Command::new("git")
            .args(["cat-file", "--batch"])
            .env("GIT_DIR", root())
            .env("GIT_CONFIG_NOSYSTEM", "1")
            .env("HOME", root())
            .stdin(Stdio::piped())
            .stdout(Stdio::piped())
            .stderr(Stdio::null())
            .spawn()
            .ok()?;
        let stdin = child.stdin.take()?;
        let stdout = BufReader::new(child.stdout.take()?);
        *g = Some(GitBatch { child, stdin, stdout });
    }
    let res = (|| -> Option<Option<(String, Vec<u8>)>> {
        let b = g.as_mut()?;
        b.stdin.write_all(format!("{id_hex}\n").as_bytes()).ok()?;
        b.stdin.flush().ok()?;
        let mut line = String::new();
        if b.stdout.read_line(&mut line).ok()? == 0 {
            return None;
        }
        let parts: Vec<&str> = line.trim_end().split(' ').collect();
        if parts[0] != id_hex {
            return None; // out of step: start a new child
        }
        if parts.len() != 3 {
            return Some(None); // "<id> missing"
        }
        let n: usize = parts[2].parse().ok()?;
        let mut data = vec![0u8; n + 1];
        b.stdout.read_exact(&mut data).ok()?;
        data.pop();
        Some(Some((parts[1].to_string(), data)))
    })();
    match res {
        Some(r) => r,
        None => {
            // the child died (git aborts on some corrupt objects): start afresh next time
            if let Some(mut b) = g.take() {
                let _ = b.child.kill();
                let _ = b.child.wait();
            }
            None
        }
    }
}

fn git_fsck_ok() -> bool {
    Command::new("git")
        .args(["fsck", "--no-progress", "--no-dangling"])
        .env("GIT_DIR", root())
        .env("GIT_CONFIG_NOSYSTEM", "1")
        .env("HOME", root())
        .stdout(Stdio::null())
        .stderr(Stdio::null())
        .status()
        .map_or(false, |s| s.success())
}

/// git's own reading of "<kind> <size>\0": Some((kind, size, header length))
fn git_parse_header(s: &[u8]) -> Option<(&[u8], u64, usize)> {
    let sp = s.iter().position(|b| *b == b' ')?;
    let kind = &s[..sp];
    if !KINDS.iter().any(|k| k.as_bytes() == kind) {
        return None;
    }
    let nul = s.iter().position(|b| *b == 0)?;
    if nul < sp + 2 {
        return None;
    }
    let digits = &s[sp + 1..nul];
    if !digits.iter().all(u8::is_ascii_digit) || (digits.len() > 1 && digits[0] == b'0') {
        return None;
    }
    let size: u64 = std::str::from_utf8(digits).ok()?.parse().ok()?;
    Some((kind, size, nul + 1))
}

// ---------------------------------------------------------------- the property

fn prop(c: &Case) -> Verdict {
    let st = store();
    match f_str(c, 0) {
        b"w" => {
            let kind_name = f_str(c, 2);
            let data = f_str(c, 4);
            let declared = f_u64(c, 3);
            let id = match do_write(&st, c) {
                Ok(id) => id,
                Err(e) => return Verdict::fail("write-failed", e),
            };
            let hdr = header(kind_name, declared);
            let want_id = sha1(&[&hdr, data]);
            let p = root().join("objects").join(rel_path(&want_id));
            let v = (|| {
                if id.as_bytes() != want_id.as_slice() {
                    return Verdict::fail("id-is-not-gits", format!("{id}"));
                }
                if want_id.as_slice() != f_str(c, 5) {
                    return Verdict::fail("case-oracle", "sha field of the case is wrong");
                }
                let file = match std::fs::read(&p) {
                    Ok(f) => f,
                    Err(_) => return Verdict::fail("not-at-git-path", rel_path(&want_id)),
                };
                if st.object_path(&id) != p || !st.contains(&id) {
                    return Verdict::fail("object-path", format!("{:?}", st.object_path(&id)));
                }
                let (out, end, tail) = inflate_all(&file);
                if end != "end" || tail || out[..hdr.len().min(out.len())] != hdr[..] || &out[hdr.len().min(out.len())..] != data {
                    return Verdict::fail("file-is-not-the-object", format!("{end} {tail} {}", out.len()));
                }
                let found = do_find(&st, &id);
                let head = do_header(&st, &id);
                let consistent = declared == data.len() as u64;
                if consistent {
                    // (asked twice: the first answer is lost when the child had to be restarted)
                    let git = git_cat(&hexs(&want_id)).or_else(|| git_cat(&hexs(&want_id)));
                    let kind = kind_of(kind_name);
                    if found != Ok(Some((kind, data.to_vec()))) {
                        return Verdict::fail("readback-differs", show_reads(&found, &head));
                    }
                    if head != Ok(Some((declared, kind))) {
                        return Verdict::fail("header-differs", show_reads(&found, &head));
                    }
                    match git {
                        Some((k, d)) if k.as_bytes() == kind_name && d == data => {}
                        other => {
                            return Verdict::fail(
                                "git-reads-differently",
                                format!("{:?}", other.map(|(k, d)| (k, d.len()))),
                            )
                        }
                    }
                    if kind_name == b"blob" && fp(data) % 48 == 0 && !git_fsck_ok() {
                        return Verdict::fail("git-fsck", hexs(&want_id));
                    }
                    Verdict::ok(true, format!("w-{}", String::from_utf8_lossy(f_str(c, 1))))
                } else {
                    // the caller lied about the size: what is stored is no object; nobody may return it as one
                    if let Ok(Some(_)) = found {
                        return Verdict::fail("inconsistent-object-read", show_reads(&found, &head));
                    }
                    Verdict::ok(true, "w-wrong-size")
                }
            })();
            unplace(&p);
            unplace(&st.object_path(&id));
            v
        }
        b"raw" => {
            let idb = f_str(c, 1);
            let id = gix_hash::ObjectId::from_bytes_or_panic(idb);
            let file = f_str(c, 2);
            // the case's description of the file must be what flate2 says about it (contract check)
            let (out, end, tail) = inflate_all(file);
            let (hout, hend, _) = inflate_all(&file[..file.len().min(192)]);
            if out != f_str(c, 3) || end.as_bytes() != f_str(c, 4) || tail != (f_u64(c, 5) == 1) || hout != f_str(c, 6) || hend.as_bytes() != f_str(c, 7) {
                return Verdict::fail("case-oracle", "z fields do not describe the file");
            }
            let p = place(idb, file);
            let found = do_find(&st, &id);
            let head = do_header(&st, &id);
            let v = (|| {
                let shown = show_reads(&found, &head);
                match end {
                    "more" => {
                        if let Ok(Some(_)) = found {
                            return Verdict::fail("truncated-accepted", shown);
                        }
                        if found == Ok(None) {
                            return Verdict::fail("truncated-is-missing", shown);
                        }
                        Verdict::ok(!out.is_empty(), "raw-truncated")
                    }
                    "bad" => {
                        if !matches!(found, Err(_)) {
                            return Verdict::fail("corrupt-accepted", shown);
                        }
                        Verdict::ok(true, "raw-corrupt")
                    }
                    _ => {
                        let valid = git_parse_header(&out).filter(|(_, size, hs)| *size == (out.len() - hs) as u64);
                        match valid {
                            Some((kind_name, size, hs)) if !tail => {
                                let kind = kind_of(kind_name);
                                if found != Ok(Some((kind, out[hs..].to_vec()))) {
                                    return Verdict::fail("valid-object-misread", shown);
                                }
                                if head != Ok(Some((size, kind))) {
                                    return Verdict::fail("valid-header-misread", shown);
                                }
                                if sha1(&[&out]) == idb {
                                    match git_cat(&hexs(idb)).or_else(|| git_cat(&hexs(idb))) {
                                        Some((k, d)) if k.as_bytes() == kind_name && d == out[hs..] => {}
                                        other => {
                                            return Verdict::fail(
                                                "git-reads-differently",
                                                format!("{:?}", other.map(|(k, d)| (k, d.len()))),
                                            )
                                        }
                                    }
                                }
                                Verdict::ok(true, "raw-valid")
                            }
                            _ => {
                                // not an object for git; if something is returned it has to be the whole content
                                if let Ok(Some((_, d))) = &found {
                                    let nul = out.iter().position(|b| *b == 0).map_or(out.len(), |i| i + 1);
                                    if d[..] != out[nul..] {
                                        return Verdict::fail("partial-content", shown);
                                    }
                                }
                                Verdict::ok(true, if tail { "raw-garbage" } else { "raw-crafted" })
                            }
                        }
                    }
                }
            })();
            unplace(&p);
            v
        }
        b"miss" => {
            let id = gix_hash::ObjectId::from_bytes_or_panic(f_str(c, 1));
            if do_find(&st, &id) == Ok(None) && do_header(&st, &id) == Ok(None) && !st.contains(&id) {
                Verdict::ok(false, "miss")
            } else {
                Verdict::fail("missing-object-found", "")
            }
        }
        _ => Verdict::ok(false, "?"),
    }
}

fn main() {
    main_with(Harness { gen, imp, prop, git: None, deadline: std::time::Duration::from_secs(180) });
}
