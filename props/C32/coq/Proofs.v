(* C32 — lemmas about the model (Model.v) and git's algorithm (Spec.v). *)
From Coq Require Import Lia Arith.
From GixV.Base Require Import Bytes BytesFacts Outcome.
From GixV.C32 Require Import Model Spec.

(* ---- byte strings ---------------------------------------------------------------------------- *)

Lemma bytes_eqb_refl a : bytes_eqb a a = true.
Proof. apply bytes_eqb_eq. reflexivity. Qed.

Lemma bytes_eqb_sym a b : bytes_eqb a b = bytes_eqb b a.
Proof.
  destruct (bytes_eqb a b) eqn:E1, (bytes_eqb b a) eqn:E2; try reflexivity.
  - apply bytes_eqb_eq in E1. subst. rewrite bytes_eqb_refl in E2. discriminate.
  - apply bytes_eqb_eq in E2. subst. rewrite bytes_eqb_refl in E1. discriminate.
Qed.

Lemma bytes_eqb_neq a b : bytes_eqb a b = false <-> a <> b.
Proof.
  split.
  - intros H E. subst. rewrite bytes_eqb_refl in H. discriminate.
  - intros H. destruct (bytes_eqb a b) eqn:E; [|reflexivity]. apply bytes_eqb_eq in E. contradiction.
Qed.

Lemma find_byte_index_of b s : find_byte b s = index_of b s.
Proof.
  induction s as [|x s IH]; [reflexivity|]. cbn [find_byte index_of].
  destruct (beqb x b); [reflexivity|]. rewrite IH. destruct (index_of b s); reflexivity.
Qed.

Lemma starts_with_is_prefix p : forall s, starts_with p s = is_prefix p s.
Proof.
  induction p as [|x p IH]; intros [|y s]; cbn [starts_with is_prefix]; try reflexivity;
    try (rewrite IH; reflexivity).
Qed.

Lemma is_prefix_firstn p : forall s,
  is_prefix p s = Nat.leb (length p) (length s) && bytes_eqb (firstn (length p) s) p.
Proof.
  induction p as [|x p IH]; intros [|y s]; cbn [is_prefix length firstn Nat.leb bytes_eqb andb]; try reflexivity.
  rewrite IH. destruct (beqb x y) eqn:E.
  - apply beqb_eq in E. subst. replace (beqb y y) with true by (symmetry; apply beqb_eq; reflexivity).
    reflexivity.
  - replace (beqb y x) with false.
    + cbn [andb]. rewrite Bool.andb_false_r. reflexivity.
    + symmetry. destruct (beqb y x) eqn:E2; [|reflexivity]. apply beqb_eq in E2. subst.
      assert (beqb x x = true) by (apply beqb_eq; reflexivity). congruence.
Qed.

Lemma index_of_lt b s n : index_of b s = Some n -> (n < length s)%nat.
Proof.
  revert n. induction s as [|x s IH]; intros n H; cbn [index_of] in H; [discriminate|].
  destruct (beqb x b).
  - injection H as <-. cbn [length]. lia.
  - destruct (index_of b s) eqn:E; [|discriminate]. injection H as <-. specialize (IH _ eq_refl).
    cbn [length]. lia.
Qed.

Lemma index_of_In b s : In b s -> exists n, index_of b s = Some n.
Proof.
  induction s as [|x s IH]; intros H; [destruct H|]. cbn [index_of].
  destruct (beqb x b) eqn:E; [eexists; reflexivity|].
  destruct H as [H|H].
  - subst. assert (beqb b b = true) by (apply beqb_eq; reflexivity). congruence.
  - destruct (IH H) as [n ->]. eexists; reflexivity.
Qed.

Lemma index_of_Some_In b s n : index_of b s = Some n -> In b s.
Proof.
  revert n. induction s as [|x s IH]; intros n H; cbn [index_of] in H; [discriminate|].
  destruct (beqb x b) eqn:E.
  - apply beqb_eq in E. left. exact E.
  - destruct (index_of b s) eqn:E2; [|discriminate]. right. eapply IH. reflexivity.
Qed.

Lemma index_of_None_not_In b s : index_of b s = None -> ~ In b s.
Proof.
  intros H HI. destruct (index_of_In _ _ HI) as [n Hn]. congruence.
Qed.

(* ---- Needle::from --------------------------------------------------------------------------- *)

Definition has_star (s : bytes) : bool := match index_of x2a s with Some _ => true | None => false end.

Lemma needle_of_glob v n : index_of x2a v = Some n -> needle_of v = Glob v n.
Proof. intros H. unfold needle_of, c_star. rewrite find_byte_index_of, H. reflexivity. Qed.

Lemma needle_of_noglob v : index_of x2a v = None ->
  needle_of v = FullName v \/ needle_of v = PartialName v \/ exists id, needle_of v = Object id.
Proof.
  intros H. unfold needle_of, c_star. rewrite find_byte_index_of, H.
  destruct (starts_with refs_prefix v); [left; reflexivity|].
  destruct (oid_from_hex v); [right; right; eexists; reflexivity|right; left; reflexivity].
Qed.

(* ---- glob matching is git's match_name_with_pattern ------------------------------------------ *)

Definition mk_item (name : bytes) (t : bytes) (o : option bytes) : item :=
  {| iname := name; itarget := t; iobject := o |}.

Lemma glob_matches_git key klen it :
  index_of x2a key = Some klen ->
  needle_matches (Glob key klen) it =
    Ok (match git_match_name_with_pattern key (iname it) None with
        | Some _ => MGlobRange klen (length (iname it) - length (skipn (S klen) key))
        | None => MNone
        end).
Proof.
  intros Hk. pose proof (index_of_lt _ _ _ Hk) as Hlt.
  unfold needle_matches, git_match_name_with_pattern. rewrite Hk.
  set (name := iname it).
  unfold get_to. rewrite is_prefix_firstn.
  rewrite firstn_length. rewrite (Nat.min_l klen (length key)) by lia.
  destruct (Nat.leb klen (length name)) eqn:E1; cbn [andb]; [|reflexivity].
  unfold slice_to. replace (Nat.leb klen (length key)) with true by (symmetry; apply Nat.leb_le; lia).
  cbn [obind].
  destruct (bytes_eqb (firstn klen name) (firstn klen key)) eqn:E2; cbn [negb andb]; [|reflexivity].
  unfold slice_from. replace (Nat.leb (klen + 1) (length key)) with true by (symmetry; apply Nat.leb_le; lia).
  cbn [obind]. replace (klen + 1)%nat with (S klen) by lia.
  set (tail := skipn (S klen) key).
  destruct (Nat.leb (klen + length tail) (length name)) eqn:E3.
  - apply Nat.leb_le in E3.
    replace (Nat.ltb (length name) (klen + length tail)) with false by (symmetry; apply Nat.ltb_ge; lia).
    unfold ends_with. replace (Nat.leb (length tail) (length name)) with true by (symmetry; apply Nat.leb_le; lia).
    cbn [andb].
    destruct (bytes_eqb (skipn (length name - length tail) name) tail); cbn [negb]; [|reflexivity].
    replace (Nat.ltb (length name) (length tail)) with false by (symmetry; apply Nat.ltb_ge; lia).
    reflexivity.
  - apply Nat.leb_gt in E3.
    replace (Nat.ltb (length name) (klen + length tail)) with true by (symmetry; apply Nat.ltb_lt; lia).
    reflexivity.
Qed.

Lemma glob_replace_git key klen v vlen it :
  index_of x2a key = Some klen -> index_of x2a v = Some vlen ->
  matches_lhs {| lhs := Some (Glob key klen); rhs := Some (Glob v vlen) |} it =
    Ok (match git_match_name_with_pattern key (iname it) (Some v) with
        | Some (Some d) => (true, Some d)
        | _ => (false, None)
        end).
Proof.
  intros Hk Hv. pose proof (index_of_lt _ _ _ Hk) as Hlt. pose proof (index_of_lt _ _ _ Hv) as Hvlt.
  unfold matches_lhs. cbn [lhs rhs]. rewrite (glob_matches_git _ _ _ Hk). cbn [obind].
  unfold git_match_name_with_pattern. rewrite Hk, Hv.
  set (name := iname it). set (tail := skipn (S klen) key).
  destruct (is_prefix (firstn klen key) name && Nat.leb (klen + length tail) (length name) &&
            bytes_eqb (skipn (length name - length tail) name) tail) eqn:E; [|reflexivity].
  apply Bool.andb_true_iff in E. destruct E as [E _]. apply Bool.andb_true_iff in E. destruct E as [_ E].
  apply Nat.leb_le in E.
  unfold into_match_outcome, to_bstr_replace.
  replace (Nat.eqb (length v + (length name - length tail - klen)) 0) with false
    by (symmetry; apply Nat.eqb_neq; lia).
  unfold slice_to, slice_range, slice_from.
  replace (Nat.leb vlen (length v)) with true by (symmetry; apply Nat.leb_le; lia).
  replace (Nat.leb (vlen + 1) (length v)) with true by (symmetry; apply Nat.leb_le; lia).
  fold name.
  replace (Nat.leb klen (length name - length tail)) with true by (symmetry; apply Nat.leb_le; lia).
  replace (Nat.leb (length name - length tail) (length name)) with true by (symmetry; apply Nat.leb_le; lia).
  cbn [andb obind]. replace (vlen + 1)%nat with (S vlen) by lia. reflexivity.
Qed.

Lemma glob_only_git key klen it :
  index_of x2a key = Some klen ->
  matches_lhs {| lhs := Some (Glob key klen); rhs := None |} it =
    Ok (match git_match_name_with_pattern key (iname it) None with Some _ => true | None => false end, None).
Proof.
  intros Hk. unfold matches_lhs. cbn [lhs rhs]. rewrite (glob_matches_git _ _ _ Hk). cbn [obind].
  destruct (git_match_name_with_pattern key (iname it) None); reflexivity.
Qed.

Lemma L_glob_is_git key value name t o :
  In x2a key -> In x2a value ->
  matches_lhs {| lhs := Some (needle_of key); rhs := Some (needle_of value) |} (mk_item name t o) =
    Ok (match git_match_name_with_pattern key name (Some value) with
        | Some (Some d) => (true, Some d)
        | _ => (false, None)
        end).
Proof.
  intros Hk Hv. destruct (index_of_In _ _ Hk) as [klen Hk']. destruct (index_of_In _ _ Hv) as [vlen Hv'].
  rewrite (needle_of_glob _ _ Hk'), (needle_of_glob _ _ Hv').
  apply (glob_replace_git key klen value vlen (mk_item name t o) Hk' Hv').
Qed.

Lemma L_glob_is_git_nodst key name t o :
  In x2a key ->
  matches_lhs {| lhs := Some (needle_of key); rhs := None |} (mk_item name t o) =
    Ok (match git_match_name_with_pattern key name None with Some _ => true | None => false end, None).
Proof.
  intros Hk. destruct (index_of_In _ _ Hk) as [klen Hk'].
  rewrite (needle_of_glob _ _ Hk'). apply (glob_only_git key klen (mk_item name t o) Hk').
Qed.
