(* C32 — lemmas about the model (Model.v) and git's algorithm (Spec.v). *)
From Coq Require Import Lia Arith.
From GixV.Base Require Import Bytes BytesFacts Outcome.
From GixV.C32 Require Import Model Spec.

(* ---- byte strings ---------------------------------------------------------------------------- *)

Lemma bytes_eqb_refl a : bytes_eqb a a = true.
Proof. apply bytes_eqb_eq. reflexivity. Qed.

Lemma bytes_eqb_sym a b : bytes_eqb a b = bytes_eqb b a.
Proof.
  destruct (bytes_eqb a b) eqn:E1, (bytes_eqb b a) eqn:E2; try reflexivity.
  - apply bytes_eqb_eq in E1. subst. rewrite bytes_eqb_refl in E2. discriminate.
  - apply bytes_eqb_eq in E2. subst. rewrite bytes_eqb_refl in E1. discriminate.
Qed.

Lemma bytes_eqb_neq a b : bytes_eqb a b = false <-> a <> b.
Proof.
  split.
  - intros H E. subst. rewrite bytes_eqb_refl in H. discriminate.
  - intros H. destruct (bytes_eqb a b) eqn:E; [|reflexivity]. apply bytes_eqb_eq in E. contradiction.
Qed.

Lemma find_byte_index_of b s : find_byte b s = index_of b s.
Proof.
  induction s as [|x s IH]; [reflexivity|]. cbn [find_byte index_of].
  destruct (beqb x b); [reflexivity|]. rewrite IH. destruct (index_of b s); reflexivity.
Qed.

Lemma starts_with_is_prefix p : forall s, starts_with p s = is_prefix p s.
Proof.
  induction p as [|x p IH]; intros [|y s]; cbn [starts_with is_prefix]; try reflexivity;
    try (rewrite IH; reflexivity).
Qed.

Lemma is_prefix_firstn p : forall s,
  is_prefix p s = Nat.leb (length p) (length s) && bytes_eqb (firstn (length p) s) p.
Proof.
  induction p as [|x p IH]; intros [|y s]; cbn [is_prefix length firstn Nat.leb bytes_eqb andb]; try reflexivity.
  rewrite IH. destruct (beqb x y) eqn:E.
  - apply beqb_eq in E. subst. replace (beqb y y) with true by (symmetry; apply beqb_eq; reflexivity).
    reflexivity.
  - replace (beqb y x) with false.
    + cbn [andb]. rewrite Bool.andb_false_r. reflexivity.
    + symmetry. destruct (beqb y x) eqn:E2; [|reflexivity]. apply beqb_eq in E2. subst.
      assert (beqb x x = true) by (apply beqb_eq; reflexivity). congruence.
Qed.

Lemma index_of_lt b s n : index_of b s = Some n -> (n < length s)%nat.
Proof.
  revert n. induction s as [|x s IH]; intros n H; cbn [index_of] in H; [discriminate|].
  destruct (beqb x b).
  - injection H as <-. cbn [length]. lia.
  - destruct (index_of b s) eqn:E; [|discriminate]. injection H as <-. specialize (IH _ eq_refl).
    cbn [length]. lia.
Qed.

Lemma index_of_In b s : In b s -> exists n, index_of b s = Some n.
Proof.
  induction s as [|x s IH]; intros H; [destruct H|]. cbn [index_of].
  destruct (beqb x b) eqn:E; [eexists; reflexivity|].
  destruct H as [H|H].
  - subst. assert (beqb b b = true) by (apply beqb_eq; reflexivity). congruence.
  - destruct (IH H) as [n ->]. eexists; reflexivity.
Qed.

Lemma index_of_Some_In b s n : index_of b s = Some n -> In b s.
Proof.
  revert n. induction s as [|x s IH]; intros n H; cbn [index_of] in H; [discriminate|].
  destruct (beqb x b) eqn:E.
  - apply beqb_eq in E. left. exact E.
  - destruct (index_of b s) eqn:E2; [|discriminate]. right. eapply IH. reflexivity.
Qed.

Lemma index_of_None_not_In b s : index_of b s = None -> ~ In b s.
Proof.
  intros H HI. destruct (index_of_In _ _ HI) as [n Hn]. congruence.
Qed.

(* ---- Needle::from --------------------------------------------------------------------------- *)

Definition has_star (s : bytes) : bool := match index_of x2a s with Some _ => true | None => false end.

Lemma needle_of_glob v n : index_of x2a v = Some n -> needle_of v = Glob v n.
Proof. intros H. unfold needle_of, c_star. rewrite find_byte_index_of, H. reflexivity. Qed.

Lemma needle_of_noglob v : index_of x2a v = None ->
  needle_of v = FullName v \/ needle_of v = PartialName v \/ exists id, needle_of v = Object id.
Proof.
  intros H. unfold needle_of, c_star. rewrite find_byte_index_of, H.
  destruct (starts_with refs_prefix v); [left; reflexivity|].
  destruct (oid_from_hex v); [right; right; eexists; reflexivity|right; left; reflexivity].
Qed.

(* ---- glob matching is git's match_name_with_pattern ------------------------------------------ *)

Definition mk_item (name : bytes) (t : bytes) (o : option bytes) : item :=
  {| iname := name; itarget := t; iobject := o |}.

Lemma glob_matches_git key klen it :
  index_of x2a key = Some klen ->
  needle_matches (Glob key klen) it =
    Ok (match git_match_name_with_pattern key (iname it) None with
        | Some _ => MGlobRange klen (length (iname it) - length (skipn (S klen) key))
        | None => MNone
        end).
Proof.
  intros Hk. pose proof (index_of_lt _ _ _ Hk) as Hlt.
  unfold needle_matches, git_match_name_with_pattern. rewrite Hk.
  set (name := iname it).
  unfold get_to. rewrite is_prefix_firstn.
  rewrite firstn_length. rewrite (Nat.min_l klen (length key)) by lia.
  destruct (Nat.leb klen (length name)) eqn:E1; cbn [andb]; [|reflexivity].
  unfold slice_to. replace (Nat.leb klen (length key)) with true by (symmetry; apply Nat.leb_le; lia).
  cbn [obind].
  destruct (bytes_eqb (firstn klen name) (firstn klen key)) eqn:E2; cbn [negb andb]; [|reflexivity].
  unfold slice_from. replace (Nat.leb (klen + 1) (length key)) with true by (symmetry; apply Nat.leb_le; lia).
  cbn [obind]. replace (klen + 1)%nat with (S klen) by lia.
  set (tail := skipn (S klen) key).
  destruct (Nat.leb (klen + length tail) (length name)) eqn:E3.
  - apply Nat.leb_le in E3.
    replace (Nat.ltb (length name) (klen + length tail)) with false by (symmetry; apply Nat.ltb_ge; lia).
    unfold ends_with. replace (Nat.leb (length tail) (length name)) with true by (symmetry; apply Nat.leb_le; lia).
    cbn [andb].
    destruct (bytes_eqb (skipn (length name - length tail) name) tail); cbn [negb]; [|reflexivity].
    replace (Nat.ltb (length name) (length tail)) with false by (symmetry; apply Nat.ltb_ge; lia).
    reflexivity.
  - apply Nat.leb_gt in E3.
    replace (Nat.ltb (length name) (klen + length tail)) with true by (symmetry; apply Nat.ltb_lt; lia).
    reflexivity.
Qed.

Lemma glob_replace_git key klen v vlen it :
  index_of x2a key = Some klen -> index_of x2a v = Some vlen ->
  matches_lhs {| lhs := Some (Glob key klen); rhs := Some (Glob v vlen) |} it =
    Ok (match git_match_name_with_pattern key (iname it) (Some v) with
        | Some (Some d) => (true, Some d)
        | _ => (false, None)
        end).
Proof.
  intros Hk Hv. pose proof (index_of_lt _ _ _ Hk) as Hlt. pose proof (index_of_lt _ _ _ Hv) as Hvlt.
  unfold matches_lhs. cbn [lhs rhs]. rewrite (glob_matches_git _ _ _ Hk). cbn [obind].
  unfold git_match_name_with_pattern. rewrite Hk, Hv.
  set (name := iname it). set (tail := skipn (S klen) key).
  destruct (is_prefix (firstn klen key) name && Nat.leb (klen + length tail) (length name) &&
            bytes_eqb (skipn (length name - length tail) name) tail) eqn:E; [|reflexivity].
  apply Bool.andb_true_iff in E. destruct E as [E _]. apply Bool.andb_true_iff in E. destruct E as [_ E].
  apply Nat.leb_le in E.
  unfold into_match_outcome, to_bstr_replace.
  replace (Nat.eqb (length v + (length name - length tail - klen)) 0) with false
    by (symmetry; apply Nat.eqb_neq; lia).
  unfold slice_to, slice_range, slice_from.
  replace (Nat.leb vlen (length v)) with true by (symmetry; apply Nat.leb_le; lia).
  replace (Nat.leb (vlen + 1) (length v)) with true by (symmetry; apply Nat.leb_le; lia).
  fold name.
  replace (Nat.leb klen (length name - length tail)) with true by (symmetry; apply Nat.leb_le; lia).
  replace (Nat.leb (length name - length tail) (length name)) with true by (symmetry; apply Nat.leb_le; lia).
  cbn [andb obind]. replace (vlen + 1)%nat with (S vlen) by lia. reflexivity.
Qed.

Lemma glob_only_git key klen it :
  index_of x2a key = Some klen ->
  matches_lhs {| lhs := Some (Glob key klen); rhs := None |} it =
    Ok (match git_match_name_with_pattern key (iname it) None with Some _ => true | None => false end, None).
Proof.
  intros Hk. unfold matches_lhs. cbn [lhs rhs]. rewrite (glob_matches_git _ _ _ Hk). cbn [obind].
  destruct (git_match_name_with_pattern key (iname it) None); reflexivity.
Qed.

Lemma L_glob_is_git key value name t o :
  In x2a key -> In x2a value ->
  matches_lhs {| lhs := Some (needle_of key); rhs := Some (needle_of value) |} (mk_item name t o) =
    Ok (match git_match_name_with_pattern key name (Some value) with
        | Some (Some d) => (true, Some d)
        | _ => (false, None)
        end).
Proof.
  intros Hk Hv. destruct (index_of_In _ _ Hk) as [klen Hk']. destruct (index_of_In _ _ Hv) as [vlen Hv'].
  rewrite (needle_of_glob _ _ Hk'), (needle_of_glob _ _ Hv').
  apply (glob_replace_git key klen value vlen (mk_item name t o) Hk' Hv').
Qed.

Lemma L_glob_is_git_nodst key name t o :
  In x2a key ->
  matches_lhs {| lhs := Some (needle_of key); rhs := None |} (mk_item name t o) =
    Ok (match git_match_name_with_pattern key name None with Some _ => true | None => false end, None).
Proof.
  intros Hk. destruct (index_of_In _ _ Hk) as [klen Hk'].
  rewrite (needle_of_glob _ _ Hk'). apply (glob_only_git key klen (mk_item name t o) Hk').
Qed.

(* ---- matching never panics -------------------------------------------------------------------- *)

(* what fetch-spec parsing guarantees and matching needs: source and destination both have a '*' or neither *)
Definition wf_spec (s : rspec) : Prop :=
  match ssrc s, sdst s with
  | Some a, Some d => has_star a = has_star d
  | _, _ => True
  end.

Definition is_glob (n : needle) : bool := match n with Glob _ _ => true | _ => false end.
Definition glob_ok (n : needle) : Prop :=
  match n with Glob name p => index_of x2a name = Some p | _ => True end.

Lemma needle_of_is_glob v : is_glob (needle_of v) = has_star v.
Proof.
  unfold has_star. destruct (index_of x2a v) eqn:E.
  - rewrite (needle_of_glob _ _ E). reflexivity.
  - destruct (needle_of_noglob _ E) as [H|[H|[id H]]]; rewrite H; reflexivity.
Qed.

Lemma needle_of_glob_ok v : glob_ok (needle_of v).
Proof.
  destruct (index_of x2a v) eqn:E.
  - rewrite (needle_of_glob _ _ E). exact E.
  - destruct (needle_of_noglob _ E) as [H|[H|[id H]]]; rewrite H; exact I.
Qed.

Lemma to_bstr_total n : is_glob n = false -> exists b, to_bstr n = Ok b.
Proof. destruct n; cbn; intros H; try discriminate; eexists; reflexivity. Qed.

Lemma needle_matches_noglob n it : is_glob n = false ->
  needle_matches n it = Ok MNone \/ needle_matches n it = Ok MNormal.
Proof.
  destruct n as [name|name|name p|id]; cbn [is_glob]; intros H; try discriminate; unfold needle_matches.
  - destruct (bytes_eqb name (iname it)); auto.
  - destruct (expand_partial_name name _) as [m|] eqn:E; auto.
    unfold expand_partial_name in E.
    assert (G : forall l, find_map (fun e => if bytes_eqb e (iname it) then Some MNormal else None) l = Some m ->
                          m = MNormal).
    { induction l as [|x l IH]; cbn [find_map]; intros H0; [discriminate|].
      destruct (bytes_eqb x (iname it)); [injection H0 as <-; reflexivity|auto]. }
    rewrite (G _ E). auto.
  - destruct (bytes_eqb id (itarget it)); auto. destruct (iobject it) as [o|]; auto.
    destruct (bytes_eqb o id); auto.
Qed.

Definition wf_matcher (m : matcher) : Prop :=
  match lhs m, rhs m with
  | Some l, Some d => is_glob l = is_glob d /\ glob_ok l /\ glob_ok d
  | Some l, None => glob_ok l
  | None, _ => True
  end.

Lemma wf_matcher_of s : wf_spec s -> wf_matcher (matcher_of s).
Proof.
  unfold wf_spec, wf_matcher, matcher_of. cbn [lhs rhs].
  destruct (ssrc s) as [a|], (sdst s) as [d|]; cbn [option_map]; intros H; auto.
  - rewrite !needle_of_is_glob. auto using needle_of_glob_ok.
  - apply needle_of_glob_ok.
Qed.

Lemma matches_lhs_total m it : wf_matcher m -> exists r, matches_lhs m it = Ok r.
Proof.
  unfold wf_matcher, matches_lhs. destruct (lhs m) as [l|]; [|eexists; reflexivity].
  destruct (rhs m) as [d|].
  - intros (Hg & Hl & Hd). destruct l as [n|n|key klen|id].
    1,2,4: (match goal with |- context [needle_matches ?l ?i] => destruct (needle_matches_noglob l i eq_refl) as [E|E] end;
            [ rewrite E; cbn [obind into_match_outcome]; eexists; reflexivity
            | rewrite E; cbn [obind into_match_outcome];
              destruct (to_bstr_total d (eq_sym Hg)) as [b Hb]; unfold to_bstr in Hb; rewrite Hb;
              cbn [obind]; eexists; reflexivity ]).
    destruct d as [n|n|v vlen|id]; cbn [is_glob] in Hg; try discriminate.
    cbn [glob_ok] in Hl, Hd.
    pose proof (glob_replace_git key klen v vlen it Hl Hd) as G. unfold matches_lhs in G. cbn [lhs rhs] in G.
    rewrite G. eexists; reflexivity.
  - intros Hl. destruct l as [n|n|key klen|id].
    1,2,4: (match goal with |- context [needle_matches ?l ?i] => destruct (needle_matches_noglob l i eq_refl) as [E|E] end;
            rewrite E; cbn [obind]; eexists; reflexivity).
    cbn [glob_ok] in Hl. rewrite (glob_matches_git _ _ it Hl). cbn [obind]. eexists; reflexivity.
Qed.

(* the matcher list computed by the first pass *)
Definition matcher_slot (s : rspec) : option matcher :=
  match lhs (matcher_of s) with
  | Some (Object _) => None
  | _ => Some (matcher_of s)
  end.

Lemma rhs_noglob_of_lhs_noglob s : wf_spec s -> forall l, lhs (matcher_of s) = Some l -> is_glob l = false ->
  match rhs (matcher_of s) with Some d => is_glob d = false | None => True end.
Proof.
  intros W l Hl Hg. apply wf_matcher_of in W. unfold wf_matcher in W. rewrite Hl in W.
  destruct (rhs (matcher_of s)) as [d|]; [|exact I]. destruct W as (E & _). congruence.
Qed.

Lemma rhs_to_bstr_total s : wf_spec s -> forall l, lhs (matcher_of s) = Some l -> is_glob l = false ->
  exists r, match rhs (matcher_of s) with
            | Some d => (b <- to_bstr d ;; Ok (Some b))%outcome
            | None => Ok None
            end = (Ok r : outcome (option bytes) unit).
Proof.
  intros W l Hl Hg. pose proof (rhs_noglob_of_lhs_noglob s W l Hl Hg) as H.
  destruct (rhs (matcher_of s)) as [d|]; [|eexists; reflexivity].
  destruct (to_bstr_total d H) as [b Hb]. rewrite Hb. cbn [obind]. eexists; reflexivity.
Qed.

Lemma object_pass_total specs : Forall wf_spec specs -> forall idx out,
  exists out', object_pass specs idx out = Ok (out', map matcher_slot specs).
Proof.
  induction 1 as [|s specs W _ IH]; intros idx out; cbn [object_pass map]; [eexists; reflexivity|].
  unfold matcher_slot at 1.
  destruct (lhs (matcher_of s)) as [[n|n|n p|id]|] eqn:El.
  1,2,3,5: (destruct (IH (S idx) out) as [o' ->]; cbn [obind]; eexists; reflexivity).
  destruct (rhs_to_bstr_total s W _ El eq_refl) as [r ->]. cbn [obind].
  destruct (IH (S idx) (push_unique out {| item_index := None; mlhs := SObjectId id; mrhs := r; spec_index := idx |}))
    as [o' ->].
  cbn [obind]. eexists; reflexivity.
Qed.

Lemma match_items_total m sidx : wf_matcher m -> forall its out, exists out', match_items m sidx its out = Ok out'.
Proof.
  intros W. induction its as [|[i it] its IH]; intros out; cbn [match_items]; [eexists; reflexivity|].
  destruct (matches_lhs_total m it W) as [[matched d] ->]. cbn [obind]. apply IH.
Qed.

Lemma positive_pass_total items specs : Forall wf_spec specs -> forall sidx out,
  exists out', positive_pass specs (map matcher_slot specs) sidx items out = Ok out'.
Proof.
  induction 1 as [|s specs W _ IH]; intros sidx out; cbn [positive_pass map]; [eexists; reflexivity|].
  destruct (is_negative s); [apply IH|].
  unfold matcher_slot at 1.
  destruct (lhs (matcher_of s)) as [[n|n|n p|id]|] eqn:El; cbn [lhs]; rewrite ?El.
  - destruct (expand_partial_name n _) as [[i it]|]; [|apply IH].
    destruct (rhs_to_bstr_total s W _ El eq_refl) as [r ->]. cbn [obind]. apply IH.
  - destruct (expand_partial_name n _) as [[i it]|]; [|apply IH].
    destruct (rhs_to_bstr_total s W _ El eq_refl) as [r ->]. cbn [obind]. apply IH.
  - destruct (match_items_total (matcher_of s) sidx (wf_matcher_of s W) (enumerate 0 items) out) as [o' ->].
    cbn [obind]. apply IH.
  - apply IH.
  - destruct (match_items_total (matcher_of s) sidx (wf_matcher_of s W) (enumerate 0 items) out) as [o' ->].
    cbn [obind]. apply IH.
Qed.

Lemma retain_total m : wf_matcher m -> forall out, exists out', retain_not_matching m out = Ok out'.
Proof.
  intros W. induction out as [|x out [o' IH]]; cbn [retain_not_matching]; [eexists; reflexivity|].
  destruct (mlhs x) as [name|id].
  - destruct (lhs m) as [[n|n|n p|id]|] eqn:El.
    2: { cbn [obind]. rewrite IH. cbn [obind]. eexists; reflexivity. }
    all: destruct (matches_lhs_total m (null_item name) W) as [r ->]; cbn [obind]; rewrite IH; cbn [obind];
         eexists; reflexivity.
  - cbn [obind]. rewrite IH. cbn [obind]. eexists; reflexivity.
Qed.

Lemma negative_pass_total specs : Forall wf_spec specs -> forall out,
  exists out', negative_pass specs (map matcher_slot specs) out = Ok out'.
Proof.
  induction 1 as [|s specs W _ IH]; intros out; cbn [negative_pass map]; [eexists; reflexivity|].
  unfold matcher_slot at 1.
  destruct (lhs (matcher_of s)) as [[n|n|n p|id]|] eqn:El.
  4: apply IH.
  all: destruct (is_negative s); [|apply IH];
       destruct (retain_total (matcher_of s) (wf_matcher_of s W) out) as [o' ->]; cbn [obind]; apply IH.
Qed.

Lemma L_match_total specs items : Forall wf_spec specs -> exists ms, match_remotes specs items = Ok ms.
Proof.
  intros W. unfold match_remotes.
  destruct (object_pass_total specs W 0 []) as [o1 ->]. cbn [obind].
  destruct (positive_pass_total items specs W 0 o1) as [o2 ->]. cbn [obind].
  destruct (existsb is_negative specs && negb (Nat.eqb (length items) 0)).
  - apply negative_pass_total. exact W.
  - eexists; reflexivity.
Qed.

(* ---- parsing establishes the balance of patterns ---------------------------------------------- *)

Lemma count_byte_index_of b s :
  (count_byte b s = 0%nat <-> index_of b s = None).
Proof.
  unfold count_byte. induction s as [|x s IH]; cbn [filter index_of length]; [tauto|].
  destruct (beqb x b); cbn [length].
  - split; intros H; discriminate.
  - destruct (index_of b s); split; intros H; try discriminate; try reflexivity.
    + apply IH in H. discriminate.
    + apply IH. reflexivity.
Qed.

Lemma validated_ok spec r pat : validated spec = Ok (r, pat) ->
  r = spec /\ pat = match spec with Some s => has_star s | None => false end.
Proof.
  unfold validated. destruct spec as [s|]; [|intros H; injection H as <- <-; auto].
  destruct (Nat.ltb 1 (count_byte c_star s)) eqn:E1; [discriminate|].
  destruct (Nat.eqb (count_byte c_star s) 1) eqn:E2.
  - destruct (name_partial_ok _); [|discriminate]. intros H. injection H as <- <-. split; [reflexivity|].
    unfold has_star. destruct (index_of x2a s) eqn:E; [reflexivity|].
    apply count_byte_index_of in E. unfold c_star in E2. rewrite E in E2. discriminate.
  - destruct (name_partial_ok _); [|discriminate]. intros H. injection H as <- <-. split; [reflexivity|].
    unfold has_star. destruct (index_of x2a s) eqn:E; [|reflexivity].
    apply Nat.ltb_ge in E1. apply Nat.eqb_neq in E2.
    assert (count_byte c_star s = 0%nat) as Z by lia. apply count_byte_index_of in Z. unfold c_star in Z. congruence.
Qed.

Lemma parse_finish_wf m src dst r :
  (mode_eqb m Negative = true -> dst = None) -> parse_finish m src dst = Ok r -> wf_spec r.
Proof.
  intros Hneg. unfold parse_finish.
  set (src' := match src with Some s => if bytes_eqb s (bs "@") then Some HEAD else Some s | None => None end).
  destruct (validated src') as [[s1 p1]| | |] eqn:V1; cbn [obind]; try discriminate.
  destruct (validated dst) as [[d1 p2]| | |] eqn:V2; cbn [obind]; try discriminate.
  apply validated_ok in V1. apply validated_ok in V2. destruct V1 as [-> ->]. destruct V2 as [-> ->].
  destruct (mode_eqb m Negative) eqn:Em; cbn [negb andb].
  - rewrite (Hneg eq_refl). destruct src' as [s|]; [|discriminate].
    destruct (has_star s); [discriminate|].
    destruct (looks_like_object_hash s); [discriminate|].
    destruct (negb (starts_with refs_prefix s) && negb (bytes_eqb s HEAD)); [discriminate|].
    intros H. injection H as <-. unfold wf_spec. cbn [ssrc sdst]. exact I.
  - destruct (Bool.eqb _ _) eqn:Eb; cbn [negb]; [|discriminate].
    intros H. injection H as <-. unfold wf_spec. cbn [ssrc sdst].
    destruct src' as [s|]; [|exact I]. destruct dst as [d|]; [|exact I].
    apply Bool.eqb_prop in Eb. exact Eb.
Qed.

Lemma parse_split_negative spec0 m src dst :
  parse_split spec0 = Ok (m, Some (src, dst)) -> mode_eqb m Negative = true -> dst = None.
Proof.
  unfold parse_split. destruct spec0 as [|c rest]; [discriminate|].
  destruct (beqb c x5e); [|destruct (beqb c x2b)]; cbv beta iota;
  match goal with |- context [find_byte c_colon ?sp] => destruct (find_byte c_colon sp) as [pos|]; set (spc := sp) end;
  cbn [mode_eqb].
  1,3,5: try discriminate;
         destruct (non_empty (firstn pos spc)), (non_empty (skipn (S pos) spc)); intros H; inversion H; subst;
         cbn [mode_eqb]; intros; congruence.
  all: destruct (non_empty spc); intros H; inversion H; subst; cbn [mode_eqb]; intros; congruence.
Qed.

Lemma L_parse_wf spec r : parse_fetch spec = Ok r -> wf_spec r.
Proof.
  unfold parse_fetch. destruct (parse_split spec) as [[m [[src dst]|]]| | |] eqn:E; cbn [obind]; try discriminate.
  - apply parse_finish_wf. intros Hn. eapply parse_split_negative; eassumption.
  - intros H. injection H as <-. exact I.
Qed.

Lemma L_parse_no_panic spec : parse_fetch spec <> Panic /\ parse_fetch spec <> OutOfFuel.
Proof.
  assert (S : forall x, parse_split x <> Panic /\ parse_split x <> OutOfFuel).
  { intros x. unfold parse_split. destruct x as [|c rest]; [split; discriminate|].
    destruct (beqb c x5e); [|destruct (beqb c x2b)]; cbv beta iota;
    match goal with |- context [find_byte c_colon ?sp] => destruct (find_byte c_colon sp) as [pos|]; set (spc := sp) end;
    cbn [mode_eqb]; try (split; discriminate).
    all: repeat match goal with |- context [non_empty ?x] => destruct (non_empty x) end; split; discriminate. }
  assert (V : forall x, validated x <> Panic /\ validated x <> OutOfFuel).
  { intros x. unfold validated. destruct x as [s|]; [|split; discriminate].
    destruct (Nat.ltb 1 _); [split; discriminate|]. destruct (Nat.eqb _ 1); destruct (name_partial_ok _); split; discriminate. }
  assert (F : forall m a b, parse_finish m a b <> Panic /\ parse_finish m a b <> OutOfFuel).
  { intros m a b. unfold parse_finish.
    set (src' := match a with Some s => if bytes_eqb s (bs "@") then Some HEAD else Some s | None => None end).
    destruct (V src') as [V1 V2]. destruct (validated src') as [[s1 p1]| | |]; cbn [obind]; try (split; discriminate); try tauto.
    destruct (V b) as [V3 V4]. destruct (validated b) as [[d1 p2]| | |]; cbn [obind]; try (split; discriminate); try tauto.
    destruct (negb (mode_eqb m Negative) && negb (Bool.eqb p1 p2)); [split; discriminate|].
    destruct (mode_eqb m Negative); [|split; discriminate].
    destruct s1 as [s|]; [|split; discriminate].
    destruct p1; [split; discriminate|]. destruct (looks_like_object_hash s); [split; discriminate|].
    destruct (negb _ && negb _); split; discriminate. }
  unfold parse_fetch. destruct (S spec) as [S1 S2].
  destruct (parse_split spec) as [[m [[src dst]|]]| | |]; cbn [obind]; try (split; discriminate); try tauto.
  apply F.
Qed.

Lemma parse_all_wf specs : forall i parsed, parse_all specs i = Ok parsed -> Forall wf_spec parsed.
Proof.
  induction specs as [|s specs IH]; intros i parsed; cbn [parse_all].
  - intros H. injection H as <-. constructor.
  - destruct (parse_fetch s) as [p| | |] eqn:E; try discriminate.
    destruct (parse_all specs (S i)) as [ps| | |] eqn:E2; try discriminate.
    intros H. injection H as <-. constructor; [eapply L_parse_wf; eassumption|eapply IH; eassumption].
Qed.

Lemma parse_all_no_panic specs : forall i, parse_all specs i <> Panic /\ parse_all specs i <> OutOfFuel.
Proof.
  induction specs as [|s specs IH]; intros i; cbn [parse_all]; [split; discriminate|].
  destruct (L_parse_no_panic s) as [P1 P2].
  destruct (parse_fetch s) as [p| | |]; try (split; discriminate); try tauto.
  destruct (IH (S i)) as [Q1 Q2].
  destruct (parse_all specs (S i)); try (split; discriminate); tauto.
Qed.

(* the pipeline the harness drives never panics, for all refspec texts and all remote ref names *)
Lemma L_pipeline_total specs names :
  (exists i e, parse_all specs 0 = Err (i, e)) \/
  (exists parsed ms, parse_all specs 0 = Ok parsed /\ Forall wf_spec parsed /\
                     match_remotes parsed (items_of_names 0 names) = Ok ms).
Proof.
  destruct (parse_all_no_panic specs 0) as [P1 P2].
  destruct (parse_all specs 0) as [parsed|[i e]| |] eqn:E; try tauto.
  - right. pose proof (parse_all_wf _ _ _ E) as W.
    destruct (L_match_total parsed (items_of_names 0 names) W) as [ms H]. eauto.
  - left. eauto.
Qed.

(* ---- destinations of non-pattern specs are git's get_local_ref -------------------------------- *)

Lemma L_destination_is_git d :
  has_star d = false -> oid_from_hex d = None -> to_bstr (needle_of d) = Ok (get_local_ref d).
Proof.
  intros Hs Ho. unfold needle_of, c_star. rewrite find_byte_index_of.
  unfold has_star in Hs. destruct (index_of x2a d); [discriminate|].
  unfold get_local_ref. change is_prefix with starts_with. unfold refs_prefix.
  destruct (starts_with (bs "refs/") d); [reflexivity|]. rewrite Ho.
  unfold to_bstr, to_bstr_replace.
  destruct (starts_with (bs "heads/") d || starts_with (bs "tags/") d || starts_with (bs "remotes/") d);
    reflexivity.
Qed.

(* an object-id destination (40 hex digits) goes to refs/heads/<lower-case hex>; git keeps the digits as typed *)
Lemma L_destination_hex d id :
  has_star d = false -> starts_with refs_prefix d = false -> oid_from_hex d = Some id ->
  to_bstr (needle_of d) = Ok (bs "refs/heads/" ++ hex_encode id).
Proof.
  intros Hs Hr Ho. unfold needle_of, c_star. rewrite find_byte_index_of.
  unfold has_star in Hs. destruct (index_of x2a d); [discriminate|]. rewrite Hr, Ho. reflexivity.
Qed.

(* ---- negative specs remove exactly the names git's omit_name_by_refspec omits ----------------- *)

Definition kept_by (s : rspec) (x : mapping) : bool :=
  match mlhs x with
  | SObjectId _ => true
  | SFullName n => negb (git_refspec_match s n)
  end.

Lemma L_negative_is_git s src out :
  ssrc s = Some src -> sdst s = None -> (has_star src = true \/ oid_from_hex src = None \/ starts_with refs_prefix src = true) ->
  retain_not_matching (matcher_of s) out = Ok (filter (kept_by s) out).
Proof.
  intros Hsrc Hdst Hkind.
  assert (K : forall n, match lhs (matcher_of s) with
                        | Some (PartialName partial) => Ok (negb (bytes_eqb partial n))
                        | _ => (res <- matches_lhs (matcher_of s) (null_item n) ;; Ok (negb (fst res)))%outcome
                        end = (Ok (negb (git_refspec_match s n)) : outcome bool unit)).
  { intros n. unfold matcher_of, git_refspec_match, g_pattern, g_src. rewrite Hsrc, Hdst. cbn [option_map lhs rhs].
    destruct (index_of x2a src) as [klen|] eqn:E.
    - rewrite (needle_of_glob _ _ E).
      pose proof (glob_only_git src klen (null_item n) E) as G. rewrite G. cbn [obind fst iname null_item].
      destruct (git_match_name_with_pattern src n None); reflexivity.
    - unfold needle_of, c_star. rewrite find_byte_index_of, E.
      destruct (starts_with refs_prefix src) eqn:Er.
      + unfold matches_lhs. cbn [lhs rhs needle_matches obind iname null_item].
        destruct (bytes_eqb src n); reflexivity.
      + destruct Hkind as [H|[H|H]]; [unfold has_star in H; rewrite E in H; discriminate| |discriminate].
        rewrite H. reflexivity. }
  induction out as [|x out IH]; cbn [retain_not_matching filter]; [reflexivity|].
  unfold kept_by at 1. destruct (mlhs x) as [n|id].
  - rewrite (K n). cbn [obind]. rewrite IH. cbn [obind]. reflexivity.
  - cbn [obind]. rewrite IH. cbn [obind]. reflexivity.
Qed.

(* ---- a non-pattern source resolves to the reference git's find_ref_by_name_abbrev picks ------- *)

Definition best_expansion (names : list bytes) (name : bytes) : option bytes :=
  find_map (fun e => if existsb (bytes_eqb e) names then Some e else None) (expansions name).

Lemma find_map_ext {A B} (f g : A -> option B) l : (forall x, f x = g x) -> find_map f l = find_map g l.
Proof. intros H. induction l as [|x l IH]; cbn [find_map]; [reflexivity|]. rewrite H, IH. reflexivity. Qed.

Lemma find_map_option_map {A B C} (g : B -> C) (f : A -> option B) l :
  option_map g (find_map f l) = find_map (fun x => option_map g (f x)) l.
Proof. induction l as [|x l IH]; cbn [find_map]; [reflexivity|]. destruct (f x); cbn [option_map]; auto. Qed.

Lemma find_item_names e : forall names i j,
  option_map (fun p => iname (snd p)) (find_item e (enumerate i (items_of_names j names))) =
  if existsb (bytes_eqb e) names then Some e else None.
Proof.
  induction names as [|n names IH]; intros i j; cbn [items_of_names enumerate find_item find existsb]; [reflexivity|].
  cbn [snd iname item_of_name]. rewrite (bytes_eqb_sym n e).
  destruct (bytes_eqb e n) eqn:E; cbn [orb option_map snd iname item_of_name].
  - apply bytes_eqb_eq in E. subst. reflexivity.
  - apply IH.
Qed.

Lemma model_resolution names name :
  option_map (fun p => iname (snd p))
    (expand_partial_name name (fun e => find_item e (enumerate 0 (items_of_names 0 names)))) =
  best_expansion names name.
Proof.
  unfold expand_partial_name, best_expansion. rewrite find_map_option_map.
  apply find_map_ext. intros e. apply find_item_names.
Qed.

Lemma find_map_first {A} (P : A -> bool) (d : A) : forall l,
  match find_map (fun e => if P e then Some e else None) l with
  | None => forall e, In e l -> P e = false
  | Some e => exists k, (k < length l)%nat /\ nth k l d = e /\ P e = true /\
                        forall j, (j < k)%nat -> P (nth j l d) = false
  end.
Proof.
  induction l as [|x l IH]; cbn [find_map]; [intros e []|].
  destruct (P x) eqn:E.
  - exists 0%nat. cbn [length nth]. repeat split; try lia; auto.
  - destruct (find_map _ l) as [e|].
    + destruct IH as (k & Hk & Hn & Hp & Hj). exists (S k). cbn [length nth]. repeat split; try lia; auto.
      intros [|j] Hlt; [exact E|]. apply Hj. lia.
    + intros e [<-|H]; auto.
Qed.

Lemma find_best_spec name : forall refs best bs,
  (find_best refs name best bs = best /\ forall r, In r refs -> (refname_match name r <= bs)%nat) \/
  (exists r, find_best refs name best bs = Some r /\ In r refs /\ (bs < refname_match name r)%nat /\
             forall r', In r' refs -> (refname_match name r' <= refname_match name r)%nat).
Proof.
  induction refs as [|x refs IH]; intros best bs; cbn [find_best].
  - left. split; [reflexivity|intros r []].
  - destruct (Nat.ltb bs (refname_match name x)) eqn:E.
    + apply Nat.ltb_lt in E. right.
      destruct (IH (Some x) (refname_match name x)) as [[H1 H2]|(r & H1 & H2 & H3 & H4)].
      * exists x. rewrite H1. repeat split; auto; [left; reflexivity|].
        intros r' [<-|Hr]; [lia|auto].
      * exists r. repeat split; auto; [right; exact H2|lia|].
        intros r' [<-|Hr]; [lia|auto].
    + apply Nat.ltb_ge in E.
      destruct (IH best bs) as [[H1 H2]|(r & H1 & H2 & H3 & H4)].
      * left. split; [exact H1|]. intros r [<-|Hr]; [lia|auto].
      * right. exists r. repeat split; auto; [right; exact H2|].
        intros r' [<-|Hr]; [lia|auto].
Qed.

Lemma score_cases name r :
  (refname_match name r = 0%nat /\ forall e, In e (expansions name) -> e <> r) \/
  (exists k, (k < 6)%nat /\ refname_match name r = (6 - k)%nat /\ nth k (expansions name) [] = r /\
             forall j, (j < k)%nat -> nth j (expansions name) [] <> r).
Proof.
  unfold refname_match, rev_parse_rules, refname_match_from. cbn [length app]. rewrite !app_nil_r.
  destruct (bytes_eqb name r) eqn:E0.
  { right. exists 0%nat. apply bytes_eqb_eq in E0. repeat split; auto; try lia. }
  destruct (bytes_eqb (bs "refs/" ++ name) r) eqn:E1.
  { right. exists 1%nat. apply bytes_eqb_eq in E1. repeat split; auto; try lia.
    intros [|j] Hj; [|lia]. cbn [nth expansions]. apply bytes_eqb_neq. exact E0. }
  destruct (bytes_eqb (bs "refs/tags/" ++ name) r) eqn:E2.
  { right. exists 2%nat. apply bytes_eqb_eq in E2. repeat split; auto; try lia.
    intros [|[|j]] Hj; try lia; cbn [nth expansions]; apply bytes_eqb_neq; assumption. }
  destruct (bytes_eqb (bs "refs/heads/" ++ name) r) eqn:E3.
  { right. exists 3%nat. apply bytes_eqb_eq in E3. repeat split; auto; try lia.
    intros [|[|[|j]]] Hj; try lia; cbn [nth expansions]; apply bytes_eqb_neq; assumption. }
  destruct (bytes_eqb (bs "refs/remotes/" ++ name) r) eqn:E4.
  { right. exists 4%nat. apply bytes_eqb_eq in E4. repeat split; auto; try lia.
    intros [|[|[|[|j]]]] Hj; try lia; cbn [nth expansions]; apply bytes_eqb_neq; assumption. }
  destruct (bytes_eqb (bs "refs/remotes/" ++ name ++ bs "/HEAD") r) eqn:E5.
  { right. exists 5%nat. apply bytes_eqb_eq in E5. repeat split; auto; try lia.
    intros [|[|[|[|[|j]]]]] Hj; try lia; cbn [nth expansions]; apply bytes_eqb_neq; assumption. }
  left. split; [reflexivity|]. unfold expansions.
  intros e [<-|[<-|[<-|[<-|[<-|[<-|[]]]]]]]; apply bytes_eqb_neq; assumption.
Qed.

Lemma existsb_bytes_In e names : existsb (bytes_eqb e) names = true <-> In e names.
Proof.
  rewrite existsb_exists. split.
  - intros (x & Hx & E). apply bytes_eqb_eq in E. subst. exact Hx.
  - intros H. exists e. split; [exact H|apply bytes_eqb_refl].
Qed.

Lemma expansions_length name : length (expansions name) = 6%nat.
Proof. reflexivity. Qed.

Lemma git_resolution names name : find_ref_by_name_abbrev names name = best_expansion names name.
Proof.
  unfold find_ref_by_name_abbrev, best_expansion.
  pose proof (find_map_first (fun e => existsb (bytes_eqb e) names) [] (expansions name)) as B.
  destruct (find_best_spec name names None 0) as [[H1 H2]|(r & H1 & H2 & H3 & H4)].
  - rewrite H1. destruct (find_map _ (expansions name)) as [e|]; [|reflexivity].
    destruct B as (k & Hk & Hn & Hp & _). apply existsb_bytes_In in Hp.
    specialize (H2 e Hp). destruct (score_cases name e) as [[_ Hne]|(k' & Hk' & Hs & _)].
    + exfalso. apply (Hne e); [|reflexivity]. rewrite <- Hn. apply nth_In. exact Hk.
    + lia.
  - rewrite H1. destruct (score_cases name r) as [[Hz _]|(k & Hk & Hs & Hn & Hj)]; [lia|].
    destruct (find_map _ (expansions name)) as [e|].
    + destruct B as (k' & Hk' & Hn' & Hp' & Hj'). apply existsb_bytes_In in Hp'.
      rewrite expansions_length in Hk'.
      assert (k' <= k)%nat as L1.
      { destruct (Nat.le_gt_cases k' k) as [|G]; [assumption|]. specialize (Hj' k G). rewrite Hn in Hj'.
        apply (proj2 (existsb_bytes_In r names)) in H2. congruence. }
      destruct (score_cases name e) as [[_ Hne]|(k'' & Hk'' & Hs'' & Hn'' & Hj'')].
      * exfalso. apply (Hne e); [|reflexivity]. rewrite <- Hn'. apply nth_In. rewrite expansions_length. exact Hk'.
      * assert (k'' <= k')%nat as L2.
        { destruct (Nat.le_gt_cases k'' k') as [|G]; [assumption|]. exfalso. apply (Hj'' k' G). exact Hn'. }
        specialize (H4 e Hp'). assert (k = k') by lia. subst k'. congruence.
    + exfalso. assert (In r (expansions name)) as Hin.
      { rewrite <- Hn. apply nth_In. rewrite expansions_length. exact Hk. }
      specialize (B r Hin). cbv beta in B. apply (proj2 (existsb_bytes_In r names)) in H2. congruence.
Qed.

Lemma L_name_resolution_is_git names name :
  option_map (fun p => iname (snd p))
    (expand_partial_name name (fun e => find_item e (enumerate 0 (items_of_names 0 names)))) =
  find_ref_by_name_abbrev names name.
Proof. rewrite model_resolution, git_resolution. reflexivity. Qed.
