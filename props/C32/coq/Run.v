(* C32 — transcript printer: the same observable line the Rust harness prints for a case.
   case:  match <nspecs> <spec>*nspecs <remote ref name>*            (mode "model" / "spec") *)
From GixV.Base Require Import Bytes Outcome.
From GixV.C32 Require Import Model Spec.

Definition perr_name (e : perr) : bytes :=
  match e with
  | NegativeWithDestination => bs "NegativeWithDestination"
  | NegativeEmpty => bs "NegativeEmpty"
  | NegativeObjectHash => bs "NegativeObjectHash"
  | NegativePartialName => bs "NegativePartialName"
  | NegativeGlobPattern => bs "NegativeGlobPattern"
  | PatternUnsupported => bs "PatternUnsupported"
  | PatternUnbalanced => bs "PatternUnbalanced"
  | ReferenceName => bs "ReferenceName"
  end.

Fixpoint join_with (sep : bytes) (l : list bytes) : bytes :=
  match l with
  | [] => []
  | [x] => x
  | x :: r => x ++ sep ++ join_with sep r
  end.
Definition join_or_dash (sep : bytes) (l : list bytes) : bytes :=
  match l with [] => bs "-" | _ => join_with sep l end.

Definition show_nat (n : nat) : bytes := N_to_dec (N.of_nat n).

Definition show_source (s : source) : bytes :=
  match s with
  | SFullName n => bs "n" ++ hex_encode n
  | SObjectId id => bs "o" ++ hex_encode id
  end.

Definition show_mapping (m : mapping) : bytes :=
  (match item_index m with Some i => show_nat i | None => bs "-" end) ++ bs "," ++
  show_source (mlhs m) ++ bs "," ++
  (match mrhs m with Some d => bs "d" ++ hex_encode d | None => bs "~" end) ++ bs "," ++
  show_nat (spec_index m).

Definition show_validation (v : validation) : bytes :=
  match v with
  | Conflict issues =>
      bs "conflict " ++
      join_or_dash (bs ";")
        (map (fun e => hex_encode (fst e) ++ bs "=" ++ join_with (bs ",") (map show_source (snd e))) issues)
  | Valid ms fixes =>
      bs "valid " ++ join_or_dash (bs ";") (map show_mapping ms) ++ bs " | fixes " ++
      join_or_dash (bs ",") (map hex_encode fixes)
  end.

Definition split_case (fs : list bytes) : list bytes * list bytes :=
  let n := N.to_nat (field_N 1 fs) in
  let rest := skipn 2 fs in
  (* the harness reads missing spec fields as empty strings *)
  (firstn n (rest ++ repeat [] (n - length rest)), skipn n rest).

Definition run_model (fs : list bytes) : bytes :=
  if bytes_eqb (nth_field 0 fs) (bs "match") then
    let '(specs, names) := split_case fs in
    match parse_all specs 0 with
    | Err (i, e) => bs "err parse " ++ show_nat i ++ bs " " ++ perr_name e
    | Panic => bs "PANIC"
    | OutOfFuel => bs "HANG"
    | Ok parsed =>
        match match_remotes parsed (items_of_names 0 names) with
        | Ok ms =>
            bs "ok " ++ join_or_dash (bs ";") (map show_mapping ms) ++ bs " | " ++
            show_validation (validated_outcome ms)
        | Err _ => bs "?"
        | Panic => bs "PANIC"
        | OutOfFuel => bs "HANG"
        end
    end
  else bs "?".

(* git's result for the same case, in the format of the harness' `git` subcommand *)
Definition show_pair (p : bytes * option bytes) : bytes :=
  hex_encode (fst p) ++ bs ">" ++ (match snd p with Some d => hex_encode d | None => bs "~" end).

Definition run_spec (fs : list bytes) : bytes :=
  if bytes_eqb (nth_field 0 fs) (bs "match") then
    let '(specs, names) := split_case fs in
    match parse_all specs 0 with
    | Ok parsed =>
        match git_fetch_map git_check_refname_format parsed names with
        | GitDieMissing => bs "die missing"
        | GitDieConflict => bs "die conflict"
        | GitMaps l => bs "maps " ++ join_or_dash (bs ",") (map show_pair (sort_pairs l))
        end
    | _ => bs "-"
    end
  else bs "-".

Definition run (fs : list bytes) : bytes :=
  match fs with
  | m :: rest => if bytes_eqb m (bs "spec") then run_spec rest else run_model rest
  | [] => bs "?"
  end.
