(* C32 — specification: git's own algorithm for mapping fetch refspecs, transcribed from git 2.39
     remote.c      match_name_with_pattern, refspec_match / omit_name_by_refspec (apply_negative_refspecs),
                   find_ref_by_name_abbrev, get_local_ref, get_expanded_map, get_fetch_map,
                   ref_remove_duplicates / handle_duplicate
     refs.c        refname_match (ref_rev_parse_rules), check_refname_format
     builtin/fetch.c  get_ref_map (command-line refspecs: every entry is FETCH_HEAD_MERGE, so two
                   different sources for one destination are fatal)
   It works on the parsed refspec [Model.rspec] (mode, source, destination) — parsing is not part of this
   specification — and on the list of remote reference names (peeled `^{}` pseudo entries are not
   references and are not in the list, so get_expanded_map's `strchr(ref->name, '^')` skip is omitted).
   A source is a remote reference name, or for an exact object id the lower-case 40 digit hex name. *)
From GixV.Base Require Import Bytes Outcome.
From GixV.C32 Require Import Model.

(* strchr(key, '*') *)
Fixpoint index_of (b : byte) (s : bytes) : option nat :=
  match s with
  | [] => None
  | x :: r => if beqb x b then Some O else match index_of b r with Some n => Some (S n) | None => None end
  end.

Fixpoint is_prefix (p s : bytes) : bool :=
  match p with
  | [] => true
  | x :: p' => match s with [] => false | y :: s' => beqb x y && is_prefix p' s' end
  end.

(* remote.c match_name_with_pattern(key, name, value, &result):
   None = no match; Some None = match, no value given; Some (Some r) = match with expansion r *)
Definition git_match_name_with_pattern (key name : bytes) (value : option bytes) : option (option bytes) :=
  match index_of x2a key with
  | None => None                                            (* BUG("key has no '*'") *)
  | Some klen =>
      let ksuffix := skipn (S klen) key in
      let ksuffixlen := length ksuffix in
      let namelen := length name in
      if is_prefix (firstn klen key) name && Nat.leb (klen + ksuffixlen) namelen &&
         bytes_eqb (skipn (namelen - ksuffixlen) name) ksuffix
      then match value with
           | None => Some None
           | Some v =>
               match index_of x2a v with
               | None => None                               (* die("... value doesn't have '*'") *)
               | Some vlen =>
                   Some (Some (firstn vlen v ++
                               firstn (namelen - ksuffixlen - klen) (skipn klen name) ++
                               skipn (S vlen) v))
               end
           end
      else None
  end.

(* refs.c ref_rev_parse_rules *)
Definition rev_parse_rules : list (bytes * bytes) :=
  [ ([], []); (bs "refs/", []); (bs "refs/tags/", []); (bs "refs/heads/", []);
    (bs "refs/remotes/", []); (bs "refs/remotes/", bs "/HEAD") ].

(* refname_match: number of rules minus the index of the first rule producing [full]; 0 = none *)
Fixpoint refname_match_from (rules : list (bytes * bytes)) (abbrev full : bytes) : nat :=
  match rules with
  | [] => O
  | (pre, post) :: r =>
      if bytes_eqb (pre ++ abbrev ++ post) full then length rules
      else refname_match_from r abbrev full
  end.
Definition refname_match := refname_match_from rev_parse_rules.

(* find_ref_by_name_abbrev: the first reference with the strictly best score *)
Fixpoint find_best (refs : list bytes) (name : bytes) (best : option bytes) (best_score : nat) : option bytes :=
  match refs with
  | [] => best
  | r :: rest =>
      let score := refname_match name r in
      if Nat.ltb best_score score then find_best rest name (Some r) score
      else find_best rest name best best_score
  end.
Definition find_ref_by_name_abbrev (refs : list bytes) (name : bytes) : option bytes :=
  find_best refs name None 0.

(* get_local_ref *)
Definition get_local_ref (name : bytes) : bytes :=
  if is_prefix (bs "refs/") name then name
  else if is_prefix (bs "heads/") name || is_prefix (bs "tags/") name || is_prefix (bs "remotes/") name
       then bs "refs/" ++ name
       else bs "refs/heads/" ++ name.

(* refspec_item fields derived as parse_refspec does *)
Definition g_negative (s : rspec) : bool := match smode s with Negative => true | _ => false end.
Definition g_src (s : rspec) : bytes := match ssrc s with Some v => v | None => [] end.
Definition g_pattern (s : rspec) : bool := match index_of x2a (g_src s) with Some _ => true | None => false end.
Definition g_exact_sha1 (s : rspec) : option bytes :=
  if Nat.eqb (length (g_src s)) 40 then hex_decode (g_src s) else None.

Definition pair := (bytes * option bytes)%type.

(* get_fetch_map without the "funny ref" filter; None = die("couldn't find remote ref") *)
Definition git_spec_candidates (s : rspec) (refs : list bytes) : option (list pair) :=
  if g_negative s then Some []
  else if g_pattern s then
    Some (flat_map (fun r => match git_match_name_with_pattern (g_src s) r (sdst s) with
                             | Some e => [(r, e)]
                             | None => []
                             end) refs)
  else match g_exact_sha1 s with
       | Some id => Some [(hex_encode id, option_map get_local_ref (sdst s))]
       | None =>
           match find_ref_by_name_abbrev refs (g_src s) with
           | Some r => Some [(r, option_map get_local_ref (sdst s))]
           | None => None
           end
       end.

Fixpoint git_candidates (specs : list rspec) (refs : list bytes) : option (list pair) :=
  match specs with
  | [] => Some []
  | s :: r =>
      match git_spec_candidates s refs, git_candidates r refs with
      | Some a, Some b => Some (a ++ b)
      | _, _ => None
      end
  end.

(* get_fetch_map: "* Ignoring funny ref '%s' locally" *)
Definition git_not_funny (valid : bytes -> bool) (p : pair) : bool :=
  match snd p with
  | Some d => is_prefix (bs "refs/") d && valid d
  | None => true
  end.

(* omit_name_by_refspec *)
Definition git_refspec_match (s : rspec) (name : bytes) : bool :=
  if g_pattern s
  then match git_match_name_with_pattern (g_src s) name None with Some _ => true | None => false end
  else bytes_eqb (g_src s) name.
Definition git_omitted (specs : list rspec) (name : bytes) : bool :=
  existsb (fun s => g_negative s && git_refspec_match s name) specs.

(* ref_remove_duplicates: fatal when a destination already seen came from another source *)
Fixpoint git_has_conflict (seen : list (bytes * bytes)) (l : list pair) : bool :=
  match l with
  | [] => false
  | (s, None) :: r => git_has_conflict seen r
  | (s, Some d) :: r =>
      match find (fun e => bytes_eqb (fst e) d) seen with
      | Some (_, s') => if bytes_eqb s' s then git_has_conflict seen r else true
      | None => git_has_conflict ((d, s) :: seen) r
      end
  end.

Inductive git_result := GitDieMissing | GitDieConflict | GitMaps (l : list pair).

Definition git_fetch_map (valid : bytes -> bool) (specs : list rspec) (refs : list bytes) : git_result :=
  match git_candidates specs refs with
  | None => GitDieMissing
  | Some c =>
      let c1 := filter (git_not_funny valid) c in
      let c2 := filter (fun p => negb (git_omitted specs (fst p))) c1 in
      if git_has_conflict [] c2 then GitDieConflict else GitMaps c2
  end.

(* ---- refs.c check_refname_format(name, 0) == 0 ------------------------------------------------ *)

Definition bad_refname_char (b : byte) : bool :=
  let n := b2N b in
  N.leb n 31 || N.eqb n 127 || existsb (beqb b) (bs " ~^:?[\*").

Fixpoint component_chars_ok (last : byte) (comp : bytes) : bool :=
  match comp with
  | [] => true
  | ch :: r =>
      if bad_refname_char ch then false
      else if beqb ch x2e && beqb last x2e then false
      else if beqb ch x7b && beqb last x40 then false
      else component_chars_ok ch r
  end.

Definition component_ok (comp : bytes) : bool :=
  match comp with
  | [] => false
  | first :: _ =>
      negb (beqb first x2e) && negb (ends_with (bs ".lock") comp) && component_chars_ok x00 comp
  end.

Fixpoint split_slash (s cur : bytes) : list bytes :=
  match s with
  | [] => [rev cur]
  | c :: r => if beqb c x2f then rev cur :: split_slash r [] else split_slash r (c :: cur)
  end.

Definition git_check_refname_format (name : bytes) : bool :=
  let comps := split_slash name [] in
  negb (bytes_eqb name (bs "@")) && forallb component_ok comps &&
  negb (beqb (last name x00) x2e) && Nat.leb 2 (length comps).

(* ---- presentation: sorted list without duplicates --------------------------------------------- *)

Definition opt_cmp (a b : option bytes) : comparison :=
  match a, b with
  | None, None => Eq
  | None, Some _ => Lt
  | Some _, None => Gt
  | Some x, Some y => bytes_cmp x y
  end.
Definition pair_cmp (a b : pair) : comparison :=
  match bytes_cmp (fst a) (fst b) with Eq => opt_cmp (snd a) (snd b) | c => c end.
Fixpoint insert_pair (p : pair) (l : list pair) : list pair :=
  match l with
  | [] => [p]
  | q :: r => match pair_cmp p q with
              | Lt => p :: l
              | Eq => l
              | Gt => q :: insert_pair p r
              end
  end.
Definition sort_pairs (l : list pair) : list pair := fold_right insert_pair [] l.
