(* C32 — model of gix-refspec (fetch side), as the code IS after the six `fix:` commits listed in
   NOTES.md.  Sources:
     gix-refspec/src/parse.rs                 parse (Operation::Fetch), validated, looks_like_object_hash
     gix-validate/src/{reference,tag}.rs      name_partial = tag::name_inner in Mode::Validate
     gix-refspec/src/spec.rs                  expand_partial_name
     gix-refspec/src/match_group/util.rs      Needle::{from, matches, to_bstr_replace}, Match, Matcher::matches_lhs
     gix-refspec/src/match_group/mod.rs       MatchGroup::match_remotes
     gix-refspec/src/match_group/validate.rs  Outcome::validated
   Slicing, `unreachable!` and usize underflow are modelled as [Panic].  No proofs here. *)
From GixV.Base Require Import Bytes Outcome.

(* ---- byte-string primitives (bstr / core::slice) -------------------------------------------- *)

Fixpoint starts_with (p s : bytes) : bool :=
  match p, s with
  | [], _ => true
  | x :: p', y :: s' => beqb x y && starts_with p' s'
  | _ :: _, [] => false
  end.

Definition ends_with (suf s : bytes) : bool :=
  Nat.leb (length suf) (length s) && bytes_eqb (skipn (length s - length suf) s) suf.

Fixpoint find_byte (b : byte) (s : bytes) : option nat :=
  match s with
  | [] => None
  | x :: s' => if beqb x b then Some O else option_map S (find_byte b s')
  end.

Definition count_byte (b : byte) (s : bytes) : nat := length (filter (fun x => beqb x b) s).

(* s[..n], s[n..], s[a..b]: out of range panics *)
Definition slice_to {E} (n : nat) (s : bytes) : outcome bytes E :=
  if Nat.leb n (length s) then Ok (firstn n s) else Panic.
Definition slice_from {E} (n : nat) (s : bytes) : outcome bytes E :=
  if Nat.leb n (length s) then Ok (skipn n s) else Panic.
Definition slice_range {E} (a b : nat) (s : bytes) : outcome bytes E :=
  if Nat.leb a b && Nat.leb b (length s) then Ok (firstn (b - a) (skipn a s)) else Panic.
(* s.get(..n) *)
Definition get_to (n : nat) (s : bytes) : option bytes :=
  if Nat.leb n (length s) then Some (firstn n s) else None.

Definition c_star : byte := x2a.
Definition c_slash : byte := x2f.
Definition c_colon : byte := x3a.
Definition c_dot : byte := x2e.

(* ---- gix-validate: reference::name_partial -------------------------------------------------- *)

Definition invalid_ref_byte (b : byte) : bool :=
  let n := b2N b in
  N.leb n 31 || N.eqb n 127 ||
  existsb (beqb b) (bs "\^:[? ~").

Definition lock_suffix : bytes := bs ".lock".

(* the `for (byte_pos, byte) in input.iter().enumerate()` loop of tag::name_inner, Mode::Validate;
   true = an error was returned *)
Fixpoint name_loop (input rest : bytes) (pos : nat) (previous : byte) (component_end : nat) : bool :=
  match rest with
  | [] => false
  | c :: rest' =>
      if invalid_ref_byte c then true
      else if beqb c c_star then true
      else if beqb c c_dot && beqb previous c_dot then true
      else if beqb c c_dot && beqb previous c_slash then true
      else if beqb c x7b && beqb previous x40 then true
      else if beqb c c_slash && beqb previous c_slash then true
      else
        let component_start := component_end in
        let component_end' := if beqb c c_slash then pos else component_end in
        if beqb c c_slash &&
           ends_with lock_suffix (firstn (component_end' - component_start) (skipn component_start input))
        then true
        else if Nat.eqb pos (length input - 1) && ends_with lock_suffix (skipn (component_end' + 1) input)
        then true
        else name_loop input rest' (S pos) c component_end'
  end.

Definition name_partial_ok (input : bytes) : bool :=
  match input with
  | [] => false
  | first :: _ =>
      if beqb (last input x00) c_slash then false
      else if beqb first c_slash then false
      else if name_loop input input 0 x00 0 then false
      else if beqb first c_dot then false
      else if beqb (last input x00) c_dot then false
      else true
  end.

(* ---- parse.rs (Operation::Fetch) ------------------------------------------------------------- *)

Inductive mode := Normal | Force | Negative.
Definition mode_eqb (a b : mode) : bool :=
  match a, b with Normal, Normal | Force, Force | Negative, Negative => true | _, _ => false end.

Record rspec := { smode : mode; ssrc : option bytes; sdst : option bytes }.

Inductive perr :=
| NegativeWithDestination | NegativeEmpty | NegativeObjectHash | NegativePartialName
| NegativeGlobPattern | PatternUnsupported | PatternUnbalanced | ReferenceName.

Definition HEAD : bytes := bs "HEAD".
Definition fetch_head_only (m : mode) : rspec := {| smode := m; ssrc := Some HEAD; sdst := None |}.

Definition non_empty (s : bytes) : option bytes := match s with [] => None | _ => Some s end.

Fixpoint replace_first (b r : byte) (s : bytes) : bytes :=
  match s with
  | [] => []
  | x :: s' => if beqb x b then r :: s' else x :: replace_first b r s'
  end.

(* fn validated(spec, allow_revspecs = false) *)
Definition validated (spec : option bytes) : outcome (option bytes * bool) perr :=
  match spec with
  | None => Ok (None, false)
  | Some s =>
      let glob_count := count_byte c_star s in
      if Nat.ltb 1 glob_count then Err PatternUnsupported
      else if Nat.eqb glob_count 1 then
        if name_partial_ok (replace_first c_star x61 s) then Ok (Some s, true) else Err ReferenceName
      else
        if name_partial_ok s then Ok (Some s, false) else Err ReferenceName
  end.

Definition is_ascii_hexdigit (b : byte) : bool :=
  match hex_val b with Some _ => true | None => false end.
Definition looks_like_object_hash (s : bytes) : bool :=
  Nat.leb 40 (length s) && forallb is_ascii_hexdigit s.

Definition refs_prefix : bytes := bs "refs/".

(* the part of `parse` after source and destination have been split *)
Definition parse_finish (m : mode) (src dst : option bytes) : outcome rspec perr :=
  let src := match src with
             | Some s => if bytes_eqb s (bs "@") then Some HEAD else Some s
             | None => None
             end in
  (sv <- validated src ;;
   dv <- validated dst ;;
   let '(src, src_pat) := sv in
   let '(dst, dst_pat) := dv in
   if negb (mode_eqb m Negative) && negb (Bool.eqb src_pat dst_pat) then Err PatternUnbalanced
   else if mode_eqb m Negative then
     match src with
     | Some s =>
         if src_pat then Err NegativeGlobPattern
         else if looks_like_object_hash s then Err NegativeObjectHash
         else if negb (starts_with refs_prefix s) && negb (bytes_eqb s HEAD) then Err NegativePartialName
         else Ok {| smode := m; ssrc := src; sdst := dst |}
     | None => Err NegativeEmpty
     end
   else Ok {| smode := m; ssrc := src; sdst := dst |})%outcome.

(* the part of `parse` that finds mode, source and destination; None: the early `fetch_head_only` return *)
Definition parse_split (spec0 : bytes) : outcome (mode * option (option bytes * option bytes)) perr :=
  match spec0 with
  | [] => Ok (Normal, None)
  | c :: rest =>
      let '(m, spec) :=
        if beqb c x5e then (Negative, rest)
        else if beqb c x2b then (Force, rest)
        else (Normal, spec0) in
      match find_byte c_colon spec with
      | Some pos =>
          if mode_eqb m Negative then Err NegativeWithDestination
          else
            let src := non_empty (firstn pos spec) in
            let dst := non_empty (skipn (S pos) spec) in
            match src, dst with
            | None, None => Ok (m, Some (Some HEAD, None))
            | None, Some d => Ok (m, Some (Some HEAD, Some d))
            | Some s, None => Ok (m, Some (Some s, None))
            | Some s, Some d => Ok (m, Some (Some s, Some d))
            end
      | None =>
          let src := non_empty spec in
          match src with
          | None => if mode_eqb m Negative then Ok (m, Some (None, None)) else Ok (m, None)
          | Some _ => Ok (m, Some (src, None))
          end
      end
  end.

Definition parse_fetch (spec0 : bytes) : outcome rspec perr :=
  ('(m, sd) <- parse_split spec0 ;;
   match sd with
   | None => Ok (fetch_head_only m)
   | Some (src, dst) => parse_finish m src dst
   end)%outcome.

(* ---- match_group/util.rs ---------------------------------------------------------------------- *)

Inductive needle :=
| FullName (name : bytes)
| PartialName (name : bytes)
| Glob (name : bytes) (asterisk_pos : nat)
| Object (id : bytes).

(* gix_hash::ObjectId::from_hex *)
Definition oid_from_hex (v : bytes) : option bytes :=
  if Nat.eqb (length v) 40 then hex_decode v else None.

(* impl From<&BStr> for Needle *)
Definition needle_of (v : bytes) : needle :=
  match find_byte c_star v with
  | Some pos => Glob v pos
  | None =>
      if starts_with refs_prefix v then FullName v
      else match oid_from_hex v with
           | Some id => Object id
           | None => PartialName v
           end
  end.

Record item := { iname : bytes; itarget : bytes; iobject : option bytes }.

Inductive mtch := MNone | MNormal | MGlobRange (start end_ : nat).

Definition is_match (m : mtch) : bool := match m with MNone => false | _ => true end.

(* spec.rs expand_partial_name: the names tried, in order *)
Definition expansions (name : bytes) : list bytes :=
  [ name;
    bs "refs/" ++ name;
    bs "refs/tags/" ++ name;
    bs "refs/heads/" ++ name;
    bs "refs/remotes/" ++ name;
    bs "refs/remotes/" ++ name ++ bs "/HEAD" ].

Fixpoint find_map {A B} (f : A -> option B) (l : list A) : option B :=
  match l with
  | [] => None
  | x :: r => match f x with Some y => Some y | None => find_map f r end
  end.

Definition expand_partial_name {T} (name : bytes) (cb : bytes -> option T) : option T :=
  find_map cb (expansions name).

(* Needle::matches *)
Definition needle_matches (n : needle) (it : item) : outcome mtch unit :=
  match n with
  | FullName name => Ok (if bytes_eqb name (iname it) then MNormal else MNone)
  | PartialName name =>
      Ok (match expand_partial_name name
                  (fun e => if bytes_eqb e (iname it) then Some MNormal else None) with
          | Some m => m
          | None => MNone
          end)
  | Glob name pos =>
      match get_to pos (iname it) with
      | None => Ok MNone
      | Some portion =>
          (head <- slice_to pos name ;;
           if negb (bytes_eqb portion head) then Ok MNone
           else
             tail <- slice_from (pos + 1) name ;;
             if Nat.ltb (length (iname it)) (pos + length tail) then Ok MNone
             else if negb (ends_with tail (iname it)) then Ok MNone
             else if Nat.ltb (length (iname it)) (length tail) then Panic   (* usize underflow *)
             else Ok (MGlobRange pos (length (iname it) - length tail)))%outcome
      end
  | Object id =>
      Ok (if bytes_eqb id (itarget it) then MNormal
          else match iobject it with
               | Some o => if bytes_eqb o id then MNormal else MNone
               | None => MNone
               end)
  end.

(* Needle::to_bstr_replace *)
Definition to_bstr_replace (n : needle) (range : option (nat * nat * item)) : outcome bytes unit :=
  match n, range with
  | FullName name, None => Ok name
  | PartialName name, None =>
      Ok (bs "refs/" ++
          (if starts_with (bs "heads/") name || starts_with (bs "tags/") name || starts_with (bs "remotes/") name
           then [] else bs "heads/") ++ name)
  | Glob name pos, Some (a, b, it) =>
      if Nat.eqb (length name + (b - a)) 0 then Panic       (* capacity: name.len() + range.len() - 1 *)
      else
        (p1 <- slice_to pos name ;;
         p2 <- slice_range a b (iname it) ;;
         p3 <- slice_from (pos + 1) name ;;
         Ok (p1 ++ p2 ++ p3))%outcome
  | Object id, None => Ok (bs "refs/heads/" ++ hex_encode id)
  | Glob _ _, None => Panic           (* unreachable!("BUG: no range provided for glob pattern") *)
  | _, Some _ => Panic                (* unreachable!("BUG: range provided even though needle wasn't a glob") *)
  end.

Definition to_bstr (n : needle) : outcome bytes unit := to_bstr_replace n None.

Record matcher := { lhs : option needle; rhs : option needle }.

Definition matcher_of (s : rspec) : matcher :=
  {| lhs := option_map needle_of (ssrc s); rhs := option_map needle_of (sdst s) |}.

(* Match::into_match_outcome *)
Definition into_match_outcome (m : mtch) (destination : needle) (it : item) : outcome (bool * option bytes) unit :=
  match m with
  | MNone => Ok (false, None)
  | MNormal => (d <- to_bstr_replace destination None ;; Ok (true, Some d))%outcome
  | MGlobRange a b => (d <- to_bstr_replace destination (Some (a, b, it)) ;; Ok (true, Some d))%outcome
  end.

(* Matcher::matches_lhs *)
Definition matches_lhs (m : matcher) (it : item) : outcome (bool * option bytes) unit :=
  match lhs m, rhs m with
  | Some l, None => (r <- needle_matches l it ;; Ok (is_match r, None))%outcome
  | Some l, Some d => (r <- needle_matches l it ;; into_match_outcome r d it)%outcome
  | None, _ => Ok (false, None)
  end.

(* ---- match_group/mod.rs ----------------------------------------------------------------------- *)

Inductive source := SFullName (name : bytes) | SObjectId (id : bytes).

Definition source_eqb (a b : source) : bool :=
  match a, b with
  | SFullName x, SFullName y => bytes_eqb x y
  | SObjectId x, SObjectId y => bytes_eqb x y
  | _, _ => false
  end.

Definition opt_bytes_eqb (a b : option bytes) : bool :=
  match a, b with
  | None, None => true
  | Some x, Some y => bytes_eqb x y
  | _, _ => false
  end.

Record mapping := { item_index : option nat; mlhs : source; mrhs : option bytes; spec_index : nat }.

(* `impl Hash for Mapping` hashes lhs and rhs only; `seen` holds the 64-bit SipHash values.
   Modelled as equality of (lhs, rhs): collision freedom of the hash is an assumption. *)
Definition same_key (a b : mapping) : bool :=
  source_eqb (mlhs a) (mlhs b) && opt_bytes_eqb (mrhs a) (mrhs b).

Definition push_unique (out : list mapping) (m : mapping) : list mapping :=
  if existsb (same_key m) out then out else out ++ [m].

Definition is_negative (s : rspec) : bool := mode_eqb (smode s) Negative.

(* first pass: object-id sources produce a mapping right away and lose their matcher *)
Fixpoint object_pass (specs : list rspec) (idx : nat) (out : list mapping)
  : outcome (list mapping * list (option matcher)) unit :=
  match specs with
  | [] => Ok (out, [])
  | s :: rest =>
      let m := matcher_of s in
      match lhs m with
      | Some (Object id) =>
          (r <- match rhs m with
                | Some d => (b <- to_bstr d ;; Ok (Some b))
                | None => Ok None
                end ;;
           let out := push_unique out {| item_index := None; mlhs := SObjectId id; mrhs := r; spec_index := idx |} in
           '(out, ms) <- object_pass rest (S idx) out ;;
           Ok (out, None :: ms))%outcome
      | _ =>
          ('(out, ms) <- object_pass rest (S idx) out ;;
           Ok (out, Some m :: ms))%outcome
      end
  end.

Fixpoint enumerate {A} (i : nat) (l : list A) : list (nat * A) :=
  match l with
  | [] => []
  | x :: r => (i, x) :: enumerate (S i) r
  end.

(* the inner `for (item_index, item) in items.clone().enumerate()` loop *)
Fixpoint match_items (m : matcher) (sidx : nat) (its : list (nat * item)) (out : list mapping)
  : outcome (list mapping) unit :=
  match its with
  | [] => Ok out
  | (i, it) :: r =>
      ('(matched, d) <- matches_lhs m it ;;
       let out := if matched
                  then push_unique out {| item_index := Some i; mlhs := SFullName (iname it); mrhs := d; spec_index := sidx |}
                  else out in
       match_items m sidx r out)%outcome
  end.

Definition find_item (name : bytes) (its : list (nat * item)) : option (nat * item) :=
  find (fun p => bytes_eqb (iname (snd p)) name) its.

(* the `for (spec_index, (spec, matcher))` loop *)
Fixpoint positive_pass (specs : list rspec) (ms : list (option matcher)) (sidx : nat)
                       (items : list item) (out : list mapping) : outcome (list mapping) unit :=
  match specs, ms with
  | s :: specs', m :: ms' =>
      if is_negative s then positive_pass specs' ms' (S sidx) items out
      else
        match m with
        | Some mt =>
            match lhs mt with
            | Some (PartialName name) | Some (FullName name) =>
                match expand_partial_name name (fun e => find_item e (enumerate 0 items)) with
                | Some (i, it) =>
                    (d <- match rhs mt with
                          | Some d => (b <- to_bstr d ;; Ok (Some b))
                          | None => Ok None
                          end ;;
                     let out := push_unique out {| item_index := Some i; mlhs := SFullName (iname it);
                                                   mrhs := d; spec_index := sidx |} in
                     positive_pass specs' ms' (S sidx) items out)%outcome
                | None => positive_pass specs' ms' (S sidx) items out
                end
            | _ =>
                (out <- match_items mt sidx (enumerate 0 items) out ;;
                 positive_pass specs' ms' (S sidx) items out)%outcome
            end
        | None => positive_pass specs' ms' (S sidx) items out
        end
  | _, _ => Ok out
  end.

Definition null_item (name : bytes) : item :=
  {| iname := name; itarget := repeat x00 20; iobject := None |}.

(* `out.retain(..)` for one negative matcher *)
Fixpoint retain_not_matching (m : matcher) (out : list mapping) : outcome (list mapping) unit :=
  match out with
  | [] => Ok []
  | x :: r =>
      (keep <- match mlhs x with
               | SObjectId _ => Ok true
               | SFullName name =>
                   match lhs m with
                   | Some (PartialName partial) => Ok (negb (bytes_eqb partial name))
                   | _ => (res <- matches_lhs m (null_item name) ;; Ok (negb (fst res)))
                   end
               end ;;
       r' <- retain_not_matching m r ;;
       Ok (if keep then x :: r' else r'))%outcome
  end.

Fixpoint negative_pass (specs : list rspec) (ms : list (option matcher)) (out : list mapping)
  : outcome (list mapping) unit :=
  match specs, ms with
  | s :: specs', m :: ms' =>
      match m with
      | Some mt =>
          if is_negative s
          then (out <- retain_not_matching mt out ;; negative_pass specs' ms' out)%outcome
          else negative_pass specs' ms' out
      | None => negative_pass specs' ms' out
      end
  | _, _ => Ok out
  end.

(* MatchGroup::match_remotes *)
Definition match_remotes (specs : list rspec) (items : list item) : outcome (list mapping) unit :=
  ('(out, ms) <- object_pass specs 0 [] ;;
   out <- positive_pass specs ms 0 items out ;;
   if existsb is_negative specs && negb (Nat.eqb (length items) 0)
   then negative_pass specs ms out
   else Ok out)%outcome.

(* ---- match_group/validate.rs ------------------------------------------------------------------ *)

Definition dst_is_full (d : bytes) : bool := starts_with refs_prefix d || bytes_eqb d HEAD.

(* BTreeMap<&BStr, Vec<(usize, &SourceRef)>>: association list kept sorted by key *)
Fixpoint btree_add (k : bytes) (v : nat * source) (t : list (bytes * list (nat * source)))
  : list (bytes * list (nat * source)) :=
  match t with
  | [] => [(k, [v])]
  | (k', vs) :: r =>
      match bytes_cmp k k' with
      | Lt => (k, [v]) :: t
      | Eq => (k', if existsb (fun p => source_eqb (snd p) (snd v)) vs then vs else vs ++ [v]) :: r
      | Gt => (k', vs) :: btree_add k v r
      end
  end.

Definition sources_by_destinations (ms : list mapping) : list (bytes * list (nat * source)) :=
  fold_left (fun t m => match mrhs m with
                        | Some d => if dst_is_full d then btree_add d (spec_index m, mlhs m) t else t
                        | None => t
                        end) ms [].

Inductive validation :=
| Conflict (issues : list (bytes * list source))
| Valid (ms : list mapping) (fixes : list bytes).

Definition validated_outcome (ms : list mapping) : validation :=
  let issues := filter (fun e => Nat.ltb 1 (length (snd e))) (sources_by_destinations ms) in
  match issues with
  | _ :: _ => Conflict (map (fun e => (fst e, map snd (snd e))) issues)
  | [] =>
      Valid (filter (fun m => match mrhs m with Some d => dst_is_full d | None => true end) ms)
            (flat_map (fun m => match mrhs m with
                                | Some d => if dst_is_full d then [] else [d]
                                | None => []
                                end) ms)
  end.

(* ---- the whole pipeline the harness drives: parse every spec, match, validate ---------------- *)

Fixpoint parse_all (specs : list bytes) (i : nat) : outcome (list rspec) (nat * perr) :=
  match specs with
  | [] => Ok []
  | s :: r =>
      match parse_fetch s with
      | Ok p => match parse_all r (S i) with
                | Ok ps => Ok (p :: ps)
                | Err e => Err e
                | Panic => Panic
                | OutOfFuel => OutOfFuel
                end
      | Err e => Err (i, e)
      | Panic => Panic
      | OutOfFuel => OutOfFuel
      end
  end.

Definition item_of_name (i : nat) (name : bytes) : item :=
  {| iname := name; itarget := repeat (N2b (N.of_nat i + 1)) 20; iobject := None |}.

Fixpoint items_of_names (i : nat) (names : list bytes) : list item :=
  match names with
  | [] => []
  | n :: r => item_of_name i n :: items_of_names (S i) r
  end.
