(* C32 — Refspec matching agrees with git.
   Only statements here; every proof is [exact <lemma of Proofs.v>].
   Model.v: gix-refspec as the code is (parse for fetch, Needle matching and substitution,
   MatchGroup::match_remotes, Outcome::validated).  Spec.v: git's algorithm (remote.c, refs.c).
   [x2a] is the byte '*'. *)
From GixV.Base Require Import Bytes BytesFacts Outcome.
From GixV.C32 Require Import Model Spec Proofs.

(* A glob source with a glob destination, for ALL byte strings: Matcher::matches_lhs (Needle::matches +
   Match::into_match_outcome + Needle::to_bstr_replace) returns normally — no slice is out of range, no
   `unreachable!` is reached, whatever the overlap of prefix and suffix — and it matches exactly when git's
   match_name_with_pattern does, producing the same expanded destination. *)
Theorem glob_is_git : forall key value name target object,
  In x2a key -> In x2a value ->
  matches_lhs {| lhs := Some (needle_of key); rhs := Some (needle_of value) |} (mk_item name target object) =
    Ok (match git_match_name_with_pattern key name (Some value) with
        | Some (Some d) => (true, Some d)
        | _ => (false, None)
        end).
Proof. exact L_glob_is_git. Qed.

(* the same for a glob without destination (negative specs, fetch-only) *)
Theorem glob_is_git_without_destination : forall key name target object,
  In x2a key ->
  matches_lhs {| lhs := Some (needle_of key); rhs := None |} (mk_item name target object) =
    Ok (match git_match_name_with_pattern key name None with Some _ => true | None => false end, None).
Proof. exact L_glob_is_git_nodst. Qed.

(* non-vacuity: the input that used to panic (prefix and suffix overlap in the name), and a real match *)
Example glob_overlap_example :
  matches_lhs {| lhs := Some (needle_of (bs "refs/heads/a*a")); rhs := Some (needle_of (bs "refs/r/x*y")) |}
              (mk_item (bs "refs/heads/a") [] None) = Ok (false, None) /\
  matches_lhs {| lhs := Some (needle_of (bs "refs/heads/a*a")); rhs := Some (needle_of (bs "refs/r/x*y")) |}
              (mk_item (bs "refs/heads/aba") [] None) = Ok (true, Some (bs "refs/r/xby")) /\
  In x2a (bs "refs/heads/a*a") /\ In x2a (bs "refs/r/x*y").
Proof. repeat split; vm_compute; tauto. Qed.
