(* C32 — Refspec matching agrees with git.
   Only statements here; every proof is [exact <lemma of Proofs.v>].
   Model.v: gix-refspec as the code is (parse for fetch, Needle matching and substitution,
   MatchGroup::match_remotes, Outcome::validated).  Spec.v: git's algorithm (remote.c, refs.c).
   [x2a] is the byte '*'. *)
From GixV.Base Require Import Bytes BytesFacts Outcome.
From GixV.C32 Require Import Model Spec Proofs.

(* A glob source with a glob destination, for ALL byte strings: Matcher::matches_lhs (Needle::matches +
   Match::into_match_outcome + Needle::to_bstr_replace) returns normally — no slice is out of range, no
   `unreachable!` is reached, whatever the overlap of prefix and suffix — and it matches exactly when git's
   match_name_with_pattern does, producing the same expanded destination. *)
Theorem glob_is_git : forall key value name target object,
  In x2a key -> In x2a value ->
  matches_lhs {| lhs := Some (needle_of key); rhs := Some (needle_of value) |} (mk_item name target object) =
    Ok (match git_match_name_with_pattern key name (Some value) with
        | Some (Some d) => (true, Some d)
        | _ => (false, None)
        end).
Proof. exact L_glob_is_git. Qed.

(* the same for a glob without destination (negative specs, fetch-only) *)
Theorem glob_is_git_without_destination : forall key name target object,
  In x2a key ->
  matches_lhs {| lhs := Some (needle_of key); rhs := None |} (mk_item name target object) =
    Ok (match git_match_name_with_pattern key name None with Some _ => true | None => false end, None).
Proof. exact L_glob_is_git_nodst. Qed.

(* non-vacuity: the input that used to panic (prefix and suffix overlap in the name), and a real match *)
Example glob_overlap_example :
  matches_lhs {| lhs := Some (needle_of (bs "refs/heads/a*a")); rhs := Some (needle_of (bs "refs/r/x*y")) |}
              (mk_item (bs "refs/heads/a") [] None) = Ok (false, None) /\
  matches_lhs {| lhs := Some (needle_of (bs "refs/heads/a*a")); rhs := Some (needle_of (bs "refs/r/x*y")) |}
              (mk_item (bs "refs/heads/aba") [] None) = Ok (true, Some (bs "refs/r/xby")) /\
  In x2a (bs "refs/heads/a*a") /\ In x2a (bs "refs/r/x*y").
Proof. repeat split; vm_compute; tauto. Qed.

(* Parsing a fetch refspec never panics, and an accepted refspec is balanced: source and destination
   both contain a '*' or neither does ([wf_spec]); negative specs have no destination. *)
Theorem parse_never_panics : forall spec, parse_fetch spec <> Panic /\ parse_fetch spec <> OutOfFuel.
Proof. exact L_parse_no_panic. Qed.

Theorem parsed_specs_are_balanced : forall spec r, parse_fetch spec = Ok r -> wf_spec r.
Proof. exact L_parse_wf. Qed.

(* MatchGroup::match_remotes returns normally for ALL balanced refspec lists and ALL remote references
   (names, targets and peeled objects are arbitrary byte strings): none of the slice operations, `unreachable!`
   arms or subtractions in Needle::matches / to_bstr_replace / match_remotes is reached in a panicking way. *)
Theorem match_total : forall specs items, Forall wf_spec specs -> exists ms, match_remotes specs items = Ok ms.
Proof. exact L_match_total. Qed.

(* ... hence the whole pipeline (parse every refspec text, match, validate) never panics, for all inputs:
   either some refspec is rejected with an error, or matching yields mappings. *)
Theorem matching_never_panics : forall specs names,
  (exists i e, parse_all specs 0 = Err (i, e)) \/
  (exists parsed ms, parse_all specs 0 = Ok parsed /\ Forall wf_spec parsed /\
                     match_remotes parsed (items_of_names 0 names) = Ok ms).
Proof. exact L_pipeline_total. Qed.

(* non-vacuity: a balanced glob spec, a partial name, an object id and a negative spec together *)
Example match_example :
  exists parsed ms,
    parse_all [bs "+refs/heads/*:refs/remotes/o/*"; bs "x:heads/y"; bs "^refs/heads/b";
               bs "0101010101010101010101010101010101010101:tags/t"] 0 = Ok parsed /\
    Forall wf_spec parsed /\
    match_remotes parsed (items_of_names 0 [bs "refs/heads/a"; bs "refs/heads/b"; bs "refs/tags/x"; bs "refs/heads/x"]) = Ok ms /\
    map (fun m => (mlhs m, mrhs m)) ms =
      [ (SObjectId (repeat x01 20), Some (bs "refs/tags/t"));
        (SFullName (bs "refs/heads/a"), Some (bs "refs/remotes/o/a"));
        (SFullName (bs "refs/heads/x"), Some (bs "refs/remotes/o/x"));
        (SFullName (bs "refs/tags/x"), Some (bs "refs/heads/y")) ].
Proof.
  eexists. eexists. split; [vm_compute; reflexivity|]. split.
  - repeat constructor; vm_compute; reflexivity.
  - split; vm_compute; reflexivity.
Qed.

(* --- per-refspec agreement with git, for all byte strings -------------------------------------- *)

(* A source that is not a pattern (partial name, or full name starting with refs/) is resolved by
   match_remotes to the remote reference that git's find_ref_by_name_abbrev (refname_match over
   ref_rev_parse_rules, best score, first wins) picks — or to none exactly when git finds none. *)
Theorem name_resolution_is_git : forall names name,
  option_map (fun p => iname (snd p))
    (expand_partial_name name (fun e => find_item e (enumerate 0 (items_of_names 0 names)))) =
  find_ref_by_name_abbrev names name.
Proof. exact L_name_resolution_is_git. Qed.

(* The destination of a non-pattern refspec is git's get_local_ref, unless it consists of 40 hex digits
   (then gix prints the lower-cased digits: known class hex-dst-case when they were upper case). *)
Theorem destination_is_git : forall d,
  has_star d = false -> oid_from_hex d = None -> to_bstr (needle_of d) = Ok (get_local_ref d).
Proof. exact L_destination_is_git. Qed.

Theorem destination_hex_is_lowercased : forall d id,
  has_star d = false -> starts_with refs_prefix d = false -> oid_from_hex d = Some id ->
  to_bstr (needle_of d) = Ok (bs "refs/heads/" ++ hex_encode id).
Proof. exact L_destination_hex. Qed.

Theorem destination_is_git_refuted : exists d,
  has_star d = false /\ to_bstr (needle_of d) <> Ok (get_local_ref d).
Proof. exists (bs "AAAAAAAAAAAAAAAAAAAAAAAAAAAAAAAAAAAAAAAA"). split; [reflexivity|]. vm_compute. discriminate. Qed.

(* A negative refspec (no destination; a pattern, a name under refs/, or a name that is not an object id such
   as HEAD) removes from the mappings exactly the sources git's omit_name_by_refspec omits: literal
   comparison for names, match_name_with_pattern for patterns; object-id sources always stay. *)
Theorem negative_is_git : forall s src out,
  ssrc s = Some src -> sdst s = None ->
  (has_star src = true \/ oid_from_hex src = None \/ starts_with refs_prefix src = true) ->
  retain_not_matching (matcher_of s) out = Ok (filter (kept_by s) out).
Proof. exact L_negative_is_git. Qed.

Example resolution_example :
  find_ref_by_name_abbrev [bs "refs/heads/x"; bs "refs/remotes/x/HEAD"; bs "refs/tags/x"] (bs "x") = Some (bs "refs/tags/x") /\
  to_bstr (needle_of (bs "heads/foo")) = Ok (bs "refs/heads/foo") /\
  has_star (bs "heads/foo") = false /\ oid_from_hex (bs "heads/foo") = None /\
  retain_not_matching (matcher_of {| smode := Negative; ssrc := Some (bs "HEAD"); sdst := None |})
    [ {| item_index := Some 0%nat; mlhs := SFullName (bs "HEAD"); mrhs := None; spec_index := 0%nat |};
      {| item_index := Some 1%nat; mlhs := SFullName (bs "refs/heads/HEAD"); mrhs := None; spec_index := 0%nat |} ] =
    Ok [ {| item_index := Some 1%nat; mlhs := SFullName (bs "refs/heads/HEAD"); mrhs := None; spec_index := 0%nat |} ].
Proof. repeat split; vm_compute; reflexivity. Qed.

(* --- the composed statement (NOT proved; tested by the harness' `prop` oracle on every case) ---- *)

Definition source_name (s : source) : bytes :=
  match s with SFullName n => n | SObjectId id => hex_encode id end.
Definition pairs_of (ms : list mapping) : list pair := map (fun m => (source_name (mlhs m), mrhs m)) ms.

(* the two known classes: an expanded destination git drops as funny although gix regards it as full
   (funny-dst), and a 40-hex-digit destination written with upper-case digits (hex-dst-case) *)
Definition known_funny_dst (valid : bytes -> bool) (specs : list rspec) (names : list bytes) : Prop :=
  exists c p d, git_candidates specs names = Some c /\ In p c /\ snd p = Some d /\
                dst_is_full d = true /\ git_not_funny valid p = false.
Definition known_hex_dst_case (specs : list rspec) : Prop :=
  exists s d id, In s specs /\ sdst s = Some d /\ oid_from_hex d = Some id /\ hex_encode id <> d.

Definition mappings_are_git_full_statement : Prop :=
  forall valid texts names parsed ms,
    parse_all texts 0 = Ok parsed ->
    match_remotes parsed (items_of_names 0 names) = Ok ms ->
    ~ known_funny_dst valid parsed names -> ~ known_hex_dst_case parsed ->
    match git_fetch_map valid parsed names with
    | GitDieMissing => True
    | GitDieConflict => exists issues, validated_outcome ms = Conflict issues
    | GitMaps l => exists ms' fixes, validated_outcome ms = Valid ms' fixes /\
                                     forall p, In p l <-> In p (pairs_of ms')
    end.
