(* C32 — Refspec matching agrees with git.
   Only statements here; every proof is [exact <lemma of Proofs.v>].
   Model.v: gix-refspec as the code is (parse for fetch, Needle matching and substitution,
   MatchGroup::match_remotes, Outcome::validated).  Spec.v: git's algorithm (remote.c, refs.c).
   [x2a] is the byte '*'. *)
From GixV.Base Require Import Bytes BytesFacts Outcome.
From GixV.C32 Require Import Model Spec Proofs.

(* A glob source with a glob destination, for ALL byte strings: Matcher::matches_lhs (Needle::matches +
   Match::into_match_outcome + Needle::to_bstr_replace) returns normally — no slice is out of range, no
   `unreachable!` is reached, whatever the overlap of prefix and suffix — and it matches exactly when git's
   match_name_with_pattern does, producing the same expanded destination. *)
Theorem glob_is_git : forall key value name target object,
  In x2a key -> In x2a value ->
  matches_lhs {| lhs := Some (needle_of key); rhs := Some (needle_of value) |} (mk_item name target object) =
    Ok (match git_match_name_with_pattern key name (Some value) with
        | Some (Some d) => (true, Some d)
        | _ => (false, None)
        end).
Proof. exact L_glob_is_git. Qed.

(* the same for a glob without destination (negative specs, fetch-only) *)
Theorem glob_is_git_without_destination : forall key name target object,
  In x2a key ->
  matches_lhs {| lhs := Some (needle_of key); rhs := None |} (mk_item name target object) =
    Ok (match git_match_name_with_pattern key name None with Some _ => true | None => false end, None).
Proof. exact L_glob_is_git_nodst. Qed.

(* non-vacuity: the input that used to panic (prefix and suffix overlap in the name), and a real match *)
Example glob_overlap_example :
  matches_lhs {| lhs := Some (needle_of (bs "refs/heads/a*a")); rhs := Some (needle_of (bs "refs/r/x*y")) |}
              (mk_item (bs "refs/heads/a") [] None) = Ok (false, None) /\
  matches_lhs {| lhs := Some (needle_of (bs "refs/heads/a*a")); rhs := Some (needle_of (bs "refs/r/x*y")) |}
              (mk_item (bs "refs/heads/aba") [] None) = Ok (true, Some (bs "refs/r/xby")) /\
  In x2a (bs "refs/heads/a*a") /\ In x2a (bs "refs/r/x*y").
Proof. repeat split; vm_compute; tauto. Qed.

(* Parsing a fetch refspec never panics, and an accepted refspec is balanced: source and destination
   both contain a '*' or neither does ([wf_spec]); negative specs have no destination. *)
Theorem parse_never_panics : forall spec, parse_fetch spec <> Panic /\ parse_fetch spec <> OutOfFuel.
Proof. exact L_parse_no_panic. Qed.

Theorem parsed_specs_are_balanced : forall spec r, parse_fetch spec = Ok r -> wf_spec r.
Proof. exact L_parse_wf. Qed.

(* MatchGroup::match_remotes returns normally for ALL balanced refspec lists and ALL remote references
   (names, targets and peeled objects are arbitrary byte strings): none of the slice operations, `unreachable!`
   arms or subtractions in Needle::matches / to_bstr_replace / match_remotes is reached in a panicking way. *)
Theorem match_total : forall specs items, Forall wf_spec specs -> exists ms, match_remotes specs items = Ok ms.
Proof. exact L_match_total. Qed.

(* ... hence the whole pipeline (parse every refspec text, match, validate) never panics, for all inputs:
   either some refspec is rejected with an error, or matching yields mappings. *)
Theorem matching_never_panics : forall specs names,
  (exists i e, parse_all specs 0 = Err (i, e)) \/
  (exists parsed ms, parse_all specs 0 = Ok parsed /\ Forall wf_spec parsed /\
                     match_remotes parsed (items_of_names 0 names) = Ok ms).
Proof. exact L_pipeline_total. Qed.

(* non-vacuity: a balanced glob spec, a partial name, an object id and a negative spec together *)
Example match_example :
  exists parsed ms,
    parse_all [bs "+refs/heads/*:refs/remotes/o/*"; bs "x:heads/y"; bs "^refs/heads/b";
               bs "0101010101010101010101010101010101010101:tags/t"] 0 = Ok parsed /\
    Forall wf_spec parsed /\
    match_remotes parsed (items_of_names 0 [bs "refs/heads/a"; bs "refs/heads/b"; bs "refs/tags/x"; bs "refs/heads/x"]) = Ok ms /\
    map (fun m => (mlhs m, mrhs m)) ms =
      [ (SObjectId (repeat x01 20), Some (bs "refs/tags/t"));
        (SFullName (bs "refs/heads/a"), Some (bs "refs/remotes/o/a"));
        (SFullName (bs "refs/heads/x"), Some (bs "refs/remotes/o/x"));
        (SFullName (bs "refs/tags/x"), Some (bs "refs/heads/y")) ].
Proof.
  eexists. eexists. split; [vm_compute; reflexivity|]. split.
  - repeat constructor; vm_compute; reflexivity.
  - split; vm_compute; reflexivity.
Qed.
