//! C32 harness: gix-refspec fetch-spec parsing, MatchGroup::match_remotes and Outcome::validated,
//! against (a) the extracted Coq model (`impl` transcript), (b) a plain-Rust transcription of git's
//! remote.c algorithm (`prop`), (c) real `git fetch` (`git`).
//!
//! case:  match <nspecs> <spec>*nspecs <remote ref name>*
use bstr::{BStr, BString, ByteSlice};
use gix_refspec::match_group::{validate::Fix, Item, SourceRef};
use gix_refspec::parse::{Error as PErr, Operation};
use gix_refspec::{MatchGroup, RefSpecRef};
use gixv_common::*;
use std::collections::BTreeSet;

// ------------------------------------------------------------------------------------------------
// implementation transcript

fn perr_name(e: &PErr) -> &'static str {
    match e {
        PErr::Empty => "Empty",
        PErr::NegativeWithDestination => "NegativeWithDestination",
        PErr::NegativeEmpty => "NegativeEmpty",
        PErr::NegativeUnsupported => "NegativeUnsupported",
        PErr::NegativeObjectHash => "NegativeObjectHash",
        PErr::NegativePartialName => "NegativePartialName",
        PErr::NegativeGlobPattern => "NegativeGlobPattern",
        PErr::InvalidFetchDestination => "InvalidFetchDestination",
        PErr::PushToEmpty => "PushToEmpty",
        PErr::PatternUnsupported { .. } => "PatternUnsupported",
        PErr::PatternUnbalanced => "PatternUnbalanced",
        PErr::ReferenceName(_) => "ReferenceName",
        PErr::RevSpec(_) => "RevSpec",
    }
}

fn split_case(c: &Case) -> (Vec<&[u8]>, Vec<&[u8]>) {
    let n = f_u64(c, 1) as usize;
    let specs: Vec<&[u8]> = (0..n).map(|i| f_str(c, 2 + i)).collect();
    let names: Vec<&[u8]> = (2 + n..c.len()).map(|i| f_str(c, i)).collect();
    (specs, names)
}

fn oid_of_index(i: usize) -> gix_hash::ObjectId {
    gix_hash::ObjectId::from_bytes_or_panic(&[(i as u8).wrapping_add(1); 20])
}

fn join(v: Vec<String>, sep: &str) -> String {
    if v.is_empty() {
        "-".into()
    } else {
        v.join(sep)
    }
}

fn show_lhs(l: &SourceRef<'_>) -> String {
    match l {
        SourceRef::FullName(n) => format!("n{}", hexs(n)),
        SourceRef::ObjectId(id) => format!("o{}", hexs(id.as_bytes())),
    }
}
fn show_mapping(m: &gix_refspec::match_group::Mapping<'_, '_>) -> String {
    format!(
        "{},{},{},{}",
        m.item_index.map_or("-".to_string(), |i| i.to_string()),
        show_lhs(&m.lhs),
        m.rhs.as_ref().map_or("~".to_string(), |r| format!("d{}", hexs(r.as_ref()))),
        m.spec_index
    )
}

fn parse_all<'a>(specs: &[&'a [u8]]) -> Result<Vec<RefSpecRef<'a>>, (usize, PErr)> {
    let mut out = Vec::new();
    for (i, s) in specs.iter().enumerate() {
        match gix_refspec::parse(s.as_bstr(), Operation::Fetch) {
            Ok(r) => out.push(r),
            Err(e) => return Err((i, e)),
        }
    }
    Ok(out)
}

fn imp(c: &Case) -> String {
    if f_str(c, 0) != b"match" {
        return "?".into();
    }
    let (specs, names) = split_case(c);
    let parsed = match parse_all(&specs) {
        Ok(p) => p,
        Err((i, e)) => return format!("err parse {} {}", i, perr_name(&e)),
    };
    let oids: Vec<_> = (0..names.len()).map(oid_of_index).collect();
    let items: Vec<Item<'_>> = names
        .iter()
        .zip(oids.iter())
        .map(|(n, o)| Item { full_ref_name: n.as_bstr(), target: o, object: None })
        .collect();
    let out = MatchGroup::from_fetch_specs(parsed).match_remotes(items.iter().copied());
    let first = join(out.mappings.iter().map(show_mapping).collect(), ";");
    let second = match out.validated() {
        Ok((out, fixes)) => format!(
            "valid {} | fixes {}",
            join(out.mappings.iter().map(show_mapping).collect(), ";"),
            join(
                fixes
                    .iter()
                    .map(|f| match f {
                        Fix::MappingWithPartialDestinationRemoved { name, .. } => hexs(name),
                    })
                    .collect(),
                ","
            )
        ),
        Err(e) => format!(
            "conflict {}",
            join(
                e.issues
                    .iter()
                    .map(|i| match i {
                        gix_refspec::match_group::validate::Issue::Conflict {
                            destination_full_ref_name,
                            sources,
                            ..
                        } => format!(
                            "{}={}",
                            hexs(destination_full_ref_name),
                            sources
                                .iter()
                                .map(|s| match s {
                                    gix_refspec::match_group::Source::FullName(n) => format!("n{}", hexs(n)),
                                    gix_refspec::match_group::Source::ObjectId(id) => format!("o{}", hexs(id.as_bytes())),
                                })
                                .collect::<Vec<_>>()
                                .join(",")
                        ),
                    })
                    .collect(),
                ";"
            )
        ),
    };
    format!("ok {} | {}", first, second)
}

// ------------------------------------------------------------------------------------------------
// git's algorithm, transcribed from git 2.39 remote.c / refspec.c / refs.c / builtin/fetch.c
// (plain string operations; independent of gix)

#[derive(Clone, Debug)]
struct GSpec {
    force: bool,
    negative: bool,
    pattern: bool,
    exact_sha1: bool,
    src: Vec<u8>,
    dst: Option<Vec<u8>>,
}

/// refspec.c parse_refspec(fetch=1) for a spec that is already known to be valid
fn g_parse(spec: &[u8]) -> GSpec {
    let mut s = spec;
    let mut force = false;
    let mut negative = false;
    if s.first() == Some(&b'+') {
        force = true;
        s = &s[1..];
    } else if s.first() == Some(&b'^') {
        negative = true;
        s = &s[1..];
    }
    // git uses strrchr(':'), valid ref names have no ':' so first == last for valid specs
    let (lhs, rhs) = match s.iter().rposition(|b| *b == b':') {
        Some(p) => (&s[..p], Some(&s[p + 1..])),
        None => (s, None),
    };
    let mut src = lhs.to_vec();
    if src == b"@" || (src.is_empty() && !negative) {
        // get_fetch_map: `name = refspec->src[0] ? refspec->src : "HEAD"`
        src = b"HEAD".to_vec();
    }
    let dst = rhs.filter(|r| !r.is_empty()).map(|r| r.to_vec());
    let pattern = src.contains(&b'*');
    let exact_sha1 = src.len() == 40 && src.iter().all(|b| b.is_ascii_hexdigit());
    GSpec { force, negative, pattern, exact_sha1, src, dst }
}

/// remote.c match_name_with_pattern
fn g_match_name_with_pattern(key: &[u8], name: &[u8], value: Option<&[u8]>) -> Option<Option<Vec<u8>>> {
    let kstar = key.iter().position(|b| *b == b'*').expect("key has no star");
    let klen = kstar;
    let ksuffix = &key[kstar + 1..];
    let ret = name.len() >= klen
        && name[..klen] == key[..klen]
        && name.len() >= klen + ksuffix.len()
        && name[name.len() - ksuffix.len()..] == *ksuffix;
    if !ret {
        return None;
    }
    Some(value.map(|value| {
        let vstar = value.iter().position(|b| *b == b'*').expect("value has no star");
        let mut out = value[..vstar].to_vec();
        out.extend_from_slice(&name[klen..name.len() - ksuffix.len()]);
        out.extend_from_slice(&value[vstar + 1..]);
        out
    }))
}

const RULES: [(&str, &str); 6] = [
    ("", ""),
    ("refs/", ""),
    ("refs/tags/", ""),
    ("refs/heads/", ""),
    ("refs/remotes/", ""),
    ("refs/remotes/", "/HEAD"),
];

/// refs.c refname_match: 0 = no match, else NUM_RULES - index of the first matching rule
fn g_refname_match(abbrev: &[u8], full: &[u8]) -> usize {
    for (i, (pre, post)) in RULES.iter().enumerate() {
        let mut e = pre.as_bytes().to_vec();
        e.extend_from_slice(abbrev);
        e.extend_from_slice(post.as_bytes());
        if e == full {
            return RULES.len() - i;
        }
    }
    0
}

/// remote.c find_ref_by_name_abbrev
fn g_find_ref_by_name_abbrev<'a>(refs: &[&'a [u8]], name: &[u8]) -> Option<&'a [u8]> {
    let mut best = None;
    let mut best_score = 0;
    for r in refs {
        let score = g_refname_match(name, r);
        if best_score < score {
            best = Some(*r);
            best_score = score;
        }
    }
    best
}

/// remote.c get_local_ref
fn g_get_local_ref(name: &[u8]) -> Vec<u8> {
    let mut out = Vec::new();
    if name.starts_with(b"refs/") {
    } else if name.starts_with(b"heads/") || name.starts_with(b"tags/") || name.starts_with(b"remotes/") {
        out.extend_from_slice(b"refs/");
    } else {
        out.extend_from_slice(b"refs/heads/");
    }
    out.extend_from_slice(name);
    out
}

/// refs.c check_refname_format(name, 0) == 0
fn g_check_refname_format(name: &[u8]) -> bool {
    if name == b"@" {
        return false;
    }
    let comps: Vec<&[u8]> = name.split(|b| *b == b'/').collect();
    for comp in &comps {
        if comp.is_empty() || comp[0] == b'.' || comp.ends_with(b".lock") {
            return false;
        }
        let mut last = 0u8;
        for &ch in comp.iter() {
            match ch {
                0..=0x1f | b' ' | b'~' | b'^' | b':' | b'?' | b'[' | b'\\' | 0x7f | b'*' => return false,
                b'.' if last == b'.' => return false,
                b'{' if last == b'@' => return false,
                _ => {}
            }
            last = ch;
        }
    }
    if name.ends_with(b".") {
        return false;
    }
    comps.len() >= 2
}

#[derive(Debug, PartialEq, Eq)]
enum GitResult {
    DieMissing,
    DieConflict,
    Maps(BTreeSet<(Vec<u8>, Option<Vec<u8>>)>),
}

struct GitRun {
    result: GitResult,
    /// some candidate destination was dropped as a "funny ref" although it starts with refs/, or is exactly HEAD
    funny_under_refs: bool,
}

/// builtin/fetch.c get_ref_map for command line refspecs: get_fetch_map per spec, apply_negative_refspecs,
/// ref_remove_duplicates.  A source is the remote ref name, or the 40-digit hex for exact-oid specs.
fn g_fetch_map(specs: &[GSpec], refs: &[&[u8]]) -> GitRun {
    let mut map: Vec<(Vec<u8>, Option<Vec<u8>>)> = Vec::new();
    let mut funny_under_refs = false;
    for spec in specs {
        if spec.negative {
            continue;
        }
        let mut cand: Vec<(Vec<u8>, Option<Vec<u8>>)> = Vec::new();
        if spec.pattern {
            for r in refs {
                if r.contains(&b'^') {
                    continue;
                }
                if let Some(expn) = g_match_name_with_pattern(&spec.src, r, spec.dst.as_deref()) {
                    cand.push((r.to_vec(), expn));
                }
            }
        } else if spec.exact_sha1 {
            cand.push((spec.src.to_ascii_lowercase(), spec.dst.as_deref().map(g_get_local_ref)));
        } else {
            match g_find_ref_by_name_abbrev(refs, &spec.src) {
                Some(r) => cand.push((r.to_vec(), spec.dst.as_deref().map(g_get_local_ref))),
                None => return GitRun { result: GitResult::DieMissing, funny_under_refs },
            }
        }
        for (s, d) in cand {
            if let Some(d) = &d {
                if !d.starts_with(b"refs/") || !g_check_refname_format(d) {
                    if d.starts_with(b"refs/") || d == b"HEAD" {
                        funny_under_refs = true;
                    }
                    continue; // "Ignoring funny ref"
                }
            }
            map.push((s, d));
        }
    }
    // apply_negative_refspecs
    map.retain(|(name, _)| {
        !specs.iter().any(|s| {
            s.negative
                && if s.pattern {
                    g_match_name_with_pattern(&s.src, name, None).is_some()
                } else {
                    s.src == *name
                }
        })
    });
    // ref_remove_duplicates
    let mut seen: Vec<(Vec<u8>, Vec<u8>)> = Vec::new();
    for (s, d) in &map {
        if let Some(d) = d {
            match seen.iter().find(|(d2, _)| d2 == d) {
                Some((_, s2)) => {
                    if s2 != s {
                        return GitRun { result: GitResult::DieConflict, funny_under_refs };
                    }
                }
                None => seen.push((d.clone(), s.clone())),
            }
        }
    }
    GitRun { result: GitResult::Maps(map.into_iter().collect()), funny_under_refs }
}

/// the property itself: the implementation's final mappings are git's
fn prop(c: &Case) -> Verdict {
    if f_str(c, 0) != b"match" {
        return Verdict::ok(false, "?");
    }
    let (specs, names) = split_case(c);
    let parsed = match parse_all(&specs) {
        Ok(p) => p,
        Err(_) => return Verdict::ok(false, "invalid-spec"),
    };
    if names.iter().any(|n| *n != b"HEAD" && !g_check_refname_format(n)) {
        // remote refs are valid ref names (git drops others when reading the advertisement)
        return Verdict::ok(false, "invalid-remote-ref");
    }
    let oids: Vec<_> = (0..names.len()).map(oid_of_index).collect();
    let items: Vec<Item<'_>> = names
        .iter()
        .zip(oids.iter())
        .map(|(n, o)| Item { full_ref_name: n.as_bstr(), target: o, object: None })
        .collect();
    // a panic anywhere below is reported by the common harness as FAIL class `panic`
    let out = MatchGroup::from_fetch_specs(parsed).match_remotes(items.iter().copied());
    let gix: Result<BTreeSet<(Vec<u8>, Option<Vec<u8>>)>, ()> = match out.validated() {
        Ok((out, _)) => Ok(out
            .mappings
            .iter()
            .map(|m| {
                (
                    match m.lhs {
                        SourceRef::FullName(n) => n.to_vec(),
                        SourceRef::ObjectId(id) => id.to_hex().to_string().into_bytes(),
                    },
                    m.rhs.as_ref().map(|r| {
                        let r: &BStr = r.as_ref();
                        r.to_vec()
                    }),
                )
            })
            .collect()),
        Err(_) => Err(()),
    };
    let gspecs: Vec<GSpec> = specs.iter().map(|s| g_parse(s)).collect();
    let git = g_fetch_map(&gspecs, &names);
    let kind = if gspecs.iter().any(|s| s.negative) {
        "neg"
    } else if gspecs.iter().any(|s| s.pattern) {
        "glob"
    } else {
        "plain"
    };
    let describe = |g: &Result<BTreeSet<(Vec<u8>, Option<Vec<u8>>)>, ()>| match g {
        Err(()) => "conflict".to_string(),
        Ok(s) => s
            .iter()
            .map(|(a, b)| {
                format!(
                    "{}>{}",
                    BString::from(a.clone()),
                    b.as_ref().map_or("~".into(), |b| BString::from(b.clone()).to_string())
                )
            })
            .collect::<Vec<_>>()
            .join(","),
    };
    let upper_hex_dst = gspecs.iter().any(|s| {
        s.dst.as_ref().map_or(false, |d| {
            d.len() == 40 && d.iter().all(|b| b.is_ascii_hexdigit()) && d.iter().any(|b| b.is_ascii_uppercase())
        })
    });
    let fail = |what: &str, detail: String| {
        if upper_hex_dst {
            Verdict::fail("hex-dst-case", detail)
        } else if git.funny_under_refs {
            Verdict::fail("funny-dst", detail)
        } else {
            Verdict::fail(what, detail)
        }
    };
    match (&git.result, &gix) {
        (GitResult::DieMissing, _) => Verdict::ok(false, "git-dies-missing-ref"),
        (GitResult::DieConflict, Err(())) => Verdict::ok(true, format!("conflict-{kind}")),
        (GitResult::DieConflict, Ok(_)) => fail("git-conflict-gix-none", format!("gix: {}", describe(&gix))),
        (GitResult::Maps(g), Err(())) => fail(
            "gix-conflict-git-none",
            format!("git: {}", describe(&Ok(g.clone()))),
        ),
        (GitResult::Maps(g), Ok(x)) => {
            if g == x {
                Verdict::ok(!g.is_empty(), format!("maps-{kind}"))
            } else {
                fail(
                    "mappings-differ",
                    format!("git: {} gix: {}", describe(&Ok(g.clone())), describe(&gix)),
                )
            }
        }
    }
}

// ------------------------------------------------------------------------------------------------
// generator

const PREFIXES: [&str; 10] = [
    "refs/heads/", "refs/heads/", "refs/tags/", "refs/remotes/", "refs/remotes/o/", "refs/", "refs/r/", "refs/heads/a/",
    "refs/heads/refs/", "refs/tags/refs/heads/",
];
const WORDS: [&str; 14] = ["a", "b", "aa", "ab", "ba", "a/b", "a.b", "a-b", "HEAD", "main", "x", "a/a", "b/a", "aba"];

fn gen_word(rng: &mut Rng) -> Vec<u8> {
    if rng.chance(7, 8) {
        return rng.pick(&WORDS).as_bytes().to_vec();
    }
    for _ in 0..8 {
        let w = rng.word(b"ab/.", 1, 4);
        let mut full = b"refs/".to_vec();
        full.extend_from_slice(&w);
        if g_check_refname_format(&full) || rng.chance(1, 6) {
            return w;
        }
    }
    b"b".to_vec()
}

fn gen_refname(rng: &mut Rng) -> Vec<u8> {
    if rng.chance(1, 12) {
        return b"HEAD".to_vec();
    }
    for _ in 0..20 {
        let mut n = rng.pick(&PREFIXES).as_bytes().to_vec();
        n.extend(gen_word(rng));
        if rng.chance(1, 10) {
            n.extend_from_slice(b"/HEAD");
        }
        if g_check_refname_format(&n) {
            return n;
        }
    }
    b"refs/heads/a".to_vec()
}

fn gen_glob_side(rng: &mut Rng, dst: bool) -> Vec<u8> {
    let mut n: Vec<u8> = if dst {
        rng.pick(&["refs/remotes/o/", "refs/r/", "refs/r/", "refs/heads/", "foo/", "", "refs/", "HEA"]).as_bytes().to_vec()
    } else {
        rng.pick(&["refs/heads/", "refs/heads/", "refs/tags/", "refs/", "refs/remotes/", "refs/heads/a/", ""]).as_bytes().to_vec()
    };
    if rng.chance(1, 12) {
        n.extend(rng.word(b"ab/.", 0, 2));
        n.push(b'*');
        n.extend(rng.word(b"ab/.D", 0, 2));
    } else {
        n.extend_from_slice(rng.pick(&["", "", "", "", "", "", "a", "a", "b", "ab", "a/", "a.", "r"]).as_bytes());
        n.push(b'*');
        n.extend_from_slice(rng.pick(&["", "", "", "", "", "", "", "a", "a", "b", "ba", "/a", "/HEAD", "D", ".a", "a/b"]).as_bytes());
    }
    n
}

fn gen_spec(rng: &mut Rng, names: &[Vec<u8>]) -> Vec<u8> {
    let mut s: Vec<u8> = Vec::new();
    let kind = rng.below(80);
    let existing = |rng: &mut Rng| -> Vec<u8> {
        if names.is_empty() || rng.chance(1, 30) {
            gen_refname(rng)
        } else {
            rng.pick(names).clone()
        }
    };
    let abbreviate = |rng: &mut Rng, n: Vec<u8>| -> Vec<u8> {
        // strip one of the rev-parse rule prefixes so that the name resolves to n (or to a better-ranked rival)
        let cands: Vec<&[u8]> = [&b"refs/"[..], b"refs/tags/", b"refs/heads/", b"refs/remotes/"]
            .into_iter()
            .filter(|p| n.starts_with(p))
            .collect();
        if cands.is_empty() {
            return n;
        }
        let p = *rng.pick(&cands);
        let mut r = n[p.len()..].to_vec();
        if r.ends_with(b"/HEAD") && rng.chance(1, 2) {
            r.truncate(r.len() - 5);
        }
        r
    };
    let gen_dst = |rng: &mut Rng| -> Vec<u8> {
        if rng.chance(1, 40) {
            // a destination that looks like an object id (upper case sometimes: known class hex-dst-case)
            let id = oid_of_index(rng.below(4) as usize + 9).to_hex().to_string();
            return if rng.chance(1, 2) { id.to_ascii_uppercase().into_bytes() } else { id.into_bytes() };
        }
        match rng.below(8) {
            0 => [b"heads/".to_vec(), gen_word(rng)].concat(),
            1 => [b"tags/".to_vec(), gen_word(rng)].concat(),
            2 => [b"remotes/".to_vec(), gen_word(rng)].concat(),
            3 => gen_word(rng),
            4 => b"HEAD".to_vec(),
            _ => [b"refs/".to_vec(), rng.pick(&["heads/", "r/", "", "tags/"]).as_bytes().to_vec(), gen_word(rng)].concat(),
        }
    };
    match kind {
        0..=25 => {
            // glob
            if rng.chance(1, 4) {
                s.push(b'+');
            }
            s.extend(gen_glob_side(rng, false));
            if rng.chance(19, 20) {
                s.push(b':');
                s.extend(gen_glob_side(rng, true));
            }
        }
        26..=39 => {
            // full name
            if rng.chance(1, 4) {
                s.push(b'+');
            }
            s.extend(existing(rng));
            if rng.chance(2, 3) {
                s.push(b':');
                s.extend(gen_dst(rng));
            }
        }
        40..=57 => {
            // partial name (also: a full name abbreviated to something that still starts with refs/)
            if rng.chance(1, 4) {
                s.push(b'+');
            }
            let n = existing(rng);
            s.extend(abbreviate(rng, n));
            if rng.chance(1, 2) {
                s.push(b':');
                s.extend(gen_dst(rng));
            }
        }
        58..=61 => {
            // object id
            let id = oid_of_index(rng.below(4) as usize).to_hex().to_string();
            let id = if rng.chance(1, 4) { id.to_ascii_uppercase() } else { id };
            s.extend_from_slice(id.as_bytes());
            if rng.chance(1, 16) {
                s.pop();
            }
            if rng.chance(2, 3) {
                s.push(b':');
                s.extend(gen_dst(rng));
            }
        }
        62..=76 => {
            // negative
            s.push(b'^');
            match rng.below(48) {
                0 | 1 => s.extend_from_slice(b"HEAD"),
                2 => s.extend_from_slice(b"@"),
                3 => s.extend(gen_glob_side(rng, false)),
                4 => s.extend(gen_word(rng)),
                5 => s.extend_from_slice(oid_of_index(1).to_hex().to_string().as_bytes()),
                6 => {
                    s.extend(existing(rng));
                    s.extend_from_slice(b":refs/heads/a");
                }
                _ => s.extend(existing(rng)),
            }
        }
        77 => {
            // special short forms
            s.extend_from_slice(
                rng.pick(&[
                    "", ":", "@", "HEAD", "@:", ":refs/heads/a", ":a", "+", "+:", "HEAD:", "@:HEAD", "a:b:c", "^", "^:", "**", "a*:b", "a:b*",
                    "*:*", "+@:refs/r/h", "refs/heads/*:refs/r/*", "+refs/*:refs/*",
                ])
                .as_bytes(),
            );
        }
        78 => {
            // the pattern on one side only / two stars
            s.extend(gen_glob_side(rng, false));
            s.push(b':');
            if rng.chance(1, 2) {
                s.extend(gen_dst(rng));
            } else {
                s.extend(gen_glob_side(rng, true));
                s.push(b'*');
            }
        }
        _ => {
            // malformed: a valid-looking spec with a byte replaced / inserted
            let mut t = existing(rng);
            t.push(b':');
            t.extend(gen_dst(rng));
            let i = rng.below(t.len() as u64) as usize;
            let b = *rng.pick(b" ~^:?[\\*\x00\x7f.@{/\xff");
            if rng.chance(1, 2) {
                t[i] = b;
            } else {
                t.insert(i, b);
            }
            s.extend(t);
        }
    }
    s
}

fn mk(specs: &[&[u8]], names: &[&[u8]]) -> Case {
    let mut c = vec![tag("match"), num(specs.len())];
    c.extend(specs.iter().map(|s| s.to_vec()));
    c.extend(names.iter().map(|s| s.to_vec()));
    c
}

fn gen(rng: &mut Rng, n: usize) -> Vec<Case> {
    let mut out = Vec::new();
    // boundary block: glob prefix/suffix against names of every length around prefix+suffix
    for pre in ["refs/heads/", "refs/heads/a", "refs/heads/ab"] {
        for suf in ["", "a", "ab", "ba", "/a"] {
            let pat = format!("{pre}*{suf}");
            let spec = format!("{pat}:refs/r/x*y");
            let mut names: Vec<Vec<u8>> = Vec::new();
            for body in ["", "a", "b", "ab", "aa", "aba", "abab", "ab/a", "a/a", "aab", "b/a"] {
                let n = format!("refs/heads/{body}");
                if g_check_refname_format(n.as_bytes()) {
                    names.push(n.into_bytes());
                }
            }
            let nrefs: Vec<&[u8]> = names.iter().map(|v| v.as_slice()).collect();
            out.push(mk(&[spec.as_bytes()], &nrefs));
            for n in &nrefs {
                out.push(mk(&[spec.as_bytes()], &[n]));
            }
        }
    }
    // partial names against rival expansions
    for name in ["x", "heads/x", "tags/x", "remotes/x", "o", "remotes/o", "HEAD", "@"] {
        let all: Vec<&[u8]> = vec![
            b"HEAD", b"refs/x", b"refs/tags/x", b"refs/heads/x", b"refs/remotes/x", b"refs/remotes/x/HEAD", b"refs/remotes/o/HEAD",
            b"refs/heads/tags/x", b"refs/heads/heads/x", b"refs/tags/heads/x", b"refs/heads/HEAD", b"refs/tags/HEAD",
        ];
        for skip in 0..all.len() {
            let names: Vec<&[u8]> = all.iter().skip(skip).copied().collect();
            out.push(mk(&[name.as_bytes()], &names));
            let s = format!("{name}:heads/y");
            out.push(mk(&[s.as_bytes()], &names));
            out.push(mk(&[b"refs/*:refs/r/*", format!("^{name}").as_bytes()], &names));
            out.push(mk(&[b"+refs/heads/*:refs/r/*", b"HEAD:refs/r/HEAD", b"^HEAD"], &names));
        }
    }
    while out.len() < n {
        let nnames = if rng.chance(1, 40) { 0 } else { rng.range(2, 8) as usize };
        let mut names: Vec<Vec<u8>> = Vec::new();
        for _ in 0..nnames {
            let n = gen_refname(rng);
            if !names.contains(&n) || rng.chance(1, 30) {
                names.push(n);
            }
        }
        let nspecs = match rng.below(40) {
            0 => 0,
            1..=16 => 1,
            17..=30 => 2,
            _ => rng.range(3, 5) as usize,
        };
        let mut specs: Vec<Vec<u8>> = (0..nspecs).map(|_| gen_spec(rng, &names)).collect();
        if !specs.is_empty() && specs.iter().all(|s| s.first() == Some(&b'^')) && rng.chance(9, 10) {
            // negative specs alone map nothing: put a pattern in front
            specs.insert(0, rng.pick(&["refs/heads/*:refs/r/*", "+refs/*:refs/r/*", "refs/tags/*:refs/tags/*"]).as_bytes().to_vec());
        }
        let s: Vec<&[u8]> = specs.iter().map(|v| v.as_slice()).collect();
        let nn: Vec<&[u8]> = names.iter().map(|v| v.as_slice()).collect();
        out.push(mk(&s, &nn));
    }
    out.truncate(n.max(1));
    out
}

// ------------------------------------------------------------------------------------------------
// real git as oracle for the Coq specification (Spec.v): `git fetch` from a scratch bare repository that has
// exactly the given references, each pointing to its own commit; what was fetched is read back from the
// created references and FETCH_HEAD.  Prints the line `run ("spec" :: case)` prints, or `-` when the case
// cannot be staged with real git (HEAD among the names, duplicate or D/F-conflicting names, object-id
// sources naming objects that do not exist, empty spec list / empty spec text, specs git's stricter parser rejects).

fn git_cmd(dir: &std::path::Path) -> std::process::Command {
    let mut c = std::process::Command::new("/usr/bin/git");
    c.current_dir(dir)
        .env_clear()
        .env("PATH", "/usr/bin:/bin")
        .env("HOME", dir)
        .env("GIT_CONFIG_NOSYSTEM", "1")
        .env("GIT_CONFIG_GLOBAL", "/dev/null")
        .env("GIT_AUTHOR_NAME", "a")
        .env("GIT_AUTHOR_EMAIL", "a@b")
        .env("GIT_AUTHOR_DATE", "1700000000 +0000")
        .env("GIT_COMMITTER_NAME", "a")
        .env("GIT_COMMITTER_EMAIL", "a@b")
        .env("GIT_COMMITTER_DATE", "1700000000 +0000")
        .env("LC_ALL", "C");
    c
}

fn git_oracle_in(dir: &std::path::Path, specs: &[&[u8]], names: &[&[u8]]) -> Option<String> {
    use std::io::Write;
    use std::os::unix::ffi::OsStrExt;
    use std::process::Stdio;
    let remote = dir.join("remote");
    let local = dir.join("local");
    std::fs::create_dir_all(&remote).ok()?;
    std::fs::create_dir_all(&local).ok()?;
    for d in [&remote, &local] {
        if !git_cmd(d).args(["init", "-q", "--bare", "."]).status().ok()?.success() {
            return None;
        }
    }
    git_cmd(&remote).args(["symbolic-ref", "HEAD", "refs/heads/__unborn__"]).status().ok()?;
    let tree = {
        let o = git_cmd(&remote).args(["hash-object", "-t", "tree", "-w", "--stdin"]).stdin(Stdio::null()).output().ok()?;
        String::from_utf8(o.stdout).ok()?.trim().to_string()
    };
    let mut by_oid: std::collections::BTreeMap<String, Vec<u8>> = Default::default();
    let mut script: Vec<u8> = Vec::new();
    for (i, n) in names.iter().enumerate() {
        let o = git_cmd(&remote).args(["commit-tree", &tree, "-m", &format!("c{i}")]).output().ok()?;
        let oid = String::from_utf8(o.stdout).ok()?.trim().to_string();
        if oid.len() != 40 {
            return None;
        }
        script.extend_from_slice(b"create ");
        script.extend_from_slice(n);
        script.extend_from_slice(format!(" {oid}\n").as_bytes());
        by_oid.insert(oid, n.to_vec());
    }
    if !names.is_empty() {
        let mut ch = git_cmd(&remote).args(["update-ref", "--stdin"]).stdin(Stdio::piped()).stderr(Stdio::null()).spawn().ok()?;
        ch.stdin.take()?.write_all(&script).ok()?;
        if !ch.wait().ok()?.success() {
            return None; // D/F conflict between names, or a name git refuses
        }
    }
    let mut fetch = git_cmd(&local);
    fetch.args(["fetch", "--refmap=", "--no-tags", "-q", "../remote"]);
    for s in specs {
        fetch.arg(std::ffi::OsStr::from_bytes(s));
    }
    let out = fetch.output().ok()?;
    let err = String::from_utf8_lossy(&out.stderr).to_string();
    if err.contains("fatal: couldn't find remote ref") {
        return Some("die missing".into());
    }
    if err.contains("fatal: Cannot fetch both") {
        return Some("die conflict".into());
    }
    if err.contains("fatal:") || err.contains("unable to update") || err.contains("cannot lock") {
        return None;
    }
    let mut pairs: BTreeSet<(Vec<u8>, Option<Vec<u8>>)> = BTreeSet::new();
    let mut with_dst: std::collections::BTreeMap<String, usize> = Default::default();
    let refs = git_cmd(&local).args(["for-each-ref", "--format=%(objectname) %(refname)"]).output().ok()?;
    for line in refs.stdout.split(|b| *b == b'\n').filter(|l| !l.is_empty()) {
        let oid = String::from_utf8_lossy(&line[..40]).to_string();
        let dst = line[41..].to_vec();
        let src = by_oid.get(&oid)?.clone();
        *with_dst.entry(oid).or_default() += 1;
        pairs.insert((src, Some(dst)));
    }
    let mut in_fetch_head: std::collections::BTreeMap<String, usize> = Default::default();
    if let Ok(fh) = std::fs::read(local.join("FETCH_HEAD")) {
        for line in fh.split(|b| *b == b'\n').filter(|l| l.len() >= 40) {
            *in_fetch_head.entry(String::from_utf8_lossy(&line[..40]).to_string()).or_default() += 1;
        }
    }
    for (oid, n) in in_fetch_head {
        if n > with_dst.get(&oid).copied().unwrap_or(0) {
            pairs.insert((by_oid.get(&oid)?.clone(), None));
        }
    }
    let l: Vec<String> = pairs
        .iter()
        .map(|(s, d)| format!("{}>{}", hexs(s), d.as_ref().map_or("~".to_string(), |d| hexs(d))))
        .collect();
    Some(format!("maps {}", join(l, ",")))
}

fn git(c: &Case) -> String {
    static COUNTER: std::sync::atomic::AtomicUsize = std::sync::atomic::AtomicUsize::new(0);
    if f_str(c, 0) != b"match" {
        return "-".into();
    }
    let (specs, names) = split_case(c);
    if specs.is_empty() || specs.iter().any(|s| s.is_empty() || s[0] == b'-') || parse_all(&specs).is_err() {
        return "-".into();
    }
    let mut sorted = names.clone();
    sorted.sort();
    sorted.dedup();
    if sorted.len() != names.len() || names.iter().any(|n| *n == b"HEAD" || !g_check_refname_format(n)) {
        return "-".into();
    }
    if specs.iter().any(|s| g_parse(s).exact_sha1) {
        return "-".into();
    }
    let dir = std::env::temp_dir().join(format!(
        "gixv-c32-{}-{}",
        std::process::id(),
        COUNTER.fetch_add(1, std::sync::atomic::Ordering::SeqCst)
    ));
    let r = git_oracle_in(&dir, &specs, &names);
    let _ = std::fs::remove_dir_all(&dir);
    r.unwrap_or_else(|| "-".into())
}

fn main() {
    main_with(Harness { gen, imp, prop, git: Some(git), deadline: std::time::Duration::from_secs(10) });
}
