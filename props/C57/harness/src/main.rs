//! C57 harness: gix_quote::ansi_c::undo against git's quote_c_style.
//!
//! cases:  u <input>               undo(input) on arbitrary bytes
//!         q <s> <rest> <fully>    input = git_quote(fully, s) ++ rest
use bstr::ByteSlice;
use gix_quote::ansi_c;
use gixv_common::*;
use std::borrow::Cow;

// ------------------------------------------------------------------ oracle: git's quote.c

/// cq_lookup[] of git 2.39 quote.c, written out as a function.
fn cq_lookup(c: u8) -> i32 {
    match c {
        0x07 => b'a' as i32,
        0x08 => b'b' as i32,
        0x09 => b't' as i32,
        0x0a => b'n' as i32,
        0x0b => b'v' as i32,
        0x0c => b'f' as i32,
        0x0d => b'r' as i32,
        0x00..=0x1f => 1,
        b'"' => b'"' as i32,
        b'\\' => b'\\' as i32,
        0x20..=0x7e => -1,
        0x7f => 1,
        0x80..=0xff => 0,
    }
}

/// quote_c_style_counted(name, len, sb, NULL, 0) with quote_path_fully = `fully`:
/// transcription of the C loop (chunks up to the next byte that must be quoted).
fn git_quote(name: &[u8], fully: bool) -> Vec<u8> {
    let must = |c: u8| cq_lookup(c) + fully as i32 > 0;
    let mut sb = Vec::new();
    let mut p = 0usize; // offset of `p` from `name`
    let mut maxlen = name.len();
    let mut len;
    loop {
        len = 0;
        while len < maxlen && !must(name[p + len]) {
            len += 1;
        }
        if len == maxlen {
            break;
        }
        if p == 0 {
            sb.push(b'"');
        }
        sb.extend_from_slice(&name[p..p + len]);
        sb.push(b'\\');
        p += len;
        let ch = name[p];
        p += 1;
        maxlen -= len + 1;
        if cq_lookup(ch) >= b' ' as i32 {
            sb.push(cq_lookup(ch) as u8);
        } else {
            sb.push(((ch >> 6) & 0o3) + b'0');
            sb.push(((ch >> 3) & 0o7) + b'0');
            sb.push((ch & 0o7) + b'0');
        }
    }
    sb.extend_from_slice(&name[p..p + len]);
    if p == 0 {
        return sb; // "no ending quote needed": printed as is
    }
    sb.push(b'"');
    sb
}

// ------------------------------------------------------------------ generator

const SPECIAL: &[u8] = b"\"\\\x00\x01\x07\x08\x09\x0a\x0b\x0c\x0d\x0e\x1f\x7f\x80\xc3\xa4\xff";
const PLAIN: &[u8] = b"abfnrtvx 0123456789/.-'";

fn gen_name(rng: &mut Rng) -> Vec<u8> {
    let n = match rng.below(10) {
        0 => 0,
        1 => 1,
        2..=6 => rng.range(2, 8) as usize,
        7..=8 => rng.range(8, 40) as usize,
        _ => rng.range(40, 300) as usize,
    };
    let style = rng.below(5);
    (0..n)
        .map(|_| match style {
            0 => rng.next() as u8,
            1 => *rng.pick(PLAIN),
            _ => {
                if rng.chance(1, 3) {
                    *rng.pick(SPECIAL)
                } else if rng.chance(1, 8) {
                    rng.next() as u8
                } else {
                    *rng.pick(PLAIN)
                }
            }
        })
        .collect()
}

fn gen_rest(rng: &mut Rng) -> Vec<u8> {
    match rng.below(8) {
        0 => vec![],
        1 => b"\"".to_vec(),
        2 => b"\\".to_vec(),
        3 => rng.word(b"01234567", 1, 4),
        4 => {
            let mut v = b" ".to_vec();
            v.extend(git_quote(&gen_name(rng), true));
            v
        }
        5 => rng.word(b"\"\\ ab01\n\t", 1, 12),
        _ => {
            let n = rng.range(1, 20) as usize;
            rng.bytes(n)
        }
    }
}

fn gen_malformed(rng: &mut Rng) -> Vec<u8> {
    match rng.below(6) {
        0 => {
            // token soup after an opening quote
            let mut v = b"\"".to_vec();
            let n = rng.range(0, 14);
            for _ in 0..n {
                match rng.below(8) {
                    0 => v.push(b'\\'),
                    1 => {
                        v.push(b'\\');
                        v.push(*rng.pick(b"nrtabvf\"\\01234789xNe\x00\xff"));
                    }
                    2 => {
                        v.push(b'\\');
                        v.extend(rng.word(b"0123456789", 1, 4));
                    }
                    3 => v.push(b'"'),
                    4 => v.extend(rng.word(b"0123", 1, 3)),
                    _ => v.push(*rng.pick(PLAIN)),
                }
            }
            if rng.chance(1, 2) {
                v.push(b'"');
            }
            v
        }
        1 | 2 => {
            // valid quoted form, truncated / flipped / spliced
            let mut v = git_quote(&gen_name(rng), rng.chance(3, 4));
            v.extend(gen_rest(rng));
            match rng.below(4) {
                0 if !v.is_empty() => {
                    let k = rng.below(v.len() as u64 + 1) as usize;
                    v.truncate(k);
                }
                1 if !v.is_empty() => {
                    let k = rng.below(v.len() as u64) as usize;
                    v[k] ^= 1 << rng.below(8);
                }
                2 if !v.is_empty() => {
                    let k = rng.below(v.len() as u64) as usize;
                    v.insert(k, *rng.pick(b"\\\"089"));
                }
                _ => {
                    if !v.starts_with(b"\"") {
                        v.insert(0, b'"');
                    }
                }
            }
            v
        }
        3 => {
            // every octal-looking escape, also out of range
            let mut v = b"\"\\".to_vec();
            v.extend(rng.word(b"0123456789", 0, 4));
            v.extend(rng.word(b"\"7a", 0, 2));
            v
        }
        4 => {
            let n = rng.range(0, 6) as usize;
            let mut v = b"\"".to_vec();
            v.extend(rng.bytes(n));
            v
        }
        _ => {
            let n = rng.range(0, 30) as usize;
            rng.bytes(n)
        }
    }
}

fn gen(rng: &mut Rng, n: usize) -> Vec<Case> {
    let mut out: Vec<Case> = Vec::new();
    let q = |s: &[u8], rest: &[u8], fully: bool| vec![tag("q"), s.to_vec(), rest.to_vec(), num(fully as u8)];
    // boundary block: every single byte, alone / followed by a digit / preceded by a plain byte
    for fully in [true, false] {
        for b in 0..=255u8 {
            out.push(q(&[b], b"", fully));
        }
    }
    // a first batch of random names early, so that the git oracle (which sees a prefix of the
    // case list) compares more than single bytes
    for _ in 0..120 {
        let s = gen_name(rng);
        let rest = gen_rest(rng);
        out.push(q(&s, &rest, rng.chance(2, 3)));
    }
    for b in 0..=255u8 {
        out.push(q(&[b, b'7'], b"1\"", true));
        out.push(q(&[b'a', b, b], b"\"", true));
    }
    for rest in [&b""[..], b"\"", b"\"\"", b"x", b"\\", b"\"\\", b"\"a\\"] {
        out.push(q(b"", rest, true));
        out.push(q(b"plain", rest, true));
        out.push(q(b"\"", rest, true));
        out.push(q(b"\\", rest, true));
        out.push(q(b"a\nb", rest, true));
        out.push(q(b"\xff", rest, false));
    }
    // every `"\X…` for all X, every 3-digit group
    for b in 0..=255u8 {
        out.push(vec![tag("u"), vec![b'"', b'\\', b]]);
        out.push(vec![tag("u"), vec![b'"', b'\\', b, b'"']]);
        out.push(vec![tag("u"), vec![b'"', b'\\', b, b'7', b'7', b'"']]);
        out.push(vec![tag("u"), vec![b'"', b'\\', b'1', b, b'7', b'"']]);
        out.push(vec![tag("u"), vec![b'"', b'\\', b'1', b'7', b, b'"']]);
        out.push(vec![tag("u"), vec![b]]);
        out.push(vec![tag("u"), vec![b, b'"']]);
    }
    for t in [
        &b""[..], b"\"", b"\"\"", b"\"a", b"\"a\"", b"\"\\", b"\"\\\"", b"\"\\0", b"\"\\00", b"\"\\000", b"\"\\000\"",
        b"\"\\3", b"\"\\37", b"\"\\377", b"\"\\378", b"\"\\400\"", b"\"\\0\"", b"\"\\00\"", b"\"a\\", b"\"ab\\n", b"a\"b\"",
    ] {
        out.push(vec![tag("u"), t.to_vec()]);
    }
    while out.len() < n {
        match rng.below(10) {
            0..=6 => {
                let s = gen_name(rng);
                let rest = gen_rest(rng);
                out.push(q(&s, &rest, rng.chance(3, 4)));
            }
            _ => out.push(vec![tag("u"), gen_malformed(rng)]),
        }
    }
    out.truncate(n.max(1));
    out
}

// ------------------------------------------------------------------ implementation transcript

fn show(r: Result<(Cow<'_, bstr::BStr>, usize), ansi_c::undo::Error>) -> String {
    match r {
        Ok((out, n)) => format!(
            "ok {} {} x{}",
            if matches!(out, Cow::Borrowed(_)) { "B" } else { "O" },
            n,
            hexs(out.as_ref())
        ),
        Err(ansi_c::undo::Error::UnsupportedEscapeByte { byte, .. }) => format!("err Escape {byte:02x}"),
        Err(ansi_c::undo::Error::InvalidInput { message, .. }) => {
            if message.starts_with("Input must be surrounded") {
                "err Quotes".into()
            } else if message.starts_with("Unexpected end of input when fetching") {
                "err OctalEnd".into()
            } else if message.starts_with("Unexpected end of input") {
                "err End".into()
            } else {
                "err Octal".into()
            }
        }
    }
}

fn fully_of(c: &Case) -> bool {
    f_str(c, 3) != b"0"
}

fn imp(c: &Case) -> String {
    match f_str(c, 0) {
        b"u" => show(ansi_c::undo(f_str(c, 1).as_bstr())),
        b"q" => {
            let mut input = git_quote(f_str(c, 1), fully_of(c));
            let qd = hexs(&input);
            input.extend_from_slice(f_str(c, 2));
            format!("q x{} {}", qd, show(ansi_c::undo(input.as_bstr())))
        }
        _ => "?".into(),
    }
}

// ------------------------------------------------------------------ the property

fn expect_identity(input: &[u8]) -> Result<(), Verdict> {
    match ansi_c::undo(input.as_bstr()) {
        Ok((out, n)) => {
            if out.as_ref() as &[u8] != input {
                return Err(Verdict::fail("unquoted-changed", hexs(out.as_ref())));
            }
            if n != input.len() {
                return Err(Verdict::fail("unquoted-consumed", format!("{n} != {}", input.len())));
            }
            if !matches!(out, Cow::Borrowed(_)) {
                return Err(Verdict::fail("unquoted-allocates", ""));
            }
            Ok(())
        }
        Err(e) => Err(Verdict::fail("unquoted-rejected", e.to_string())),
    }
}

fn prop(c: &Case) -> Verdict {
    match f_str(c, 0) {
        b"q" => {
            let s = f_str(c, 1);
            let rest = f_str(c, 2);
            let qd = git_quote(s, fully_of(c));
            let mut input = qd.clone();
            input.extend_from_slice(rest);
            if qd == s {
                // git prints the name as is
                if input.starts_with(b"\"") {
                    // only possible for the empty name followed by text that starts with a quote:
                    // that is somebody else's quoted string, nothing to say about `s`
                    return Verdict::ok(false, "empty-name");
                }
                return match expect_identity(&input) {
                    Ok(()) => Verdict::ok(!input.is_empty(), "q-unquoted"),
                    Err(v) => v,
                };
            }
            match ansi_c::undo(input.as_bstr()) {
                Ok((out, n)) => {
                    if out.as_ref() as &[u8] != s {
                        return Verdict::fail("roundtrip-bytes", format!("got {} want {}", hexs(out.as_ref()), hexs(s)));
                    }
                    if n != qd.len() {
                        return Verdict::fail("roundtrip-consumed", format!("got {n} want {}", qd.len()));
                    }
                    if !matches!(out, Cow::Owned(_)) {
                        return Verdict::fail("roundtrip-borrowed", "");
                    }
                    Verdict::ok(true, if rest.is_empty() { "q-roundtrip" } else { "q-roundtrip-rest" })
                }
                Err(e) => Verdict::fail("roundtrip-rejected", e.to_string()),
            }
        }
        b"u" => {
            let input = f_str(c, 1);
            if !input.starts_with(b"\"") {
                return match expect_identity(input) {
                    Ok(()) => Verdict::ok(!input.is_empty(), "u-unquoted"),
                    Err(v) => v,
                };
            }
            // arbitrary text after an opening quote: no panic (the common harness reports it), and
            // whatever is accepted is consistent: consumed within the input, output not longer than
            // what was consumed, and the consumed prefix alone decodes to the same thing.
            match ansi_c::undo(input.as_bstr()) {
                Ok((out, n)) => {
                    if n > input.len() || n < 1 {
                        return Verdict::fail("consumed-out-of-range", format!("{n} of {}", input.len()));
                    }
                    if out.len() + 1 > n {
                        return Verdict::fail("output-longer-than-consumed", "");
                    }
                    match ansi_c::undo(input[..n].as_bstr()) {
                        Ok((out2, n2)) if out2 == out && n2 == n => {}
                        other => return Verdict::fail("prefix-unstable", format!("{other:?}")),
                    }
                    // when the accepted text is what git would have written for `out`, say so
                    let canonical = git_quote(out.as_ref(), true) == input[..n] || git_quote(out.as_ref(), false) == input[..n];
                    Verdict::ok(n > 2, if canonical { "u-accepted-canonical" } else { "u-accepted" })
                }
                Err(_) => Verdict::ok(input.len() > 2, "u-rejected"),
            }
        }
        _ => Verdict::ok(false, "?"),
    }
}

// ------------------------------------------------------------------ real git as the oracle for the Spec

/// `git check-attr --stdin` unquotes a quoted input line with git's own unquote_c_style and prints
/// the path with quote_c_style: feed the name fully octal-escaped, read back git's quoting.
fn git(c: &Case) -> String {
    if f_str(c, 0) != b"q" {
        return "-".into();
    }
    let s = f_str(c, 1);
    // names git's path normalisation would change or refuse, or C strings cannot hold
    if s.is_empty() || s.contains(&0) || s.contains(&b'/') || s == b"." || s == b".." || s.len() > 1000 {
        return "-".into();
    }
    static N: std::sync::atomic::AtomicUsize = std::sync::atomic::AtomicUsize::new(0);
    let k = N.fetch_add(1, std::sync::atomic::Ordering::SeqCst);
    let dir = std::env::temp_dir().join(format!("gixv-c57-{}-{}", std::process::id(), k));
    let _ = std::fs::remove_dir_all(&dir);
    std::fs::create_dir_all(&dir).expect("mkdir");
    let run = |args: &[&str], stdin: Option<&[u8]>| -> Vec<u8> {
        use std::io::Write;
        use std::process::{Command, Stdio};
        let mut ch = Command::new("/usr/bin/git")
            .args(args)
            .current_dir(&dir)
            .env("GIT_CONFIG_NOSYSTEM", "1")
            .env("GIT_CONFIG_GLOBAL", "/dev/null")
            .env("HOME", &dir)
            .stdin(Stdio::piped())
            .stdout(Stdio::piped())
            .stderr(Stdio::null())
            .spawn()
            .expect("git");
        if let Some(b) = stdin {
            ch.stdin.take().unwrap().write_all(b).unwrap();
        } else {
            drop(ch.stdin.take());
        }
        ch.wait_with_output().expect("git output").stdout
    };
    // a minimal repository by hand (cheaper than `git init`)
    std::fs::create_dir_all(dir.join(".git/objects")).expect("mkdir");
    std::fs::create_dir_all(dir.join(".git/refs")).expect("mkdir");
    std::fs::write(dir.join(".git/HEAD"), "ref: refs/heads/main\n").expect("HEAD");
    let mut line = b"\"".to_vec();
    for b in s {
        line.extend_from_slice(format!("\\{:03o}", b).as_bytes());
    }
    line.extend_from_slice(b"\"\n");
    let qp = format!("core.quotePath={}", if fully_of(c) { "true" } else { "false" });
    let out = run(&["-c", &qp, "check-attr", "--stdin", "zz"], Some(&line));
    let _ = std::fs::remove_dir_all(&dir);
    match out.strip_suffix(b": zz: unspecified\n") {
        Some(qd) => format!("q x{}", hexs(qd)),
        None => "-".into(),
    }
}

fn main() {
    main_with(Harness { gen, imp, prop, git: Some(git), deadline: std::time::Duration::from_secs(10) });
}
