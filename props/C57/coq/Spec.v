(* C57 — specification: git's C-style path quoting, quote_c_style_counted() of git 2.39 quote.c
   with maxlen = length of the name (so NUL bytes are data), flags = 0 (double quotes are added),
   and [fully] = quote_path_fully (core.quotePath, default true).

     static signed char const cq_lookup[256] = {
        0x00: 1 1 1 1 1 1 1 'a'   0x08: 'b' 't' 'n' 'v' 'f' 'r' 1 1   0x10..0x1f: 1
        0x20..0x7e: -1 except 0x22 -> 0x22 (double quote) and 0x5c -> 0x5c (backslash)            0x7f: 1     0x80..: 0 };
     cq_must_quote(c) = cq_lookup[c] + quote_path_fully > 0
     loop: len = next_quote_pos(p); stop at the end; emit a double quote before the first escape;
           emit p[0..len], a backslash, then cq_lookup[ch] if it is >= ' ' else three octal digits;
     at the end: emit the rest; if nothing was escaped return 0 (name printed as is) else emit the closing double quote.

   [quote] is that loop written byte by byte; it is compared with real git by the check
   ("spec" mode of Run.v against `git check-attr` output). *)
From GixV.Base Require Import Bytes.
Local Open Scope Z_scope.

Definition cq_lookup (b : byte) : Z :=
  let n := Z.of_N (b2N b) in
  if n <? 7 then 1
  else if n =? 7 then 97        (* 'a' *)
  else if n =? 8 then 98        (* 'b' *)
  else if n =? 9 then 116       (* 't' *)
  else if n =? 10 then 110      (* 'n' *)
  else if n =? 11 then 118      (* 'v' *)
  else if n =? 12 then 102      (* 'f' *)
  else if n =? 13 then 114      (* 'r' *)
  else if n <? 32 then 1
  else if n =? 34 then 34       (* double quote *)
  else if n =? 92 then 92       (* backslash *)
  else if n <? 127 then -1
  else if n =? 127 then 1
  else 0.

Definition cq_must_quote (fully : bool) (b : byte) : bool :=
  cq_lookup b + (if fully then 1 else 0) >? 0.

(* what follows the backslash *)
Definition escape_of (b : byte) : bytes :=
  if cq_lookup b >=? 32 then [N2b (Z.to_N (cq_lookup b))]
  else
    let ch := b2N b in
    [ N2b (N.land (N.shiftr ch 6) 3 + 48);
      N2b (N.land (N.shiftr ch 3) 7 + 48);
      N2b (N.land ch 7 + 48) ]%N.

Fixpoint quote_body (fully : bool) (s : bytes) : bytes :=
  match s with
  | [] => []
  | c :: r =>
      if cq_must_quote fully c then x5c :: escape_of c ++ quote_body fully r
      else c :: quote_body fully r
  end.

Definition needs_quote (fully : bool) (s : bytes) : bool := existsb (cq_must_quote fully) s.

Definition quote (fully : bool) (s : bytes) : bytes :=
  if needs_quote fully s then x22 :: quote_body fully s ++ [x22] else s.

(* ---- the C loop itself, chunk by chunk ------------------------------------------------------
   A closer transcription of quote_c_style_counted(name, maxlen = len, sb, NULL, 0):
   [p] is the unread part of the name (maxlen = length p), [at_start] is the C test `p == name`,
   [sb] the strbuf.  Proofs.v shows it equals [quote]; Run.v's "spec" mode prints this one. *)

(* next_quote_pos(p, maxlen = length p) *)
Fixpoint next_quote_pos (fully : bool) (p : bytes) : nat :=
  match p with
  | [] => O
  | c :: r => if cq_must_quote fully c then O else S (next_quote_pos fully r)
  end.

Fixpoint qcs_loop (fuel : nat) (fully : bool) (p : bytes) (at_start : bool) (sb : bytes) : option (bytes * bool) :=
  match fuel with
  | O => None
  | S fuel' =>
      let len := next_quote_pos fully p in
      if Nat.eqb len (length p) then Some (sb ++ firstn len p, at_start)   (* break; EMITBUF(p, len) *)
      else
        let sb := if at_start then sb ++ [x22] else sb in                 (* if (p == name) EMIT dq *)
        let sb := sb ++ firstn len p ++ [x5c] in                           (* EMITBUF(p, len); EMIT backslash *)
        match skipn len p with
        | ch :: p' => qcs_loop fuel' fully p' false (sb ++ escape_of ch)   (* ch = *p++; maxlen -= len + 1 *)
        | [] => None                                                       (* not reached: len < maxlen *)
        end
  end.

Definition git_quote_c_style (fully : bool) (name : bytes) : option bytes :=
  match qcs_loop (S (length name)) fully name true [] with
  | Some (sb, true) => Some sb                    (* p == name: "no ending quote needed", return 0 *)
  | Some (sb, false) => Some (sb ++ [x22])
  | None => None
  end.
