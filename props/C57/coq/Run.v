(* C57 — transcript printer: the same observable string the Rust harness prints for a case.
     u <input>                undo(input)
     q <s> <rest> <fully>     input = git_quote(fully, s) ++ rest; prints the quoted form and undo(input)
   "spec" mode prints only the quoted form of a q case (compared with real git). *)
From GixV.Base Require Import Bytes Outcome.
From GixV.C57 Require Import Tables Model Spec.

Definition show (o : outcome (cow * bytes * nat) err) : bytes :=
  match o with
  | Ok (c, out, n) =>
      bs "ok " ++ (match c with Borrowed => bs "B" | Owned => bs "O" end) ++ bs " "
      ++ N_to_dec (N.of_nat n) ++ bs " x" ++ hex_encode out
  | Err EQuotes => bs "err Quotes"
  | Err EEnd => bs "err End"
  | Err EOctalEnd => bs "err OctalEnd"
  | Err EOctal => bs "err Octal"
  | Err (EEscape b) => bs "err Escape " ++ hex_encode [b]
  | Panic => bs "PANIC"
  | OutOfFuel => bs "HANG"
  end.

Definition fully_of (fs : list bytes) : bool := negb (bytes_eqb (nth_field 3 fs) (bs "0")).

Definition run_model (fs : list bytes) : bytes :=
  let op := nth_field 0 fs in
  if bytes_eqb op (bs "u") then show (undo (nth_field 1 fs))
  else if bytes_eqb op (bs "q") then
    let qd := quote (fully_of fs) (nth_field 1 fs) in
    bs "q x" ++ hex_encode qd ++ bs " " ++ show (undo (qd ++ nth_field 2 fs))
  else bs "?".

Definition run_spec (fs : list bytes) : bytes :=
  let op := nth_field 0 fs in
  if bytes_eqb op (bs "q") then
    match git_quote_c_style (fully_of fs) (nth_field 1 fs) with
    | Some qd => bs "q x" ++ hex_encode qd
    | None => bs "HANG"
    end
  else bs "-".

Definition run (fs : list bytes) : bytes :=
  match fs with
  | mode :: rest => if bytes_eqb mode (bs "spec") then run_spec rest else run_model rest
  | [] => bs "?"
  end.
