From GixV.Base Require Import Bytes Outcome.
From GixV.C57 Require Import Model Spec.
