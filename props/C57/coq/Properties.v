(* C57 — ANSI-C unquoting inverts git's path quoting.
   undo  = Model.undo  (gix_quote::ansi_c::undo, slice-level model with Panic / fuel)
   quote = Spec.quote  (git's quote_c_style_counted; fully = core.quotePath)
   All statements quantify over every byte string (NUL bytes and bytes >= 0x80 included), both
   core.quotePath modes, and every trailing text. *)
From Coq Require Import Lia.
From GixV.Base Require Import Bytes Outcome.
From GixV.C57 Require Import Tables Model Spec Proofs.

(* the property, first half: a name git had to quote comes back exactly, as a new string, and the
   reported length is exactly the length of the quoted form — whatever follows it *)
Theorem undo_inverts_git_quote : forall fully s rest,
  needs_quote fully s = true ->
  undo (quote fully s ++ rest) = Ok (Owned, s, length (quote fully s)).
Proof. exact undo_quote_quoted. Qed.

(* second half: a name git prints as is comes back unchanged (borrowed), all input consumed.
   (For the empty name the text behind it must not itself start with a double quote.) *)
Theorem undo_leaves_unquoted_name : forall fully s rest,
  needs_quote fully s = false ->
  s <> [] \/ starts_with_dquote rest = false ->
  undo (quote fully s ++ rest) = Ok (Borrowed, s ++ rest, length (s ++ rest)).
Proof. exact undo_quote_unquoted. Qed.

(* any input that does not start with a double quote is returned unchanged *)
Theorem undo_identity_without_quote : forall input,
  starts_with_dquote input = false -> undo input = Ok (Borrowed, input, length input).
Proof. exact undo_identity. Qed.

(* no input makes undo panic (slice indexing, expect, unreachable! are all modelled), and the loop
   always finishes within input-length + 1 iterations *)
Theorem undo_never_panics_never_hangs : forall input,
  undo input <> Panic /\ undo input <> OutOfFuel.
Proof. exact undo_graceful. Qed.

(* whatever is accepted: consumed bytes lie within the input (the usize counter cannot overflow) and
   the decoded string is not longer than what was consumed *)
Theorem undo_consumed_within_input : forall input k out n,
  undo input = Ok (k, out, n) -> n <= length input /\ length out <= n.
Proof. exact undo_bounds. Qed.

(* the result depends only on the consumed prefix *)
Theorem undo_depends_only_on_consumed_prefix : forall input out n,
  undo input = Ok (Owned, out, n) -> undo (firstn n input) = Ok (Owned, out, n).
Proof. exact undo_prefix. Qed.

(* git's quoting is injective: two names never share a quoted form *)
Theorem git_quote_injective : forall fully s1 s2, quote fully s1 = quote fully s2 -> s1 = s2.
Proof. exact quote_injective. Qed.

(* the loop of the slice-level model is the byte-by-byte decoder, for every input and accumulator *)
Theorem undo_loop_refines_tidy : forall fuel input out consumed,
  length input < fuel -> undo_loop fuel input out consumed = tidy input out consumed.
Proof. exact undo_loop_tidy. Qed.

(* ---- non-vacuity ------------------------------------------------------------------------------ *)

(* a name with LF, a Latin-1 byte, a double quote, a backslash, 0x01 followed by a digit *)
Example ex_name : bytes := [x61; x0a; xe4; x22; x5c; x01; x37].

Example ex_needs_quote : needs_quote true ex_name = true /\ needs_quote false ex_name = true.
Proof. split; vm_compute; reflexivity. Qed.

Example ex_quote_fully : quote true ex_name = bs """a\n\344\""\\\0017""".
Proof. vm_compute. reflexivity. Qed.

Example ex_quote_not_fully : quote false ex_name = [x22; x61; x5c; x6e; xe4; x5c; x22; x5c; x5c; x5c; x30; x30; x31; x37; x22].
Proof. vm_compute. reflexivity. Qed.

Example ex_undo_quoted : undo (quote true ex_name ++ bs "7"" tail") = Ok (Owned, ex_name, 18).
Proof. vm_compute. reflexivity. Qed.

Example ex_unquoted_name : needs_quote true (bs "dir/plain name.txt") = false
  /\ bs "dir/plain name.txt" <> []
  /\ undo (quote true (bs "dir/plain name.txt") ++ bs """x") = Ok (Borrowed, bs "dir/plain name.txt""x", 20).
Proof. split; [|split]; [vm_compute; reflexivity | discriminate | vm_compute; reflexivity]. Qed.

(* bytes >= 0x80 are not quoted with core.quotePath=false *)
Example ex_unquoted_high : needs_quote false [xc3; xa4] = false /\ needs_quote true [xc3; xa4] = true.
Proof. split; vm_compute; reflexivity. Qed.

Example ex_no_leading_quote : starts_with_dquote (bs "a""b""") = false.
Proof. reflexivity. Qed.

Example ex_accepted_prefix : undo (bs """a\n\101""tail") = Ok (Owned, [x61; x0a; x41], 9).
Proof. vm_compute. reflexivity. Qed.

Example ex_errors :
  undo (bs """") = Err EQuotes /\ undo (bs """a\") = Err EEnd /\ undo (bs """\x""") = Err (EEscape x78)
  /\ undo (bs """\12") = Err EOctalEnd /\ undo (bs """\128""") = Err EOctal
  /\ undo (bs """abc") = Ok (Owned, bs "abc", 4).
Proof. repeat split; vm_compute; reflexivity. Qed.

Example ex_injective_premise : quote true ex_name = quote true ex_name.
Proof. reflexivity. Qed.

Example ex_refines_premise : length ex_name < undo_fuel ex_name.
Proof. unfold undo_fuel. lia. Qed.

(* the chunk-by-chunk transcription of git's C loop (Spec.git_quote_c_style, the function compared
   with real git by the check) terminates within its fuel and equals the byte-wise [quote] *)
Theorem git_loop_is_quote : forall fully name, git_quote_c_style fully name = Some (quote fully name).
Proof. exact git_quote_c_style_quote. Qed.
