(* C57 — lemmas.  Structure:
     1. [tidy]: the loop of undo as a structurally recursive byte-by-byte function;
     2. refinement: the fuelled slice-level [undo_loop] of Model.v equals [tidy] whenever the fuel
        exceeds the input length (so no Panic / OutOfFuel can come out of it);
     3. per-byte facts about git's table (exhaustive over all 256 bytes, both core.quotePath modes);
     4. tidy (quote_body s ++ dq :: rest) = s, lifted to undo. *)
From Coq Require Import Lia Arith.
From GixV.Base Require Import Bytes BytesFacts Outcome.
From GixV.C57 Require Import Tables Model Spec.

(* ---- 1. the tidy loop -------------------------------------------------------------------- *)

Fixpoint tidy (input out : bytes) (consumed : nat) {struct input} : outcome (bytes * nat) err :=
  match input with
  | [] => Ok (out, consumed)
  | c :: r =>
      if beqb c dquote then Ok (out, consumed + 1)
      else if beqb c bslash then
        match r with
        | [] => Err EEnd
        | next :: r1 =>
            match simple_escape next with
            | Some b => tidy r1 (out ++ [b]) (consumed + 2)
            | None =>
                if is_octal_lead next then
                  match r1 with
                  | d1 :: d2 :: r2 =>
                      match btoi_u8 octal_radix [next; d1; d2] with
                      | Some v => tidy r2 (out ++ [N2b v]) (consumed + 4)
                      | None => Err EOctal
                      end
                  | _ => Err EOctalEnd
                  end
                else Err (EEscape next)
            end
        end
      else tidy r (out ++ [c]) (consumed + 1)
  end.

Lemma tidy_consumed_eq i o n m : n = m -> tidy i o n = tidy i o m.
Proof. intros ->. reflexivity. Qed.

Definition is_stop (b : byte) : bool := mem_N (b2N b) stop_set.
Definition nostop (l : bytes) : bool := forallb (fun b => negb (is_stop b)) l.

Lemma is_stop_spec : forall b, Bool.eqb (is_stop b) (beqb b dquote || beqb b bslash) = true.
Proof. apply forall_bytes. vm_compute. reflexivity. Qed.

Lemma is_stop_false b : is_stop b = false -> beqb b dquote = false /\ beqb b bslash = false.
Proof.
  intros H. pose proof (is_stop_spec b) as S. rewrite H in S.
  destruct (beqb b dquote), (beqb b bslash); cbn in S; try discriminate; split; reflexivity.
Qed.

Lemma is_stop_true b : is_stop b = true -> beqb b dquote = true \/ (beqb b dquote = false /\ beqb b bslash = true).
Proof.
  intros H. pose proof (is_stop_spec b) as S. rewrite H in S.
  destruct (beqb b dquote), (beqb b bslash); cbn in S; try discriminate; auto.
Qed.

Lemma tidy_nostop_pre pre : forall l out c, nostop pre = true ->
  tidy (pre ++ l) out c = tidy l (out ++ pre) (c + length pre).
Proof.
  induction pre as [|b pre IH]; intros l out c H.
  - cbn [app length]. rewrite app_nil_r. apply tidy_consumed_eq. lia.
  - cbn [nostop forallb] in H. apply Bool.andb_true_iff in H. destruct H as [Hb Hp].
    apply Bool.negb_true_iff in Hb. destruct (is_stop_false b Hb) as [H1 H2].
    cbn [app tidy]. rewrite H1, H2. rewrite (IH l (out ++ [b]) (c + 1) Hp).
    rewrite <- app_assoc. cbn [app length]. apply tidy_consumed_eq. lia.
Qed.

Lemma tidy_nostop l out c : nostop l = true -> tidy l out c = Ok (out ++ l, c + length l).
Proof.
  intros H. pose proof (tidy_nostop_pre l [] out c H) as E. rewrite app_nil_r in E. exact E.
Qed.

(* ---- find_byteset ------------------------------------------------------------------------ *)

Lemma find_none l : find_byteset stop_set l = None -> nostop l = true.
Proof.
  induction l as [|b l IH]; intros H; [reflexivity|].
  cbn [find_byteset] in H. cbn [nostop forallb]. unfold is_stop at 1.
  destruct (mem_N (b2N b) stop_set); [discriminate|].
  destruct (find_byteset stop_set l); [discriminate|].
  pose proof (IH eq_refl) as IHl. unfold nostop in IHl. rewrite IHl. reflexivity.
Qed.

Lemma find_some l : forall p, find_byteset stop_set l = Some p ->
  exists pre c r, l = pre ++ c :: r /\ length pre = p /\ nostop pre = true /\ is_stop c = true.
Proof.
  induction l as [|b l IH]; intros p H; [discriminate|].
  cbn [find_byteset] in H. destruct (mem_N (b2N b) stop_set) eqn:E.
  - injection H as <-. exists [], b, l. repeat split. exact E.
  - destruct (find_byteset stop_set l) as [q|]; [|discriminate]. injection H as <-.
    destruct (IH q eq_refl) as (pre & c & r & -> & Hl & Hn & Hc).
    exists (b :: pre), c, r. cbn [app length nostop forallb]. unfold is_stop at 1. rewrite E.
    repeat split; try assumption. now rewrite Hl.
Qed.

(* ---- slice facts ------------------------------------------------------------------------- *)

Lemma slice_to_app (pre l : bytes) : @slice_to err (pre ++ l) (length pre) = Ok pre.
Proof.
  unfold slice_to. rewrite app_length.
  replace (Nat.leb (length pre) (length pre + length l)) with true by (symmetry; apply Nat.leb_le; lia).
  rewrite firstn_app, Nat.sub_diag, firstn_all. cbn [firstn]. now rewrite app_nil_r.
Qed.

Lemma index_app (pre : bytes) c r : @index err (pre ++ c :: r) (length pre) = Ok c.
Proof.
  unfold index. rewrite nth_error_app2 by lia. rewrite Nat.sub_diag. reflexivity.
Qed.

Lemma get_from_app (pre : bytes) c r : get_from (pre ++ c :: r) (length pre + 1) = Some r.
Proof.
  unfold get_from. rewrite app_length. cbn [length].
  replace (Nat.leb (length pre + 1) (length pre + S (length r))) with true by (symmetry; apply Nat.leb_le; lia).
  rewrite skipn_app. replace (length pre + 1 - length pre) with 1 by lia.
  rewrite skipn_all2 by lia. reflexivity.
Qed.

Lemma consume_one_past_app (pre : bytes) c r :
  consume_one_past (pre ++ c :: r) (length pre) =
  match r with [] => Err EEnd | next :: r1 => Ok (next, r1) end.
Proof.
  unfold consume_one_past. rewrite get_from_app. cbn [of_option obind].
  destruct r as [|next r1]; reflexivity.
Qed.

Lemma octal_arm_short next r1 : length r1 < 2 -> octal_arm next r1 = Err EOctalEnd.
Proof.
  intros H. destruct r1 as [|a [|b r]]; try reflexivity. cbn [length] in H. lia.
Qed.

Lemma octal_arm_long next d1 d2 r2 :
  octal_arm next (d1 :: d2 :: r2) =
  match btoi_u8 octal_radix [next; d1; d2] with
  | Some v => Ok (N2b v, r2)
  | None => Err EOctal
  end.
Proof.
  unfold octal_arm, octal_get, octal_buf_len, octal_buf_from, octal_skip.
  cbn [get_to length Nat.leb of_option obind firstn repeat slice_to Nat.sub read_exact Nat.ltb
       unwrap app slice_from skipn].
  destruct (btoi_u8 octal_radix [next; d1; d2]); reflexivity.
Qed.

(* ---- 2. refinement ----------------------------------------------------------------------- *)

Lemma undo_loop_tidy : forall fuel input out consumed,
  length input < fuel -> undo_loop fuel input out consumed = tidy input out consumed.
Proof.
  induction fuel as [|fuel IH]; intros input out consumed Hf; [lia|].
  cbn [undo_loop].
  destruct (find_byteset stop_set input) as [p|] eqn:F.
  - destruct (find_some _ _ F) as (pre & c & r & -> & Hp & Hn & Hc). subst p.
    rewrite slice_to_app. cbn [obind]. rewrite index_app. cbn [obind].
    rewrite tidy_nostop_pre by exact Hn.
    rewrite app_length in Hf. cbn [length] in Hf.
    destruct (is_stop_true c Hc) as [Hq | [Hq Hb]].
    + cbn [tidy]. rewrite Hq. reflexivity.
    + cbn [tidy]. rewrite Hq, Hb. rewrite consume_one_past_app.
      destruct r as [|next r1]; [reflexivity|]. cbn [obind fst snd].
      destruct (simple_escape next) as [b|].
      * cbn [length] in Hf. rewrite IH by lia. apply tidy_consumed_eq. lia.
      * destruct (is_octal_lead next); [|reflexivity].
        destruct r1 as [|d1 [|d2 r2]].
        -- rewrite octal_arm_short by (cbn; lia). reflexivity.
        -- rewrite octal_arm_short by (cbn; lia). reflexivity.
        -- rewrite octal_arm_long.
           destruct (btoi_u8 octal_radix [next; d1; d2]) as [v|]; [|reflexivity].
           cbn [obind fst snd]. cbn [length] in Hf. rewrite IH by lia.
           apply tidy_consumed_eq. unfold octal_consumed. lia.
  - apply find_none in F. rewrite tidy_nostop by exact F. reflexivity.
Qed.

(* tidy never panics and never runs out of fuel (it has none) *)
Definition graceful {A} (o : outcome A err) : Prop := o <> Panic /\ o <> OutOfFuel.

Lemma graceful_ok {A} (a : A) : graceful (@Ok A err a).
Proof. split; discriminate. Qed.
Lemma graceful_err {A} e : graceful (@Err A err e).
Proof. split; discriminate. Qed.

Lemma tidy_graceful : forall n input out consumed, length input <= n -> graceful (tidy input out consumed).
Proof.
  induction n as [|n IH]; intros input out consumed Hn.
  - destruct input; [apply graceful_ok | cbn [length] in Hn; lia].
  - destruct input as [|c r]; [apply graceful_ok|]. cbn [length] in Hn. cbn [tidy].
    destruct (beqb c dquote); [apply graceful_ok|].
    destruct (beqb c bslash); [|apply IH; lia].
    destruct r as [|next r1]; [apply graceful_err|]. cbn [length] in Hn.
    destruct (simple_escape next); [apply IH; lia|].
    destruct (is_octal_lead next); [|apply graceful_err].
    destruct r1 as [|d1 [|d2 r2]]; try apply graceful_err.
    destruct (btoi_u8 octal_radix [next; d1; d2]); [|apply graceful_err].
    cbn [length] in Hn. apply IH. lia.
Qed.

(* consumed stays within the input, the output is never longer than what was consumed *)
Lemma tidy_bounds : forall n input out consumed out' n',
  length input <= n -> tidy input out consumed = Ok (out', n') ->
  consumed <= n' /\ n' <= consumed + length input /\ length out' <= length out + (n' - consumed).
Proof.
  induction n as [|n IH]; intros input out consumed out' n' Hn H.
  - destruct input; [|cbn [length] in Hn; lia]. cbn [tidy] in H. apply Ok_inj in H.
    injection H as <- <-. cbn [length]. lia.
  - destruct input as [|c r].
    { cbn [tidy] in H. apply Ok_inj in H. injection H as <- <-. cbn [length]. lia. }
    cbn [length] in Hn. cbn [tidy] in H. cbn [length].
    destruct (beqb c dquote).
    { apply Ok_inj in H. injection H as <- <-. lia. }
    destruct (beqb c bslash).
    2:{ apply IH in H; [|lia]. rewrite app_length in H. cbn [length] in H. lia. }
    destruct r as [|next r1]; [discriminate|]. cbn [length] in Hn. cbn [length].
    destruct (simple_escape next).
    { apply IH in H; [|lia]. rewrite app_length in H. cbn [length] in H. lia. }
    destruct (is_octal_lead next); [|discriminate].
    destruct r1 as [|d1 [|d2 r2]]; try discriminate.
    destruct (btoi_u8 octal_radix [next; d1; d2]); [|discriminate].
    cbn [length] in Hn. cbn [length].
    apply IH in H; [|lia]. rewrite app_length in H. cbn [length] in H. lia.
Qed.

(* decoding depends only on the consumed prefix *)
Lemma tidy_prefix : forall n input out consumed out' n',
  length input <= n -> tidy input out consumed = Ok (out', n') ->
  tidy (firstn (n' - consumed) input) out consumed = Ok (out', n').
Proof.
  induction n as [|n IH]; intros input out consumed out' n' Hn H.
  - destruct input; [|cbn [length] in Hn; lia]. rewrite firstn_nil. exact H.
  - destruct input as [|c r]; [rewrite firstn_nil; exact H|].
    pose proof (tidy_bounds _ _ _ _ _ _ (le_n _) H) as B.
    cbn [length] in Hn. cbn [tidy] in H.
    destruct (beqb c dquote) eqn:Eq.
    { apply Ok_inj in H. injection H as <- <-.
      replace (consumed + 1 - consumed) with 1 by lia. cbn [firstn tidy]. rewrite Eq. reflexivity. }
    destruct (beqb c bslash) eqn:Eb.
    2:{ pose proof (tidy_bounds _ _ _ _ _ _ (le_n _) H) as B2.
        apply IH in H; [|lia].
        replace (n' - consumed) with (S (n' - (consumed + 1))) by lia.
        cbn [firstn tidy]. rewrite Eq, Eb. exact H. }
    destruct r as [|next r1]; [discriminate|]. cbn [length] in Hn.
    destruct (simple_escape next) eqn:Es.
    { pose proof (tidy_bounds _ _ _ _ _ _ (le_n _) H) as B2.
      apply IH in H; [|lia].
      replace (n' - consumed) with (S (S (n' - (consumed + 2)))) by lia.
      cbn [firstn tidy]. rewrite Eq, Eb, Es. exact H. }
    destruct (is_octal_lead next) eqn:El; [|discriminate].
    destruct r1 as [|d1 [|d2 r2]]; try discriminate.
    destruct (btoi_u8 octal_radix [next; d1; d2]) eqn:Ev; [|discriminate].
    cbn [length] in Hn.
    pose proof (tidy_bounds _ _ _ _ _ _ (le_n _) H) as B2.
    apply IH in H; [|lia].
    replace (n' - consumed) with (S (S (S (S (n' - (consumed + 4)))))) by lia.
    cbn [firstn tidy]. rewrite Eq, Eb, Es, El, Ev. exact H.
Qed.

(* ---- 3. git's table, byte by byte ---------------------------------------------------------- *)

(* what the decoder makes of `\` followed by escape_of c, and what it makes of an unquoted byte *)
Definition esc_ok (fully : bool) (c : byte) : bool :=
  if cq_must_quote fully c then
    match escape_of c with
    | [e] => match simple_escape e with Some b => beqb b c | None => false end
    | [d0; d1; d2] =>
        match simple_escape d0 with
        | Some _ => false
        | None =>
            is_octal_lead d0 &&
            match btoi_u8 octal_radix [d0; d1; d2] with Some v => beqb (N2b v) c | None => false end
        end
    | _ => false
    end
  else negb (beqb c dquote) && negb (beqb c bslash).

Lemma esc_ok_all fully : forall c, esc_ok fully c = true.
Proof. destruct fully; apply forall_bytes; vm_compute; reflexivity. Qed.

Definition quote_one (fully : bool) (c : byte) : bytes :=
  if cq_must_quote fully c then bslash :: escape_of c else [c].

Lemma quote_body_cons fully c s : quote_body fully (c :: s) = quote_one fully c ++ quote_body fully s.
Proof. cbn [quote_body]. unfold quote_one. destruct (cq_must_quote fully c); reflexivity. Qed.

Lemma tidy_quote_one fully c l out n :
  tidy (quote_one fully c ++ l) out n = tidy l (out ++ [c]) (n + length (quote_one fully c)).
Proof.
  pose proof (esc_ok_all fully c) as H. unfold esc_ok in H. unfold quote_one.
  destruct (cq_must_quote fully c).
  - destruct (escape_of c) as [|d0 [|d1 [|d2 [|x y]]]]; try discriminate.
    + destruct (simple_escape d0) as [b|] eqn:Es; [|discriminate].
      apply beqb_eq in H. subst b.
      change (tidy ((bslash :: [d0]) ++ l) out n) with
        (match simple_escape d0 with
         | Some b => tidy l (out ++ [b]) (n + 2)
         | None => if is_octal_lead d0 then
                     match l with
                     | d1 :: d2 :: r2 => match btoi_u8 octal_radix [d0; d1; d2] with
                                         | Some v => tidy r2 (out ++ [N2b v]) (n + 4)
                                         | None => Err EOctal end
                     | _ => Err EOctalEnd
                     end
                   else Err (EEscape d0)
         end).
      rewrite Es. reflexivity.
    + destruct (simple_escape d0) as [b|] eqn:Es; [discriminate|].
      apply Bool.andb_true_iff in H. destruct H as [Hl H].
      destruct (btoi_u8 octal_radix [d0; d1; d2]) as [v|] eqn:Ev; [|discriminate].
      apply beqb_eq in H.
      change (tidy ((bslash :: [d0; d1; d2]) ++ l) out n) with
        (match simple_escape d0 with
         | Some b => tidy (d1 :: d2 :: l) (out ++ [b]) (n + 2)
         | None => if is_octal_lead d0 then
                     match btoi_u8 octal_radix [d0; d1; d2] with
                     | Some v => tidy l (out ++ [N2b v]) (n + 4)
                     | None => Err EOctal end
                   else Err (EEscape d0)
         end).
      rewrite Es, Hl, Ev, H. reflexivity.
  - apply Bool.andb_true_iff in H. destruct H as [H1 H2].
    apply Bool.negb_true_iff in H1. apply Bool.negb_true_iff in H2.
    cbn [app tidy]. rewrite H1, H2. reflexivity.
Qed.

(* ---- 4. undo inverts quote ---------------------------------------------------------------- *)

Lemma tidy_quote_body fully s : forall rest out n,
  tidy (quote_body fully s ++ dquote :: rest) out n = Ok (out ++ s, n + length (quote_body fully s) + 1).
Proof.
  induction s as [|c s IH]; intros rest out n.
  - cbn [quote_body app length tidy]. change (beqb dquote dquote) with true. cbv iota.
    rewrite app_nil_r. f_equal; f_equal; lia.
  - rewrite quote_body_cons, <- app_assoc, tidy_quote_one, IH, <- app_assoc, app_length.
    cbn [app]. f_equal; f_equal; lia.
Qed.

Lemma starts_with_dquote_cons r : starts_with_dquote (dquote :: r) = true.
Proof. reflexivity. Qed.

Lemma undo_quoted_shape body rest :
  undo (dquote :: (body ++ [dquote]) ++ rest) =
  obind (tidy (body ++ dquote :: rest) [] 1) (fun r => Ok (Owned, fst r, snd r)).
Proof.
  unfold undo. rewrite starts_with_dquote_cons. cbn [negb].
  assert (L : Nat.ltb (length (dquote :: (body ++ [dquote]) ++ rest)) 2 = false).
  { apply Nat.ltb_ge. cbn [length]. rewrite !app_length. cbn [length]. lia. }
  rewrite L. unfold slice_from. cbn [length Nat.leb skipn obind].
  rewrite undo_loop_tidy by (unfold undo_fuel; cbn [length]; lia).
  rewrite <- app_assoc. reflexivity.
Qed.

Lemma undo_quote_quoted fully s rest : needs_quote fully s = true ->
  undo (quote fully s ++ rest) = Ok (Owned, s, length (quote fully s)).
Proof.
  intros H. unfold quote. rewrite H.
  change ((x22 :: quote_body fully s ++ [x22]) ++ rest)
    with (dquote :: (quote_body fully s ++ [dquote]) ++ rest).
  rewrite undo_quoted_shape, tidy_quote_body. cbn [obind fst snd app length].
  rewrite app_length. cbn [length]. f_equal; f_equal; lia.
Qed.

Lemma undo_identity input : starts_with_dquote input = false ->
  undo input = Ok (Borrowed, input, length input).
Proof. intros H. unfold undo. rewrite H. reflexivity. Qed.

(* a byte git leaves alone is not a double quote *)
Lemma not_quoted_not_dquote fully : forall c, cq_must_quote fully c = false -> beqb c dquote = false.
Proof.
  intros c H. pose proof (esc_ok_all fully c) as E. unfold esc_ok in E. rewrite H in E.
  apply Bool.andb_true_iff in E. destruct E as [E _]. now apply Bool.negb_true_iff in E.
Qed.

Lemma unquoted_starts fully s rest : needs_quote fully s = false ->
  s <> [] \/ starts_with_dquote rest = false -> starts_with_dquote (quote fully s ++ rest) = false.
Proof.
  intros H D. unfold quote. rewrite H. destruct s as [|c s].
  - destruct D as [D|D]; [congruence | exact D].
  - cbn [app starts_with_dquote]. cbn [needs_quote existsb] in H.
    apply Bool.orb_false_iff in H. destruct H as [H _]. exact (not_quoted_not_dquote fully c H).
Qed.

Lemma undo_quote_unquoted fully s rest : needs_quote fully s = false ->
  s <> [] \/ starts_with_dquote rest = false ->
  undo (quote fully s ++ rest) = Ok (Borrowed, s ++ rest, length (s ++ rest)).
Proof.
  intros H D. rewrite undo_identity by (apply unquoted_starts; assumption).
  unfold quote. rewrite H. reflexivity.
Qed.

(* ---- never panics, never hangs ------------------------------------------------------------ *)

Lemma undo_as_tidy input :
  undo input =
  if negb (starts_with_dquote input) then Ok (Borrowed, input, length input)
  else if Nat.ltb (length input) 2 then Err EQuotes
  else obind (tidy (skipn 1 input) [] 1) (fun r => Ok (Owned, fst r, snd r)).
Proof.
  unfold undo. destruct (negb (starts_with_dquote input)); [reflexivity|].
  destruct (Nat.ltb (length input) 2) eqn:L; [reflexivity|].
  apply Nat.ltb_ge in L. unfold slice_from.
  replace (Nat.leb 1 (length input)) with true by (symmetry; apply Nat.leb_le; lia).
  cbn [obind]. rewrite undo_loop_tidy; [reflexivity|].
  unfold undo_fuel. rewrite skipn_length. lia.
Qed.

Lemma undo_graceful input : graceful (undo input).
Proof.
  rewrite undo_as_tidy. destruct (negb (starts_with_dquote input)); [apply graceful_ok|].
  destruct (Nat.ltb (length input) 2); [apply graceful_err|].
  pose proof (tidy_graceful _ (skipn 1 input) [] 1 (le_n _)) as [G1 G2].
  destruct (tidy (skipn 1 input) [] 1) as [[o n]| e | |]; cbn [obind]; try congruence.
  - apply graceful_ok.
  - apply graceful_err.
Qed.

Lemma undo_bounds input k out n : undo input = Ok (k, out, n) ->
  n <= length input /\ length out <= n.
Proof.
  rewrite undo_as_tidy. destruct (negb (starts_with_dquote input)).
  { intros H. apply Ok_inj in H. injection H as _ <- <-. lia. }
  destruct (Nat.ltb (length input) 2) eqn:L; [discriminate|]. apply Nat.ltb_ge in L.
  destruct (tidy (skipn 1 input) [] 1) as [[o m]| e | |] eqn:T; cbn [obind fst snd]; try discriminate.
  intros H. apply Ok_inj in H. injection H as _ <- <-.
  apply tidy_bounds with (n := length (skipn 1 input)) in T; [|lia].
  rewrite skipn_length in T. cbn [length] in T. lia.
Qed.

Lemma undo_prefix input out n : undo input = Ok (Owned, out, n) ->
  undo (firstn n input) = Ok (Owned, out, n).
Proof.
  intros H. pose proof (undo_bounds _ _ _ _ H) as [B1 B2]. revert H.
  rewrite !undo_as_tidy.
  destruct input as [|c r]; [discriminate|].
  cbn [starts_with_dquote]. destruct (beqb c dquote) eqn:Ec; cbn [negb]; [|discriminate].
  destruct (Nat.ltb (length (c :: r)) 2) eqn:L; [discriminate|]. apply Nat.ltb_ge in L.
  cbn [skipn].
  destruct (tidy r [] 1) as [[o m]| e | |] eqn:T; cbn [obind fst snd]; try discriminate.
  intros H. apply Ok_inj in H. injection H as -> ->.
  pose proof (tidy_bounds _ _ _ _ _ _ (le_n _) T) as B.
  destruct n as [|n]; [lia|]. cbn [firstn starts_with_dquote]. rewrite Ec. cbn [negb].
  assert (L2 : Nat.ltb (length (c :: firstn n r)) 2 = false).
  { apply Nat.ltb_ge. cbn [length]. rewrite firstn_length. cbn [length] in *. 
    destruct r; cbn [length] in *; [lia|]. destruct n; [|lia].
    (* n = 0 would mean consumed = 1 with a non-empty rest: impossible, the loop consumes at least one byte *)
    exfalso. cbn [tidy] in T. destruct (beqb b dquote); [apply Ok_inj in T; injection T; lia|].
    destruct (beqb b bslash).
    - destruct r as [|x r]; [discriminate|]. destruct (simple_escape x).
      + apply tidy_bounds with (n := length r) in T; [lia|lia].
      + destruct (is_octal_lead x); [|discriminate]. destruct r as [|d1 [|d2 r2]]; try discriminate.
        destruct (btoi_u8 octal_radix [x; d1; d2]); [|discriminate].
        apply tidy_bounds with (n := length r2) in T; [lia|lia].
    - apply tidy_bounds with (n := length r) in T; [lia|lia]. }
  rewrite L2. cbn [skipn].
  apply tidy_prefix with (n := length r) in T; [|lia].
  replace (S n - 1) with n in T by lia. rewrite T. reflexivity.
Qed.

(* ---- quote is injective (a consequence of being invertible) -------------------------------- *)

Lemma dquote_must_quote fully : cq_must_quote fully dquote = true.
Proof. destruct fully; vm_compute; reflexivity. Qed.

Lemma quote_injective fully s1 s2 : quote fully s1 = quote fully s2 -> s1 = s2.
Proof.
  intros H.
  destruct (needs_quote fully s1) eqn:N1, (needs_quote fully s2) eqn:N2.
  - pose proof (undo_quote_quoted fully s1 [] N1) as U1.
    pose proof (undo_quote_quoted fully s2 [] N2) as U2.
    rewrite H, U2 in U1. apply Ok_inj in U1. injection U1 as E. symmetry. exact E.
  - exfalso. unfold quote in H. rewrite N1, N2 in H. subst s2.
    cbn [needs_quote existsb] in N2. change x22 with dquote in N2.
    rewrite dquote_must_quote in N2. discriminate.
  - exfalso. unfold quote in H. rewrite N1, N2 in H. subst s1.
    cbn [needs_quote existsb] in N1. change x22 with dquote in N1.
    rewrite dquote_must_quote in N1. discriminate.
  - unfold quote in H. rewrite N1, N2 in H. exact H.
Qed.

(* ---- the chunked C loop equals the byte-wise quote ------------------------------------------ *)

Lemma nqp_all fully p : next_quote_pos fully p = length p -> needs_quote fully p = false.
Proof.
  induction p as [|c r IH]; intros H; [reflexivity|].
  cbn [next_quote_pos length] in H. cbn [needs_quote existsb].
  destruct (cq_must_quote fully c); [discriminate|]. injection H as H. exact (IH H).
Qed.

Lemma nqp_le fully p : next_quote_pos fully p <= length p.
Proof.
  induction p as [|c r IH]; cbn [next_quote_pos length]; [lia|].
  destruct (cq_must_quote fully c); lia.
Qed.

Lemma quote_body_plain fully p : needs_quote fully p = false -> quote_body fully p = p.
Proof.
  induction p as [|c r IH]; intros H; [reflexivity|].
  cbn [needs_quote existsb] in H. apply Bool.orb_false_iff in H. destruct H as [H1 H2].
  cbn [quote_body]. rewrite H1. f_equal. exact (IH H2).
Qed.

(* split at the first byte that must be quoted *)
Lemma nqp_split fully p : next_quote_pos fully p <> length p ->
  exists ch p', skipn (next_quote_pos fully p) p = ch :: p'
    /\ cq_must_quote fully ch = true
    /\ needs_quote fully (firstn (next_quote_pos fully p) p) = false
    /\ p = firstn (next_quote_pos fully p) p ++ ch :: p'.
Proof.
  induction p as [|c r IH]; intros H; [cbn in H; congruence|].
  cbn [next_quote_pos length] in *. destruct (cq_must_quote fully c) eqn:E.
  - exists c, r. cbn [skipn firstn app]. repeat split. exact E.
  - destruct IH as (ch & p' & H1 & H2 & H3 & H4); [congruence|].
    exists ch, p'. cbn [skipn firstn app needs_quote existsb]. rewrite E.
    repeat split; try assumption. f_equal. exact H4.
Qed.

Lemma quote_body_app fully a b : quote_body fully (a ++ b) = quote_body fully a ++ quote_body fully b.
Proof.
  induction a as [|c a IH]; [reflexivity|]. cbn [app quote_body].
  destruct (cq_must_quote fully c); rewrite IH; cbn [app]; rewrite ?app_assoc; reflexivity.
Qed.

Lemma qcs_loop_spec : forall fuel fully p at_start sb, length p < fuel ->
  qcs_loop fuel fully p at_start sb =
  Some (if needs_quote fully p
        then ((if at_start then sb ++ [x22] else sb) ++ quote_body fully p, false)
        else (sb ++ p, at_start)).
Proof.
  induction fuel as [|fuel IH]; intros fully p at_start sb Hf; [lia|].
  cbn [qcs_loop]. destruct (Nat.eqb (next_quote_pos fully p) (length p)) eqn:E.
  - apply Nat.eqb_eq in E. rewrite (nqp_all _ _ E), E, firstn_all. reflexivity.
  - apply Nat.eqb_neq in E. destruct (nqp_split fully p E) as (ch & p' & H1 & H2 & H3 & H4).
    rewrite H1. 
    assert (Lp : length p' < fuel).
    { rewrite H4 in Hf. rewrite app_length in Hf. cbn [length] in Hf. lia. }
    rewrite IH by exact Lp.
    assert (N : needs_quote fully p = true).
    { rewrite H4. unfold needs_quote. rewrite existsb_app. cbn [existsb]. rewrite H2.
      rewrite Bool.orb_true_r. reflexivity. }
    rewrite N.
    assert (Q : quote_body fully p =
                firstn (next_quote_pos fully p) p ++ [x5c] ++ escape_of ch ++ quote_body fully p').
    { rewrite H4 at 1. rewrite quote_body_app, (quote_body_plain _ _ H3). cbn [quote_body]. rewrite H2.
      reflexivity. }
    rewrite Q. set (pre := firstn (next_quote_pos fully p) p). set (sb0 := if at_start then sb ++ [x22] else sb).
    destruct (needs_quote fully p') eqn:N'.
    + rewrite <- !app_assoc. reflexivity.
    + rewrite (quote_body_plain _ _ N'). rewrite <- !app_assoc. reflexivity.
Qed.

Lemma git_quote_c_style_quote fully name : git_quote_c_style fully name = Some (quote fully name).
Proof.
  unfold git_quote_c_style, quote. rewrite qcs_loop_spec by lia.
  destruct (needs_quote fully name); cbn [app]; reflexivity.
Qed.
