(* C49 — lemmas: the stat comparison, the racy rule, the mode comparison and the whole per-entry decision
   of gix-status agree with git's, outside four explicitly named deviation classes. *)
From Coq Require Import ZArith Lia Bool.
From GixV.Base Require Import Bytes BytesFacts Outcome.
From GixV.C49 Require Import Model Spec.
Local Open Scope N_scope.

(* ---- racy rule -------------------------------------------------------------------------- *)
Lemma racy_rule (new : stat) (entry_mtime : N) (ts_s : Z) (ts_ns : N) (o : sopts) :
  use_nsec o = false -> ts_s <> 0%Z -> secs (mtime new) = entry_mtime ->
  is_racy new ts_s ts_ns o = git_is_racy ts_s entry_mtime.
Proof.
  intros Hn Hz <-. unfold is_racy, git_is_racy. rewrite Hn. cbn [andb].
  destruct (Z.eqb_spec ts_s 0) as [E|_]; [contradiction|]. cbn [negb andb].
  destruct (Z.compare_spec ts_s (Z.of_N (secs (mtime new)))) as [E|L|G]; symmetry.
  - apply Z.leb_le. lia.
  - apply Z.leb_le. lia.
  - apply Z.leb_gt. lia.
Qed.

(* with nanoseconds (a gix-only option) the rule is the one of git built with USE_NSEC *)
Lemma racy_rule_nsec (new : stat) (ts_s : Z) (ts_ns : N) (o : sopts) :
  use_nsec o = true -> check_stat o = true ->
  is_racy new ts_s ts_ns o =
    (Z.ltb ts_s (Z.of_N (secs (mtime new)))
     || (Z.eqb ts_s (Z.of_N (secs (mtime new))) && N.leb ts_ns (nsecs (mtime new)))).
Proof.
  intros Hn Hc. unfold is_racy. rewrite Hn, Hc. cbn [andb].
  destruct (Z.compare_spec ts_s (Z.of_N (secs (mtime new)))) as [E|L|G].
  - rewrite E, Z.ltb_irrefl, Z.eqb_refl. reflexivity.
  - apply Z.ltb_lt in L. rewrite L. reflexivity.
  - assert (H1 : Z.ltb ts_s (Z.of_N (secs (mtime new))) = false) by (apply Z.ltb_ge; lia).
    assert (H2 : Z.eqb ts_s (Z.of_N (secs (mtime new))) = false) by (apply Z.eqb_neq; lia).
    rewrite H1, H2. reflexivity.
Qed.

(* never racy before the index was written: an mtime strictly older than the index timestamp *)
Lemma not_racy_when_older (new : stat) (ts_s : Z) (ts_ns : N) (o : sopts) :
  (Z.of_N (secs (mtime new)) < ts_s)%Z -> is_racy new ts_s ts_ns o = false.
Proof.
  intros H. unfold is_racy.
  destruct (Z.compare_spec ts_s (Z.of_N (secs (mtime new)))); [lia|lia|reflexivity].
Qed.

(* ---- stat comparison -------------------------------------------------------------------- *)
Ltac eqb_cases a b :=
  let E := fresh "E" in
  destruct (N.eqb_spec a b) as [E|E];
  [ try rewrite E in *; rewrite ?N.eqb_refl
  | rewrite ?(proj2 (N.eqb_neq b a)) by congruence ].

Lemma stat_matches_size a b o : stat_matches a b o = true -> size a = size b.
Proof.
  unfold stat_matches.
  destruct (N.eqb_spec (secs (mtime a)) (secs (mtime b))); cbn [negb]; [|discriminate].
  destruct (check_stat o && use_nsec o && negb (nsecs (mtime a) =? nsecs (mtime b))); [discriminate|].
  destruct (N.eqb_spec (size a) (size b)); cbn [negb]; [auto|discriminate].
Qed.

Lemma stat_matches_mtime a b o : stat_matches a b o = true -> secs (mtime a) = secs (mtime b).
Proof.
  unfold stat_matches.
  destruct (N.eqb_spec (secs (mtime a)) (secs (mtime b))); cbn [negb]; [auto|discriminate].
Qed.

Definition cfg_stat (o : sopts) (x s : bool) : gitcfg :=
  {| g_trust_ctime := trust_ctime o; g_check_stat := check_stat o; g_trust_exec := x; g_has_symlinks := s |}.

Lemma stat_matches_is_git (new ent : stat) (o : sopts) (x s : bool) :
  use_nsec o = false -> use_stdev o = false ->
  (trust_ctime o && negb (check_stat o) && negb (secs (ctime new) =? secs (ctime ent))) = false ->
  stat_matches new ent o = negb (git_stat_changed ent new (cfg_stat o x s)).
Proof.
  intros Hn Hd Hc. unfold stat_matches, git_stat_changed, cfg_stat. cbn [g_trust_ctime g_check_stat].
  rewrite Hn, Hd. rewrite !andb_false_r. cbn [andb].
  revert Hc.
  destruct new as [[ms mn] [cs cn] dv io ui gi sz], ent as [[ms' mn'] [cs' cn'] dv' io' ui' gi' sz'].
  cbn [mtime ctime secs nsecs dev ino uid gid size].
  eqb_cases ms ms'; eqb_cases sz sz'; eqb_cases cs cs'; eqb_cases io io'; eqb_cases gi gi'; eqb_cases ui ui';
    destruct (trust_ctime o), (check_stat o); cbn; intros; try reflexivity; try discriminate.
Qed.

(* ---- modes ------------------------------------------------------------------------------- *)
Definition dev_symlink_disabled (m : emode) (k : fkind) (s : bool) : bool :=
  negb s && match m, k with MLink, KLink => true | _, _ => false end.

Lemma mode_change_is_git (m : emode) (k : fkind) (s x : bool) (c : gitcfg) :
  g_has_symlinks c = s -> g_trust_exec c = x -> dev_symlink_disabled m k s = false ->
  match change_to_match_fs m k s x with
  | ChType => git_type_changed m k c = true /\ git_new_type_differs m k c = true
  | ChExec => git_type_changed m k c = false /\ git_new_type_differs m k c = false
              /\ git_mode_changed m k c = true /\ git_perm_flip m k c = true
  | ChNone => git_type_changed m k c = false /\ git_new_type_differs m k c = false
              /\ git_mode_changed m k c = false /\ git_perm_flip m k c = false
  end.
Proof.
  intros Hs Hx. unfold git_type_changed, git_new_type_differs, git_mode_changed, git_perm_flip, dev_symlink_disabled.
  rewrite Hs, Hx.
  destruct m, k as [[|]|], s, x; cbn; intros; try discriminate; repeat split; reflexivity.
Qed.

(* ---- the per-entry decision -------------------------------------------------------------- *)
Definition dev_ctime_minimal (e : entry) (st : stat) (so : sopts) : bool :=
  trust_ctime so && negb (check_stat so) && negb (secs (ctime st) =? secs (ctime (estat e))).
Definition known_deviation (e : entry) (l : lstat) (content_eq : bool) (fo : fsopts) (so : sopts) (ts_s : Z) : bool :=
  match l with
  | LNode k st len =>
      Z.eqb ts_s 0 || dev_symlink_disabled (emd e) k (has_symlinks fo)
      || dev_ctime_minimal e st so
  | _ => false
  end.

Lemma status_is_git (e : entry) (l : lstat) (content_eq : bool) (fo : fsopts) (so : sopts) (ts_s : Z) (ts_ns : N) :
  use_nsec so = false -> use_stdev so = false ->
  (forall k st len, l = LNode k st len -> size st = len) ->
  (forall k st len, l = LNode k st len -> id_empty e = true -> content_eq = true -> len = 0) ->
  known_deviation e l content_eq fo so ts_s = false ->
  letter_of (compute_status e l content_eq fo so ts_s ts_ns) = git_report e l content_eq (cfg_of fo so) ts_s.
Proof.
  intros Hn Hd Hlen Hempty Hk.
  destruct l as [| |k st len].
  - reflexivity.
  - cbn. destruct (emd e); reflexivity.
  - specialize (Hlen k st len eq_refl). specialize (Hempty k st len eq_refl).
    unfold known_deviation in Hk.
    apply orb_false_elim in Hk as [Hk Hct].
    apply orb_false_elim in Hk as [Hz Hsym]. apply Z.eqb_neq in Hz.
    cbn [compute_status git_report].
    destruct (f_ita e); [reflexivity|].
    pose proof (mode_change_is_git (emd e) k (has_symlinks fo) (exec_bit fo) (cfg_of fo so) eq_refl eq_refl Hsym) as Hm.
    pose proof (stat_matches_is_git st (estat e) so (exec_bit fo) (has_symlinks fo) Hn Hd Hct) as Hs.
    change (cfg_stat so (exec_bit fo) (has_symlinks fo)) with (cfg_of fo so) in Hs.
    unfold git_basic_changed, fast_eq_changed.
    rewrite Hlen.
    assert (F : id_empty e = true -> content_eq = true -> (size (estat e) =? 0) = true -> (size (estat e) =? len) = true).
    { intros A B C. apply N.eqb_eq in C. rewrite (Hempty A B), C. apply N.eqb_refl. }
    destruct (stat_matches st (estat e) so) eqn:SM.
    + (* stat data equal *)
      pose proof (stat_matches_size _ _ _ SM) as Hsz. pose proof (stat_matches_mtime _ _ _ SM) as Hmt.
      rewrite (racy_rule st (secs (mtime (estat e))) ts_s ts_ns so Hn Hz Hmt).
      symmetry in Hs. apply negb_true_iff in Hs. rewrite Hs.
      assert (Hel : (size (estat e) =? len) = true) by (apply N.eqb_eq; congruence).
      rewrite Hel in *. clear F.
      generalize (git_is_racy ts_s (secs (mtime (estat e)))). intros r.
      destruct (change_to_match_fs (emd e) k (has_symlinks fo) (exec_bit fo));
        [ destruct Hm as [H1 H2] | destruct Hm as [H1 [H2 [H3 H4]]] | destruct Hm as [H1 [H2 [H3 H4]]] ];
        rewrite ?H1, ?H2, ?H3, ?H4;
        destruct (emd e) eqn:EM; try (cbn in H1; discriminate); try (cbn in H2; discriminate);
        destruct (id_empty e), (size (estat e) =? 0), content_eq, r; cbn; try reflexivity; try discriminate.
    + (* stat data differ: git flags the entry, gix compares size and content *)
      symmetry in Hs. apply negb_false_iff in Hs. rewrite Hs.
      rewrite !orb_true_r. cbn [andb orb negb].
      revert F.
      destruct (change_to_match_fs (emd e) k (has_symlinks fo) (exec_bit fo));
        [ destruct Hm as [H1 H2] | destruct Hm as [H1 [H2 [H3 H4]]] | destruct Hm as [H1 [H2 [H3 H4]]] ];
        rewrite ?H1, ?H2, ?H3, ?H4;
        destruct (emd e) eqn:EM; try (cbn in H1; discriminate); try (cbn in H2; discriminate);
        destruct (id_empty e), (size (estat e) =? 0), (size (estat e) =? len), content_eq;
        cbn; intros F; try reflexivity; try discriminate;
        try (specialize (F eq_refl eq_refl eq_refl); discriminate).
Qed.

(* ---- classification of one directory entry ------------------------------------------------- *)
(* [path_examine]: git looks into the directory to see whether it is empty (never listed then) and
   whether everything inside is ignored; gix looks into untracked directories only and lists an excluded
   directory as ignored without reading it *)
Definition treat_of (repo : bool) (i : info) : treatment :=
  match i_st i, i_disk i with
  | Pruned, _ => path_none
  | Tracked, Some DDir => path_recurse
  | Tracked, _ => path_none
  | Ignored, Some DDir => if repo then path_excluded else path_examine
  | Ignored, _ => path_excluded
  | Untracked, Some DDir => path_examine
  | Untracked, _ => path_untracked
  end.

Definition exist_status_of (es : list entry) (p : bytes) : exist_status :=
  match entry_by_path es p with
  | Some e => match emd e with MCommit => index_gitdir | _ => index_nonexistent end
  | None => match entries_below es p with [] => index_nonexistent | _ => index_directory end
  end.

Definition file_in_index (es : list entry) (p : bytes) : bool :=
  match entry_by_path es p with Some _ => true | None => false end.

Lemma classify_is_git (es : list entry) (ps : list pattern) (nd : node) :
  n_kind nd <> DRepo ->                                      (* read_dir never says "repository" *)
  (forall e, entry_by_path es (n_path nd) = Some e -> emd e = MFile \/ emd e = MExec \/ emd e = MLink) ->
  snd (resolve_index es (n_path nd)) = None ->               (* no sparse / skip-worktree-only directory *)
  treat_of (n_repo nd) (classify es ps nd)
  = git_treat_path (bytes_eqb (basename (n_path nd)) dot_git) (dk_is_dir (n_kind nd))
      (file_in_index es (n_path nd)) (exist_status_of es (n_path nd))
      (excluded ps (n_path nd) (dk_is_dir (n_kind nd))) true (n_repo nd).
Proof.
  intros Hk He Hp. unfold classify, git_treat_path, exist_status_of, file_in_index.
  destruct (bytes_eqb (basename (n_path nd)) dot_git); [reflexivity|].
  unfold resolve_index in *.
  destruct (entry_by_path es (n_path nd)) as [e|].
  - destruct (He e eq_refl) as [E|[E|E]]; unfold entry_kind; rewrite E; cbn;
      destruct (n_kind nd) eqn:K, (excluded ps (n_path nd) _), (n_repo nd); cbn; try reflexivity; congruence.
  - destruct (entries_below es (n_path nd)) as [|e1 [|e2 r]]; cbn in Hp |- *.
    + destruct (n_kind nd) eqn:K, (excluded ps (n_path nd) _), (n_repo nd); cbn; try reflexivity; congruence.
    + rewrite Hp. destruct (n_kind nd) eqn:K, (excluded ps (n_path nd) _), (n_repo nd); cbn; try reflexivity; congruence.
    + rewrite Hp. destruct (n_kind nd) eqn:K, (excluded ps (n_path nd) _), (n_repo nd); cbn; try reflexivity; congruence.
Qed.

(* a tracked directory is never folded (fix 9c7819ff5), and nothing folds when folding is off *)
Lemma tracked_dir_never_collapses o may dir held :
  i_st dir = Tracked -> try_collapse o may dir held = None.
Proof. intros H. unfold try_collapse. rewrite H. destruct may; reflexivity. Qed.

Lemma no_collapse_in_matching_mode o may dir held :
  emit_untracked o = Matching -> emit_ignored o <> Some Collapse -> try_collapse o may dir held = None.
Proof.
  intros Hu Hi. unfold try_collapse. rewrite Hu.
  destruct may; [|reflexivity]. cbn [negb].
  destruct (dstatus_eqb (i_st dir) Tracked); [reflexivity|].
  match goal with |- context [existsb ?f held] => destruct (existsb f held) end; [reflexivity|].
  destruct (emit_ignored o) as [[|]|]; try reflexivity. congruence.
Qed.

