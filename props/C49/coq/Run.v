(* C49 — transcript printer: parses a repository description (see harness/src/repo.rs), feeds the model,
   prints what the Rust harness prints for the real code. *)
From GixV.Base Require Import Bytes Outcome.
From GixV.C49 Require Import Model.
Local Open Scope N_scope.

(* ---- parsing -------------------------------------------------------------------------- *)
Fixpoint split_acc (sep : byte) (l cur : bytes) : list bytes :=
  match l with
  | [] => [rev cur]
  | b :: r => if beqb b sep then rev cur :: split_acc sep r [] else split_acc sep r (b :: cur)
  end.
Definition split_on (sep : byte) (l : bytes) : list bytes := split_acc sep l [].

Definition numN (b : bytes) : N := match dec_to_N b with Some v => v | None => 0 end.
Definition numZ (b : bytes) : Z := match dec_to_Z b with Some v => v | None => 0%Z end.
Definition nthb (n : nat) (l : list bytes) : bytes := nth n l [].
Definition first_byte (b : bytes) : byte := match b with x :: _ => x | [] => x00 end.
Definition flag (o : bytes) (n : nat) : bool := beqb (nth n o x00) x31.

Record rnode := { r_kind : byte; r_ms : N; r_mns : N; r_cid : N; r_len : N; r_path : bytes }.
Record rent := { t_mode : byte; t_flags : N; t_stage : N; t_dms : N; t_mns : N; t_dcs : N; t_dcn : N;
                 t_dino : N; t_ddev : N; t_duid : N; t_dgid : N; t_size : N; t_ecid : N; t_elen : N;
                 t_path : bytes }.

Definition parse_node (f : bytes) : rnode :=
  let v := split_on x2c f in
  {| r_kind := first_byte (nthb 0 v); r_ms := numN (nthb 1 v); r_mns := numN (nthb 2 v);
     r_cid := numN (nthb 3 v); r_len := numN (nthb 4 v); r_path := nthb 5 v |}.
Definition parse_ent (f : bytes) : rent :=
  let v := split_on x2c f in
  {| t_mode := first_byte (nthb 0 v); t_flags := numN (nthb 1 v); t_stage := numN (nthb 2 v);
     t_dms := numN (nthb 3 v); t_mns := numN (nthb 4 v); t_dcs := numN (nthb 5 v); t_dcn := numN (nthb 6 v);
     t_dino := numN (nthb 7 v); t_ddev := numN (nthb 8 v); t_duid := numN (nthb 9 v); t_dgid := numN (nthb 10 v);
     t_size := numN (nthb 11 v); t_ecid := numN (nthb 12 v); t_elen := numN (nthb 13 v); t_path := nthb 14 v |}.

Definition is_dir_kind (k : byte) : bool := beqb k x64 || beqb k x72.   (* d r *)
(* regular-file kinds whose permission bits have the owner's execute bit (harness: FILE_KINDS):
   x 0755, H 0700, J 0744, K 0754; not f 0644, A 0654, B 0645, C 0655, E 0641, G 0611, I 0600 *)
Definition owner_exec (k : byte) : bool := beqb k x78 || beqb k x48 || beqb k x4a || beqb k x4b.

(* ---- environment from the description ------------------------------------------------- *)
Definition T0 : N := 1700000000.
Definition BASE : N := 1000.
Definition u32 (n : N) : N := N.modulo n 4294967296.

Definition find_node (ns : list rnode) (p : bytes) : option rnode :=
  find (fun n => bytes_eqb (r_path n) p) ns.

Definition node_stat (n : rnode) : stat :=
  {| mtime := {| secs := u32 (r_ms n); nsecs := r_mns n |}; ctime := {| secs := BASE; nsecs := BASE |};
     dev := BASE; ino := BASE; uid := BASE; gid := BASE; size := u32 (r_len n) |}.

Definition lookup (ns : list rnode) (p : bytes) : lstat :=
  match find_node ns p with
  | None => LMissing
  | Some n =>
      if is_dir_kind (r_kind n) then LDir
      else LNode (if beqb (r_kind n) x6c then KLink else KFile (owner_exec (r_kind n))) (node_stat n) (r_len n)
  end.

Definition mode_of (b : byte) : emode :=
  if beqb b x78 then MExec else if beqb b x6c then MLink else if beqb b x67 then MCommit else MFile.

Definition mk_entry (ns : list rnode) (t : rent) : entry :=
  let base_ms := match find_node ns (t_path t) with
                 | Some n => if is_dir_kind (r_kind n) then T0 else r_ms n
                 | None => T0 end in
  {| epath := t_path t; emd := mode_of (t_mode t); estage := t_stage t;
     f_skip := N.testbit (t_flags t) 0 || N.testbit (t_flags t) 1;
     f_skipwt := N.testbit (t_flags t) 1;
     f_ita := N.testbit (t_flags t) 2;
     estat := {| mtime := {| secs := u32 (base_ms + t_dms t); nsecs := t_mns t |};
                 ctime := {| secs := BASE + t_dcs t; nsecs := BASE + t_dcn t |};
                 dev := BASE + t_ddev t; ino := BASE + t_dino t; uid := BASE + t_duid t; gid := BASE + t_dgid t;
                 size := t_size t |};
     id_empty := negb (beqb (t_mode t) x67) && N.eqb (t_elen t) 0 |}.

Definition content_eq (ns : list rnode) (ts : list rent) (e : entry) : bool :=
  match find (fun t => bytes_eqb (t_path t) (epath e)) ts, find_node ns (epath e) with
  | Some t, Some n => N.eqb (t_elen t) (r_len n) && (N.eqb (r_len n) 0 || N.eqb (t_ecid t) (r_cid n))
  | _, _ => false
  end.

(* ---- exclude patterns ------------------------------------------------------------------ *)
Definition strip_last_slash (b : bytes) : bool * bytes :=
  match rev b with
  | x :: r => if beqb x x2f then (true, rev r) else (false, b)
  | [] => (false, b)
  end.
Definition parse_pattern (line : bytes) : option pattern :=
  match line with
  | [] => None
  | c :: _ =>
      if beqb c x23 then None else
      let '(neg, l1) := match line with x :: r => if beqb x x21 then (true, r) else (false, line) | [] => (false, line) end in
      let '(abs, l2) := match l1 with x :: r => if beqb x x2f then (true, r) else (false, l1) | [] => (false, l1) end in
      let '(dironly, l3) := strip_last_slash l2 in
      let has_slash := existsb (fun b => beqb b x2f) l3 in
      let '(star, l4) := match l3 with x :: r => if beqb x x2a then (true, r) else (false, l3) | [] => (false, l3) end in
      match l3 with
      | [] => None
      | _ => Some {| p_neg := neg; p_dironly := dironly; p_fullpath := abs || has_slash; p_star := star; p_text := l4 |}
      end
  end.
Fixpoint parse_patterns (lines : list bytes) : list pattern :=
  match lines with
  | [] => []
  | l :: r => match parse_pattern l with Some p => p :: parse_patterns r | None => parse_patterns r end
  end.

(* ---- sorting and printing --------------------------------------------------------------- *)
Fixpoint insert_sorted (x : bytes) (l : list bytes) : list bytes :=
  match l with
  | [] => [x]
  | y :: r => match bytes_cmp x y with Gt => y :: insert_sorted x r | _ => x :: l end
  end.
Definition sort_bytes (l : list bytes) : list bytes := fold_right insert_sorted [] l.

Definition show_items (l : list bytes) : bytes :=
  match l with [] => bs "-" | _ => join_sp (sort_bytes l) end.

Definition status_code (s : status) : bytes :=
  match s with
  | SNone => bs "-"
  | SRemoved => bs "D"
  | SType => bs "T"
  | SMod x c z => bs "M" ++ (if x then bs "x" else []) ++ (if c then bs "c" else []) ++ (if z then bs "z" else [])
  | SNeedsUpdate => bs "U"
  | SIntentToAdd => bs "A"
  | SConflict m => bs "C" ++ N_to_dec m
  end.

Definition kind_char (k : option dkind) : bytes :=
  match k with
  | None => bs "-" | Some DFile => bs "f" | Some DLink => bs "l" | Some DDir => bs "d" | Some DRepo => bs "r"
  end.
Definition slash_if_dir (i : info) : bytes :=
  match i_disk i with Some k => if dk_is_dir k then bs "/" else [] | None => [] end.

Definition status_item (it : item) : bytes :=
  let '(p, i) := it in
  (match i_st i with Untracked => bs "?" | Ignored => bs "!" | Tracked => bs "t" | Pruned => bs "p" end)
    ++ bs ":" ++ p ++ slash_if_dir i.
Definition full_item (it : item) : bytes :=
  let '(p, i) := it in
  (match i_st i with Untracked => bs "U" | Ignored => bs "I" | Tracked => bs "T" | Pruned => bs "P" end)
    ++ kind_char (i_disk i) ++ kind_char (i_idx i)
    ++ (match i_prop i with None => [] | Some PDotGit => bs "g" | Some PEmptyDir => bs "e" | Some PTrackedExcluded => bs "x" end)
    ++ bs ":" ++ p.

(* entries must be in index order: (path, stage) *)
Fixpoint insert_entry (x : entry) (l : list entry) : list entry :=
  match l with
  | [] => [x]
  | y :: r =>
      match bytes_cmp (epath x) (epath y) with
      | Gt => y :: insert_entry x r
      | Eq => if N.leb (estage x) (estage y) then x :: l else y :: insert_entry x r
      | Lt => x :: l
      end
  end.
Definition sort_entries (l : list entry) : list entry := fold_right insert_entry [] l.

Definition walk_nodes (ns : list rnode) : list node :=
  {| n_path := dot_git; n_kind := DDir; n_repo := false |} ::
  flat_map (fun n =>
    let k := if is_dir_kind (r_kind n) then DDir else if beqb (r_kind n) x6c then DLink else DFile in
    let me := {| n_path := r_path n; n_kind := k; n_repo := beqb (r_kind n) x72 |} in
    if beqb (r_kind n) x72
    then [me; {| n_path := r_path n ++ bs "/.git"; n_kind := DDir; n_repo := false |}]
    else [me]) ns.

Definition show_walk (f : item -> bytes) (r : outcome (list item) unit) : bytes :=
  match r with
  | Ok l => show_items (map f l)
  | Err _ => bs "ERR"
  | Panic => bs "PANIC"
  | OutOfFuel => bs "HANG"
  end.

Definition run_model (fs : list bytes) : bytes :=
  if negb (bytes_eqb (nth_field 0 fs) (bs "st")) then bs "?" else
  let o := nth_field 1 fs in
  if negb (Nat.eqb (length o) 7) then bs "?" else
  let ts_s := field_Z 2 fs in
  let ts_ns := field_N 3 fs in
  let pats := parse_patterns (split_on x0a (nth_field 4 fs)) in
  let nn := N.to_nat (field_N 5 fs) in
  let rest := skipn 6 fs in
  let rnodes := map parse_node (firstn nn rest) in
  let rents := map parse_ent (skipn nn rest) in
  let es := sort_entries (map (mk_entry rnodes) rents) in
  let so := {| trust_ctime := flag o 2; check_stat := flag o 3; use_nsec := flag o 4; use_stdev := false |} in
  let fo := {| has_symlinks := flag o 6; exec_bit := flag o 5 |} in
  let changes := process_all (lookup rnodes) (content_eq rnodes rents) fo so ts_s ts_ns 0 es in
  let change_items := map (fun c => status_code (snd c) ++ bs ":" ++ fst c) changes in
  let nodes := walk_nodes rnodes in
  let u := nth 0 o x00 in
  let i := nth 1 o x00 in
  let wo := {| emit_pruned := false; emit_tracked := false; emit_empty := false;
               emit_ignored := if beqb i x74 then Some Collapse else if beqb i x6d then Some Matching else None;
               emit_untracked := if beqb u x63 then Collapse else Matching;
               emit_collapsed := negb (beqb i x30) |} in
  let all := {| emit_pruned := true; emit_tracked := true; emit_empty := true;
                emit_ignored := Some Matching; emit_untracked := Matching; emit_collapsed := false |} in
  let part1 :=
    if beqb u x6e then show_items change_items
    else match walk es pats wo nodes with
         | Ok l => show_items (change_items ++ map status_item l)
         | Err _ => bs "ERR" | Panic => bs "PANIC" | OutOfFuel => bs "HANG"
         end in
  part1 ++ bs " | " ++ show_walk full_item (walk es pats all nodes).

Definition run (fs : list bytes) : bytes :=
  match fs with
  | _mode :: rest => run_model rest
  | [] => bs "?"
  end.
