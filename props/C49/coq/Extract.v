From Coq Require Import ExtrOcamlBasic.
From GixV.Base Require Import Bytes.
From GixV.C49 Require Import Run.
Extraction "run.ml" Run.run gixv_byte_of_N gixv_byte_to_N.
