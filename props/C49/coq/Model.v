(* C49 — model of the decision logic behind `gix status`:
     gix-index/src/entry/stat.rs        Stat::{is_racy, matches}
     gix-index/src/entry/mode.rs        Mode::change_to_match_fs
     gix-status/src/index_as_worktree/function.rs   State::{process, compute_status}, Conflict::try_from_entry
     gix-status/src/index_as_worktree/traits.rs     FastEq::compare_blobs (the size shortcut; hashing is an input)
     gix-dir/src/walk/classify.rs       path, resolve_file_type_with_index (case-sensitive branch)
     gix-dir/src/walk/readdir.rs        recursive, Mark::{reduce_held_entries, try_collapse, emit_all_held}
     gix-dir/src/walk/function.rs       walk (explicit root = worktree root), can_recurse, emit_entry
     gix-worktree/src/stack/state/ignore.rs  matching_exclude_pattern (directory stack rule)
   as of /repo commit 9c7819ff5 (with the four C49 fixes).
   Environment, given as data: the lstat result of every path, whether the worktree content hashes to the
   entry's id, the list of exclude patterns (literal names, `*suffix`, `/`-anchoring, `dir/`, `!`), whether a
   directory holds a repository.  The pathspec is empty, so every PathspecMatch is `Always`; ignore_case is
   off; not a walk for deletion; no UPTODATE flags (status runs both halves in parallel on a fresh index). *)
From GixV.Base Require Import Bytes Outcome.
Local Open Scope N_scope.

(* ---------------------------------------------------------------- stat ---------------------------- *)
Record time := { secs : N; nsecs : N }.
Record stat := { mtime : time; ctime : time; dev : N; ino : N; uid : N; gid : N; size : N }.
Record sopts := { trust_ctime : bool; check_stat : bool; use_nsec : bool; use_stdev : bool }.

(* Stat::is_racy(&self, timestamp, opts): timestamp seconds are an i64 *)
Definition is_racy (new : stat) (ts_s : Z) (ts_ns : N) (o : sopts) : bool :=
  match Z.compare ts_s (Z.of_N (secs (mtime new))) with
  | Lt => true
  | Eq => if use_nsec o && check_stat o then N.leb ts_ns (nsecs (mtime new)) else true
  | Gt => false
  end.

(* Stat::matches(&self, other, opts) *)
Definition stat_matches (a b : stat) (o : sopts) : bool :=
  if negb (N.eqb (secs (mtime a)) (secs (mtime b))) then false
  else if check_stat o && use_nsec o && negb (N.eqb (nsecs (mtime a)) (nsecs (mtime b))) then false
  else if negb (N.eqb (size a) (size b)) then false
  else if trust_ctime o && negb (N.eqb (secs (ctime a)) (secs (ctime b))) then false
  else if trust_ctime o && check_stat o && use_nsec o && negb (N.eqb (nsecs (ctime a)) (nsecs (ctime b))) then false
  else if check_stat o then
    if use_stdev o && negb (N.eqb (dev a) (dev b)) then false
    else N.eqb (ino a) (ino b) && N.eqb (gid a) (gid b) && N.eqb (uid a) (uid b)
  else true.

(* ---------------------------------------------------------------- modes --------------------------- *)
Inductive emode := MFile | MExec | MLink | MCommit | MDirSparse.
(* what lstat says about something that is not a directory *)
Inductive fkind := KFile (exec : bool) (* exec: S_IXUSR is set *) | KLink.
Inductive mchange := ChType | ChExec | ChNone.

Definition k_is_file (k : fkind) := match k with KFile _ => true | KLink => false end.
Definition k_is_link (k : fkind) := match k with KLink => true | _ => false end.
(* Metadata::is_executable: a regular file with the OWNER's execute bit (S_IXUSR) — group/other bits do not count *)
Definition k_is_exec (k : fkind) := match k with KFile x => x | KLink => false end.

(* Mode::change_to_match_fs(self, stat, has_symlinks, executable_bit), for a non-directory on disk;
   the payload of Change::Type is not observable through gix-status and left out *)
Definition change_to_match_fs (m : emode) (k : fkind) (has_symlinks exec_bit : bool) : mchange :=
  match m with
  | MFile => if negb (k_is_file k) then ChType else if exec_bit && k_is_exec k then ChExec else ChNone
  | MExec => if negb (k_is_file k) then ChType else if exec_bit && negb (k_is_exec k) then ChExec else ChNone
  | MLink => if has_symlinks then (if negb (k_is_link k) then ChType else ChNone)
             else (if negb (k_is_file k) then ChType else ChNone)
  | MCommit | MDirSparse => ChType
  end.

(* ---------------------------------------------------------------- index entries -------------------- *)
Record entry := {
  epath : bytes; emd : emode; estage : N;
  f_skip : bool;      (* UPTODATE | SKIP_WORKTREE | ASSUME_VALID | FSMONITOR_VALID *)
  f_skipwt : bool;    (* SKIP_WORKTREE alone (used by the directory walk) *)
  f_ita : bool;       (* INTENT_TO_ADD *)
  estat : stat;
  id_empty : bool     (* entry.id.is_empty_blob() *)
}.

Inductive lstat := LMissing | LDir | LNode (k : fkind) (st : stat) (len : N).

Inductive status :=
| SNone | SRemoved | SType | SMod (x c z : bool) | SNeedsUpdate | SIntentToAdd | SConflict (mask : N).

Record fsopts := { has_symlinks : bool; exec_bit : bool }.

(* FastEq::compare_blobs: true = changed.  [content_eq]: the worktree content (link target for symlinks)
   hashes to entry.id *)
Definition fast_eq_changed (e : entry) (len : N) (content_eq : bool) : bool :=
  if negb (N.eqb (size (estat e)) len) && (id_empty e || negb (N.eqb (size (estat e)) 0)) then true
  else negb content_eq.

(* State::compute_status for a stage-0 entry *)
Definition compute_status (e : entry) (l : lstat) (content_eq : bool)
           (fo : fsopts) (so : sopts) (ts_s : Z) (ts_ns : N) : status :=
  match l with
  | LMissing => SRemoved
  | LDir => match emd e with MCommit => SNone (* the submodule callback of the harness reports no change *)
                           | _ => SRemoved end
  | LNode k st len =>
      if f_ita e then SIntentToAdd else
      match change_to_match_fs (emd e) k (has_symlinks fo) (exec_bit fo) with
      | ChType => SType
      | ch =>
          let x := match ch with ChExec => true | _ => false end in
          let stat_ok := negb x && stat_matches st (estat e) so
                         && (id_empty e || negb (N.eqb (size (estat e)) 0)) in
          let racy := stat_ok && is_racy st ts_s ts_ns so in
          if stat_ok && negb racy then SNone
          else
            let c := fast_eq_changed e len content_eq in
            if c || x then SMod x c (c && racy) else SNeedsUpdate
      end
  end.

(* Conflict::try_from_entry: stages of the (up to three) entries starting here that share the path *)
Fixpoint conflict_scan (p : bytes) (n : nat) (es : list entry) (mask count : N) : N * N :=
  match n, es with
  | S n', e :: r =>
      if N.ltb 0 (estage e) && bytes_eqb (epath e) p then
        let bit := match estage e with 1 => 1 | 2 => 2 | 3 => 4 | _ => 0 end in
        conflict_scan p n' r (N.lor mask bit) (count + 1)
      else conflict_scan p n' r mask count
  | _, _ => (mask, count)
  end.

(* the chunk loop of index_as_worktree + State::process; [lk]/[ceq] are the environment.
   [skip]: entries still covered by the conflict that was just reported *)
Fixpoint process_all (lk : bytes -> lstat) (ceq : entry -> bool) (fo : fsopts) (so : sopts)
         (ts_s : Z) (ts_ns : N) (skip : N) (es : list entry) : list (bytes * status) :=
  match es with
  | [] => []
  | e :: r =>
      if N.ltb 0 skip then process_all lk ceq fo so ts_s ts_ns (skip - 1) r
      else if f_skip e then process_all lk ceq fo so ts_s ts_ns 0 r
      else if N.ltb 0 (estage e) then
        let '(mask, count) := conflict_scan (epath e) 3 es 0 0 in
        (epath e, SConflict mask) :: process_all lk ceq fo so ts_s ts_ns (count - 1) r
      else
        match compute_status e (lk (epath e)) (ceq e) fo so ts_s ts_ns with
        | SNone => process_all lk ceq fo so ts_s ts_ns 0 r
        | s => (epath e, s) :: process_all lk ceq fo so ts_s ts_ns 0 r
        end
  end.

(* ---------------------------------------------------------------- exclude patterns ---------------- *)
Record pattern := { p_neg : bool; p_dironly : bool; p_fullpath : bool; p_star : bool; p_text : bytes }.

Fixpoint ends_with_rev (rs rp : bytes) : bool :=      (* both reversed *)
  match rs, rp with
  | [], _ => true
  | _ :: _, [] => false
  | a :: rs', b :: rp' => beqb a b && ends_with_rev rs' rp'
  end.
Definition ends_with (suffix s : bytes) : bool := ends_with_rev (rev suffix) (rev s).

Fixpoint basename_acc (p acc : bytes) : bytes :=
  match p with
  | [] => rev acc
  | b :: r => if beqb b x2f then basename_acc r [] else basename_acc r (b :: acc)
  end.
Definition basename (p : bytes) : bytes := basename_acc p [].

Definition pattern_matches (pt : pattern) (path : bytes) (is_dir : bool) : bool :=
  if p_dironly pt && negb is_dir then false
  else
    let subject := if p_fullpath pt then path else basename path in
    if p_star pt then ends_with (p_text pt) subject else bytes_eqb (p_text pt) subject.

(* last matching pattern of the list (lists are searched back to front) *)
Fixpoint last_match (ps : list pattern) (path : bytes) (is_dir : bool) (acc : option pattern) : option pattern :=
  match ps with
  | [] => acc
  | pt :: r => last_match r path is_dir (if pattern_matches pt path is_dir then Some pt else acc)
  end.

(* proper ancestor directories of a path, outermost first *)
Fixpoint ancestors_acc (p cur : bytes) : list bytes :=
  match p with
  | [] => []
  | b :: r => if beqb b x2f then rev cur :: ancestors_acc r (b :: cur) else ancestors_acc r (b :: cur)
  end.
Definition ancestors (p : bytes) : list bytes := ancestors_acc p [].

(* Ignore::matching_exclude_pattern: the innermost ancestor directory that matched some pattern decides
   if that pattern is positive; if it is negative it is only the fallback *)
Definition innermost_dir_match (ps : list pattern) (path : bytes) : option pattern :=
  fold_left (fun acc d => match last_match ps d true None with Some m => Some m | None => acc end)
            (ancestors path) None.

Definition excluded (ps : list pattern) (path : bytes) (is_dir : bool) : bool :=
  let own := last_match ps path is_dir None in
  let res := match innermost_dir_match ps path with
             | Some m => if p_neg m then (match own with Some o => Some o | None => Some m end) else Some m
             | None => own
             end in
  match res with Some m => negb (p_neg m) | None => false end.

(* ---------------------------------------------------------------- directory walk ------------------ *)
Inductive dkind := DFile | DLink | DDir | DRepo.
Inductive dstatus := Pruned | Tracked | Ignored | Untracked.
Inductive dprop := PDotGit | PEmptyDir | PTrackedExcluded.
Record info := { i_st : dstatus; i_prop : option dprop; i_disk : option dkind; i_idx : option dkind }.

Definition dk_is_dir (k : dkind) := match k with DDir | DRepo => true | _ => false end.
Definition dstatus_eqb (a b : dstatus) : bool :=
  match a, b with Pruned, Pruned | Tracked, Tracked | Ignored, Ignored | Untracked, Untracked => true | _, _ => false end.

Inductive emission := Matching | Collapse.
Record wopts := {
  emit_pruned : bool; emit_tracked : bool; emit_empty : bool;
  emit_ignored : option emission; emit_untracked : emission;
  emit_collapsed : bool           (* Some(OnStatusMismatch) *)
}.

(* one directory entry as read_dir + file_type() show it; [n_repo]: `<path>/.git` is a repository that is not ours *)
Record node := { n_path : bytes; n_kind : dkind; n_repo : bool }.

(* State::entry_by_path on a well-formed index: the stage-0 or stage-2 entry of that path *)
Fixpoint entry_by_path (es : list entry) (p : bytes) : option entry :=
  match es with
  | [] => None
  | e :: r => if bytes_eqb (epath e) p && (N.eqb (estage e) 0 || N.eqb (estage e) 2) then Some e
              else entry_by_path r p
  end.

Fixpoint starts_with (pre s : bytes) : bool :=
  match pre, s with
  | [], _ => true
  | _ :: _, [] => false
  | a :: pre', b :: s' => beqb a b && starts_with pre' s'
  end.

(* entries of prefixed_entries_range(p + "/") *)
Definition entries_below (es : list entry) (p : bytes) : list entry :=
  filter (fun e => starts_with (p ++ [x2f]) (epath e)) es.

Definition entry_kind (e : entry) : option dkind :=
  match emd e with
  | MCommit => Some DRepo
  | MFile | MExec => Some DFile
  | MLink => Some DLink
  | MDirSparse => None
  end.

(* resolve_file_type_with_index, case-sensitive branch, no entry flagged UPTODATE:
   (index_kind, property) *)
Definition resolve_index (es : list entry) (p : bytes) : option dkind * option dprop :=
  match entry_by_path es p with
  | Some e => (entry_kind e, None)
  | None =>
      match entries_below es p with
      | [] => (None, None)
      | [e] => (Some DDir, match emd e with MDirSparse => Some PTrackedExcluded | _ => None end)
      | below => (Some DDir, if forallb f_skipwt below then Some PTrackedExcluded else None)
      end
  end.

Definition opt_isdir_eqb (a b : option dkind) : bool :=
  match a, b with
  | None, None => true
  | Some x, Some y => Bool.eqb (dk_is_dir x) (dk_is_dir y)
  | _, _ => false
  end.

Definition dot_git : bytes := bs ".git".

(* classify::path for an entry found by read_dir (disk_kind = None, on_demand = file_type()) *)
Definition classify (es : list entry) (ps : list pattern) (nd : node) : info :=
  let p := n_path nd in
  if bytes_eqb (basename p) dot_git then
    {| i_st := Pruned; i_prop := Some PDotGit; i_disk := None; i_idx := None |}
  else
    let '(index_kind, property) := resolve_index es p in
    let kind := n_kind nd in
    let upgrade (k : dkind) := if n_repo nd then DRepo else k in
    let maybe_status :=
      match property with
      | None => if opt_isdir_eqb index_kind (Some kind) then Some Tracked else None
      | Some _ => Some Pruned
      end in
    match maybe_status with
    | Some st =>
        let kind' := match kind, index_kind with DDir, Some DRepo => upgrade kind | _, _ => kind end in
        {| i_st := st; i_prop := property; i_disk := Some kind'; i_idx := index_kind |}
    | None =>
        if excluded ps p (dk_is_dir kind) then
          {| i_st := Ignored; i_prop := None; i_disk := Some kind; i_idx := index_kind |}
        else
          let kind' := if dk_is_dir kind then upgrade kind else kind in
          {| i_st := Untracked; i_prop := None; i_disk := Some kind'; i_idx := index_kind |}
    end.

(* Status::can_recurse with an `Always` pathspec match, not for deletion, root not a submodule *)
Definition can_recurse (i : info) : bool :=
  match i_disk i with
  | Some DDir => match i_st i with Untracked | Tracked => true | _ => false end
  | _ => false
  end.

Definition should_hold (o : wopts) (st : dstatus) : bool :=
  match st with
  | Pruned => false
  | _ => match emit_ignored o, emit_untracked o with
         | Some Collapse, _ => true
         | _, Collapse => true
         | _, _ => false
         end
  end.

Definition item := (bytes * info)%type.

(* emit_entry: the filter in front of the delegate *)
Definition emitted (o : wopts) (i : info) : bool :=
  negb ( (negb (emit_empty o) && match i_prop i with Some PEmptyDir => true | _ => false end)
       || (negb (emit_tracked o) && dstatus_eqb (i_st i) Tracked)
       || (match emit_ignored o with None => dstatus_eqb (i_st i) Ignored | Some _ => false end)
       || (negb (emit_pruned o) && dstatus_eqb (i_st i) Pruned) ).

Definition emit (o : wopts) (it : item) (out : list item) : list item :=
  if emitted o (snd it) then it :: out else out.

(* held entries are kept newest first; [n] = number of entries held since the mark *)
Definition emit_all (o : wopts) (held : list item) (out : list item) : list item :=
  fold_left (fun acc it => emit o it acc) held out.

(* Mark::try_collapse: Some dir_status when the directory folds *)
Definition try_collapse (o : wopts) (may_collapse : bool) (dir : info) (held : list item) : option dstatus :=
  if negb may_collapse then None
  else if dstatus_eqb (i_st dir) Tracked then None
  else if existsb (fun it => match i_disk (snd it) with Some DRepo => true | _ => false end) held then None
  else
    let cnt st := N.of_nat (length (filter (fun it => dstatus_eqb (i_st (snd it)) st) held)) in
    let entries := N.of_nat (length held) in
    let ignored := cnt Ignored in
    let untracked := cnt Untracked in
    match emit_untracked o with
    | Collapse =>
        if negb (N.eqb untracked 0) && N.eqb (untracked + ignored) entries then Some Untracked
        else match emit_ignored o with
             | Some Collapse => if negb (N.eqb ignored 0) && N.eqb ignored entries then Some Ignored else None
             | _ => None
             end
    | Matching =>
        match emit_ignored o with
        | Some Collapse => if negb (N.eqb ignored 0) && N.eqb ignored entries then Some Ignored else None
        | _ => None
        end
    end.

Definition child_of (dir : bytes) (p : bytes) : bool :=
  match dir with
  | [] => negb (existsb (fun b => beqb b x2f) p)
  | _ => starts_with (dir ++ [x2f]) p
         && negb (existsb (fun b => beqb b x2f) (skipn (S (length dir)) p))
  end.

(* readdir::recursive.  State: (held since the beginning, newest first; emitted so far).
   Returns (prevent_collapse, held, out).  [held_before] is the number of entries held before this call. *)
Fixpoint walk_dir (fuel : nat) (es : list entry) (ps : list pattern) (o : wopts) (nodes : list node)
         (may_collapse : bool) (dir : bytes) (dir_info : info)
         (held out : list item) : outcome (bool * list item * list item) unit :=
  match fuel with
  | O => OutOfFuel
  | S fuel' =>
      let kids := filter (fun nd => child_of dir (n_path nd)) nodes in
      let mark := length held in
      let step (acc : outcome (bool * list item * list item) unit) (nd : node) :=
        match acc with
        | Ok (prevent, held, out) =>
            let i := classify es ps nd in
            if can_recurse i then
              match walk_dir fuel' es ps o nodes true (n_path nd) i held out with
              | Ok (sub_prevent, held', out') => Ok (prevent || sub_prevent, held', out')
              | other => other
              end
            else if should_hold o (i_st i) then Ok (prevent, (n_path nd, i) :: held, out)
            else Ok (prevent, held, emit o (n_path nd, i) out)
        | other => other
        end in
      match fold_left step kids (Ok (false, held, out)) with
      | Ok (prevent, held, out) =>
          (* Mark::reduce_held_entries *)
          let mine := firstn (length held - mark) held in
          let older := skipn (length held - mark) held in
          match kids with
          | [] =>
              let empty_info := {| i_st := i_st dir_info;
                                   i_prop := match i_prop dir_info with None => Some PEmptyDir | p => p end;
                                   i_disk := i_disk dir_info; i_idx := i_idx dir_info |} in
              if should_hold o (i_st empty_info) then Ok (prevent, (dir, empty_info) :: held, out)
              else Ok (prevent, held, emit o (dir, empty_info) out)
          | _ =>
              if prevent then Ok (true, older, emit_all o (rev mine) out)
              else
                match try_collapse o may_collapse dir_info mine with
                | Some dir_status =>
                    let out' :=
                      if emit_collapsed o then
                        emit_all o (filter (fun it => negb (dstatus_eqb (i_st (snd it)) dir_status)) (rev mine)) out
                      else out in
                    let folded := {| i_st := dir_status; i_prop := i_prop dir_info;
                                     i_disk := i_disk dir_info; i_idx := i_idx dir_info |} in
                    Ok (false, (dir, folded) :: older, out')
                | None => Ok (true, older, emit_all o (rev mine) out)
                end
          end
      | other => other
      end
  end.

(* walk() with explicit_traversal_root = worktree root: the root is classified Untracked/Directory, never folds,
   and what is still held at the end is emitted *)
Definition root_info : info := {| i_st := Untracked; i_prop := None; i_disk := Some DDir; i_idx := None |}.

Definition walk (es : list entry) (ps : list pattern) (o : wopts) (nodes : list node) : outcome (list item) unit :=
  match walk_dir (S (length nodes)) es ps o nodes false [] root_info [] [] with
  | Ok (_, held, out) => Ok (emit_all o (rev held) out)
  | Err e => Err e
  | Panic => Panic
  | OutOfFuel => OutOfFuel
  end.
