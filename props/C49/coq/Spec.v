(* C49 — what git 2.39.5 does (read-cache.c, diff-lib.c, diffcore, dir.c), written independently of the model.
   The installed git is built without USE_NSEC and USE_STDEV. *)
From GixV.Base Require Import Bytes Outcome.
From GixV.C49 Require Import Model.
Local Open Scope N_scope.

Record gitcfg := { g_trust_ctime : bool; g_check_stat : bool; g_trust_exec : bool; g_has_symlinks : bool }.

(* read-cache.c is_racy_stat(): `istate->timestamp.sec && istate->timestamp.sec <= sd->sd_mtime.sec`,
   asked about the mtime recorded in the ENTRY *)
Definition git_is_racy (ts_s : Z) (entry_mtime : N) : bool :=
  negb (Z.eqb ts_s 0) && Z.leb ts_s (Z.of_N entry_mtime).

(* read-cache.c match_stat_data(): true = some *_CHANGED bit is set *)
Definition git_stat_changed (sd st : stat) (c : gitcfg) : bool :=
  negb (N.eqb (secs (mtime sd)) (secs (mtime st)))
  || (g_trust_ctime c && g_check_stat c && negb (N.eqb (secs (ctime sd)) (secs (ctime st))))
  || (g_check_stat c && (negb (N.eqb (uid sd) (uid st)) || negb (N.eqb (gid sd) (gid st))))
  || (g_check_stat c && negb (N.eqb (ino sd) (ino st)))
  || negb (N.eqb (size sd) (size st)).

Definition is_exec_mode (m : emode) := match m with MExec => true | _ => false end.

(* ce_match_stat_basic(): TYPE_CHANGED *)
Definition git_type_changed (m : emode) (k : fkind) (c : gitcfg) : bool :=
  match m with
  | MFile | MExec => negb (k_is_file k)
  | MLink => negb (k_is_link k) && (g_has_symlinks c || negb (k_is_file k))
  | MCommit | MDirSparse => true          (* not a directory on disk *)
  end.

(* ce_match_stat_basic(): MODE_CHANGED, `trust_executable_bit && (0100 & (ce->ce_mode ^ st->st_mode))` *)
Definition git_mode_changed (m : emode) (k : fkind) (c : gitcfg) : bool :=
  match m with
  | MFile | MExec => g_trust_exec c && xorb (is_exec_mode m) (k_is_exec k)
  | _ => false
  end.

(* ce_match_stat_basic(): any bit, for entries that are not gitlinks *)
Definition git_basic_changed (e : entry) (k : fkind) (st : stat) (c : gitcfg) : bool :=
  git_type_changed (emd e) k c || git_mode_changed (emd e) k c
  || git_stat_changed (estat e) st c
  || (N.eqb (size (estat e)) 0 && negb (id_empty e)).      (* racily smudged entry *)

(* ce_mode_from_stat(): does the worktree mode shown by `git status` differ from the index mode in type / in permissions *)
Definition git_new_type_differs (m : emode) (k : fkind) (c : gitcfg) : bool :=
  match m, k with
  | (MFile | MExec), KFile _ => false
  | (MFile | MExec), KLink => true
  | MLink, KLink => false
  | MLink, KFile _ => g_has_symlinks c      (* !has_symlinks && S_ISREG && S_ISLNK(ce_mode) => ce_mode *)
  | (MCommit | MDirSparse), _ => true
  end.
Definition git_perm_flip (m : emode) (k : fkind) (c : gitcfg) : bool :=
  match m, k with
  | (MFile | MExec), KFile x => g_trust_exec c && xorb (is_exec_mode m) x
  | _, _ => false
  end.

Inductive letter := LClean | LD | LT | LM (flip : bool) | LA | LUnmerged.

(* `git status`: refresh_index (an entry that ie_match_stat flags is really modified, ie_modified(), if its mode
   or type changed, if its recorded size is non-zero and differs from the file's, or if the content differs;
   otherwise its stat data is refreshed and it is up to date), then run_diff_files (check_removed,
   ie_match_stat with the racy re-check) lists what is not up to date; the letter is T if the file type
   differs.  [content_eq]: the worktree content is the entry's blob. *)
Definition git_report (e : entry) (l : lstat) (content_eq : bool) (c : gitcfg) (ts_s : Z) : letter :=
  match l with
  | LMissing => LD
  | LDir => match emd e with MCommit => LClean | _ => LD end
  | LNode k st _ =>
      if f_ita e then LA else
      match emd e with
      | MCommit | MDirSparse => LT
      | _ =>
        let flagged := git_basic_changed e k st c
                       || (git_is_racy ts_s (secs (mtime (estat e))) && negb content_eq) in
        if negb flagged then LClean
        else if git_new_type_differs (emd e) k c then LT
        else if git_perm_flip (emd e) k c
                || (negb (N.eqb (size (estat e)) (size st)) && negb (N.eqb (size (estat e)) 0))
                || negb content_eq
             then LM (git_perm_flip (emd e) k c)
        else LClean
      end
  end.

(* what gix's answer looks like in `git status` letters *)
Definition letter_of (s : status) : letter :=
  match s with
  | SNone | SNeedsUpdate => LClean
  | SRemoved => LD
  | SType => LT
  | SMod x _ _ => LM x
  | SIntentToAdd => LA
  | SConflict _ => LUnmerged
  end.

Definition cfg_of (fo : fsopts) (so : sopts) : gitcfg :=
  {| g_trust_ctime := trust_ctime so; g_check_stat := check_stat so;
     g_trust_exec := exec_bit fo; g_has_symlinks := has_symlinks fo |}.

(* ---- dir.c: treat_path() and the first decisions of treat_directory() ------------------- *)
Inductive exist_status := index_nonexistent | index_directory | index_gitdir.
Inductive treatment :=
| path_none            (* not mentioned *)
| path_recurse         (* a directory with tracked content: look inside, never listed itself *)
| path_excluded        (* ignored *)
| path_untracked       (* an untracked file, or a nested repository listed as `dir/` *)
| path_examine.        (* an untracked / excluded directory that read_directory_recursive looks into *)

Definition git_treat_path (is_dot_git is_dir file_in_index : bool) (ex : exist_status)
           (excluded show_ignored nested_repo : bool) : treatment :=
  if is_dot_git then path_none
  else if negb is_dir && file_in_index then path_none
  else if excluded && negb show_ignored then path_excluded
  else if is_dir then
    match ex with
    | index_directory => path_recurse
    | index_gitdir => path_none
    | index_nonexistent =>
        if nested_repo then (if excluded then path_excluded else path_untracked)
        else path_examine
    end
  else if excluded then path_excluded else path_untracked.
