(* C49 — Status agrees with git status.
   Only statements; every proof is [exact <lemma of Proofs.v>] or a computation on a concrete witness.
   Model.v: the decision logic of gix-status / gix-dir; Spec.v: git 2.39.5's (read-cache.c, diff-lib.c, dir.c).
   Partial: the theorems cover the per-entry index-to-worktree decision completely and the per-path
   classification of the directory walk; the folding of directories (try_collapse vs. treat_directory) and
   the composition over whole trees are tested against git only. *)
From Coq Require Import ZArith Bool.
From GixV.Base Require Import Bytes BytesFacts Outcome.
From GixV.C49 Require Import Model Spec Proofs.
Local Open Scope N_scope.

(* --- racy git -------------------------------------------------------------------------------- *)
(* with second resolution (git as built here) gix's rule "entry mtime >= index timestamp => check the
   content" is git's is_racy_stat(), for every index timestamp but 0 *)
Theorem racy_rule_is_git : forall (new : stat) (entry_mtime : N) (ts_s : Z) (ts_ns : N) (o : sopts),
  use_nsec o = false -> ts_s <> 0%Z -> secs (mtime new) = entry_mtime ->
  is_racy new ts_s ts_ns o = git_is_racy ts_s entry_mtime.
Proof. exact racy_rule. Qed.

(* with nanoseconds it is the rule of a git built with USE_NSEC *)
Theorem racy_rule_nsec_is_git : forall (new : stat) (ts_s : Z) (ts_ns : N) (o : sopts),
  use_nsec o = true -> check_stat o = true ->
  is_racy new ts_s ts_ns o =
    (Z.ltb ts_s (Z.of_N (secs (mtime new)))
     || (Z.eqb ts_s (Z.of_N (secs (mtime new))) && N.leb ts_ns (nsecs (mtime new)))).
Proof. exact racy_rule_nsec. Qed.

(* a file last modified before the index was written is never racy: the stat shortcut applies *)
Theorem older_than_index_is_not_racy : forall (new : stat) (ts_s : Z) (ts_ns : N) (o : sopts),
  (Z.of_N (secs (mtime new)) < ts_s)%Z -> is_racy new ts_s ts_ns o = false.
Proof. exact not_racy_when_older. Qed.

(* the one input class where the rules differ: git never calls anything racy if the index timestamp is 0 *)
Theorem racy_rule_refuted_at_timestamp_zero : exists (new : stat) (o : sopts),
  use_nsec o = false /\ is_racy new 0%Z 0 o <> git_is_racy 0%Z (secs (mtime new)).
Proof.
  exists {| mtime := {| secs := 5; nsecs := 0 |}; ctime := {| secs := 0; nsecs := 0 |};
            dev := 0; ino := 0; uid := 0; gid := 0; size := 0 |},
         {| trust_ctime := true; check_stat := true; use_nsec := false; use_stdev := false |}.
  split; [reflexivity|]. vm_compute. discriminate.
Qed.

(* --- stat comparison -------------------------------------------------------------------------- *)
Theorem stat_comparison_is_git : forall (new ent : stat) (o : sopts) (x s : bool),
  use_nsec o = false -> use_stdev o = false ->
  (trust_ctime o && negb (check_stat o) && negb (secs (ctime new) =? secs (ctime ent))) = false ->
  stat_matches new ent o = negb (git_stat_changed ent new (cfg_stat o x s)).
Proof. exact stat_matches_is_git. Qed.

(* core.trustCtime with core.checkStat=minimal: gix compares ctime, git does not *)
Theorem stat_comparison_refuted_ctime_minimal : exists (new ent : stat) (o : sopts),
  use_nsec o = false /\ use_stdev o = false /\
  stat_matches new ent o <> negb (git_stat_changed ent new (cfg_stat o true true)).
Proof.
  exists {| mtime := {| secs := 5; nsecs := 0 |}; ctime := {| secs := 1; nsecs := 0 |};
            dev := 0; ino := 0; uid := 0; gid := 0; size := 3 |},
         {| mtime := {| secs := 5; nsecs := 0 |}; ctime := {| secs := 2; nsecs := 0 |};
            dev := 0; ino := 0; uid := 0; gid := 0; size := 3 |},
         {| trust_ctime := true; check_stat := false; use_nsec := false; use_stdev := false |}.
  repeat split; vm_compute; discriminate.
Qed.

(* --- mode / type change ------------------------------------------------------------------------ *)
Theorem mode_classification_is_git : forall (m : emode) (k : fkind) (s x : bool) (c : gitcfg),
  g_has_symlinks c = s -> g_trust_exec c = x -> dev_symlink_disabled m k s = false ->
  match change_to_match_fs m k s x with
  | ChType => git_type_changed m k c = true /\ git_new_type_differs m k c = true
  | ChExec => git_type_changed m k c = false /\ git_new_type_differs m k c = false
              /\ git_mode_changed m k c = true /\ git_perm_flip m k c = true
  | ChNone => git_type_changed m k c = false /\ git_new_type_differs m k c = false
              /\ git_mode_changed m k c = false /\ git_perm_flip m k c = false
  end.
Proof. exact mode_change_is_git. Qed.

(* fixed in ebbfcab7c: an executable-file entry whose file became a symlink is a type change *)
Example exec_entry_symlink_is_type_change : change_to_match_fs MExec KLink true true = ChType.
Proof. reflexivity. Qed.

(* --- the whole per-entry decision ---------------------------------------------------------------- *)
(* for every entry, every lstat result, either answer of the content comparison, every option set without
   nanoseconds / device numbers and every index timestamp: what gix reports (deleted, type change,
   modification with or without executable-bit flip, intent-to-add, nothing) is what `git status` prints,
   unless the input is in one of three named classes *)
Theorem status_decision_is_git_except_known :
  forall (e : entry) (l : lstat) (content_eq : bool) (fo : fsopts) (so : sopts) (ts_s : Z) (ts_ns : N),
  use_nsec so = false -> use_stdev so = false ->
  (forall k st len, l = LNode k st len -> size st = len) ->
  (* the empty blob's id belongs to empty content only *)
  (forall k st len, l = LNode k st len -> id_empty e = true -> content_eq = true -> len = 0) ->
  known_deviation e l content_eq fo so ts_s = false ->
  letter_of (compute_status e l content_eq fo so ts_s ts_ns) = git_report e l content_eq (cfg_of fo so) ts_s.
Proof. exact status_is_git. Qed.

Definition ex_stat (m sz : N) : stat :=
  {| mtime := {| secs := m; nsecs := 0 |}; ctime := {| secs := 7; nsecs := 0 |};
     dev := 1; ino := 2; uid := 3; gid := 4; size := sz |}.
Definition ex_entry (m : emode) (st : stat) (empty : bool) : entry :=
  {| epath := bs "a"; emd := m; estage := 0; f_skip := false; f_skipwt := false; f_ita := false;
     estat := st; id_empty := empty |}.
Definition ex_so : sopts := {| trust_ctime := true; check_stat := true; use_nsec := false; use_stdev := false |}.
Definition ex_fo : fsopts := {| has_symlinks := true; exec_bit := true |}.

(* non-vacuity: a racily clean file with changed content is outside the known classes and reported by both *)
Example status_decision_racy_modified :
  known_deviation (ex_entry MFile (ex_stat 100 3) false) (LNode (KFile false) (ex_stat 100 3) 3) false ex_fo ex_so 100%Z = false
  /\ compute_status (ex_entry MFile (ex_stat 100 3) false) (LNode (KFile false) (ex_stat 100 3) 3) false ex_fo ex_so 100%Z 0
     = SMod false true true
  /\ git_report (ex_entry MFile (ex_stat 100 3) false) (LNode (KFile false) (ex_stat 100 3) 3) false (cfg_of ex_fo ex_so) 100%Z
     = LM false.
Proof. repeat split; reflexivity. Qed.

(* fixed in a6ebf81c9: a smudged entry (size 0, non-empty blob) over an empty file is compared by content *)
Example smudged_entry_over_empty_file_is_modified :
  compute_status (ex_entry MFile (ex_stat 100 0) false) (LNode (KFile false) (ex_stat 100 0) 0) false ex_fo ex_so 200%Z 0
  = SMod false true false.
Proof. reflexivity. Qed.

(* the full statement is false of the code: index timestamp 0, same-size change within stat equality:
   gix calls the entry racy and finds the change, git does not look *)
Theorem status_decision_refuted : exists e l content_eq fo so ts_s ts_ns,
  use_nsec so = false /\ use_stdev so = false /\ (forall k st len, l = LNode k st len -> size st = len) /\
  (forall k st len, l = LNode k st len -> id_empty e = true -> content_eq = true -> len = 0) /\
  letter_of (compute_status e l content_eq fo so ts_s ts_ns) <> git_report e l content_eq (cfg_of fo so) ts_s.
Proof.
  exists (ex_entry MFile (ex_stat 100 3) false), (LNode (KFile false) (ex_stat 100 3) 3), false, ex_fo, ex_so, 0%Z, 0.
  repeat split; try reflexivity.
  - intros k st len H. injection H as _ <- <-. reflexivity.
  - intros k st len _ H. discriminate.
  - vm_compute. discriminate.
Qed.

(* the size recorded in the entry differs from the file's and is not zero: modified for both, without a look
   at the content *)
Example stale_size_is_modified_for_both :
  letter_of (compute_status (ex_entry MFile (ex_stat 100 4) false) (LNode (KFile false) (ex_stat 100 3) 3) true ex_fo ex_so 200%Z 0) = LM false
  /\ git_report (ex_entry MFile (ex_stat 100 4) false) (LNode (KFile false) (ex_stat 100 3) 3) true (cfg_of ex_fo ex_so) 200%Z = LM false.
Proof. split; reflexivity. Qed.

(* core.symlinks=false with a symbolic link on disk: gix reports a type change, git does not *)
Example symlink_disabled_deviation :
  letter_of (compute_status (ex_entry MLink (ex_stat 100 3) false) (LNode KLink (ex_stat 100 3) 3) true
               {| has_symlinks := false; exec_bit := true |} ex_so 200%Z 0) = LT
  /\ git_report (ex_entry MLink (ex_stat 100 3) false) (LNode KLink (ex_stat 100 3) 3) true
       (cfg_of {| has_symlinks := false; exec_bit := true |} ex_so) 200%Z = LClean.
Proof. split; reflexivity. Qed.

(* --- directory walk: classification of one directory entry ---------------------------------------- *)
(* gix-dir's classify::path gives every entry of a directory the treatment of git's treat_path():
   `.git` and tracked files are not mentioned, directories with tracked content are entered, excluded
   paths are ignored, nested repositories are listed but not entered, the rest is untracked; for any index,
   any exclude patterns (of the modelled pattern language) and any entry *)
Theorem classification_is_git : forall (es : list entry) (ps : list pattern) (nd : node),
  n_kind nd <> DRepo ->
  (forall e, entry_by_path es (n_path nd) = Some e -> emd e = MFile \/ emd e = MExec \/ emd e = MLink) ->
  snd (resolve_index es (n_path nd)) = None ->
  treat_of (n_repo nd) (classify es ps nd)
  = git_treat_path (bytes_eqb (basename (n_path nd)) dot_git) (dk_is_dir (n_kind nd))
      (file_in_index es (n_path nd)) (exist_status_of es (n_path nd))
      (excluded ps (n_path nd) (dk_is_dir (n_kind nd))) true (n_repo nd).
Proof. exact classify_is_git. Qed.

Example classification_nontrivial :
  let es := [ex_entry MFile (ex_stat 1 1) false] in
  let ps := [{| p_neg := false; p_dironly := false; p_fullpath := false; p_star := true; p_text := bs ".o" |}] in
  classify es ps {| n_path := bs "a"; n_kind := DFile; n_repo := false |}
    = {| i_st := Tracked; i_prop := None; i_disk := Some DFile; i_idx := Some DFile |}
  /\ i_st (classify es ps {| n_path := bs "d/x.o"; n_kind := DFile; n_repo := false |}) = Ignored
  /\ i_st (classify es ps {| n_path := bs "d"; n_kind := DDir; n_repo := true |}) = Untracked
  /\ i_disk (classify es ps {| n_path := bs "d"; n_kind := DDir; n_repo := true |}) = Some DRepo.
Proof. repeat split; reflexivity. Qed.

(* --- directory folding ------------------------------------------------------------------------------ *)
(* fixed in 9c7819ff5: a directory that has entries in the index is never folded into `?? dir/` *)
Theorem tracked_directory_never_folds : forall o may dir held,
  i_st dir = Tracked -> try_collapse o may dir held = None.
Proof. exact tracked_dir_never_collapses. Qed.

(* --untracked-files=all without folded ignored entries: nothing is ever folded *)
Theorem nothing_folds_in_matching_mode : forall o may dir held,
  emit_untracked o = Matching -> emit_ignored o <> Some Collapse -> try_collapse o may dir held = None.
Proof. exact no_collapse_in_matching_mode. Qed.
