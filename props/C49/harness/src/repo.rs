//! Case format, generator, and the construction of a real repository from a case.
use bstr::{BStr, BString, ByteSlice};
use gixv_common::*;
use std::os::unix::fs::{MetadataExt, PermissionsExt};
use std::path::{Path, PathBuf};
use std::sync::atomic::{AtomicBool, AtomicUsize, Ordering};

pub const T0: i64 = 1_700_000_000;

#[derive(Clone, Debug)]
pub struct Node {
    /// f file (0644), x executable file (0755), l symlink, d directory, r directory with a `.git` repository inside;
    /// upper-case letters are regular files with other permission bits, see [`perm_of`]
    pub kind: u8,
    pub ms: i64,
    pub mns: u32,
    pub cid: u8,
    pub len: usize,
    pub path: Vec<u8>,
}
#[derive(Clone, Debug)]
pub struct Ent {
    /// f 100644, x 100755, l 120000, g 160000
    pub mode: u8,
    /// 1 assume-valid, 2 skip-worktree, 4 intent-to-add
    pub flags: u32,
    pub stage: u32,
    /// mtime.secs = lstat + dms ; mtime.nsecs = mns (absolute)
    pub dms: i64,
    pub mns: u32,
    pub dcs: u32,
    pub dcn: u32,
    pub dino: u32,
    pub ddev: u32,
    pub duid: u32,
    pub dgid: u32,
    pub size: u32,
    pub ecid: u8,
    pub elen: usize,
    pub path: Vec<u8>,
}
#[derive(Clone, Debug)]
pub struct Opts {
    /// n none, c collapsed ("normal"), a all
    pub untracked: u8,
    /// 0 no, t traditional (collapsed), m matching
    pub ignored: u8,
    pub trust_ctime: bool,
    pub check_stat: bool,
    pub use_nsec: bool,
    pub exec_bit: bool,
    pub symlinks: bool,
}
#[derive(Clone, Debug)]
pub struct Repo {
    pub opts: Opts,
    pub ts_s: i64,
    pub ts_ns: u32,
    pub excl: Vec<u8>,
    pub nodes: Vec<Node>,
    pub ents: Vec<Ent>,
}

fn split_n(f: &[u8], n: usize) -> Option<Vec<&[u8]>> {
    let v: Vec<&[u8]> = f.splitn(n, |b| *b == b',').collect();
    (v.len() == n).then_some(v)
}
fn p<T: std::str::FromStr>(b: &[u8]) -> Option<T> {
    std::str::from_utf8(b).ok()?.parse().ok()
}

impl Repo {
    pub fn parse(c: &Case) -> Option<Repo> {
        if f_str(c, 0) != b"st" {
            return None;
        }
        let o = f_str(c, 1);
        if o.len() != 7 {
            return None;
        }
        let b = |i: usize| o[i] == b'1';
        let opts = Opts {
            untracked: o[0],
            ignored: o[1],
            trust_ctime: b(2),
            check_stat: b(3),
            use_nsec: b(4),
            exec_bit: b(5),
            symlinks: b(6),
        };
        let nn = f_u64(c, 5) as usize;
        let mut nodes = Vec::new();
        let mut ents = Vec::new();
        for (i, f) in c.iter().enumerate().skip(6) {
            if i < 6 + nn {
                let v = split_n(f, 6)?;
                nodes.push(Node {
                    kind: *v[0].first()?,
                    ms: p(v[1])?,
                    mns: p(v[2])?,
                    cid: p(v[3])?,
                    len: p(v[4])?,
                    path: v[5].to_vec(),
                });
            } else {
                let v = split_n(f, 15)?;
                ents.push(Ent {
                    mode: *v[0].first()?,
                    flags: p(v[1])?,
                    stage: p(v[2])?,
                    dms: p(v[3])?,
                    mns: p(v[4])?,
                    dcs: p(v[5])?,
                    dcn: p(v[6])?,
                    dino: p(v[7])?,
                    ddev: p(v[8])?,
                    duid: p(v[9])?,
                    dgid: p(v[10])?,
                    size: p(v[11])?,
                    ecid: p(v[12])?,
                    elen: p(v[13])?,
                    path: v[14].to_vec(),
                });
            }
        }
        Some(Repo { opts, ts_s: f_i64(c, 2), ts_ns: f_u64(c, 3) as u32, excl: f_str(c, 4).to_vec(), nodes, ents })
    }

    pub fn to_case(&self) -> Case {
        let o = &self.opts;
        let bit = |b: bool| if b { b'1' } else { b'0' };
        let mut c: Case = vec![
            tag("st"),
            vec![o.untracked, o.ignored, bit(o.trust_ctime), bit(o.check_stat), bit(o.use_nsec), bit(o.exec_bit), bit(o.symlinks)],
            num(self.ts_s),
            num(self.ts_ns),
            self.excl.clone(),
            num(self.nodes.len()),
        ];
        for n in &self.nodes {
            let mut f = format!("{},{},{},{},{},", n.kind as char, n.ms, n.mns, n.cid, n.len).into_bytes();
            f.extend_from_slice(&n.path);
            c.push(f);
        }
        for e in &self.ents {
            let mut f = format!(
                "{},{},{},{},{},{},{},{},{},{},{},{},{},{},",
                e.mode as char, e.flags, e.stage, e.dms, e.mns, e.dcs, e.dcn, e.dino, e.ddev, e.duid, e.dgid, e.size, e.ecid, e.elen
            )
            .into_bytes();
            f.extend_from_slice(&e.path);
            c.push(f);
        }
        c
    }
}

/// permission bits of a regular-file kind. Only the owner's execute bit makes a file executable for git
/// (`ce_mode_from_stat`: `S_IXUSR`) and for gix (`Metadata::is_executable`).
pub const FILE_KINDS: &[(u8, u32)] = &[
    (b'f', 0o644),
    (b'x', 0o755),
    (b'A', 0o654),
    (b'B', 0o645),
    (b'C', 0o655),
    (b'E', 0o641),
    (b'G', 0o611),
    (b'H', 0o700),
    (b'I', 0o600),
    (b'J', 0o744),
    (b'K', 0o754),
];
pub fn perm_of(kind: u8) -> u32 {
    FILE_KINDS.iter().find(|(k, _)| *k == kind).map_or(0o644, |(_, m)| *m)
}
pub fn owner_exec(kind: u8) -> bool {
    perm_of(kind) & 0o100 != 0
}

pub fn content(cid: u8, len: usize) -> Vec<u8> {
    // letters that are no file names of the generator: a symlink never points at itself or at a sibling
    vec![b'x' + cid; len]
}

// ------------------------------------------------------------------------------------------------
// building the repository on disk

static COUNTER: AtomicUsize = AtomicUsize::new(0);

pub struct Built {
    pub root: PathBuf,
    pub worktree: PathBuf,
    pub git_dir: PathBuf,
}
impl Drop for Built {
    fn drop(&mut self) {
        let _ = std::fs::remove_dir_all(&self.root);
    }
}

fn os(p: &[u8]) -> &Path {
    use std::os::unix::ffi::OsStrExt;
    Path::new(std::ffi::OsStr::from_bytes(p))
}

fn mini_git_dir(git_dir: &Path, config: &str) {
    std::fs::create_dir_all(git_dir.join("objects")).unwrap();
    std::fs::create_dir_all(git_dir.join("refs").join("heads")).unwrap();
    std::fs::create_dir_all(git_dir.join("info")).unwrap();
    std::fs::write(git_dir.join("HEAD"), "ref: refs/heads/main\n").unwrap();
    std::fs::write(git_dir.join("config"), config).unwrap();
}

impl Built {
    pub fn new(r: &Repo) -> Built {
        let base = if Path::new("/dev/shm").is_dir() { PathBuf::from("/dev/shm") } else { std::env::temp_dir() };
        let root = base.join(format!("gixv-c49-{}-{}", std::process::id(), COUNTER.fetch_add(1, Ordering::Relaxed)));
        let _ = std::fs::remove_dir_all(&root);
        let worktree = root.join("w");
        let git_dir = worktree.join(".git");
        std::fs::create_dir_all(&worktree).unwrap();
        let o = &r.opts;
        mini_git_dir(
            &git_dir,
            &format!(
                "[core]\n\trepositoryformatversion = 0\n\tbare = false\n\tfilemode = {}\n\tsymlinks = {}\n\ttrustctime = {}\n\tcheckStat = {}\n\tuntrackedCache = false\n\tfsmonitor = false\n",
                o.exec_bit,
                o.symlinks,
                o.trust_ctime,
                if o.check_stat { "default" } else { "minimal" }
            ),
        );
        std::fs::write(git_dir.join("info").join("exclude"), &r.excl).unwrap();
        for n in &r.nodes {
            let path = worktree.join(os(&n.path));
            match n.kind {
                b'd' => std::fs::create_dir(&path).unwrap(),
                b'r' => {
                    std::fs::create_dir(&path).unwrap();
                    mini_git_dir(&path.join(".git"), "[core]\n\trepositoryformatversion = 0\n\tbare = false\n");
                }
                b'l' => std::os::unix::fs::symlink(os(&content(n.cid, n.len)), &path).unwrap(),
                _ => {
                    std::fs::write(&path, content(n.cid, n.len)).unwrap();
                    let mode = perm_of(n.kind);
                    std::fs::set_permissions(&path, std::fs::Permissions::from_mode(mode)).unwrap();
                }
            }
        }
        // times last, so that nothing touches the files afterwards (directories do not matter)
        for n in &r.nodes {
            if !matches!(n.kind, b'd' | b'r') {
                let t = filetime::FileTime::from_unix_time(n.ms, n.mns);
                filetime::set_symlink_file_times(worktree.join(os(&n.path)), t, t).unwrap();
            }
        }
        let b = Built { root, worktree, git_dir };
        b.write_index(r);
        b
    }

    fn write_index(&self, r: &Repo) {
        use gix_index::entry::{stat::Time, Flags, Mode, Stat};
        use gix_odb::Write;
        let odb = gix_odb::loose::Store::at(self.git_dir.join("objects"), gix_hash::Kind::Sha1);
        let mut state = gix_index::State::new(gix_hash::Kind::Sha1);
        for e in &r.ents {
            let md = std::fs::symlink_metadata(self.worktree.join(os(&e.path))).ok().filter(|m| !m.is_dir());
            let (ms, cs, cn, ino, dev, uid, gid) = match &md {
                Some(m) => (m.mtime(), m.ctime(), m.ctime_nsec() as u32, m.ino() as u32, m.dev() as u32, m.uid(), m.gid()),
                None => (T0, T0, 0, 0, 0, 0, 0),
            };
            let stat = Stat {
                mtime: Time { secs: (ms + e.dms) as u32, nsecs: e.mns },
                ctime: Time { secs: (cs as u32).wrapping_add(e.dcs), nsecs: cn.wrapping_add(e.dcn) },
                dev: dev.wrapping_add(e.ddev),
                ino: ino.wrapping_add(e.dino),
                uid: uid.wrapping_add(e.duid),
                gid: gid.wrapping_add(e.dgid),
                size: e.size,
            };
            let data = content(e.ecid, e.elen);
            let (mode, id) = match e.mode {
                b'g' => (Mode::COMMIT, gix_object::compute_hash(gix_hash::Kind::Sha1, gix_object::Kind::Commit, &data)),
                m => (
                    match m {
                        b'x' => Mode::FILE_EXECUTABLE,
                        b'l' => Mode::SYMLINK,
                        _ => Mode::FILE,
                    },
                    odb.write_buf(gix_object::Kind::Blob, &data).unwrap(),
                ),
            };
            let mut flags = Flags::from_bits_retain((e.stage & 3) << 12);
            if e.flags & 1 != 0 {
                flags |= Flags::ASSUME_VALID;
            }
            if e.flags & 2 != 0 {
                flags |= Flags::SKIP_WORKTREE | Flags::EXTENDED;
            }
            if e.flags & 4 != 0 {
                flags |= Flags::INTENT_TO_ADD | Flags::EXTENDED;
            }
            state.dangerously_push_entry(stat, id, flags, mode, BStr::new(&e.path));
        }
        state.sort_entries();
        let index_path = self.git_dir.join("index");
        let mut file = gix_index::File::from_state(state, index_path.clone());
        file.write(gix_index::write::Options::default()).unwrap();
        let t = filetime::FileTime::from_unix_time(r.ts_s, r.ts_ns);
        filetime::set_file_times(&index_path, t, t).unwrap();
    }

    pub fn load_index(&self) -> gix_index::File {
        gix_index::File::at(self.git_dir.join("index"), gix_hash::Kind::Sha1, false, Default::default()).unwrap()
    }

    /// index-to-worktree changes and the directory walk as `gix status` would configure them
    pub fn gix_status(&self, r: &Repo) -> Result<Vec<String>, String> {
        use gix_status::index_as_worktree::{traits::FastEq, Change, Conflict, Context, EntryStatus, Options, Recorder};
        let index = self.load_index();
        let mut out = Vec::new();
        let mut recorder = Recorder::default();
        let search = gix_pathspec::Search::from_specs(None, None, Path::new("")).map_err(|_| "pathspec".to_string())?;
        let stack = gix_worktree::Stack::from_state_and_ignore_case(
            self.worktree.clone(),
            false,
            gix_worktree::stack::State::AttributesStack(Default::default()),
            &index,
            index.path_backing(),
        );
        let o = &r.opts;
        let res = gix_status::index_as_worktree(
            &index,
            &self.worktree,
            &mut recorder,
            FastEq,
            NoSubmodule,
            gix_object::find::Never,
            &mut gix_features::progress::Discard,
            Context { pathspec: search, stack, filter: Default::default(), should_interrupt: &AtomicBool::default() },
            Options {
                fs: gix_fs::Capabilities {
                    precompose_unicode: false,
                    ignore_case: false,
                    executable_bit: o.exec_bit,
                    symlink: o.symlinks,
                },
                thread_limit: Some(1),
                stat: gix_index::entry::stat::Options {
                    trust_ctime: o.trust_ctime,
                    check_stat: o.check_stat,
                    use_nsec: o.use_nsec,
                    use_stdev: false,
                },
            },
        );
        if let Err(e) = res {
            return Err(match e {
                gix_status::index_as_worktree::Error::Io(_) => "Io".into(),
                _ => "Other".into(),
            });
        }
        for rec in &recorder.records {
            let code = match &rec.status {
                EntryStatus::Conflict(c) => format!(
                    "C{}",
                    match c {
                        Conflict::BothDeleted => 1,
                        Conflict::AddedByUs => 2,
                        Conflict::DeletedByThem => 3,
                        Conflict::AddedByThem => 4,
                        Conflict::DeletedByUs => 5,
                        Conflict::BothAdded => 6,
                        Conflict::BothModified => 7,
                    }
                ),
                EntryStatus::Change(Change::Removed) => "D".into(),
                EntryStatus::Change(Change::Type) => "T".into(),
                EntryStatus::Change(Change::Modification { executable_bit_changed, content_change, set_entry_stat_size_zero }) => format!(
                    "M{}{}{}",
                    if *executable_bit_changed { "x" } else { "" },
                    if content_change.is_some() { "c" } else { "" },
                    if *set_entry_stat_size_zero { "z" } else { "" }
                ),
                EntryStatus::Change(Change::SubmoduleModification(_)) => "S".into(),
                EntryStatus::NeedsUpdate(_) => "U".into(),
                EntryStatus::IntentToAdd => "A".into(),
            };
            out.push(format!("{}:{}", code, rec.relative_path));
        }
        if o.untracked != b'n' {
            use gix_dir::walk::EmissionMode::*;
            let options = gix_dir::walk::Options {
                emit_untracked: if o.untracked == b'c' { CollapseDirectory } else { Matching },
                emit_ignored: match o.ignored {
                    b't' => Some(CollapseDirectory),
                    b'm' => Some(Matching),
                    _ => None,
                },
                // entries of another status inside a collapsed directory stay visible, as in git's output
                emit_collapsed: (o.ignored != b'0').then_some(gix_dir::walk::CollapsedEntriesEmissionMode::OnStatusMismatch),
                ..Default::default()
            };
            for (e, _) in self.walk(&index, options)? {
                out.push(format!(
                    "{}:{}{}",
                    match e.status {
                        gix_dir::entry::Status::Untracked => "?",
                        gix_dir::entry::Status::Ignored(_) => "!",
                        gix_dir::entry::Status::Tracked => "t",
                        gix_dir::entry::Status::Pruned => "p",
                    },
                    e.rela_path,
                    if e.disk_kind.map_or(false, |k| k.is_dir()) { "/" } else { "" }
                ));
            }
        }
        out.sort();
        Ok(out)
    }

    /// every classification the walk makes, nothing collapsed, nothing hidden
    pub fn gix_classify_all(&self, _r: &Repo) -> Result<Vec<String>, String> {
        use gix_dir::walk::EmissionMode::*;
        let index = self.load_index();
        let options = gix_dir::walk::Options {
            emit_pruned: true,
            emit_ignored: Some(Matching),
            emit_tracked: true,
            emit_untracked: Matching,
            emit_empty_directories: true,
            ..Default::default()
        };
        let kind = |k: Option<gix_dir::entry::Kind>| match k {
            None => '-',
            Some(gix_dir::entry::Kind::File) => 'f',
            Some(gix_dir::entry::Kind::Symlink) => 'l',
            Some(gix_dir::entry::Kind::Directory) => 'd',
            Some(gix_dir::entry::Kind::Repository) => 'r',
        };
        let mut out = Vec::new();
        for (e, _) in self.walk(&index, options)? {
            out.push(format!(
                "{}{}{}{}:{}",
                match e.status {
                    gix_dir::entry::Status::Untracked => 'U',
                    gix_dir::entry::Status::Ignored(_) => 'I',
                    gix_dir::entry::Status::Tracked => 'T',
                    gix_dir::entry::Status::Pruned => 'P',
                },
                kind(e.disk_kind),
                kind(e.index_kind),
                match e.property {
                    None => "",
                    Some(gix_dir::entry::Property::DotGit) => "g",
                    Some(gix_dir::entry::Property::EmptyDirectory) => "e",
                    Some(gix_dir::entry::Property::EmptyDirectoryAndCWD) => "c",
                    Some(gix_dir::entry::Property::TrackedExcluded) => "x",
                },
                e.rela_path
            ));
        }
        out.sort();
        Ok(out)
    }

    fn walk(
        &self,
        index: &gix_index::State,
        options: gix_dir::walk::Options<'_>,
    ) -> Result<Vec<(gix_dir::Entry, Option<gix_dir::entry::Status>)>, String> {
        let mut buf = Vec::new();
        let globals = gix_ignore::Search::from_git_dir(&self.git_dir, None, &mut buf).map_err(|_| "exclude".to_string())?;
        let mut stack = gix_worktree::Stack::from_state_and_ignore_case(
            self.worktree.clone(),
            false,
            gix_worktree::stack::State::IgnoreStack(gix_worktree::stack::state::Ignore::new(
                Default::default(),
                globals,
                None,
                gix_worktree::stack::state::ignore::Source::WorktreeThenIdMappingIfNotSkipped,
            )),
            index,
            index.path_backing(),
        );
        let mut search = gix_pathspec::Search::from_specs(None, None, Path::new("")).map_err(|_| "pathspec".to_string())?;
        let git_dir_realpath =
            gix_path::realpath_opts(&self.git_dir, &self.worktree, gix_path::realpath::MAX_SYMLINKS).map_err(|_| "realpath".to_string())?;
        let mut dlg = gix_dir::walk::delegate::Collect::default();
        gix_dir::walk(
            &self.worktree,
            gix_dir::walk::Context {
                should_interrupt: None,
                git_dir_realpath: &git_dir_realpath,
                current_dir: &self.worktree,
                index,
                ignore_case_index_lookup: None,
                pathspec: &mut search,
                pathspec_attributes: &mut |_, _, _, _| false,
                excludes: Some(&mut stack),
                objects: &gix_object::find::Never,
                explicit_traversal_root: Some(&self.worktree),
            },
            options,
            &mut dlg,
        )
        .map_err(|_| "Walk".to_string())?;
        Ok(dlg.into_entries_by_path())
    }
}

#[derive(Clone)]
struct NoSubmodule;
impl gix_status::index_as_worktree::traits::SubmoduleStatus for NoSubmodule {
    type Output = ();
    type Error = std::convert::Infallible;
    fn status(&mut self, _entry: &gix_index::Entry, _rela_path: &BStr) -> Result<Option<()>, Self::Error> {
        Ok(None)
    }
}

// ------------------------------------------------------------------------------------------------
// generator

const NAMES: &[&str] = &["a", "b", "c", "a.o", "d"];
const PATTERNS: &[&str] = &["a", "b", "c", "d", "a/", "b/", "d/", "/a", "/b", "/d", "*.o", "a/b", "b/a", "d/a.o", "!a", "!b", "!a.o", "!*.o", "!b/a", "!/a", "!d/", "#x", ""];

fn default_opts() -> Opts {
    Opts { untracked: b'c', ignored: b'0', trust_ctime: true, check_stat: true, use_nsec: false, exec_bit: true, symlinks: true }
}
pub fn file(kind: u8, path: &str, ms: i64, mns: u32, cid: u8, len: usize) -> Node {
    Node { kind, ms, mns, cid, len, path: path.as_bytes().to_vec() }
}
pub fn dir(kind: u8, path: &str) -> Node {
    Node { kind, ms: T0, mns: 0, cid: 0, len: 0, path: path.as_bytes().to_vec() }
}
/// an index entry that matches `n` exactly
pub fn ent_for(n: &Node) -> Ent {
    Ent {
        mode: match n.kind {
            b'f' | b'x' | b'l' => n.kind,
            b'd' | b'r' => b'f',
            k => {
                if owner_exec(k) {
                    b'x'
                } else {
                    b'f'
                }
            }
        },
        flags: 0,
        stage: 0,
        dms: 0,
        mns: n.mns,
        dcs: 0,
        dcn: 0,
        dino: 0,
        ddev: 0,
        duid: 0,
        dgid: 0,
        size: n.len as u32,
        ecid: n.cid,
        elen: n.len,
        path: n.path.clone(),
    }
}

fn boundary() -> Vec<Repo> {
    let mut out = Vec::new();
    // the racy rule: index timestamp before / at / after the file's mtime, content same or same-size-different
    for dts in [-1i64, 0, 1] {
        for (tns, fns) in [(0u32, 0u32), (5, 5), (5, 6), (6, 5)] {
            for same in [true, false] {
                for use_nsec in [false, true] {
                    let n = file(b'f', "a", T0 + 1, fns, 0, 3);
                    let mut e = ent_for(&n);
                    if !same {
                        e.ecid = 1;
                    }
                    let mut opts = default_opts();
                    opts.use_nsec = use_nsec;
                    out.push(Repo { opts, ts_s: T0 + 1 + dts, ts_ns: tns, excl: vec![], nodes: vec![n], ents: vec![e] });
                }
            }
        }
    }
    // index timestamp zero (git: never racy)
    for same in [true, false] {
        let n = file(b'f', "a", T0, 0, 0, 3);
        let mut e = ent_for(&n);
        if !same {
            e.ecid = 1;
        }
        out.push(Repo { opts: default_opts(), ts_s: 0, ts_ns: 0, excl: vec![], nodes: vec![n], ents: vec![e] });
    }
    // every single stat field off by one, with each option set; content same or different
    for field in 0..8 {
        for (tc, cs, ns) in [(true, true, false), (false, true, false), (true, false, false), (true, true, true), (false, false, true)] {
            for same in [true, false] {
                let n = file(b'f', "a", T0, 7, 0, 3);
                let mut e = ent_for(&n);
                match field {
                    0 => e.dms = 1,
                    1 => e.mns = 8,
                    2 => e.dcs = 1,
                    3 => e.dcn = 1,
                    4 => e.dino = 1,
                    5 => e.ddev = 1,
                    6 => e.duid = 1,
                    _ => e.dgid = 1,
                }
                if !same {
                    e.ecid = 1;
                }
                let mut opts = default_opts();
                opts.trust_ctime = tc;
                opts.check_stat = cs;
                opts.use_nsec = ns;
                out.push(Repo { opts, ts_s: T0 + 5, ts_ns: 0, excl: vec![], nodes: vec![n], ents: vec![e] });
            }
        }
    }
    // sizes: smudged entries (size 0), empty blobs, size mismatch
    for (size, elen, wlen, ecid) in [(0u32, 3usize, 3usize, 0u8), (0, 3, 3, 1), (0, 0, 0, 0), (0, 0, 3, 0), (3, 0, 3, 0), (3, 3, 0, 0), (4, 3, 3, 0), (4, 3, 3, 1), (0, 3, 0, 0), (3, 3, 4, 0)] {
        for racy in [false, true] {
            let n = file(b'f', "a", T0, 0, 0, wlen);
            let mut e = ent_for(&n);
            e.size = size;
            e.elen = elen;
            e.ecid = ecid;
            out.push(Repo { opts: default_opts(), ts_s: if racy { T0 } else { T0 + 5 }, ts_ns: 0, excl: vec![], nodes: vec![n], ents: vec![e] });
        }
    }
    // mode and type changes
    for wk in [b'f', b'x', b'l', b'd', b'r', b'-'] {
        for em in [b'f', b'x', b'l'] {
            for (xb, sl) in [(true, true), (false, true), (true, false), (false, false)] {
                for same in [true, false] {
                    let mut nodes = vec![];
                    match wk {
                        b'-' => {}
                        b'd' | b'r' => {
                            nodes.push(dir(wk, "a"));
                            nodes.push(file(b'f', "a/b", T0, 0, 0, 3));
                        }
                        k => nodes.push(file(k, "a", T0, 0, 0, 3)),
                    }
                    let mut e = ent_for(&file(em, "a", T0, 0, 0, 3));
                    if !same {
                        e.ecid = 1;
                    }
                    let mut opts = default_opts();
                    opts.exec_bit = xb;
                    opts.symlinks = sl;
                    out.push(Repo { opts, ts_s: T0 + 5, ts_ns: 0, excl: vec![], nodes, ents: vec![e] });
                }
            }
        }
    }
    // permission bits: only the owner's execute bit counts, for both entry modes, with and without core.filemode
    for (wk, _) in FILE_KINDS {
        for em in [b'f', b'x'] {
            for xb in [true, false] {
                for same in [true, false] {
                    let n = file(*wk, "a", T0, 0, 0, 3);
                    let mut e = ent_for(&n);
                    e.mode = em;
                    if !same {
                        e.ecid = 1;
                    }
                    let mut opts = default_opts();
                    opts.exec_bit = xb;
                    out.push(Repo { opts, ts_s: T0 + 5, ts_ns: 0, excl: vec![], nodes: vec![n], ents: vec![e] });
                }
            }
        }
    }
    // a leading path component that is a file / a symlink / missing
    for wk in [b'f', b'l', b'-'] {
        let mut nodes = vec![];
        if wk != b'-' {
            nodes.push(file(wk, "a", T0, 0, 0, 3));
        }
        let e = ent_for(&file(b'f', "a/b", T0, 0, 0, 3));
        out.push(Repo { opts: default_opts(), ts_s: T0 + 5, ts_ns: 0, excl: vec![], nodes, ents: vec![e] });
    }
    // untracked / ignored trees in every display mode
    let trees: Vec<(Vec<Node>, Vec<&str>, &str)> = vec![
        (vec![file(b'f', "a", T0, 0, 0, 1)], vec![], ""),
        (vec![dir(b'd', "d")], vec![], ""),
        (vec![dir(b'd', "d"), file(b'f', "d/a", T0, 0, 0, 1)], vec![], ""),
        (vec![dir(b'd', "d"), file(b'f', "d/a", T0, 0, 0, 1), file(b'f', "d/b", T0, 0, 0, 1)], vec!["d/a"], ""),
        (vec![dir(b'd', "d"), file(b'f', "d/a", T0, 0, 0, 1), file(b'f', "d/b", T0, 0, 0, 1)], vec![], "a\n"),
        (vec![dir(b'd', "d"), file(b'f', "d/a", T0, 0, 0, 1), file(b'f', "d/b", T0, 0, 0, 1)], vec![], "a\nb\n"),
        (vec![dir(b'd', "d"), file(b'f', "d/a", T0, 0, 0, 1), file(b'f', "d/b", T0, 0, 0, 1)], vec![], "d/\n"),
        (vec![dir(b'd', "d"), file(b'f', "d/a", T0, 0, 0, 1), file(b'f', "d/b", T0, 0, 0, 1)], vec!["d/a"], "d/\n"),
        (vec![dir(b'd', "d"), file(b'f', "d/a", T0, 0, 0, 1), file(b'f', "d/b", T0, 0, 0, 1)], vec!["d/a"], "b\n"),
        (vec![dir(b'd', "d"), file(b'f', "d/a", T0, 0, 0, 1), file(b'f', "d/b", T0, 0, 0, 1)], vec![], "d\n!d/a\n"),
        (vec![dir(b'd', "d"), dir(b'd', "d/c"), file(b'f', "d/c/a", T0, 0, 0, 1), file(b'f', "d/b", T0, 0, 0, 1)], vec![], "a\n"),
        (vec![dir(b'd', "d"), dir(b'd', "d/c"), file(b'f', "d/c/a", T0, 0, 0, 1), file(b'f', "d/b", T0, 0, 0, 1)], vec![], "b\n"),
        (vec![dir(b'd', "d"), dir(b'd', "d/c"), file(b'f', "d/c/a", T0, 0, 0, 1), file(b'f', "d/b", T0, 0, 0, 1)], vec![], "c/\n"),
        (vec![dir(b'd', "d"), dir(b'd', "d/c"), file(b'f', "d/c/a", T0, 0, 0, 1), file(b'f', "d/b", T0, 0, 0, 1)], vec!["d/b"], "c/\n"),
        (vec![dir(b'd', "d"), dir(b'd', "d/c")], vec![], ""),
        (vec![dir(b'd', "d"), dir(b'd', "d/c"), file(b'f', "d/b", T0, 0, 0, 1)], vec![], ""),
        (vec![dir(b'r', "d")], vec![], ""),
        (vec![dir(b'r', "d")], vec![], "d/\n"),
        (vec![dir(b'd', "d"), dir(b'r', "d/c"), file(b'f', "d/b", T0, 0, 0, 1)], vec![], ""),
        (vec![dir(b'd', "d"), dir(b'r', "d/c")], vec![], ""),
        (vec![dir(b'd', "d"), file(b'f', "d/.git", T0, 0, 0, 1), file(b'f', "d/b", T0, 0, 0, 1)], vec![], ""),
        (vec![dir(b'd', "d"), file(b'l', "d/a", T0, 0, 0, 1), file(b'f', "a.o", T0, 0, 0, 1)], vec![], "*.o\n"),
        (vec![dir(b'd', "d"), file(b'f', "d/a.o", T0, 0, 0, 1), file(b'f', "d/b", T0, 0, 0, 1)], vec![], "*.o\n!d/a.o\n"),
        (vec![file(b'f', "a", T0, 0, 0, 1)], vec!["a/b"], ""),
        (vec![dir(b'd', "a"), file(b'f', "a/b", T0, 0, 0, 1)], vec!["a"], ""),
    ];
    for (nodes, tracked, excl) in trees {
        for (u, i) in [(b'n', b'0'), (b'c', b'0'), (b'a', b'0'), (b'c', b't'), (b'c', b'm'), (b'a', b'm')] {
            let mut opts = default_opts();
            opts.untracked = u;
            opts.ignored = i;
            let ents = tracked
                .iter()
                .map(|p| match nodes.iter().find(|n| n.path == p.as_bytes()) {
                    Some(n) => ent_for(n),
                    None => ent_for(&file(b'f', p, T0, 0, 0, 1)),
                })
                .collect();
            out.push(Repo { opts, ts_s: T0 + 5, ts_ns: 0, excl: excl.as_bytes().to_vec(), nodes: nodes.clone(), ents });
        }
    }
    out
}

fn gen_tree(rng: &mut Rng, prefix: &str, depth: usize, is_repo: bool, budget: &mut usize, out: &mut Vec<Node>) {
    let mut names: Vec<&str> = NAMES.to_vec();
    let n = rng.below(4) as usize + usize::from(depth == 0);
    for _ in 0..n {
        if *budget == 0 || names.is_empty() {
            return;
        }
        *budget -= 1;
        let name = names.remove(rng.below(names.len() as u64) as usize);
        let path = if prefix.is_empty() { name.to_string() } else { format!("{prefix}/{name}") };
        let k = rng.below(20);
        if k < 7 && depth < 3 {
            let kind = if rng.chance(1, 8) { b'r' } else { b'd' };
            out.push(dir(kind, &path));
            gen_tree(rng, &path, depth + 1, kind == b'r', budget, out);
        } else {
            let kind = match k {
                7..=8 => b'x',
                11..=13 => FILE_KINDS[rng.below(FILE_KINDS.len() as u64) as usize].0,
                9..=10 => b'l',
                _ => b'f',
            };
            let len = if kind == b'l' { 1 + rng.below(3) as usize } else { rng.below(4) as usize };
            let mns = *rng.pick(&[0u32, 0, 5, 999_999_999]);
            out.push(file(kind, &path, T0 + rng.below(3) as i64, mns, rng.below(2) as u8, len));
        }
    }
    if depth > 0 && !is_repo && rng.chance(1, 12) && *budget > 0 {
        *budget -= 1;
        out.push(file(b'f', &format!("{prefix}/.git"), T0, 0, 0, 1));
    }
}

fn random_repo(rng: &mut Rng) -> Repo {
    let mut nodes = Vec::new();
    let mut budget = 2 + rng.below(9) as usize;
    gen_tree(rng, "", 0, false, &mut budget, &mut nodes);
    let mut opts = default_opts();
    let (u, i) = *rng.pick(&[(b'n', b'0'), (b'c', b'0'), (b'c', b'0'), (b'a', b'0'), (b'c', b't'), (b'c', b't'), (b'c', b'm'), (b'a', b'm')]);
    opts.untracked = u;
    opts.ignored = i;
    opts.trust_ctime = !rng.chance(1, 5);
    opts.check_stat = !rng.chance(1, 5);
    opts.use_nsec = rng.chance(1, 8);
    opts.exec_bit = !rng.chance(1, 6);
    opts.symlinks = !rng.chance(1, 6);
    let mut excl = Vec::new();
    if rng.chance(2, 3) {
        for _ in 0..1 + rng.below(3) {
            excl.extend_from_slice(rng.pick(PATTERNS).as_bytes());
            excl.push(b'\n');
        }
    }
    // index entries
    let mut ents: Vec<Ent> = Vec::new();
    let conflicts = |ents: &Vec<Ent>, p: &[u8]| {
        ents.iter().any(|e| {
            e.path == p
                || (e.path.len() > p.len() && e.path.starts_with(p) && e.path[p.len()] == b'/')
                || (p.len() > e.path.len() && p.starts_with(&e.path) && p[e.path.len()] == b'/')
        })
    };
    for n in &nodes {
        if n.path.ends_with(b".git") {
            continue;
        }
        let is_dir = matches!(n.kind, b'd' | b'r');
        let take = if is_dir { rng.chance(1, 12) } else { rng.chance(3, 5) };
        if !take || conflicts(&ents, &n.path) {
            continue;
        }
        let mut e = ent_for(n);
        if is_dir {
            e.elen = 2;
            e.size = 2;
        }
        // perturbations
        match rng.below(16) {
            0 => e.ecid ^= 1, // same size, different content: only the racy rule can find it
            1 => {
                e.ecid ^= 1;
                e.dms = 1
            }
            2 => e.elen += 1,
            3 => {
                e.elen += 1;
                e.size += 1
            }
            4 => e.size = 0,
            5 => {
                e.size = 0;
                e.ecid ^= 1
            }
            6 => e.mode = *rng.pick(&[b'f', b'x', b'l']),
            7 => match rng.below(8) {
                0 => e.dms = 1,
                1 => e.mns = e.mns.wrapping_add(1) % 1_000_000_000,
                2 => e.dcs = 1,
                3 => e.dcn = 1,
                4 => e.dino = 1,
                5 => e.ddev = 1,
                6 => e.duid = 1,
                _ => e.dgid = 1,
            },
            8 => {
                e.ecid ^= 1;
                match rng.below(4) {
                    0 => e.dcs = 1,
                    1 => e.dcn = 1,
                    2 => e.dino = 1,
                    _ => e.mns = e.mns.wrapping_add(1) % 1_000_000_000,
                }
            }
            9 if rng.chance(1, 2) => e.flags = *rng.pick(&[1u32, 2, 4]),
            _ => {}
        }
        if rng.chance(1, 10) {
            e.ecid ^= 1;
        }
        ents.push(e);
    }
    // entries without a file, or below a file / symlink
    for _ in 0..rng.below(3) {
        let mut p = NAMES[rng.below(NAMES.len() as u64) as usize].to_string();
        if rng.chance(1, 2) {
            p = format!("{}/{}", p, NAMES[rng.below(NAMES.len() as u64) as usize]);
        }
        if conflicts(&ents, p.as_bytes()) || nodes.iter().any(|n| n.path == p.as_bytes()) {
            continue;
        }
        let mut e = ent_for(&file(*rng.pick(&[b'f', b'x', b'l']), &p, T0, 0, 0, 2));
        if rng.chance(1, 8) {
            e.flags = *rng.pick(&[1u32, 2, 4]);
        }
        ents.push(e);
    }
    let ts_s = if rng.chance(1, 40) { 0 } else { T0 + rng.below(4) as i64 };
    let ts_ns = *rng.pick(&[0u32, 5, 6, 999_999_999]);
    Repo { opts, ts_s, ts_ns, excl, nodes, ents }
}

pub fn gen(rng: &mut Rng, n: usize) -> Vec<Case> {
    let mut out: Vec<Case> = boundary().iter().map(Repo::to_case).collect();
    // the boundary block is large; keep its share at about a third for small n by sampling it evenly
    if out.len() > n / 3 && n > 0 {
        let keep = (n / 3).max(1);
        let step = out.len() as f64 / keep as f64;
        out = (0..keep).map(|i| out[(i as f64 * step) as usize].clone()).collect();
    }
    while out.len() < n {
        out.push(random_repo(rng).to_case());
    }
    out.truncate(n);
    out
}

#[allow(dead_code)]
pub fn bstring(v: &[u8]) -> BString {
    v.as_bstr().to_owned()
}
