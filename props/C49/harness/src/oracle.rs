//! The property itself: what gix reports for a repository equals what `git status --porcelain=v2` prints
//! for the same directory (git 2.39.5, run read-only with --no-optional-locks).
use crate::repo::*;
use gixv_common::Verdict;
use std::process::Command;

/// Reduce both sides to lines `<letter> <path>`:
///   D/T/A  index-to-worktree deletion / type change / intent-to-add
///   M      modification without a change of the executable bit, Mx with it
///   ? / !  untracked / ignored (directories with a trailing slash)
///   U      unmerged path
pub fn git_status(b: &Built, r: &Repo) -> Result<Vec<String>, String> {
    let mut cmd = Command::new("git");
    cmd.current_dir(&b.worktree)
        .env_clear()
        .env("PATH", "/usr/bin:/bin")
        .env("HOME", "/nonexistent")
        .env("GIT_CONFIG_NOSYSTEM", "1")
        .env("GIT_CONFIG_GLOBAL", "/dev/null")
        .env("LC_ALL", "C")
        .args(["--no-optional-locks", "status", "--porcelain=v2", "-z", "--no-renames", "--ignore-submodules=all"]);
    cmd.arg(match r.opts.untracked {
        b'n' => "--untracked-files=no",
        b'c' => "--untracked-files=normal",
        _ => "--untracked-files=all",
    });
    cmd.arg(match r.opts.ignored {
        b't' => "--ignored=traditional",
        b'm' => "--ignored=matching",
        _ => "--ignored=no",
    });
    let out = cmd.output().map_err(|e| format!("spawn: {e}"))?;
    if !out.status.success() {
        return Err(format!("git failed: {}", String::from_utf8_lossy(&out.stderr).trim()));
    }
    let mut lines = Vec::new();
    for rec in out.stdout.split(|b| *b == 0) {
        if rec.is_empty() {
            continue;
        }
        let s = String::from_utf8_lossy(rec).to_string();
        let f: Vec<&str> = s.splitn(9, ' ').collect();
        match f[0] {
            "1" if f.len() == 9 => {
                let y = f[1].as_bytes()[1];
                let (mi, mw) = (f[4], f[5]);
                match y {
                    b'.' => {}
                    b'M' => {
                        // a mode change is visible as a difference between the index and worktree modes
                        let flip = mi != mw;
                        lines.push(format!("{} {}", if flip { "Mx" } else { "M" }, f[8]));
                    }
                    y => lines.push(format!("{} {}", y as char, f[8])),
                }
            }
            "u" => {
                let f: Vec<&str> = s.splitn(11, ' ').collect();
                lines.push(format!("U {}", f.last().copied().unwrap_or("")));
            }
            "?" | "!" => lines.push(format!("{} {}", f[0], &s[2..])),
            _ => return Err(format!("unexpected record {s:?}")),
        }
    }
    lines.sort();
    Ok(lines)
}

pub fn gix_reduced(items: &[String]) -> Vec<String> {
    let mut lines = Vec::new();
    for it in items {
        let (code, path) = it.split_once(':').expect("code:path");
        let letter = match code {
            "U" => continue, // stat refresh only, nothing to report
            "D" | "T" | "A" | "?" | "!" => code.to_string(),
            "S" => "M".into(),
            c if c.starts_with('C') => "U".into(),
            c if c.starts_with('M') => {
                if c.contains('x') {
                    "Mx".into()
                } else {
                    "M".into()
                }
            }
            other => other.to_string(),
        };
        lines.push(format!("{letter} {path}"));
    }
    lines.sort();
    lines
}

/// Why a line that only one side prints is a known deviation, if it is one. The names are the classes of
/// findings.txt; each is a predicate on the repository description, not on the outputs.
fn known_reason(r: &Repo, line: &str, gix_side: bool) -> Option<&'static str> {
    let (letter, path) = line.split_once(' ')?;
    let dir_path = path.strip_suffix('/');
    let p = dir_path.unwrap_or(path).as_bytes();
    let node = |q: &[u8]| r.nodes.iter().find(|n| n.path == q);
    let ent = |q: &[u8]| r.ents.iter().find(|e| e.path == q);
    let below = |q: &[u8], d: &[u8]| q.len() > d.len() && q.starts_with(d) && q[d.len()] == b'/';
    if letter == "?" || letter == "!" {
        // git drops an untracked/ignored directory from its output if the index has a (file) entry of that name
        if gix_side && dir_path.is_some() && ent(p).is_some() {
            return Some("untracked-dir-at-index-file");
        }
        // the same below such a directory when gix does not fold it (nested repository inside): git folds, then drops
        if gix_side && r.opts.untracked == b'c' {
            let mut cur = p.to_vec();
            while let Some(i) = cur.iter().rposition(|b| *b == b'/') {
                cur.truncate(i);
                if ent(&cur).is_some() && node(&cur).map_or(false, |n| n.kind == b'd') {
                    return Some("untracked-dir-at-index-file");
                }
            }
        }
        // gix does not look into ignored directories, so it cannot know that they are empty
        // entries named `.git` are skipped by both tools and do not count as content
        let without_files = dir_path.is_some()
            && !r.nodes.iter().any(|n| below(&n.path, p) && !matches!(n.kind, b'd' | b'r') && !n.path.ends_with(b"/.git"));
        if gix_side && letter == "!" && without_files {
            return Some("empty-ignored-directory");
        }
        // a directory that contains nothing but empty directories is folded into an untracked directory by gix
        // (pinned by gix-dir's test `complex_empty`), git does not mention directories without files
        if gix_side && letter == "?" && without_files && node(p).map_or(false, |n| n.kind == b'd') {
            return Some("untracked-dir-without-files");
        }
        // gix never folds a directory that contains a nested repository, git does
        let top = |q: &[u8]| -> Vec<Vec<u8>> {
            // all proper ancestor directories of q, and q itself
            let mut v = vec![q.to_vec()];
            let mut cur = q.to_vec();
            while let Some(i) = cur.iter().rposition(|b| *b == b'/') {
                cur.truncate(i);
                v.push(cur.clone());
            }
            v
        };
        for d in top(p) {
            let untracked_dir = node(&d).map_or(false, |n| n.kind == b'd') && !r.ents.iter().any(|e| below(&e.path, &d) || e.path == d);
            if untracked_dir && r.nodes.iter().any(|n| n.kind == b'r' && below(&n.path, &d)) {
                return Some("nested-repo-in-untracked-dir");
            }
        }
        // below a directory that is excluded, a negative pattern re-includes nothing in git (prep_exclude stops at
        // the outermost excluded directory); gix-worktree lets the innermost matched directory decide
        let is_dir_line = dir_path.is_some();
        if is_excluded(&r.excl, p, is_dir_line) != is_excluded_git(&r.excl, p, is_dir_line) {
            return Some("negated-dir-below-excluded-dir");
        }
        // "invisible": skipped by name or excluded; a directory whose files are all invisible has no untracked file
        let invisible = |n: &Node| n.path.ends_with(b"/.git") || is_excluded(&r.excl, &n.path, matches!(n.kind, b'd' | b'r'));
        let is_file = |n: &Node| !matches!(n.kind, b'd' | b'r');
        let no_untracked_files = |d: &[u8]| !r.nodes.iter().any(|n| below(&n.path, d) && is_file(n) && !invisible(n));
        let treeish_empty = |d: &[u8]| !r.nodes.iter().any(|n| below(&n.path, d) && is_file(n) && !n.path.ends_with(b"/.git"));
        // an empty directory counts as untracked content for gix' folding: a directory with ignored files and an
        // empty directory folds into an untracked directory (git: ignored directory, or nothing)
        for d in top(p) {
            let is_plain_dir = node(&d).map_or(false, |n| n.kind == b'd');
            if is_plain_dir
                && !is_excluded(&r.excl, &d, true)
                && no_untracked_files(&d)
                && r.nodes.iter().any(|n| n.kind == b'd' && (below(&n.path, &d)) && treeish_empty(&n.path) && !is_excluded(&r.excl, &n.path, true))
            {
                return Some("untracked-dir-without-files");
            }
        }
        // a sub-directory with nothing but ignored files (or a stray `.git` file) in it keeps gix from folding its
        // untracked parents unless ignored entries are folded as well; git folds (`?? d/`)
        {
            for d in top(p) {
                let untracked_dir = node(&d).map_or(false, |n| n.kind == b'd') && !r.ents.iter().any(|e| below(&e.path, &d) || e.path == d);
                if !untracked_dir {
                    continue;
                }
                for s in r.nodes.iter().filter(|n| n.kind == b'd' && below(&n.path, &d)) {
                    let has_invisible = r.nodes.iter().any(|n| below(&n.path, &s.path) && invisible(n));
                    let only_dot_git = r.nodes.iter().any(|n| below(&n.path, &s.path) && n.path.ends_with(b"/.git"));
                    if has_invisible && no_untracked_files(&s.path) && (r.opts.ignored != b't' || only_dot_git) {
                        return Some("ignored-only-subdir-prevents-fold");
                    }
                }
            }
        }
        return None;
    }
    let e = ent(p)?;
    if r.ts_s == 0 {
        return Some("index-timestamp-zero");
    }
    if !r.opts.symlinks && e.mode == b'l' && node(p).map_or(false, |n| n.kind == b'l') {
        return Some("symlink-on-disk-symlinks-disabled");
    }
    if r.opts.trust_ctime && !r.opts.check_stat && e.dcs != 0 {
        return Some("ctime-with-minimal-checkstat");
    }
    None
}

fn classify(r: &Repo, only_gix: &[&String], only_git: &[&String]) -> String {
    let mut reasons: Vec<&'static str> = Vec::new();
    let mut unexplained: Option<(&String, bool)> = None;
    for (l, side) in only_gix.iter().map(|l| (*l, true)).chain(only_git.iter().map(|l| (*l, false))) {
        match known_reason(r, l, side) {
            Some(k) => reasons.push(k),
            None => {
                if unexplained.is_none() {
                    unexplained = Some((l, side));
                }
            }
        }
    }
    if let Some((l, side)) = unexplained {
        let letter = l.split(' ').next().unwrap_or("");
        let what = if letter == "?" || letter == "!" { "dirwalk" } else { "tracked" };
        return format!("{what}-{}-{}", if side { "gix-only" } else { "git-only" }, letter.replace('?', "untracked").replace('!', "ignored"));
    }
    reasons.sort();
    reasons[0].to_string()
}

pub fn prop(r: &Repo) -> Verdict {
    let b = Built::new(r);
    let gix = match b.gix_status(r) {
        Ok(v) => v,
        Err(e) => {
            // git must fail too, otherwise gix cannot produce a status where git can
            return match git_status(&b, r) {
                Ok(g) => Verdict::fail(format!("gix-error-{e}"), format!("git prints {g:?}")),
                Err(_) => Verdict::ok(false, "both-error"),
            };
        }
    };
    if r.opts.use_nsec {
        // git 2.39.5 as installed is built without USE_NSEC: nothing to compare with
        return Verdict::ok(false, "use-nsec-no-oracle");
    }
    let git = match git_status(&b, r) {
        Ok(v) => v,
        Err(e) => return Verdict::fail("git-error", e),
    };
    let gix = gix_reduced(&gix);
    if gix == git {
        let nontrivial = !git.is_empty();
        let class = if git.iter().any(|l| l.starts_with('?') || l.starts_with('!')) {
            if git.iter().any(|l| !(l.starts_with('?') || l.starts_with('!'))) {
                "agree-both"
            } else {
                "agree-dirwalk"
            }
        } else if nontrivial {
            "agree-tracked"
        } else {
            "agree-clean"
        };
        return Verdict::ok(nontrivial, class);
    }
    let only_gix: Vec<&String> = gix.iter().filter(|l| !git.contains(l)).collect();
    let only_git: Vec<&String> = git.iter().filter(|l| !gix.contains(l)).collect();
    Verdict::fail(classify(r, &only_gix, &only_git), format!("gix-only {only_gix:?} git-only {only_git:?}"))
}

/// The exclude rules for the pattern language of the generator (literal names, `*suffix`, anchoring, `dir/`, `!`),
/// including "everything below an excluded directory is excluded".
pub fn is_excluded(excl: &[u8], path: &[u8], is_dir: bool) -> bool {
    struct Pat {
        neg: bool,
        dir_only: bool,
        full: bool,
        star: bool,
        text: Vec<u8>,
    }
    let mut pats = Vec::new();
    for line in excl.split(|b| *b == b'\n') {
        if line.is_empty() || line[0] == b'#' {
            continue;
        }
        let (neg, l) = if line[0] == b'!' { (true, &line[1..]) } else { (false, line) };
        let (abs, l) = if l.first() == Some(&b'/') { (true, &l[1..]) } else { (false, l) };
        let (dir_only, l) = if l.last() == Some(&b'/') { (true, &l[..l.len() - 1]) } else { (false, l) };
        if l.is_empty() {
            continue;
        }
        let has_slash = l.contains(&b'/');
        let (star, l) = if l[0] == b'*' { (true, &l[1..]) } else { (false, l) };
        pats.push(Pat { neg, dir_only, full: abs || has_slash, star, text: l.to_vec() });
    }
    let own = |p: &[u8], is_dir: bool| -> Option<bool> {
        let base = p.rsplit(|b| *b == b'/').next().unwrap_or(p);
        pats.iter().rev().find_map(|pt| {
            if pt.dir_only && !is_dir {
                return None;
            }
            let subject = if pt.full { p } else { base };
            let m = if pt.star { subject.ends_with(&pt.text) } else { subject == pt.text.as_slice() };
            m.then_some(pt.neg)
        })
    };
    let mut dir_match = None;
    for (i, b) in path.iter().enumerate() {
        if *b == b'/' {
            if let Some(neg) = own(&path[..i], true) {
                dir_match = Some(neg);
            }
        }
    }
    let res = match dir_match {
        Some(false) => Some(false),
        Some(true) => own(path, is_dir).or(Some(true)),
        None => own(path, is_dir),
    };
    res == Some(false)
}

/// Git's rule for the same pattern language: the OUTERMOST ancestor directory with a positive match excludes
/// everything below it; negative matches of directories are forgotten.
pub fn is_excluded_git(excl: &[u8], path: &[u8], is_dir: bool) -> bool {
    for (i, b) in path.iter().enumerate() {
        if *b == b'/' && own_match(excl, &path[..i], true) == Some(false) {
            return true;
        }
    }
    own_match(excl, path, is_dir) == Some(false)
}

/// Some(negative?) for the last pattern matching `p` itself
fn own_match(excl: &[u8], p: &[u8], is_dir: bool) -> Option<bool> {
    let mut res = None;
    for line in excl.split(|b| *b == b'\n') {
        if line.is_empty() || line[0] == b'#' {
            continue;
        }
        let (neg, l) = if line[0] == b'!' { (true, &line[1..]) } else { (false, line) };
        let (abs, l) = if l.first() == Some(&b'/') { (true, &l[1..]) } else { (false, l) };
        let (dir_only, l) = if l.last() == Some(&b'/') { (true, &l[..l.len() - 1]) } else { (false, l) };
        if l.is_empty() || (dir_only && !is_dir) {
            continue;
        }
        let full = abs || l.contains(&b'/');
        let (star, l) = if l[0] == b'*' { (true, &l[1..]) } else { (false, l) };
        let base = p.rsplit(|b| *b == b'/').next().unwrap_or(p);
        let subject = if full { p } else { base };
        if if star { subject.ends_with(l) } else { subject == l } {
            res = Some(neg);
        }
    }
    res
}
