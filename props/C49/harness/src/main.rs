//! C49 — status agrees with git status.
//!
//! A case describes a whole small repository: options, index timestamp, exclude patterns, a list of
//! worktree nodes (files, executables, symlinks, directories, nested repositories) and a list of index
//! entries whose stat data is given relative to what `lstat` says about the worktree path.
//!   impl : builds the repository under /dev/shm, runs gix_status::index_as_worktree and gix_dir::walk on it
//!   prop : additionally runs `git status --porcelain=v2` on the very same directory and compares
//!   model: the Coq model gets the same description (no file system).
mod oracle;
mod repo;

use gixv_common::*;
use repo::*;

fn imp(c: &Case) -> String {
    let Some(r) = Repo::parse(c) else { return "?".into() };
    let b = Built::new(&r);
    let out = b.gix_status(&r);
    let full = b.gix_classify_all(&r);
    format!("{} | {}", show(&out), show(&full))
}

fn show(r: &Result<Vec<String>, String>) -> String {
    match r {
        Ok(v) if v.is_empty() => "-".into(),
        Ok(v) => v.join(" "),
        Err(e) => format!("ERR {e}"),
    }
}

fn prop(c: &Case) -> Verdict {
    let Some(r) = Repo::parse(c) else { return Verdict::ok(false, "unparsed") };
    oracle::prop(&r)
}

fn main() {
    main_with(Harness { gen: repo::gen, imp, prop, git: None, deadline: std::time::Duration::from_secs(180) });
}
