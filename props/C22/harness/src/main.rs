//! C22 harness: real gix_lock::{File, Marker} driven by scripts in a fresh temp dir.
//!
//! case:  script <op>*   (see coq/Run.v for the op list).  The model's "/" is the base directory
//! created per case, ROOT = "/R" is `<base>/R`, which is also the process' working directory while
//! the case runs.  `imp` prints the observable behaviour (op results, directory listings), `prop`
//! evaluates the property itself with plain-Rust oracles (byte-string suffix check, snapshots of the
//! directory tree before/after each op, inode comparison for double holds, a thread race).
use gix_lock::acquire::Fail;
use gixv_common::*;
use std::collections::BTreeMap;
use std::ffi::OsStr;
use std::io::Write;
use std::os::unix::ffi::OsStrExt;
use std::os::unix::fs::MetadataExt;
use std::path::{Path, PathBuf};
use std::sync::atomic::{AtomicUsize, Ordering};

// ------------------------------------------------------------------------------------------------
// generator

const PIECES: &[&[u8]] = &[
    b"a", b"b", b"res", b".", b"..", b".lock", b"lock", b"txt", b"\xff", b"\xfe\xff", b"\x80", b"\xc3\xa9", b"\xc3",
    b"\xf0\x9f", b"\xe2\x82\xac", b" ", b"-", b"~", b".a", b"a.", b"\xed\xa0\x80",
];
const DIRS: &[&[u8]] = &[b"a", b"b", b"d.x", b"\xff", b"a.lock", b"c"];
const WEIRD_DIRS: &[&[u8]] = &[b".", b"..", b"", b"..a", b"a..", b"..."];

fn gen_name(rng: &mut Rng) -> Vec<u8> {
    let n = rng.range(1, 4);
    let mut v = Vec::new();
    for _ in 0..n {
        let p: &[u8] = *rng.pick(PIECES);
        v.extend_from_slice(p);
    }
    v
}
fn gen_path(rng: &mut Rng) -> Vec<u8> {
    let mut v = Vec::new();
    if rng.chance(1, 30) {
        v.extend_from_slice(b"./");
    }
    let nd = match rng.below(10) {
        0..=3 => 0,
        4..=6 => 1,
        7..=8 => 2,
        _ => 3,
    };
    for _ in 0..nd {
        if rng.chance(1, 12) {
            let p: &[u8] = *rng.pick(WEIRD_DIRS);
            v.extend_from_slice(p);
        } else {
            let p: &[u8] = *rng.pick(DIRS);
            v.extend_from_slice(p);
        }
        v.push(b'/');
    }
    v.extend(gen_name(rng));
    if rng.chance(1, 15) {
        let t: &[u8] = *rng.pick(&[&b"/"[..], b"/.", b"//", b"/./"]);
        v.extend_from_slice(t);
    }
    v
}
fn script(ops: Vec<Vec<Vec<u8>>>) -> Case {
    let mut c = vec![tag("script")];
    for o in ops {
        c.extend(o);
    }
    c
}
fn op(name: &str, args: &[&[u8]]) -> Vec<Vec<u8>> {
    let mut v = vec![tag(name)];
    for a in args {
        v.push(a.to_vec());
    }
    v
}

fn gen(rng: &mut Rng, n: usize) -> Vec<Case> {
    let mut out = Vec::new();
    // boundary block: names the proof case-splits on, each acquired+committed and acquired+dropped
    let specials: Vec<&[u8]> = vec![
        b"res.\xff\xfe", b"..foo", b"x/..foo", b"foo.", b"foo..", b"...", b"....", b".foo", b".lock", b"a.lock",
        b"a.lock.lock", b"lock", b"..", b".", b"", b"a/..", b"a/.", b"a//b", b"./a", b"a/b/", b"a/b/.", b"a/./b",
        b"\xff", b".\xff", b"\xff.", b"a.\xc3\xa9", b"a.\xc3", b"a.b.c", b"a.b.\xff", b"..a.b", b"a/../b", b"../b",
        b"a b", b"a.lock/b", b"x.y/z", b"a/b/c/d", b"..y.z", b"a/..y", b".a.", b"a.\xed\xa0\x80",
    ];
    for s in &specials {
        out.push(script(vec![
            op("put", &[b"keep", b"K"]),
            op("acq", &[b"1", b"f", b".", s]),
            op("wr", &[b"1", b"new"]),
            op("commit", &[b"1"]),
        ]));
        out.push(script(vec![op("acq", &[b"1", b"m", b".", s]), op("acq", &[b"2", b"f", b".", s]), op("drop", &[b"1"])]));
        out.push(script(vec![op("acqrel", &[b"1", b"f", b".", s]), op("wr", &[b"1", b"z"]), op("close", &[b"1"]), op("commit", &[b"1"])]));
        out.push(script(vec![op("acq", &[b"1", b"f", b"", s])]));
    }
    // directory retry thresholds of create::Iter (25) and boundaries below the root
    for depth in [1usize, 2, 23, 24, 25, 26, 30] {
        let mut p = Vec::new();
        for _ in 0..depth {
            p.extend_from_slice(b"d/");
        }
        p.extend_from_slice(b"r");
        out.push(script(vec![op("acq", &[b"1", b"f", b".", &p]), op("drop", &[b"1"])]));
        out.push(script(vec![op("mkd", &[b"d"]), op("acq", &[b"1", b"f", b"d", &p]), op("wr", &[b"1", b"x"]), op("commit", &[b"1"])]));
    }
    // boundaries spelled differently from the ancestor of the lock path they denote; the boundary (and
    // the sandbox root above it) is empty once the created directories are gone
    for bnd in [&b"a/"[..], b"a//", b"a/.", b"./a", b"a/./", b"./", b".//", b"./.", b"a/b/..", b"."] {
        for res in [&b"a/d/x"[..], b"a/d/e/x", b"a/x"] {
            out.push(script(vec![op("acq", &[b"1", b"f", bnd, res]), op("drop", &[b"1"])]));
            out.push(script(vec![op("mkd", &[b"a"]), op("acq", &[b"1", b"m", bnd, res]), op("drop", &[b"1"])]));
            out.push(script(vec![op("acq", &[b"1", b"f", bnd, res]), op("wr", &[b"1", b"x"]), op("commit", &[b"1"])]));
        }
    }
    // a file in the way of a directory, a directory in the way of the resource / of the lock
    out.push(script(vec![op("put", &[b"a", b"x"]), op("acq", &[b"1", b"f", b".", b"a/b"]), op("acq", &[b"2", b"f", b".", b"a/b/c"])]));
    out.push(script(vec![op("mkd", &[b"r"]), op("acq", &[b"1", b"f", b".", b"r"]), op("commit", &[b"1"]), op("drop", &[b"1"])]));
    out.push(script(vec![op("mkd", &[b"r.lock"]), op("acq", &[b"1", b"f", b".", b"r"])]));
    // lock of a lock: resource "a" and resource "a.lock"
    out.push(script(vec![
        op("acq", &[b"1", b"f", b".", b"a"]),
        op("acq", &[b"2", b"f", b".", b"a.lock"]),
        op("wr", &[b"2", b"two"]),
        op("commit", &[b"2"]),
        op("wr", &[b"1", b"one"]),
        op("commit", &[b"1"]),
    ]));
    // stale lock removed by the environment while held
    out.push(script(vec![
        op("acq", &[b"1", b"f", b".", b"a"]),
        op("rm", &[b"a.lock"]),
        op("acq", &[b"2", b"m", b".", b"a"]),
        op("wr", &[b"1", b"lost"]),
        op("commit", &[b"1"]),
        op("put", &[b"a.lock", b"zz"]),
        op("put", &[b"other", b"zz"]),
    ]));
    // shared directories: the second holder keeps the directory alive
    out.push(script(vec![
        op("acq", &[b"1", b"f", b".", b"d/e/x"]),
        op("acq", &[b"2", b"m", b"d", b"d/e/y"]),
        op("drop", &[b"1"]),
        op("drop", &[b"2"]),
    ]));
    while out.len() < n {
        let npaths = rng.range(1, 3) as usize;
        let mut pool: Vec<Vec<u8>> = (0..npaths).map(|_| gen_path(rng)).collect();
        if rng.chance(1, 3) {
            // related names: x and x.lock, x and x/ (same file), x and dir/../x
            let p = pool[0].clone();
            let mut q = p.clone();
            match rng.below(3) {
                0 => q.extend_from_slice(b".lock"),
                1 => q.extend_from_slice(b"/"),
                _ => {
                    q = b"a/../".to_vec();
                    q.extend_from_slice(&p);
                }
            }
            pool.push(q);
        }
        let nops = rng.range(2, 12);
        let mut ops = Vec::new();
        let ids: [&[u8]; 4] = [b"1", b"2", b"3", b"4"];
        for _ in 0..nops {
            let id = *rng.pick(&ids);
            match rng.below(20) {
                0..=6 => {
                    let p = rng.pick(&pool).clone();
                    let kind: &[u8] = if rng.chance(1, 4) { b"m" } else { b"f" };
                    let bnd: &[u8] = match rng.below(9) {
                        0 => b"",
                        1 => b"a",
                        2 => b"a/b",
                        3 => *rng.pick(&[&b"a/"[..], b"a//", b"a/.", b"./a", b"a/b/", b"a/./b", b"a//b", b"./", b".//", b"./."]),
                        _ => b".",
                    };
                    let name = if rng.chance(1, 10) { "acqrel" } else { "acq" };
                    ops.push(op(name, &[id, kind, bnd, &p]));
                }
                7..=9 => ops.push(op("wr", &[id, &rng.word(b"xyz", 0, 3)])),
                10 => ops.push(op("close", &[id])),
                11..=13 => ops.push(op("commit", &[id])),
                14..=15 => ops.push(op("drop", &[id])),
                16..=17 => {
                    let mut p = rng.pick(&pool).clone();
                    if rng.chance(1, 3) {
                        p.extend_from_slice(b".lock");
                    }
                    ops.push(op("put", &[&p, &rng.word(b"pq", 0, 2)]));
                }
                18 => {
                    let p = rng.pick(&pool).clone();
                    // a directory prefix of a pool path, or the path itself
                    let cut = p.iter().rposition(|b| *b == b'/').unwrap_or(p.len());
                    let d = if rng.chance(2, 3) { p[..cut].to_vec() } else { p };
                    ops.push(op("mkd", &[&d]));
                }
                _ => {
                    let mut p = rng.pick(&pool).clone();
                    if rng.chance(2, 3) {
                        p.extend_from_slice(b".lock");
                    }
                    ops.push(op("rm", &[&p]));
                }
            }
        }
        out.push(script(ops));
    }
    out.truncate(n.max(1));
    out
}

// ------------------------------------------------------------------------------------------------
// guards (mirrors Run.v script_ok)

fn count_dotdot(p: &[u8]) -> usize {
    p.split(|b| *b == b'/').filter(|c| *c == b"..").count()
}
fn path_ok(p: &[u8]) -> bool {
    !p.contains(&0) && p.len() <= 200 && count_dotdot(p) <= 1
}
fn script_ok(c: &Case) -> bool {
    let mut i = 1;
    while i < c.len() {
        let opn = c[i].as_slice();
        match opn {
            b"acq" | b"acqrel" => {
                if i + 4 >= c.len() {
                    return true;
                }
                if !(path_ok(&c[i + 3]) && path_ok(&c[i + 4])) {
                    return false;
                }
                if opn == b"acqrel" && c[i + 4].first() == Some(&b'/') {
                    return false;
                }
                i += 5;
            }
            b"wr" | b"put" => {
                if i + 2 >= c.len() {
                    return true;
                }
                if opn == b"put" && !path_ok(&c[i + 1]) {
                    return false;
                }
                i += 3;
            }
            b"mkd" | b"rm" => {
                if i + 1 >= c.len() {
                    return true;
                }
                if !path_ok(&c[i + 1]) {
                    return false;
                }
                i += 2;
            }
            _ => {
                if i + 1 >= c.len() {
                    return true;
                }
                i += 2;
            }
        }
    }
    true
}

// ------------------------------------------------------------------------------------------------
// sandbox

static COUNTER: AtomicUsize = AtomicUsize::new(0);

struct Sandbox {
    base: PathBuf,
    root: PathBuf,
}
impl Sandbox {
    fn new() -> Sandbox {
        let tmp = std::fs::canonicalize(std::env::temp_dir()).expect("temp dir");
        let base = tmp.join(format!(
            "gixv-c22-{}-{}",
            std::process::id(),
            COUNTER.fetch_add(1, Ordering::SeqCst)
        ));
        let _ = std::fs::remove_dir_all(&base);
        let root = base.join("R");
        std::fs::create_dir_all(&root).expect("sandbox");
        std::env::set_current_dir(&root).expect("chdir");
        Sandbox { base, root }
    }
    fn rooted(&self, rel: &[u8]) -> PathBuf {
        let mut v = self.root.as_os_str().as_bytes().to_vec();
        v.push(b'/');
        v.extend_from_slice(rel);
        PathBuf::from(OsStr::from_bytes(&v))
    }
    fn show(&self, p: &Path) -> String {
        let b = p.as_os_str().as_bytes();
        let r = self.root.as_os_str().as_bytes();
        if b.starts_with(r) {
            format!("@{}", hexs(&b[r.len()..]))
        } else {
            format!("={}", hexs(b))
        }
    }
    /// every entry below the base directory except R itself: relative path -> None (dir) | Some(content)
    fn snapshot(&self) -> BTreeMap<Vec<u8>, Option<Vec<u8>>> {
        fn walk(dir: &Path, rel: &[u8], out: &mut BTreeMap<Vec<u8>, Option<Vec<u8>>>) {
            let Ok(rd) = std::fs::read_dir(dir) else { return };
            for e in rd.flatten() {
                let name = e.file_name();
                let mut r = rel.to_vec();
                if !r.is_empty() {
                    r.push(b'/');
                }
                r.extend_from_slice(name.as_bytes());
                let p = e.path();
                match e.file_type() {
                    Ok(t) if t.is_dir() => {
                        out.insert(r.clone(), None);
                        walk(&p, &r, out);
                    }
                    _ => {
                        out.insert(r, Some(std::fs::read(&p).unwrap_or_default()));
                    }
                }
            }
        }
        let mut m = BTreeMap::new();
        walk(&self.base, b"", &mut m);
        m
    }
    fn listing(&self) -> String {
        self.snapshot()
            .iter()
            .filter(|(k, _)| k.as_slice() != b"R")
            .map(|(k, v)| match v {
                None => format!("{}:d", hexs(k)),
                Some(c) => format!("{}:f:{}", hexs(k), hexs(c)),
            })
            .collect::<Vec<_>>()
            .join(",")
    }
}
impl Drop for Sandbox {
    fn drop(&mut self) {
        let _ = std::env::set_current_dir("/");
        let _ = std::fs::remove_dir_all(&self.base);
    }
}

enum Lock {
    File(gix_lock::File),
    Marker(gix_lock::Marker),
}
struct Held {
    id: Vec<u8>,
    lock: Lock,
    ino: u64,
    _pin: Option<std::fs::File>, // keeps the inode number from being reused while the handle lives
    // for the oracle
    resource: Vec<u8>,        // the resource path as given
    written: Vec<u8>,         // everything written through this handle
    tampered: bool,           // the environment removed/replaced the lock file
    boundary: Option<PathBuf>,
    created_dirs: Vec<Vec<u8>>, // directories (relative to base) that appeared during the acquire
}
impl Held {
    fn lock_path(&self) -> PathBuf {
        match &self.lock {
            Lock::File(f) => f.lock_path().to_owned(),
            Lock::Marker(m) => m.lock_path().to_owned(),
        }
    }
}

// ------------------------------------------------------------------------------------------------
// the oracle's own idea of "the resource path with .lock appended"

/// The resource path without trailing separators / `.` components, or None when it names no file.
fn oracle_trunc(p: &[u8]) -> Option<Vec<u8>> {
    let mut v = p.to_vec();
    loop {
        if v.len() > 1 && v.ends_with(b"/") {
            v.pop();
        } else if v.len() > 2 && v.ends_with(b"/.") {
            v.truncate(v.len() - 2);
        } else {
            break;
        }
    }
    let name = match v.iter().rposition(|b| *b == b'/') {
        Some(i) => &v[i + 1..],
        None => &v[..],
    };
    if name.is_empty() || name == b"." || name == b".." {
        None
    } else {
        Some(v)
    }
}
fn is_clean(p: &[u8]) -> bool {
    !p.is_empty() && p.split(|b| *b == b'/').all(|c| !c.is_empty() && c != b"." && c != b"..")
}

#[derive(Default)]
struct Report {
    outs: Vec<String>,
    fails: Vec<(String, String)>,
    nontrivial: bool,
    classes: Vec<&'static str>,
    first_locked: Option<(PathBuf, Option<PathBuf>)>,
}
impl Report {
    fn fail(&mut self, class: &str, detail: String) {
        self.fails.push((class.to_string(), detail));
    }
}

fn diff(
    a: &BTreeMap<Vec<u8>, Option<Vec<u8>>>,
    b: &BTreeMap<Vec<u8>, Option<Vec<u8>>>,
) -> Vec<(Vec<u8>, Option<Option<Vec<u8>>>, Option<Option<Vec<u8>>>)> {
    let mut d = Vec::new();
    for (k, v) in a {
        if b.get(k) != Some(v) {
            d.push((k.clone(), Some(v.clone()), b.get(k).cloned()));
        }
    }
    for (k, v) in b {
        if !a.contains_key(k) {
            d.push((k.clone(), None, Some(v.clone())));
        }
    }
    d
}

/// The entry below the base directory a path names, by lexical normalisation (no symlinks here; every
/// intermediate directory exists when this is used): drops empty and `.` components, `..` pops.
/// None when the path is not below the base directory.
fn norm_rel(sb: &Sandbox, p: &Path) -> Option<Vec<u8>> {
    let b = p.as_os_str().as_bytes();
    let base = sb.base.as_os_str().as_bytes();
    if !(b.starts_with(base) && b.get(base.len()) == Some(&b'/')) {
        return None;
    }
    let mut stack: Vec<&[u8]> = Vec::new();
    for c in b[base.len() + 1..].split(|x| *x == b'/') {
        match c {
            b"" | b"." => {}
            b".." => {
                stack.pop()?;
            }
            c => stack.push(c),
        }
    }
    if stack.is_empty() {
        None
    } else {
        Some(stack.join(&b'/'))
    }
}

fn rel_to_base(sb: &Sandbox, p: &Path) -> Option<Vec<u8>> {
    // lexical: only for paths without "." / ".." / empty components below the base
    let b = p.as_os_str().as_bytes();
    let base = sb.base.as_os_str().as_bytes();
    if b.starts_with(base) && b.get(base.len()) == Some(&b'/') && is_clean(&b[base.len() + 1..]) {
        Some(b[base.len() + 1..].to_vec())
    } else {
        None
    }
}

fn run_script(c: &Case, check: bool) -> Report {
    let mut rep = Report::default();
    let sb = Sandbox::new();
    let mut held: Vec<Held> = Vec::new();
    let mut i = 1;
    let arg = |i: usize| -> &[u8] { c.get(i).map(|v| v.as_slice()).unwrap_or(&[]) };
    while i < c.len() {
        let opn = c[i].as_slice();
        match opn {
            b"acq" | b"acqrel" => {
                if i + 4 >= c.len() {
                    rep.outs.push("?".into());
                    break;
                }
                let (id, kind, bnd, rel) = (arg(i + 1), arg(i + 2), arg(i + 3), arg(i + 4));
                i += 5;
                if held.iter().any(|h| h.id == id) {
                    rep.outs.push("dup".into());
                    continue;
                }
                let path = if opn == b"acq" { sb.rooted(rel) } else { PathBuf::from(OsStr::from_bytes(rel)) };
                let boundary = if bnd.is_empty() { None } else { Some(sb.rooted(bnd)) };
                let before = if check { sb.snapshot() } else { BTreeMap::new() };
                let res = if kind == b"m" {
                    gix_lock::Marker::acquire_to_hold_resource(&path, Fail::Immediately, boundary.clone()).map(Lock::Marker)
                } else {
                    gix_lock::File::acquire_to_update_resource(&path, Fail::Immediately, boundary.clone()).map(Lock::File)
                };
                // the oracle's expectation, on the absolute byte path
                let abs: Vec<u8> = if opn == b"acq" {
                    path.as_os_str().as_bytes().to_vec()
                } else {
                    let mut v = sb.root.as_os_str().as_bytes().to_vec();
                    v.push(b'/');
                    v.extend_from_slice(rel);
                    v
                };
                let want_res = oracle_trunc(path.as_os_str().as_bytes());
                match res {
                    Ok(lock) => {
                        let (lp, rp) = match &lock {
                            Lock::File(f) => (f.lock_path().to_owned(), f.resource_path()),
                            Lock::Marker(m) => (m.lock_path().to_owned(), m.resource_path()),
                        };
                        rep.outs.push(format!("ok:{}:{}", sb.show(&lp), sb.show(&rp)));
                        let md = std::fs::symlink_metadata(&lp);
                        let ino = md.as_ref().map(|m| m.ino()).unwrap_or(0);
                        let pin = std::fs::File::open(&lp).ok();
                        let mut created_dirs = Vec::new();
                        if check {
                            rep.nontrivial = true;
                            match &want_res {
                                None => rep.fail("lock-without-file-name", format!("{:?}", path)),
                                Some(w) => {
                                    let mut wl = w.clone();
                                    wl.extend_from_slice(b".lock");
                                    if lp.as_os_str().as_bytes() != wl.as_slice() {
                                        rep.fail("lock-path-not-suffix", format!("resource {:?} lock {:?}", path, lp));
                                    }
                                    if rp.as_os_str().as_bytes() != w.as_slice() {
                                        rep.fail("resource-path-differs", format!("resource {:?} resource_path() {:?}", path, rp));
                                    }
                                }
                            }
                            match &md {
                                Ok(m) if m.is_file() => {}
                                _ => rep.fail("lock-file-not-on-disk", format!("{:?}", lp)),
                            }
                            // exclusivity: nobody else holds this very file
                            if let Some(o) = held.iter().find(|h| h.ino == ino && ino != 0) {
                                rep.fail("double-hold", format!("{:?} held by {:?} and {:?}", lp, o.id, id));
                            }
                            let after = sb.snapshot();
                            let mut files = 0;
                            for (k, a, b) in diff(&before, &after) {
                                match (a, b) {
                                    (None, Some(None)) => created_dirs.push(k),
                                    (None, Some(Some(content))) if content.is_empty() => files += 1,
                                    other => rep.fail("acquire-touches-other-entries", format!("{:?} {:?}", String::from_utf8_lossy(&k), other)),
                                }
                            }
                            if files != 1 {
                                rep.fail("acquire-creates-one-file", format!("{files} new files"));
                            }
                            if rep.first_locked.is_none() && is_clean(&abs[1..]) {
                                rep.first_locked = Some((PathBuf::from(OsStr::from_bytes(&abs)), boundary.clone()));
                            }
                        }
                        held.push(Held {
                            id: id.to_vec(),
                            lock,
                            ino,
                            _pin: pin,
                            resource: path.as_os_str().as_bytes().to_vec(),
                            written: Vec::new(),
                            tampered: false,
                            boundary,
                            created_dirs,
                        });
                    }
                    Err(e) => {
                        let locked = matches!(e, gix_lock::acquire::Error::PermanentlyLocked { .. });
                        rep.outs.push(if locked { "locked" } else { "io" }.into());
                        if check {
                            if let Some(w) = &want_res {
                                let mut wl = w.clone();
                                wl.extend_from_slice(b".lock");
                                let wl = PathBuf::from(OsStr::from_bytes(&wl));
                                // the lock must have been impossible to take: try it ourselves
                                match std::fs::OpenOptions::new().write(true).create_new(true).open(&wl) {
                                    Ok(_) => {
                                        let _ = std::fs::remove_file(&wl);
                                        rep.nontrivial = true;
                                        rep.fail("acquire-fails-on-free-resource", format!("{:?}: {}", path, if locked { "locked" } else { "io" }));
                                    }
                                    Err(err) => {
                                        if locked && err.kind() != std::io::ErrorKind::AlreadyExists {
                                            // a file in the way of a directory is reported as "locked" too
                                            rep.classes.push("locked-by-obstacle");
                                        } else if locked {
                                            rep.nontrivial = true;
                                            rep.classes.push("locked");
                                        }
                                    }
                                }
                            } else {
                                rep.classes.push("no-file-name");
                            }
                        }
                    }
                }
            }
            b"wr" => {
                if i + 2 >= c.len() {
                    rep.outs.push("?".into());
                    break;
                }
                let (id, data) = (arg(i + 1), arg(i + 2));
                i += 3;
                match held.iter_mut().find(|h| h.id == id) {
                    None => rep.outs.push("nohandle".into()),
                    Some(h) => match &mut h.lock {
                        Lock::File(f) => {
                            let r = f.with_mut(|out| out.write_all(data));
                            h.written.extend_from_slice(data);
                            rep.outs.push(if r.is_ok() { "ok" } else { "err" }.into());
                        }
                        Lock::Marker(_) => rep.outs.push("notfile".into()),
                    },
                }
            }
            b"close" => {
                if i + 1 >= c.len() {
                    rep.outs.push("?".into());
                    break;
                }
                let id = arg(i + 1);
                i += 2;
                match held.iter().position(|h| h.id == id) {
                    None => rep.outs.push("nohandle".into()),
                    Some(pos) => {
                        if matches!(held[pos].lock, Lock::Marker(_)) {
                            rep.outs.push("notfile".into());
                        } else {
                            let mut h = held.remove(pos);
                            let Lock::File(f) = h.lock else { unreachable!() };
                            match f.close() {
                                Ok(m) => {
                                    h.lock = Lock::Marker(m);
                                    held.insert(pos, h);
                                    rep.outs.push("ok".into());
                                }
                                Err(_) => rep.outs.push("closeerr".into()),
                            }
                        }
                    }
                }
            }
            b"commit" => {
                if i + 1 >= c.len() {
                    rep.outs.push("?".into());
                    break;
                }
                let id = arg(i + 1);
                i += 2;
                match held.iter().position(|h| h.id == id) {
                    None => rep.outs.push("nohandle".into()),
                    Some(pos) => {
                        let mut h = held.remove(pos);
                        let lp = h.lock_path();
                        let before = if check { sb.snapshot() } else { BTreeMap::new() };
                        let r = match h.lock {
                            Lock::File(f) => f.commit().map(|(p, _)| p).map_err(|e| Lock::File(e.instance)),
                            Lock::Marker(m) => m.commit().map_err(|e| Lock::Marker(e.instance)),
                        };
                        match r {
                            Ok(p) => {
                                rep.outs.push(format!("ok:{}", sb.show(&p)));
                                if check {
                                    rep.nontrivial = true;
                                    rep.classes.push("commit");
                                    let want = oracle_trunc(&h.resource);
                                    if want.as_deref() != Some(p.as_os_str().as_bytes()) {
                                        rep.fail("commit-path-differs", format!("{:?} vs {:?}", String::from_utf8_lossy(&h.resource), p));
                                    }
                                    let after = sb.snapshot();
                                    let lrel = norm_rel(&sb, &lp);
                                    let rrel = norm_rel(&sb, &p);
                                    if let (Some(lrel), Some(rrel)) = (lrel, rrel) {
                                        // exactly: lock file gone, resource = what the lock file held
                                        let lock_content = before.get(&lrel).cloned().flatten();
                                        for (k, a, b) in diff(&before, &after) {
                                            if k == lrel && b.is_none() {
                                                continue;
                                            }
                                            if k == rrel && b.as_ref().map(|x| x.as_ref()) == Some(lock_content.as_ref()) {
                                                continue;
                                            }
                                            rep.fail("commit-touches-other-entries", format!("{:?}: {:?} -> {:?}", String::from_utf8_lossy(&k), a, b));
                                        }
                                        if !h.tampered && lock_content.as_deref() != Some(&h.written[..]) {
                                            rep.fail("commit-content", format!("lock held {:?}, written {:?}", lock_content, h.written));
                                        }
                                        if after.get(&rrel).cloned().flatten() != lock_content {
                                            rep.fail("commit-does-not-replace-resource", format!("{:?}", after.get(&rrel)));
                                        }
                                        if lrel != rrel && after.contains_key(&lrel) {
                                            rep.fail("commit-leaves-lock", String::new());
                                        }
                                    }
                                }
                            }
                            Err(lock) => {
                                rep.outs.push("err".into());
                                if check {
                                    let after = sb.snapshot();
                                    if !diff(&before, &after).is_empty() {
                                        rep.fail("failed-commit-changes-disk", String::new());
                                    }
                                }
                                h.lock = lock;
                                held.insert(pos, h);
                            }
                        }
                    }
                }
            }
            b"drop" => {
                if i + 1 >= c.len() {
                    rep.outs.push("?".into());
                    break;
                }
                let id = arg(i + 1);
                i += 2;
                match held.iter().position(|h| h.id == id) {
                    None => rep.outs.push("nohandle".into()),
                    Some(pos) => {
                        let h = held.remove(pos);
                        let before = if check { sb.snapshot() } else { BTreeMap::new() };
                        let lp = h.lock_path();
                        let (resource, tampered, boundary, created_dirs) = (h.resource.clone(), h.tampered, h.boundary.clone(), h.created_dirs.clone());
                        drop(h);
                        rep.outs.push("ok".into());
                        if check {
                            check_drop(&sb, &mut rep, &before, &lp, &resource, tampered, boundary.as_deref(), &created_dirs);
                        }
                    }
                }
            }
            b"put" => {
                if i + 2 >= c.len() {
                    rep.outs.push("?".into());
                    break;
                }
                let (rel, data) = (arg(i + 1), arg(i + 2));
                i += 3;
                let p = sb.rooted(rel);
                let busy = match std::fs::metadata(&p) {
                    Ok(m) if m.is_file() => held.iter().any(|h| h.ino == m.ino()),
                    _ => false,
                };
                if busy {
                    rep.outs.push("busy".into());
                } else {
                    rep.outs.push(if std::fs::write(&p, data).is_ok() { "ok" } else { "err" }.into());
                }
            }
            b"mkd" => {
                if i + 1 >= c.len() {
                    rep.outs.push("?".into());
                    break;
                }
                let p = sb.rooted(arg(i + 1));
                i += 2;
                rep.outs.push(if std::fs::create_dir(&p).is_ok() { "ok" } else { "err" }.into());
            }
            b"rm" => {
                if i + 1 >= c.len() {
                    rep.outs.push("?".into());
                    break;
                }
                let p = sb.rooted(arg(i + 1));
                i += 2;
                let ino = std::fs::symlink_metadata(&p).map(|m| m.ino()).unwrap_or(0);
                let ok = std::fs::remove_file(&p).is_ok();
                if ok {
                    for h in held.iter_mut().filter(|h| h.ino == ino) {
                        h.tampered = true;
                    }
                }
                rep.outs.push(if ok { "ok" } else { "err" }.into());
            }
            _ => {
                rep.outs.push("?".into());
                break;
            }
        }
        // a commit of another handle may have replaced a held lock file: that holder is tampered with
        if check {
            for h in held.iter_mut() {
                let cur = std::fs::symlink_metadata(h.lock_path()).map(|m| m.ino()).unwrap_or(0);
                if cur != h.ino {
                    h.tampered = true;
                }
            }
        }
    }
    let l1 = sb.listing();
    // drop the remaining handles in acquisition order
    while !held.is_empty() {
        let h = held.remove(0);
        let before = if check { sb.snapshot() } else { BTreeMap::new() };
        let lp = h.lock_path();
        let (resource, tampered, boundary, created_dirs) = (h.resource.clone(), h.tampered, h.boundary.clone(), h.created_dirs.clone());
        drop(h);
        if check {
            check_drop(&sb, &mut rep, &before, &lp, &resource, tampered, boundary.as_deref(), &created_dirs);
        }
    }
    let l2 = sb.listing();
    let ops = rep.outs.join(";");
    rep.outs = vec![format!("{ops} | {l1} | {l2}")];
    if check {
        if let Some((path, boundary)) = rep.first_locked.clone() {
            if std::env::var_os("GIXV_C22_NORACE").is_none() {
                race(&sb, &mut rep, &path, boundary);
            }
        }
    }
    rep
}

/// Dropping an uncommitted lock: the lock file goes away, nothing else changes except that empty
/// directories between the lock file and the boundary (exclusive) may be removed, and every directory
/// the acquire created is gone unless something else lives in it.
#[allow(clippy::too_many_arguments)]
fn check_drop(
    sb: &Sandbox,
    rep: &mut Report,
    before: &BTreeMap<Vec<u8>, Option<Vec<u8>>>,
    lp: &Path,
    resource: &[u8],
    tampered: bool,
    boundary: Option<&Path>,
    created_dirs: &[Vec<u8>],
) {
    rep.nontrivial = true;
    rep.classes.push("drop");
    let after = sb.snapshot();
    // whatever is dropped: the sandbox root, the boundary directory and everything above them stay
    if !sb.root.is_dir() || !sb.base.is_dir() {
        rep.fail("drop-removes-boundary-or-above", format!("sandbox root gone after dropping {:?}", lp));
    }
    let brel = boundary.and_then(|b| norm_rel(sb, b));
    let boundary_dotdot = boundary.map(|b| count_dotdot(b.as_os_str().as_bytes()) > 0).unwrap_or(false);
    let lock_dotdot = count_dotdot(lp.as_os_str().as_bytes()) > 0;
    if let Some(br) = &brel {
        if before.get(br) == Some(&None) && after.get(br) != Some(&None) {
            // a resource spelled `<boundary>/../<boundary>/x` is a separate, known class (findings.txt)
            rep.fail(
                if lock_dotdot || boundary_dotdot { "dotdot-resource-removes-boundary" } else { "drop-removes-boundary-or-above" },
                format!("boundary {:?} gone after dropping {:?}", boundary, lp),
            );
        }
    }
    let clean_lock = rel_to_base(sb, lp).is_some();
    let lexical = clean_lock && !boundary_dotdot;
    let Some(lrel) = norm_rel(sb, lp) else {
        // a lock path leaving the base directory: only "no file is modified or created, the lock file is gone"
        for (k, a, b) in diff(before, &after) {
            match (&a, &b) {
                (Some(Some(_)), None) | (Some(None), None) => {}
                _ => rep.fail("drop-changes-entries", format!("{:?}: {:?} -> {:?}", String::from_utf8_lossy(&k), a, b)),
            }
        }
        if !tampered && std::fs::symlink_metadata(lp).is_ok() {
            rep.fail("drop-leaves-lock", format!("{:?}", lp));
        }
        return;
    };
    for (k, a, b) in diff(before, &after) {
        if k == lrel && b.is_none() && !tampered {
            continue;
        }
        // removed empty directory strictly between boundary and lock file
        if a == Some(None) && b.is_none() {
            if let Some(br) = &brel {
                let below_boundary = k.len() > br.len() && k.starts_with(br) && k[br.len()] == b'/';
                let above_lock = lrel.len() > k.len() && lrel.starts_with(&k) && lrel[k.len()] == b'/';
                // never the boundary itself or a directory above it, however the boundary is spelled
                let boundary_or_above = *br == k || (br.len() > k.len() && br.starts_with(&k) && br[k.len()] == b'/');
                // with `..` in the lock path or the boundary, "below" is not a lexical notion
                if above_lock && !boundary_or_above && (below_boundary || !lexical) {
                    continue;
                }
            }
        }
        if tampered && k == lrel {
            continue;
        }
        rep.fail("drop-changes-entries", format!("{:?}: {:?} -> {:?}", String::from_utf8_lossy(&k), a, b));
    }
    // (a lock path through `dir/..` cannot be unlinked once somebody removed `dir`: judge it by its own spelling)
    let still_there = if clean_lock { after.contains_key(&lrel) } else { std::fs::symlink_metadata(lp).is_ok() };
    if !tampered && still_there {
        rep.fail("drop-leaves-lock", format!("{:?}", lp));
    }
    // the resource itself is untouched: covered by the diff above (any change of it is reported)
    let _ = resource;
    if brel.is_some() && lexical {
        for d in created_dirs {
            if after.contains_key(d) {
                let prefix = {
                    let mut p = d.clone();
                    p.push(b'/');
                    p
                };
                let occupied = after.keys().any(|k| k.starts_with(&prefix));
                let in_range = brel.as_ref().map(|br| d.len() > br.len() && d.starts_with(br) && d[br.len()] == b'/').unwrap_or(false);
                if !occupied && in_range {
                    rep.fail("drop-leaves-created-directory", format!("{:?}", String::from_utf8_lossy(d)));
                }
            }
        }
    }
}

/// N threads race for the same resource; a counter incremented while the lock is held must never
/// be seen above zero by a new holder.
fn race(sb: &Sandbox, rep: &mut Report, path: &Path, boundary: Option<PathBuf>) {
    let _ = sb;
    let holders = AtomicUsize::new(0);
    let violations = AtomicUsize::new(0);
    let wins = AtomicUsize::new(0);
    std::thread::scope(|s| {
        for t in 0..4usize {
            let (holders, violations, wins) = (&holders, &violations, &wins);
            let boundary = boundary.clone();
            s.spawn(move || {
                for round in 0..8usize {
                    if let Ok(mut f) = gix_lock::File::acquire_to_update_resource(path, Fail::Immediately, boundary.clone()) {
                        if holders.fetch_add(1, Ordering::SeqCst) != 0 {
                            violations.fetch_add(1, Ordering::SeqCst);
                        }
                        wins.fetch_add(1, Ordering::SeqCst);
                        let _ = f.with_mut(|o| o.write_all(&[t as u8, round as u8]));
                        std::thread::yield_now();
                        holders.fetch_sub(1, Ordering::SeqCst);
                        if (t + round) % 2 == 0 {
                            let _ = f.commit();
                        } else {
                            drop(f);
                        }
                    } else {
                        std::thread::yield_now();
                    }
                }
            });
        }
    });
    if violations.load(Ordering::SeqCst) != 0 {
        rep.fail("race-two-holders", format!("{} overlaps on {:?}", violations.load(Ordering::SeqCst), path));
    }
    if wins.load(Ordering::SeqCst) > 0 {
        rep.classes.push("race");
    }
}

fn imp(c: &Case) -> String {
    if f_str(c, 0) != b"script" {
        return "?".into();
    }
    if !script_ok(c) {
        return "skip".into();
    }
    let r = std::panic::catch_unwind(|| run_script(c, false));
    match r {
        Ok(mut rep) => rep.outs.pop().unwrap_or_default(),
        Err(e) => {
            let _ = std::env::set_current_dir("/");
            std::panic::resume_unwind(e)
        }
    }
}

fn prop(c: &Case) -> Verdict {
    if f_str(c, 0) != b"script" || !script_ok(c) {
        return Verdict::ok(false, "skip");
    }
    let rep = run_script(c, true);
    if let Some((class, detail)) = rep.fails.first() {
        return Verdict::fail(class.clone(), detail.clone());
    }
    let class = if rep.classes.contains(&"commit") {
        "commit"
    } else if rep.classes.contains(&"drop") {
        "drop"
    } else if rep.classes.contains(&"locked") {
        "locked"
    } else if rep.classes.contains(&"no-file-name") {
        "no-file-name"
    } else {
        "other"
    };
    Verdict::ok(rep.nontrivial, class)
}

fn main() {
    main_with(Harness { gen, imp, prop, git: None, deadline: std::time::Duration::from_secs(20) });
}
