(* C22 — executable model of gix-lock naming + acquire/commit/drop on an abstract unix file system.
   Sources (as they ARE at the pinned tree, after the three fix: commits named in NOTES.md):
     gix-lock/src/acquire.rs   add_lock_suffix, lock_with_mode (Fail::Immediately), dir_cleanup
     gix-lock/src/file.rs      strip_lock_suffix, lock_path, resource_path, close
     gix-lock/src/commit.rs    File::commit, Marker::commit
     gix-tempfile/src/handle.rs  at_path (prefix/suffix derivation, parent, resolve, create_new), persist, Drop
     gix-tempfile/src/forksafe.rs drop_impl;  gix-tempfile/src/lib.rs AutoRemove::execute_best_effort
     gix-fs/src/dir/create.rs  Iter (retries 5/25), all;  gix-fs/src/dir/remove.rs Iter, empty_upward_until_boundary
   Library code modelled here (validated only by the correspondence run):
     std::path (unix): Components::next_back / trim_right / forward components, Path::{file_name, file_stem,
       extension, parent, starts_with, ==, join, is_absolute, with_extension}, PathBuf::set_extension
       (including the `_with_extension` slice [..len - old_ext.len()] as std does it);
     str::from_utf8 validity, String::from_utf8_lossy, str::is_char_boundary;
     tempfile 3.12 Builder::tempfile_in with rand_bytes(0): one create_new attempt at cwd.join(dir.join(prefix++suffix));
     the kernel: path walk (empty/"."/".." components, ENOENT/ENOTDIR), mkdir, rmdir, open(O_CREAT|O_EXCL),
       unlink, rename, stat on a tree of directories and regular files (no links, no permissions).
   NO proofs in this file. *)
From GixV.Base Require Import Bytes Outcome.

Definition is_sep (b : byte) : bool := beqb b x2f.
Definition is_dot (b : byte) : bool := beqb b x2e.
Definition DOT_LOCK : bytes := bs ".lock".

(* ---------------------------------------------------------------------------------------------- *)
(* slices *)

(* [slice::rsplitn(2, f)]: (Some before, after) split at the LAST element satisfying f; (None, l) if none *)
Fixpoint rsplit_at (f : byte -> bool) (l : bytes) : option bytes * bytes :=
  match l with
  | [] => (None, [])
  | b :: r =>
      match rsplit_at f r with
      | (Some bef, aft) => (Some (b :: bef), aft)
      | (None, aft) => if f b then (Some [], aft) else (None, b :: aft)
      end
  end.

(* [slice::split(f)]: n separators give n+1 pieces *)
Fixpoint split_on (f : byte -> bool) (l : bytes) : list bytes :=
  match l with
  | [] => [[]]
  | b :: r =>
      if f b then [] :: split_on f r
      else match split_on f r with
           | c :: cs => (b :: c) :: cs
           | [] => [[b]]
           end
  end.

Fixpoint list_eqb {A} (e : A -> A -> bool) (a b : list A) : bool :=
  match a, b with
  | [], [] => true
  | x :: a', y :: b' => e x y && list_eqb e a' b'
  | _, _ => false
  end.
Fixpoint is_prefix {A} (e : A -> A -> bool) (pre l : list A) : bool :=
  match pre, l with
  | [], _ => true
  | x :: p', y :: l' => e x y && is_prefix e p' l'
  | _ :: _, [] => false
  end.

(* ---------------------------------------------------------------------------------------------- *)
(* std::path, unix *)

Inductive comp := CRoot | CCur | CParent | CNormal (n : bytes).
Definition comp_eqb (a b : comp) : bool :=
  match a, b with
  | CRoot, CRoot | CCur, CCur | CParent, CParent => true
  | CNormal x, CNormal y => bytes_eqb x y
  | _, _ => false
  end.

Definition has_root (p : bytes) : bool := match p with b :: _ => is_sep b | [] => false end.
Definition include_cur_dir (p : bytes) : bool :=
  if has_root p then false
  else match p with
       | [d] => is_dot d
       | d :: b :: _ => is_dot d && is_sep b
       | [] => false
       end.
Definition len_before_body (p : bytes) : nat :=
  ((if has_root p then 1 else 0) + (if include_cur_dir p then 1 else 0))%nat.

(* Components::parse_single_component (no verbatim prefixes on unix) *)
Definition classify (c : bytes) : option comp :=
  if bytes_eqb c (bs ".") then None
  else if bytes_eqb c (bs "..") then Some CParent
  else match c with [] => None | _ => Some (CNormal c) end.

(* The Body part of Components::next_back, on the REVERSED body (path minus its first
   len_before_body bytes).  [acc] is the component being collected (forward order).  Returns the
   reversed body up to AND INCLUDING the separator in front of the component found ([] when the
   component starts the body), and the component.  None: the body holds no component. *)
Fixpoint back_scan (rb : bytes) (acc : bytes) : option (bytes * comp) :=
  match rb with
  | [] => match classify acc with Some k => Some ([], k) | None => None end
  | b :: r =>
      if is_sep b then
        match classify acc with
        | Some k => Some (rb, k)
        | None => back_scan r []
        end
      else back_scan r (b :: acc)
  end.

Definition path_pre (p : bytes) : bytes := firstn (len_before_body p) p.
Definition path_body (p : bytes) : bytes := skipn (len_before_body p) p.

(* Components::next_back on a fresh iterator: (path slice remaining in the iterator, component) *)
Definition next_back (p : bytes) : option (bytes * comp) :=
  match back_scan (rev (path_body p)) [] with
  | Some (rbs, k) => Some (path_pre p ++ rev (tl rbs), k)
  | None =>
      if has_root p then Some ([], CRoot)
      else if include_cur_dir p then Some ([], CCur)
      else None
  end.

(* bytes in front of the file name, and the file name (the last component if it is Normal) *)
Definition file_prefix (p : bytes) : option (bytes * bytes) :=
  match back_scan (rev (path_body p)) [] with
  | Some (rbs, CNormal n) => Some (path_pre p ++ rev rbs, n)
  | _ => None
  end.
Definition file_name (p : bytes) : option bytes := option_map snd (file_prefix p).

(* Components::trim_right on the reversed body: drop trailing separators and "." components *)
Fixpoint trim_scan (rb acc keep : bytes) : bytes :=
  match rb with
  | [] => match classify acc with Some _ => keep | None => [] end
  | b :: r =>
      if is_sep b then
        match classify acc with
        | Some _ => keep
        | None => trim_scan r [] r
        end
      else trim_scan r (b :: acc) keep
  end.

(* Path::parent *)
Definition path_parent (p : bytes) : option bytes :=
  match back_scan (rev (path_body p)) [] with
  | Some (rbs, (CNormal _ | CParent)) =>
      let r := tl rbs in Some (path_pre p ++ rev (trim_scan r [] r))
  | Some (_, _) => None     (* not produced by the body *)
  | None =>
      if has_root p then None
      else if include_cur_dir p then Some []
      else None
  end.

(* forward components: what Path == and Path::starts_with compare *)
Definition components (p : bytes) : list comp :=
  (if has_root p then [CRoot] else if include_cur_dir p then [CCur] else []) ++
  flat_map (fun c => match classify c with Some k => [k] | None => [] end)
           (split_on is_sep (path_body p)).
Definition path_eq (a b : bytes) : bool := list_eqb comp_eqb (components a) (components b).
Definition path_starts_with (p base : bytes) : bool := is_prefix comp_eqb (components base) (components p).
Definition is_absolute (p : bytes) : bool := has_root p.

(* rsplit_file_at_dot: (file_stem, extension) of a file name *)
Definition rsplit_file_at_dot (f : bytes) : option bytes * option bytes :=
  if bytes_eqb f (bs "..") then (Some f, None)
  else match rsplit_at is_dot f with
       | (None, aft) => (Some aft, None)
       | (Some [], _) => (Some f, None)
       | (Some bef, aft) => (Some bef, Some aft)
       end.
Definition file_stem (p : bytes) : option bytes :=
  match file_name p with Some f => fst (rsplit_file_at_dot f) | None => None end.
Definition extension (p : bytes) : option bytes :=
  match file_name p with Some f => snd (rsplit_file_at_dot f) | None => None end.

(* PathBuf::set_extension: panics when the extension holds a separator; unchanged without a file name;
   otherwise truncate right after the stem and append "." ++ ext unless ext is empty *)
Definition set_extension (p ext : bytes) : outcome bytes unit :=
  if existsb is_sep ext then Panic
  else match file_prefix p with
       | None => Ok p
       | Some (front, f) =>
           match fst (rsplit_file_at_dot f) with
           | None => Ok p
           | Some stem =>
               let base := front ++ stem in
               Ok (match ext with [] => base | _ => base ++ x2e :: ext end)
           end
       end.

(* Path::with_extension as std implements it: copy self[.. len - old_extension.len()] (or all of self),
   then set_extension on the copy *)
Definition with_extension (p ext : bytes) : outcome bytes unit :=
  let slice := match extension p with
               | None => p
               | Some prev => firstn (length p - length prev) p
               end in
  set_extension slice ext.

(* PathBuf::push / Path::join *)
Definition path_join (base q : bytes) : bytes :=
  if is_absolute q then q
  else match base with
       | [] => q
       | _ => if is_sep (last base x00) then base ++ q else base ++ x2f :: q
       end.

(* ---------------------------------------------------------------------------------------------- *)
(* UTF-8 (core::str::from_utf8 validity, String::from_utf8_lossy, str::is_char_boundary) *)

Local Open Scope N_scope.
Definition bN (b : byte) : N := b2N b.
Definition in_range (lo hi : N) (b : byte) : bool := N.leb lo (bN b) && N.leb (bN b) hi.
Definition is_cont (b : byte) : bool := in_range 128 191 b.
(* second byte of a 3-byte / 4-byte sequence, depending on the first *)
Definition ok3 (b c : byte) : bool :=
  let x := bN b in
  if N.eqb x 224 then in_range 160 191 c
  else if N.leb 225 x && N.leb x 236 then in_range 128 191 c
  else if N.eqb x 237 then in_range 128 159 c
  else if N.leb 238 x && N.leb x 239 then in_range 128 191 c
  else false.
Definition ok4 (b c : byte) : bool :=
  let x := bN b in
  if N.eqb x 240 then in_range 144 191 c
  else if N.leb 241 x && N.leb x 243 then in_range 128 191 c
  else if N.eqb x 244 then in_range 128 143 c
  else false.
(* utf8_char_width *)
Definition char_width (b : byte) : N :=
  let x := bN b in
  if N.ltb x 128 then 1
  else if N.leb 194 x && N.leb x 223 then 2
  else if N.leb 224 x && N.leb x 239 then 3
  else if N.leb 240 x && N.leb x 244 then 4
  else 0.
Definition REPL : bytes := [xef; xbf; xbd].

(* Utf8Chunks: the invalid part of a chunk is the maximal prefix of an ill-formed sequence *)
Fixpoint utf8_lossy (l : bytes) : bytes :=
  match l with
  | [] => []
  | b :: r =>
      let w := char_width b in
      if N.eqb w 1 then b :: utf8_lossy r
      else if N.eqb w 2 then
        match r with
        | c1 :: r1 => if is_cont c1 then b :: c1 :: utf8_lossy r1 else REPL ++ utf8_lossy r
        | [] => REPL
        end
      else if N.eqb w 3 then
        match r with
        | c1 :: r1 =>
            if ok3 b c1 then
              match r1 with
              | c2 :: r2 => if is_cont c2 then b :: c1 :: c2 :: utf8_lossy r2 else REPL ++ utf8_lossy r1
              | [] => REPL
              end
            else REPL ++ utf8_lossy r
        | [] => REPL
        end
      else if N.eqb w 4 then
        match r with
        | c1 :: r1 =>
            if ok4 b c1 then
              match r1 with
              | c2 :: r2 =>
                  if is_cont c2 then
                    match r2 with
                    | c3 :: r3 => if is_cont c3 then b :: c1 :: c2 :: c3 :: utf8_lossy r3 else REPL ++ utf8_lossy r2
                    | [] => REPL
                    end
                  else REPL ++ utf8_lossy r1
              | [] => REPL
              end
            else REPL ++ utf8_lossy r
        | [] => REPL
        end
      else REPL ++ utf8_lossy r
  end.

Fixpoint utf8_valid (l : bytes) : bool :=
  match l with
  | [] => true
  | b :: r =>
      let w := char_width b in
      if N.eqb w 1 then utf8_valid r
      else if N.eqb w 2 then
        match r with c1 :: r1 => is_cont c1 && utf8_valid r1 | _ => false end
      else if N.eqb w 3 then
        match r with c1 :: c2 :: r2 => ok3 b c1 && is_cont c2 && utf8_valid r2 | _ => false end
      else if N.eqb w 4 then
        match r with c1 :: c2 :: c3 :: r3 => ok4 b c1 && is_cont c2 && is_cont c3 && utf8_valid r3 | _ => false end
      else false
  end.

(* str::is_char_boundary *)
Definition is_char_boundary (s : bytes) (i : nat) : bool :=
  if Nat.eqb i 0 then true
  else if Nat.ltb i (length s) then negb (is_cont (nth i s x00))
  else Nat.eqb i (length s).
Local Close Scope N_scope.

(* ---------------------------------------------------------------------------------------------- *)
(* gix-lock naming *)

(* acquire.rs: add_lock_suffix.  set_extension cannot panic here (an extension never holds a
   separator); the model keeps the outcome so that this is a theorem, not an assumption. *)
Definition add_lock_suffix (resource : bytes) : outcome bytes unit :=
  let ext := match extension resource with
             | Some e => e ++ DOT_LOCK
             | None => bs "lock"
             end in
  set_extension resource ext.

(* file.rs: strip_lock_suffix: extension().expect, to_str().expect, str::split_at (char boundary) *)
Definition strip_lock_suffix (lock_path : bytes) : outcome bytes unit :=
  match extension lock_path with
  | None => Panic
  | Some ext =>
      if utf8_valid ext then
        let mid := (length ext - 5)%nat in      (* saturating_sub *)
        if is_char_boundary ext mid then with_extension lock_path (firstn mid ext)
        else Panic
      else Panic
  end.

(* gix-tempfile at_path: where the file is created (dir to resolve, name = prefix ++ suffix) *)
Definition at_path_name (path : bytes) : bytes :=
  (match file_stem path with Some s => s | None => [] end) ++
  (match extension path with Some e => x2e :: utf8_lossy e | None => [] end).

(* ---------------------------------------------------------------------------------------------- *)
(* an abstract unix file system: absolute component lists -> directory | regular file *)

Definition cpath := list bytes.
(* a regular file carries an inode number so that writes through an open descriptor follow the
   file across renames and miss it after an unlink *)
Inductive node := NFile (ino : N) (content : bytes) | NDir.
Definition fsT := list (cpath * node).
Definition cpath_eqb (a b : cpath) : bool := list_eqb bytes_eqb a b.

Fixpoint fs_get (fs : fsT) (k : cpath) : option node :=
  match fs with
  | [] => None
  | (k', v) :: r => if cpath_eqb k' k then Some v else fs_get r k
  end.
Fixpoint fs_del (fs : fsT) (k : cpath) : fsT :=
  match fs with
  | [] => []
  | (k', v) :: r => if cpath_eqb k' k then fs_del r k else (k', v) :: fs_del r k
  end.
Definition fs_set (fs : fsT) (k : cpath) (v : node) : fsT := (k, v) :: fs_del fs k.
Definition has_children (fs : fsT) (d : cpath) : bool :=
  existsb (fun kv => match fst kv with [] => false | k => cpath_eqb (removelast k) d end) fs.

Inductive errno := ENOENT | ENOTDIR | EEXIST | EISDIR | ENOTEMPTY | EINVAL | EOTHER.
Inductive res (A : Type) := ROk (a : A) | RErr (e : errno).
Arguments ROk {A} a. Arguments RErr {A} e.

(* the process' working directory: the sandbox *)
Definition CWD : cpath := [bs "R"].
Definition CWD_BYTES : bytes := bs "/R".

(* walk the directory components of a path *)
Fixpoint kwalk (fs : fsT) (cur : cpath) (cs : list bytes) : res cpath :=
  match cs with
  | [] => ROk cur
  | c :: r =>
      if bytes_eqb c [] || bytes_eqb c (bs ".") then kwalk fs cur r
      else if bytes_eqb c (bs "..") then kwalk fs (removelast cur) r
      else let nxt := cur ++ [c] in
           match fs_get fs nxt with
           | Some NDir => kwalk fs nxt r
           | Some (NFile _ _) => RErr ENOTDIR
           | None => RErr ENOENT
           end
  end.

(* what the last component of a path names.  TName k slash: an entry name, [slash] when the path had
   trailing separators (the entry must then be a directory); TDir: the path was only separators *)
Inductive target := TName (k : cpath) (slash : bool) | TDir (d : cpath) | TSelf (d : cpath) | TParent (d : cpath).
Fixpoint drop_empty (cs : list bytes) : list bytes :=
  match cs with
  | [] :: r => drop_empty r
  | _ => cs
  end.
Definition kresolve (fs : fsT) (p : bytes) : res target :=
  match p with
  | [] => RErr ENOENT
  | _ =>
      let cs0 := split_on is_sep p in
      let cs := rev (drop_empty (rev cs0)) in
      let slash := negb (Nat.eqb (length cs) (length cs0)) in
      let start := if has_root p then [] else CWD in
      match cs with
      | [] => ROk (TDir start)
      | _ =>
          match kwalk fs start (removelast cs) with
          | RErr e => RErr e
          | ROk d =>
              let l := last cs [] in
              if bytes_eqb l (bs ".") then ROk (TSelf d)
              else if bytes_eqb l (bs "..") then ROk (TParent d)
              else ROk (TName (d ++ [l]) slash)
          end
      end
  end.

Definition sys_mkdir (fs : fsT) (p : bytes) : res fsT :=
  match kresolve fs p with
  | RErr e => RErr e
  | ROk (TName k _) => match fs_get fs k with Some _ => RErr EEXIST | None => ROk (fs_set fs k NDir) end
  | ROk _ => RErr EEXIST
  end.
Definition sys_create_excl (fs : fsT) (p : bytes) (ino : N) : res fsT :=
  match kresolve fs p with
  | RErr e => RErr e
  | ROk (TName k false) => match fs_get fs k with Some _ => RErr EEXIST | None => ROk (fs_set fs k (NFile ino [])) end
  | ROk (TName _ true) => RErr EISDIR
  | ROk (TDir _) => RErr EISDIR
  | ROk _ => RErr EEXIST
  end.
Definition sys_unlink (fs : fsT) (p : bytes) : res fsT :=
  match kresolve fs p with
  | RErr e => RErr e
  | ROk (TName _ true) => RErr ENOTDIR
  | ROk (TName k false) =>
      match fs_get fs k with
      | Some (NFile _ _) => ROk (fs_del fs k)
      | Some NDir => RErr EISDIR
      | None => RErr ENOENT
      end
  | ROk _ => RErr EISDIR
  end.
Definition rmdir_key (fs : fsT) (k : cpath) : res fsT :=
  match k with
  | [] => RErr EOTHER
  | _ => match fs_get fs k with
         | None => RErr ENOENT
         | Some (NFile _ _) => RErr ENOTDIR
         | Some NDir => if has_children fs k then RErr ENOTEMPTY else ROk (fs_del fs k)
         end
  end.
Definition sys_rmdir (fs : fsT) (p : bytes) : res fsT :=
  match kresolve fs p with
  | RErr e => RErr e
  | ROk (TName k _) => rmdir_key fs k
  | ROk (TDir d) => rmdir_key fs d
  | ROk (TSelf _) => RErr EINVAL
  | ROk (TParent _) => RErr ENOTEMPTY
  end.
Definition sys_stat (fs : fsT) (p : bytes) : option node :=
  match kresolve fs p with
  | RErr _ => None
  | ROk (TName k false) => fs_get fs k
  | ROk (TName k true) => match fs_get fs k with Some NDir => Some NDir | _ => None end
  | ROk _ => Some NDir
  end.
(* rename of a regular file *)
Definition sys_rename (fs : fsT) (a b : bytes) : res fsT :=
  match kresolve fs a with
  | RErr e => RErr e
  | ROk (TName ka false) =>
      match fs_get fs ka with
      | Some (NFile i c) =>
          match kresolve fs b with
          | RErr e => RErr e
          | ROk (TName kb false) =>
              match fs_get fs kb with
              | Some NDir => RErr EISDIR
              | _ => if cpath_eqb ka kb then ROk fs else ROk (fs_set (fs_del fs ka) kb (NFile i c))
              end
          | ROk _ => RErr EISDIR
          end
      | Some NDir => RErr EOTHER
      | None => RErr ENOENT
      end
  | ROk _ => RErr EOTHER
  end.
(* write(2) through an open descriptor of inode [ino]: appends at the descriptor's position (the
   descriptor is the only writer), wherever the inode is linked; lost if it is linked nowhere *)
Fixpoint fs_append (fs : fsT) (ino : N) (data : bytes) : fsT :=
  match fs with
  | [] => []
  | (k, NFile i c) :: r => (k, if N.eqb i ino then NFile i (c ++ data) else NFile i c) :: fs_append r ino data
  | kv :: r => kv :: fs_append r ino data
  end.

(* ---------------------------------------------------------------------------------------------- *)
(* gix-fs dir::create::Iter driven by create::all, Retries::default() = 5 / 25 (no EINTR in the model) *)

Inductive cstate := Creating | Searching.
Definition RETRY_ENTIRE : nat := 5.
Definition RETRY_FAIL : nat := 25.

(* what create::all returns: Ok, an error of kind AlreadyExists (a non-directory is in the way; the
   caller reports this kind as PermanentlyLocked), any other error *)
Inductive cares := CaOk | CaExists | CaOther.
(* cursors: head = top of the stack.  Returns the file system and what all() returned. *)
Fixpoint create_all_loop (fuel : nat) (fs : fsT) (cursors : list bytes) (entire fail : nat) (st : cstate)
  : outcome (fsT * cares) unit :=
  match fuel with
  | O => OutOfFuel
  | S f =>
      match cursors with
      | [] => Ok (fs, CaOk)
      | dir :: rest =>
          match sys_mkdir fs dir with
          | ROk fs' => create_all_loop f fs' rest entire fail Creating
          | RErr EEXIST =>
              match sys_stat fs dir with
              | Some NDir => create_all_loop f fs rest entire fail Creating
              | _ => Ok (fs, CaExists)
              end
          | RErr ENOENT =>
              let fail1 := (fail - 1)%nat in
              let '(st2, entire2, fail2, stop) :=
                match st with
                | Creating =>
                    let e := (entire - 1)%nat in
                    (Searching, e, RETRY_FAIL, Nat.ltb e 1)
                | Searching => (st, entire, fail1, false)
                end in
              if stop then Ok (fs, CaOther)
              else if Nat.ltb fail2 1 then Ok (fs, CaOther)
              else match path_parent dir with
                   | None => Ok (fs, CaOther)
                   | Some parent => create_all_loop f fs (parent :: dir :: rest) entire2 fail2 st2
                   end
          | RErr _ => Ok (fs, CaOther)
          end
      end
  end.
Definition CREATE_FUEL : nat := 1000.
Definition create_all (fs : fsT) (dir : bytes) : outcome (fsT * cares) unit :=
  match dir with [] => Ok (fs, CaOk) | _ => create_all_loop CREATE_FUEL fs [dir] RETRY_ENTIRE RETRY_FAIL Searching end.

(* gix-fs dir::remove::Iter driven by empty_upward_until_boundary; the result is ignored by the caller
   (execute_best_effort), so only the file system and a panic are observable *)
Fixpoint remove_loop (fuel : nat) (fs : fsT) (dir boundary : bytes) : outcome fsT unit :=
  match fuel with
  | O => OutOfFuel
  | S f =>
      let step (fs' : fsT) :=
        match path_parent dir with
        | None => Panic                                  (* unreachable!() *)
        | Some parent => if path_eq parent boundary then Ok fs' else remove_loop f fs' parent boundary
        end in
      match sys_rmdir fs dir with
      | ROk fs' => step fs'
      | RErr ENOENT => step fs
      | RErr _ => Ok fs
      end
  end.
Definition empty_upward_until_boundary (fs : fsT) (target boundary : bytes) : outcome fsT unit :=
  if negb (path_starts_with target boundary) then Ok fs
  else if path_eq target boundary then Ok fs
  else match sys_stat fs target with
       | None => Ok fs
       | Some _ => remove_loop (S (length target)) fs target boundary
       end.

(* ---------------------------------------------------------------------------------------------- *)
(* lock handles *)

Inductive hkind := KFile | KMarkerFromFile | KMarker.
Record handle := { h_lock : bytes; h_created : bytes; h_boundary : option bytes; h_kind : hkind; h_ino : N }.

Inductive acq_result := AcqOk (h : handle) | AcqLocked | AcqIo.

(* File::acquire_to_update_resource / Marker::acquire_to_hold_resource with Fail::Immediately *)
Definition acquire (fs : fsT) (ino : N) (resource : bytes) (boundary : option bytes) (kind : hkind)
  : outcome (fsT * acq_result) unit :=
  (lock <- add_lock_suffix resource ;;
   match path_parent lock with
   | None => Ok (fs, AcqIo)
   | Some parent_dir =>
       '(fs1, ok) <- (match boundary with
                      | None => Ok (fs, CaOk)
                      | Some _ => create_all fs parent_dir
                      end) ;;
       match ok with
       | CaExists => Ok (fs1, AcqLocked)
       | CaOther => Ok (fs1, AcqIo)
       | CaOk =>
         let p := path_join parent_dir (at_path_name lock) in
         let created := if is_absolute p then p else path_join CWD_BYTES p in
         match sys_create_excl fs1 created ino with
         | ROk fs2 => Ok (fs2, AcqOk {| h_lock := lock; h_created := created;
                                        h_boundary := boundary; h_kind := kind; h_ino := ino |})
         | RErr EEXIST => Ok (fs1, AcqLocked)
         | RErr _ => Ok (fs1, AcqIo)
         end
       end
   end)%outcome.

(* Drop of an uncommitted File/Marker: ForksafeTempfile::drop_impl *)
Definition drop_handle (fs : fsT) (h : handle) : outcome fsT unit :=
  let fs1 := match sys_unlink fs (h_created h) with ROk f => f | RErr _ => fs end in
  match path_parent (h_created h) with
  | None => Panic
  | Some dir =>
      match h_boundary h with
      | None => Ok fs1
      | Some b => empty_upward_until_boundary fs1 dir b
      end
  end.

(* File::commit / Marker::commit: None = error (the handle stays alive), Some p = the resource path *)
Definition commit_handle (fs : fsT) (h : handle) : outcome (fsT * option bytes) unit :=
  match h_kind h with
  | KMarker => Ok (fs, None)
  | _ =>
      (resource <- strip_lock_suffix (h_lock h) ;;
       match sys_rename fs (h_created h) resource with
       | ROk fs' => Ok (fs', Some resource)
       | RErr _ => Ok (fs, None)
       end)%outcome
  end.
