(* C22 — Lock files give exclusive, atomic updates for every resource path.
   Only statements here; every proof is [exact <lemma of Proofs.v / ProofsConc.v>].

   Model: Model.v (std::path on unix byte strings, gix-lock add/strip_lock_suffix, gix-tempfile at_path
   naming, acquire/commit/drop on an abstract unix file system), Interleave.v (one system call of one
   actor per step).  Vocabulary:
     valid_name n   n is non-empty, holds no '/', is not "." or ".." — ANY other bytes (0x80..0xff,
                    dots anywhere, ill-formed UTF-8 ...)
     dir_ok d       d is empty or ends in '/'  (so d ++ n is "a path whose last component is n")
     lock_key p     the file-system entry the byte path p names (no symlinks in the model)
     exclusive s    no two holder entries of state s name the same lock file, and every held lock
                    file exists as a regular file *)
From GixV.Base Require Import Bytes BytesFacts Outcome.
From GixV.C22 Require Import Model Spec Interleave Proofs ProofsConc.

(* ---- naming, for every byte-string file name ------------------------------------------------- *)

(* the lock path is the resource path with ".lock" appended *)
Theorem lock_path_is_suffix : forall dir name, valid_name name -> dir_ok dir ->
  add_lock_suffix (dir ++ name) = Ok (dir ++ name ++ DOT_LOCK).
Proof. exact L_lock_path_is_suffix. Qed.

(* resource_path() of that lock gives back exactly the resource path (no panic, no other file) *)
Theorem resource_path_roundtrip : forall dir name, valid_name name -> dir_ok dir ->
  strip_lock_suffix (dir ++ name ++ DOT_LOCK) = Ok (dir ++ name).
Proof. exact L_strip_add. Qed.

(* the file name gix-tempfile derives for creating the lock file is name ++ ".lock", byte for byte
   (its lossy conversion only ever sees the extension "lock") *)
Theorem lock_file_name_on_disk : forall dir name, valid_name name -> dir_ok dir ->
  at_path_name (dir ++ name ++ DOT_LOCK) = name ++ DOT_LOCK.
Proof. exact L_at_path_name. Qed.

(* deriving the lock path never panics, for any byte string at all *)
Theorem lock_path_total : forall p, exists q, add_lock_suffix p = Ok q.
Proof. exact L_add_total. Qed.

(* a path without a file name ("", "/", "..", "a/..") is left as it is *)
Theorem lock_path_without_file_name : forall p, file_name p = None -> add_lock_suffix p = Ok p.
Proof. exact L_add_no_file_name. Qed.

(* different resources never share a lock path *)
Theorem lock_path_injective : forall d1 n1 d2 n2 q,
  valid_name n1 -> dir_ok d1 -> valid_name n2 -> dir_ok d2 ->
  add_lock_suffix (d1 ++ n1) = Ok q -> add_lock_suffix (d2 ++ n2) = Ok q -> d1 ++ n1 = d2 ++ n2.
Proof. exact L_lock_path_injective. Qed.

(* the defects that were fixed (gix-lock a555135cc), as facts about the old definition: a non-UTF-8
   extension was replaced by U+FFFD U+FFFD, and "x/..foo" was locked as "x/.." *)
Theorem before_fix_lossy_extension_refuted :
  let p := bs "res." ++ [xff; xfe] in
  valid_name p /\ dir_ok [] /\
  add_lock_suffix_before_fix p = Ok (bs "res." ++ REPL ++ REPL ++ DOT_LOCK) /\
  add_lock_suffix_before_fix p <> Ok (p ++ DOT_LOCK).
Proof. exact L_before_fix_lossy. Qed.
Theorem before_fix_dotdot_name_refuted :
  let d := bs "x/" in let n := bs "..foo" in
  valid_name n /\ dir_ok d /\
  add_lock_suffix_before_fix (d ++ n) = Ok (bs "x/..") /\
  add_lock_suffix (d ++ n) = Ok (bs "x/..foo.lock").
Proof. exact L_before_fix_dotdot. Qed.

(* ---- exclusivity, for every interleaving ----------------------------------------------------- *)

(* from any file system without holders, after ANY sequence of steps of ANY number of actors: at most
   one holder per lock file, and every held lock file exists *)
Theorem mutual_exclusion : forall fs0 s, reachable (fs0, []) s -> exclusive s.
Proof. exact L_mutual_exclusion. Qed.

Theorem one_holder_per_lock_file : forall fs0 fs hs, reachable (fs0, []) (fs, hs) ->
  forall i j h1 h2, nth_error hs i = Some h1 -> nth_error hs j = Some h2 -> hkey h1 = hkey h2 -> i = j.
Proof. exact L_one_holder. Qed.

(* while somebody holds a lock, every attempt to create that lock file fails — also through a
   different spelling of the same path *)
Theorem held_lock_refuses_others : forall fs0 fs hs t l l' ino, reachable (fs0, []) (fs, hs) ->
  In (t, l) hs -> lock_key l' = lock_key l -> exists e, sys_create_excl fs l' ino = RErr e.
Proof. exact L_held_lock_refuses. Qed.

(* one step keeps the invariant (the induction step, stated on its own) *)
Theorem step_keeps_exclusive : forall s t a s', exclusive s -> step s t a s' -> exclusive s'.
Proof. exact L_step_exclusive. Qed.

(* ---- acquire / commit / drop on the file system ------------------------------------------------ *)

Theorem acquire_creates_the_lock_file : forall fs ino r b kind fs' h,
  acquire fs ino r b kind = Ok (fs', AcqOk h) ->
  add_lock_suffix r = Ok (h_lock h) /\ h_ino h = ino /\ h_boundary h = b /\
  fs_get fs' (lock_key (h_created h)) = Some (NFile ino []).
Proof. exact L_acquire_ok. Qed.

(* committing replaces exactly the resource: the resource entry becomes the lock file (same inode,
   same content), the lock entry disappears, every other entry is untouched *)
Theorem commit_replaces_exactly_the_resource : forall fs h fs' res,
  commit_handle fs h = Ok (fs', Some res) ->
  strip_lock_suffix (h_lock h) = Ok res /\
  exists i c, fs_get fs (lock_key (h_created h)) = Some (NFile i c) /\
    fs_get fs' (lock_key res) = Some (NFile i c) /\
    (lock_key (h_created h) <> lock_key res -> fs_get fs' (lock_key (h_created h)) = None) /\
    forall k, k <> lock_key (h_created h) -> k <> lock_key res -> fs_get fs' k = fs_get fs k.
Proof. exact L_commit_replaces_exactly. Qed.

Theorem failed_commit_changes_nothing : forall fs h fs',
  commit_handle fs h = Ok (fs', None) -> fs' = fs.
Proof. exact L_commit_failure_changes_nothing. Qed.

(* dropping an uncommitted lock: every entry is as before, except that the lock file is gone and
   directories may be gone; in particular the resource and every other regular file are untouched *)
Theorem drop_leaves_everything_else : forall fs h fs', drop_handle fs h = Ok fs' ->
  forall k, fs_get fs' k = fs_get fs k \/
            (k = lock_key (h_created h) /\ fs_get fs' k = None) \/
            (fs_get fs k = Some NDir /\ fs_get fs' k = None).
Proof. exact L_drop_leaves_everything_else. Qed.

Theorem drop_removes_the_lock_file : forall fs h fs' k,
  kresolve fs (h_created h) = ROk (TName k false) -> is_file fs k ->
  drop_handle fs h = Ok fs' -> fs_get fs' k = None.
Proof. exact L_drop_removes_lock. Qed.

(* ---- non-vacuity ----------------------------------------------------------------------------- *)

Definition ex_name : bytes := bs "res." ++ [xff; xfe].     (* ill-formed UTF-8 extension *)
Example ex_valid : valid_name ex_name /\ valid_name (bs "..foo") /\ valid_name (bs "foo.") /\
                   dir_ok (bs "/R/a.b/") /\ dir_ok [].
Proof.
  repeat split; try discriminate; try (left; reflexivity). right. exists (bs "/R/a.b"). reflexivity.
Qed.
Example ex_lock : add_lock_suffix (bs "/R/a.b/" ++ ex_name) = Ok (bs "/R/a.b/res." ++ [xff; xfe] ++ bs ".lock").
Proof. reflexivity. Qed.
Example ex_no_file_name : file_name (bs "a/..") = None /\ file_name [] = None /\ file_name (bs "/") = None.
Proof. repeat split. Qed.

(* a run: actor 1 locks /R/x, actor 2 fails, actor 1 writes and commits, actor 2 locks and drops *)
Definition ex_fs0 : fsT := [([], NDir); ([bs "R"], NDir); ([bs "R"; bs "x"], NFile 9 (bs "old"))].
Example ex_run :
  exists s, reachable (ex_fs0, []) s /\
    fs_get (fst s) [bs "R"; bs "x"] = Some (NFile 1 (bs "new")) /\ snd s = [] /\
    fs_get (fst s) [bs "R"; bs "x.lock"] = None.
Proof.
  eexists. split.
  - eapply R_step. eapply R_step. eapply R_step. eapply R_step. eapply R_step. eapply R_step. apply R_init.
    + apply (S_lock_ok _ _ 1%nat (bs "/R/x.lock") 1%N). reflexivity.
    + apply (S_lock_err _ _ 2%nat (bs "/R/./x.lock") 2%N EEXIST). reflexivity.
    + apply (S_write _ _ 1%nat 1%N (bs "new")).
    + apply (S_commit_ok _ _ 1%nat (bs "/R/x.lock") (bs "/R/x")); [left; reflexivity|reflexivity].
    + apply (S_lock_ok _ _ 2%nat (bs "/R/x.lock") 2%N). reflexivity.
    + apply (S_drop_ok _ _ 2%nat (bs "/R/x.lock")); [left; reflexivity|reflexivity].
  - repeat split.
Qed.

(* acquire / commit / drop of the model on the same file system *)
Example ex_acquire_commit :
  exists fs1 h fs2, acquire ex_fs0 5 (bs "/R/d/e/" ++ ex_name) (Some (bs "/R")) KFile = Ok (fs1, AcqOk h) /\
    h_lock h = bs "/R/d/e/" ++ ex_name ++ DOT_LOCK /\
    commit_handle fs1 h = Ok (fs2, Some (bs "/R/d/e/" ++ ex_name)) /\
    fs_get fs2 [bs "R"; bs "d"; bs "e"; ex_name] = Some (NFile 5 []).
Proof. eexists _, _, _. repeat split. Qed.
Example ex_acquire_drop :
  exists fs1 h fs2, acquire ex_fs0 5 (bs "/R/d/e/" ++ ex_name) (Some (bs "/R")) KFile = Ok (fs1, AcqOk h) /\
    fs_get fs1 [bs "R"; bs "d"; bs "e"] = Some NDir /\
    drop_handle fs1 h = Ok fs2 /\
    fs_get fs2 [bs "R"; bs "d"] = None /\ fs_get fs2 [bs "R"; bs "x"] = Some (NFile 9 (bs "old")).
Proof. eexists _, _, _. repeat split. Qed.
