From GixV.Base Require Import Bytes BytesFacts Outcome.
From GixV.C22 Require Import Model Proofs.
