(* C22 — transcript printer: runs a script of lock operations on the model file system and prints the
   same line the Rust harness prints after running it on real gix_lock::{File,Marker} in a temp dir.

   case:  script <op>*        with ops (each field hex as usual)
     acq    <h> <f|m> <bnd> <path>   acquire File (f) / Marker (m) for resource ROOT/<path>;
                                     boundary None when <bnd> is empty, else Some(ROOT/<bnd>)
     acqrel <h> <f|m> <bnd> <path>   same, the resource path is <path> verbatim (relative to the cwd = ROOT)
     wr <h> <data> | close <h> | commit <h> | drop <h>
     put <path> <data> | mkd <path> | rm <path>      the environment: fs::write, fs::create_dir, fs::remove_file
   The model's "/" is the harness' base directory, ROOT = "/R" is the sandbox (and the cwd). *)
From GixV.Base Require Import Bytes Outcome.
From GixV.C22 Require Import Model.

Definition ROOT : bytes := bs "/R".
Definition rooted (rel : bytes) : bytes := ROOT ++ x2f :: rel.

Fixpoint strip_prefix (pre l : bytes) : option bytes :=
  match pre, l with
  | [], _ => Some l
  | x :: p', y :: l' => if beqb x y then strip_prefix p' l' else None
  | _ :: _, [] => None
  end.
Definition show_path (p : bytes) : bytes :=
  match strip_prefix ROOT p with
  | Some r => bs "@" ++ hex_encode r
  | None => bs "=" ++ hex_encode p
  end.

(* guards: both sides print "skip" for a case that could leave the base directory or hit OS limits *)
Definition count_dotdot (p : bytes) : nat :=
  length (filter (fun c => bytes_eqb c (bs "..")) (split_on is_sep p)).
Definition path_ok (p : bytes) : bool :=
  negb (existsb (fun b => beqb b x00) p) && Nat.leb (length p) 200 && Nat.leb (count_dotdot p) 1.

Record st := { s_fs : fsT; s_hs : list (bytes * handle); s_ino : N }.

Fixpoint h_find (hs : list (bytes * handle)) (id : bytes) : option handle :=
  match hs with
  | [] => None
  | (i, h) :: r => if bytes_eqb i id then Some h else h_find r id
  end.
Fixpoint h_remove (hs : list (bytes * handle)) (id : bytes) : list (bytes * handle) :=
  match hs with
  | [] => []
  | (i, h) :: r => if bytes_eqb i id then r else (i, h) :: h_remove r id
  end.
Definition h_replace (hs : list (bytes * handle)) (id : bytes) (h : handle) :=
  map (fun ih => if bytes_eqb (fst ih) id then (id, h) else ih) hs.

Definition ino_live (hs : list (bytes * handle)) (i : N) : bool :=
  existsb (fun ih => N.eqb (h_ino (snd ih)) i) hs.

Definition do_acq (s : st) (id kind bnd path : bytes) : outcome (st * bytes) unit :=
  match h_find (s_hs s) id with
  | Some _ => Ok (s, bs "dup")
  | None =>
      let k := if bytes_eqb kind (bs "m") then KMarker else KFile in
      let b := match bnd with [] => None | _ => Some (rooted bnd) end in
      ('(fs', r) <- acquire (s_fs s) (s_ino s) path b k ;;
       match r with
       | AcqOk h =>
           (res <- strip_lock_suffix (h_lock h) ;;
            Ok ({| s_fs := fs'; s_hs := s_hs s ++ [(id, h)]; s_ino := N.succ (s_ino s) |},
                bs "ok:" ++ show_path (h_lock h) ++ bs ":" ++ show_path res))
       | AcqLocked => Ok ({| s_fs := fs'; s_hs := s_hs s; s_ino := s_ino s |}, bs "locked")
       | AcqIo => Ok ({| s_fs := fs'; s_hs := s_hs s; s_ino := s_ino s |}, bs "io")
       end)%outcome
  end.

Definition do_put (s : st) (path data : bytes) : st * bytes :=
  match kresolve (s_fs s) path with
  | ROk (TName k false) =>
      match fs_get (s_fs s) k with
      | Some NDir => (s, bs "err")
      | Some (NFile i _) =>
          if ino_live (s_hs s) i then (s, bs "busy")
          else ({| s_fs := fs_set (s_fs s) k (NFile i data); s_hs := s_hs s; s_ino := s_ino s |}, bs "ok")
      | None => ({| s_fs := fs_set (s_fs s) k (NFile (s_ino s) data); s_hs := s_hs s;
                    s_ino := N.succ (s_ino s) |}, bs "ok")
      end
  | _ => (s, bs "err")
  end.

Definition with_fs (s : st) (r : res fsT) : st * bytes :=
  match r with
  | ROk fs' => ({| s_fs := fs'; s_hs := s_hs s; s_ino := s_ino s |}, bs "ok")
  | RErr _ => (s, bs "err")
  end.

(* listing of everything below the base directory except the sandbox root itself *)
Definition join_cpath (k : cpath) : bytes :=
  match k with
  | [] => []
  | c :: r => fold_left (fun acc x => acc ++ x2f :: x) r c
  end.
Fixpoint insert_sorted (x : bytes * node) (l : list (bytes * node)) : list (bytes * node) :=
  match l with
  | [] => [x]
  | y :: r => match bytes_cmp (fst x) (fst y) with
              | Gt => y :: insert_sorted x r
              | _ => x :: l
              end
  end.
Definition show_node (kv : bytes * node) : bytes :=
  hex_encode (fst kv) ++
  match snd kv with
  | NDir => bs ":d"
  | NFile _ c => bs ":f:" ++ hex_encode c
  end.
Fixpoint join_with (sep : bytes) (l : list bytes) : bytes :=
  match l with
  | [] => []
  | [x] => x
  | x :: r => x ++ sep ++ join_with sep r
  end.
Definition listing (fs : fsT) : bytes :=
  let entries := filter (fun kv => negb (cpath_eqb (fst kv) []) && negb (cpath_eqb (fst kv) CWD)) fs in
  let sorted := fold_right insert_sorted [] (map (fun kv => (join_cpath (fst kv), snd kv)) entries) in
  join_with (bs ",") (map show_node sorted).

Fixpoint drop_all (fs : fsT) (hs : list (bytes * handle)) : outcome fsT unit :=
  match hs with
  | [] => Ok fs
  | (_, h) :: r => (fs' <- drop_handle fs h ;; drop_all fs' r)%outcome
  end.

(* the interpreter: [outs] is collected in reverse *)
Fixpoint exec (fs : list bytes) (s : st) (outs : list bytes) : outcome (st * list bytes) unit :=
  match fs with
  | [] => Ok (s, outs)
  | op :: r1 =>
      if bytes_eqb op (bs "acq") || bytes_eqb op (bs "acqrel") then
        match r1 with
        | id :: kind :: bnd :: path :: rest =>
            let p := if bytes_eqb op (bs "acq") then rooted path else path in
            ('(s', o) <- do_acq s id kind bnd p ;; exec rest s' (o :: outs))%outcome
        | _ => Ok (s, bs "?" :: outs)
        end
      else if bytes_eqb op (bs "wr") then
        match r1 with
        | id :: data :: rest =>
            match h_find (s_hs s) id with
            | None => exec rest s (bs "nohandle" :: outs)
            | Some h =>
                match h_kind h with
                | KFile => exec rest {| s_fs := fs_append (s_fs s) (h_ino h) data; s_hs := s_hs s;
                                        s_ino := s_ino s |} (bs "ok" :: outs)
                | _ => exec rest s (bs "notfile" :: outs)
                end
            end
        | _ => Ok (s, bs "?" :: outs)
        end
      else if bytes_eqb op (bs "close") then
        match r1 with
        | id :: rest =>
            match h_find (s_hs s) id with
            | None => exec rest s (bs "nohandle" :: outs)
            | Some h =>
                match h_kind h with
                | KFile =>
                    let h' := {| h_lock := h_lock h; h_created := h_created h; h_boundary := h_boundary h;
                                 h_kind := KMarkerFromFile; h_ino := h_ino h |} in
                    exec rest {| s_fs := s_fs s; s_hs := h_replace (s_hs s) id h'; s_ino := s_ino s |}
                         (bs "ok" :: outs)
                | _ => exec rest s (bs "notfile" :: outs)
                end
            end
        | _ => Ok (s, bs "?" :: outs)
        end
      else if bytes_eqb op (bs "commit") then
        match r1 with
        | id :: rest =>
            match h_find (s_hs s) id with
            | None => exec rest s (bs "nohandle" :: outs)
            | Some h =>
                ('(fs', r) <- commit_handle (s_fs s) h ;;
                 match r with
                 | Some res =>
                     exec rest {| s_fs := fs'; s_hs := h_remove (s_hs s) id; s_ino := s_ino s |}
                          ((bs "ok:" ++ show_path res) :: outs)
                 | None => exec rest s (bs "err" :: outs)
                 end)%outcome
            end
        | _ => Ok (s, bs "?" :: outs)
        end
      else if bytes_eqb op (bs "drop") then
        match r1 with
        | id :: rest =>
            match h_find (s_hs s) id with
            | None => exec rest s (bs "nohandle" :: outs)
            | Some h =>
                (fs' <- drop_handle (s_fs s) h ;;
                 exec rest {| s_fs := fs'; s_hs := h_remove (s_hs s) id; s_ino := s_ino s |}
                      (bs "ok" :: outs))%outcome
            end
        | _ => Ok (s, bs "?" :: outs)
        end
      else if bytes_eqb op (bs "put") then
        match r1 with
        | path :: data :: rest =>
            let '(s', o) := do_put s (rooted path) data in exec rest s' (o :: outs)
        | _ => Ok (s, bs "?" :: outs)
        end
      else if bytes_eqb op (bs "mkd") then
        match r1 with
        | path :: rest =>
            let '(s', o) := with_fs s (sys_mkdir (s_fs s) (rooted path)) in exec rest s' (o :: outs)
        | _ => Ok (s, bs "?" :: outs)
        end
      else if bytes_eqb op (bs "rm") then
        match r1 with
        | path :: rest =>
            let '(s', o) := with_fs s (sys_unlink (s_fs s) (rooted path)) in exec rest s' (o :: outs)
        | _ => Ok (s, bs "?" :: outs)
        end
      else Ok (s, bs "?" :: outs)
  end.

(* which fields are paths: used for the guard *)
Fixpoint script_ok (fs : list bytes) : bool :=
  match fs with
  | [] => true
  | op :: r1 =>
      if bytes_eqb op (bs "acq") || bytes_eqb op (bs "acqrel") then
        match r1 with
        | _ :: _ :: bnd :: path :: rest =>
            path_ok bnd && path_ok path &&
            (if bytes_eqb op (bs "acqrel") then negb (has_root path) else true) && script_ok rest
        | _ => true
        end
      else if bytes_eqb op (bs "wr") || bytes_eqb op (bs "put") then
        match r1 with
        | a :: _ :: rest => (if bytes_eqb op (bs "put") then path_ok a else true) && script_ok rest
        | _ => true
        end
      else if bytes_eqb op (bs "mkd") || bytes_eqb op (bs "rm") then
        match r1 with
        | a :: rest => path_ok a && script_ok rest
        | _ => true
        end
      else match r1 with
           | _ :: rest => script_ok rest
           | _ => true
           end
  end.

Definition fs0 : fsT := [([], NDir); (CWD, NDir)].

Definition run_script (ops : list bytes) : bytes :=
  if negb (script_ok ops) then bs "skip"
  else
    match exec ops {| s_fs := fs0; s_hs := []; s_ino := 1%N |} [] with
    | Ok (s, outs) =>
        match drop_all (s_fs s) (s_hs s) with
        | Ok fs' =>
            join_with (bs ";") (rev outs) ++ bs " | " ++ listing (s_fs s) ++ bs " | " ++ listing fs'
        | Err _ => bs "?"
        | Panic => bs "PANIC"
        | OutOfFuel => bs "HANG"
        end
    | Err _ => bs "?"
    | Panic => bs "PANIC"
    | OutOfFuel => bs "HANG"
    end.

Definition run_model (fs : list bytes) : bytes :=
  match fs with
  | op :: ops => if bytes_eqb op (bs "script") then run_script ops else bs "?"
  | [] => bs "?"
  end.

Definition run (fs : list bytes) : bytes :=
  match fs with
  | _mode :: rest => run_model rest
  | [] => bs "?"
  end.
