(* C22 — the file-system layer: finite-map facts, what each system call changes, the mutual-exclusion
   invariant over arbitrary interleavings, commit/drop frame properties. *)
From Coq Require Import Lia.
From GixV.Base Require Import Bytes BytesFacts Outcome.
From GixV.C22 Require Import Model Interleave.

Ltac dsc := first [discriminate | intros; match goal with H : _ = _ |- _ => discriminate H end].

(* ---- finite map ---------------------------------------------------------------------------- *)

Lemma cpath_eqb_eq a : forall b, cpath_eqb a b = true <-> a = b.
Proof.
  unfold cpath_eqb. induction a as [|x a IH]; intros [|y b]; cbn [list_eqb]; try (split; congruence).
  rewrite Bool.andb_true_iff, bytes_eqb_eq, IH. split.
  - intros [-> ->]. reflexivity.
  - intros H. injection H as -> ->. split; reflexivity.
Qed.
Lemma cpath_eqb_refl a : cpath_eqb a a = true.
Proof. apply cpath_eqb_eq. reflexivity. Qed.
Lemma cpath_eqb_neq a b : a <> b -> cpath_eqb a b = false.
Proof. intros H. destruct (cpath_eqb a b) eqn:E; [|reflexivity]. apply cpath_eqb_eq in E. contradiction. Qed.

Lemma get_del_same fs k : fs_get (fs_del fs k) k = None.
Proof.
  induction fs as [|[k' v] r IH]; [reflexivity|]. cbn [fs_del].
  destruct (cpath_eqb k' k) eqn:E; [exact IH|]. cbn [fs_get]. rewrite E. exact IH.
Qed.
Lemma get_del_other fs k k' : k <> k' -> fs_get (fs_del fs k) k' = fs_get fs k'.
Proof.
  intros Hne. induction fs as [|[k0 v] r IH]; [reflexivity|]. cbn [fs_del fs_get].
  destruct (cpath_eqb k0 k) eqn:E.
  - apply cpath_eqb_eq in E. subst k0. rewrite (cpath_eqb_neq _ _ Hne). exact IH.
  - cbn [fs_get]. rewrite IH. reflexivity.
Qed.
Lemma get_set_same fs k v : fs_get (fs_set fs k v) k = Some v.
Proof. unfold fs_set. cbn [fs_get]. rewrite cpath_eqb_refl. reflexivity. Qed.
Lemma get_set_other fs k v k' : k <> k' -> fs_get (fs_set fs k v) k' = fs_get fs k'.
Proof.
  intros Hne. unfold fs_set. cbn [fs_get]. rewrite (cpath_eqb_neq _ _ Hne). apply get_del_other. exact Hne.
Qed.

Definition is_file (fs : fsT) (k : cpath) : Prop := exists i c, fs_get fs k = Some (NFile i c).

Lemma append_is_file fs ino data k : is_file fs k -> is_file (fs_append fs ino data) k.
Proof.
  intros (i & c & H). induction fs as [|[k0 v] r IH]; [dsc|].
  cbn [fs_get] in H. destruct v as [j cj|]; cbn [fs_append]; destruct (cpath_eqb k0 k) eqn:E.
  - destruct (N.eqb j ino); unfold is_file; cbn [fs_get]; rewrite E; eexists _, _; reflexivity.
  - unfold is_file. cbn [fs_get]. rewrite E. apply IH. exact H.
  - dsc.
  - unfold is_file. cbn [fs_get]. rewrite E. apply IH. exact H.
Qed.

(* ---- paths name entries independently of the file system's contents -------------------------- *)

Lemma kwalk_lex fs : forall cs cur d, kwalk fs cur cs = ROk d -> d = lex_walk cur cs.
Proof.
  induction cs as [|c r IH]; intros cur d H; cbn [kwalk lex_walk] in *.
  - injection H as <-. reflexivity.
  - destruct (bytes_eqb c [] || bytes_eqb c (bs ".")); [apply IH; exact H|].
    destruct (bytes_eqb c (bs "..")); [apply IH; exact H|].
    destruct (fs_get fs (cur ++ [c])) as [[i cc|]|]; try dsc. apply IH. exact H.
Qed.

Lemma kresolve_name fs p k s : kresolve fs p = ROk (TName k s) -> k = lock_key p.
Proof.
  unfold kresolve, lock_key. destruct p as [|b p']; [dsc|]. cbv zeta.
  set (cs := rev (drop_empty (rev (split_on is_sep (b :: p'))))).
  destruct cs as [|c0 cs']; [dsc|].
  match goal with |- context [kwalk ?a ?b ?c] => destruct (kwalk a b c) as [d|e] eqn:Ew end; [|dsc].
  apply kwalk_lex in Ew. subst d.
  destruct (bytes_eqb (last (c0 :: cs') []) (bs ".")); [dsc|].
  destruct (bytes_eqb (last (c0 :: cs') []) (bs "..")); [dsc|].
  intros H. injection H as <- _. reflexivity.
Qed.

(* ---- what a successful system call changes ------------------------------------------------- *)

Lemma create_excl_spec fs l ino fs' : sys_create_excl fs l ino = ROk fs' ->
  fs_get fs (lock_key l) = None /\ fs' = fs_set fs (lock_key l) (NFile ino []).
Proof.
  unfold sys_create_excl. destruct (kresolve fs l) as [[k [|]| | |]|] eqn:E; try dsc.
  apply kresolve_name in E. subst k.
  destruct (fs_get fs (lock_key l)); [dsc|]. intros H. injection H as <-. split; reflexivity.
Qed.

Lemma mkdir_spec fs p fs' : sys_mkdir fs p = ROk fs' ->
  exists k, fs_get fs k = None /\ fs' = fs_set fs k NDir.
Proof.
  unfold sys_mkdir. destruct (kresolve fs p) as [[k s| | |]|]; try dsc.
  destruct (fs_get fs k) eqn:E; [dsc|]. intros H. injection H as <-. eauto.
Qed.

Lemma rmdir_key_spec fs k fs' : rmdir_key fs k = ROk fs' -> fs_get fs k = Some NDir /\ fs' = fs_del fs k.
Proof.
  unfold rmdir_key. destruct k; [dsc|].
  destruct (fs_get fs (b :: k)) as [[i c|]|]; try dsc.
  destruct (has_children fs (b :: k)); [dsc|]. intros H. injection H as <-. split; reflexivity.
Qed.
Lemma rmdir_spec fs p fs' : sys_rmdir fs p = ROk fs' ->
  exists k, fs_get fs k = Some NDir /\ fs' = fs_del fs k.
Proof.
  unfold sys_rmdir. destruct (kresolve fs p) as [[k s|d|d|d]|]; try dsc;
    intros H; apply rmdir_key_spec in H; eauto.
Qed.

Lemma unlink_spec fs l fs' : sys_unlink fs l = ROk fs' ->
  is_file fs (lock_key l) /\ fs' = fs_del fs (lock_key l).
Proof.
  unfold sys_unlink. destruct (kresolve fs l) as [[k [|]| | |]|] eqn:E; try dsc.
  apply kresolve_name in E. subst k.
  destruct (fs_get fs (lock_key l)) as [[i c|]|] eqn:G; try dsc.
  intros H. injection H as <-. split; [eexists _, _; exact G|reflexivity].
Qed.

(* rename of a regular file: nothing happens (same entry), or the source entry disappears and the
   destination entry becomes that very file; the destination was not a directory *)
Lemma rename_spec fs a b fs' : sys_rename fs a b = ROk fs' ->
  exists i c, fs_get fs (lock_key a) = Some (NFile i c) /\
    ((lock_key a = lock_key b /\ fs' = fs) \/
     (lock_key a <> lock_key b /\ fs_get fs (lock_key b) <> Some NDir /\
      fs' = fs_set (fs_del fs (lock_key a)) (lock_key b) (NFile i c))).
Proof.
  unfold sys_rename. destruct (kresolve fs a) as [[ka [|]| | |]|] eqn:Ea; try dsc.
  apply kresolve_name in Ea. subst ka.
  destruct (fs_get fs (lock_key a)) as [[i c|]|] eqn:Ga; try dsc.
  destruct (kresolve fs b) as [[kb [|]| | |]|] eqn:Eb; try dsc.
  apply kresolve_name in Eb. subst kb.
  intros H. exists i, c. split; [reflexivity|].
  destruct (fs_get fs (lock_key b)) as [[j cj|]|] eqn:Gb; try dsc;
    (destruct (cpath_eqb (lock_key a) (lock_key b)) eqn:E;
     [apply cpath_eqb_eq in E; injection H as <-; left; split; [exact E|reflexivity]
     |right; injection H as <-; split;
      [intros He; apply cpath_eqb_eq in He; congruence|split; [congruence|reflexivity]]]).
Qed.

(* ---- the invariant ------------------------------------------------------------------------- *)

Lemma release_in l hs h : In h (release l hs) -> In h hs /\ hkey h <> lock_key l.
Proof.
  unfold release. rewrite filter_In. intros [Hin Hk]. split; [exact Hin|].
  intros He. rewrite He, cpath_eqb_refl in Hk. dsc.
Qed.
Lemma release_nodup l hs : NoDup (map hkey hs) -> NoDup (map hkey (release l hs)).
Proof.
  unfold release. induction hs as [|h r IH]; intros H; [constructor|].
  cbn [map] in H. inversion H as [|? ? Hnotin Hr]; subst. cbn [filter].
  destruct (negb (cpath_eqb (hkey h) (lock_key l))); [|apply IH; exact Hr].
  cbn [map]. constructor; [|apply IH; exact Hr].
  intros Hin. apply Hnotin. apply in_map_iff in Hin as (h' & Hk & Hin').
  apply filter_In in Hin' as [Hin' _]. apply in_map_iff. eauto.
Qed.

Lemma L_step_exclusive s t a s' : exclusive s -> step s t a s' -> exclusive s'.
Proof.
  intros [Hnd Hfile] Hstep. inversion Hstep; subst; cbn [fst snd] in *; unfold exclusive; cbn [fst snd].
  - (* mkdir *)
    match goal with H : sys_mkdir _ _ = ROk _ |- _ => apply mkdir_spec in H as (k & Hnone & ->) end.
    split; [exact Hnd|]. intros h Hin. destruct (Hfile h Hin) as (i & c & Hg).
    exists i, c. rewrite get_set_other; [exact Hg|]. intros ->. congruence.
  - split; assumption.
  - (* rmdir *)
    match goal with H : sys_rmdir _ _ = ROk _ |- _ => apply rmdir_spec in H as (k & Hdir & ->) end.
    split; [exact Hnd|]. intros h Hin. destruct (Hfile h Hin) as (i & c & Hg).
    exists i, c. rewrite get_del_other; [exact Hg|]. intros ->. congruence.
  - split; assumption.
  - (* lock taken *)
    match goal with H : sys_create_excl _ _ _ = ROk _ |- _ => apply create_excl_spec in H as (Hnone & ->) end.
    split.
    + cbn [map]. constructor; [|exact Hnd]. intros Hin. apply in_map_iff in Hin as (h & Hk & Hin).
      destruct (Hfile h Hin) as (i & c & Hg).
      assert (Hk' : hkey h = lock_key l) by exact Hk. rewrite Hk' in Hg. congruence.
    + intros h [<- | Hin].
      * unfold hkey. cbn [snd]. eexists _, _. apply get_set_same.
      * destruct (Hfile h Hin) as (i & c & Hg). exists i, c. rewrite get_set_other; [exact Hg|].
        intros He. rewrite <- He in Hg. congruence.
  - split; assumption.
  - (* write *)
    split; [exact Hnd|]. intros h Hin. apply append_is_file. exact (Hfile h Hin).
  - (* commit *)
    match goal with H : sys_rename _ _ _ = ROk _ |- _ => apply rename_spec in H as (i & c & Hsrc & Hcase) end.
    split; [apply release_nodup; exact Hnd|]. intros h Hin. apply release_in in Hin as [Hin Hne].
    destruct (Hfile h Hin) as (j & cj & Hg).
    destruct Hcase as [[_ ->] | (Hab & _ & ->)]; [eauto|].
    destruct (cpath_eqb (lock_key r) (hkey h)) eqn:E.
    + apply cpath_eqb_eq in E. rewrite <- E. eexists _, _. apply get_set_same.
    + assert (lock_key r <> hkey h) by (intros He; rewrite He, cpath_eqb_refl in E; dsc).
      exists j, cj. rewrite get_set_other by assumption. rewrite get_del_other; [exact Hg|]. congruence.
  - split; assumption.
  - (* drop *)
    match goal with H : sys_unlink _ _ = ROk _ |- _ => apply unlink_spec in H as (_ & ->) end.
    split; [apply release_nodup; exact Hnd|]. intros h Hin. apply release_in in Hin as [Hin Hne].
    destruct (Hfile h Hin) as (j & cj & Hg). exists j, cj. rewrite get_del_other; [exact Hg|]. congruence.
  - split; [apply release_nodup; exact Hnd|]. intros h Hin. apply release_in in Hin as [Hin _]. auto.
Qed.

Lemma L_mutual_exclusion fs0 s : reachable (fs0, []) s -> exclusive s.
Proof.
  induction 1 as [|s t a s' _ IH Hstep].
  - split; [constructor|intros h []].
  - exact (L_step_exclusive _ _ _ _ IH Hstep).
Qed.

(* two holders of the same lock file are the same holder entry; a third party cannot take a held lock *)
Lemma L_one_holder fs0 fs hs : reachable (fs0, []) (fs, hs) ->
  forall i j h1 h2, nth_error hs i = Some h1 -> nth_error hs j = Some h2 -> hkey h1 = hkey h2 -> i = j.
Proof.
  intros Hr i j h1 h2 H1 H2 Hk. destruct (L_mutual_exclusion _ _ Hr) as [Hnd _]. cbn [snd] in Hnd.
  eapply (proj1 (NoDup_nth_error (map hkey hs))); [exact Hnd| |].
  - rewrite map_length. apply nth_error_Some. congruence.
  - rewrite !nth_error_map, H1, H2. cbn. congruence.
Qed.

Lemma L_held_lock_refuses fs0 fs hs t l l' ino : reachable (fs0, []) (fs, hs) ->
  In (t, l) hs -> lock_key l' = lock_key l -> exists e, sys_create_excl fs l' ino = RErr e.
Proof.
  intros Hr Hin Hk. destruct (L_mutual_exclusion _ _ Hr) as [_ Hf]. cbn [fst snd] in Hf.
  destruct (Hf _ Hin) as (i & c & Hg). unfold hkey in Hg. cbn [snd] in Hg.
  destruct (sys_create_excl fs l' ino) as [fs'|e] eqn:E; [|eauto].
  apply create_excl_spec in E as [Hnone _]. rewrite Hk in Hnone. congruence.
Qed.

(* ---- commit and drop on the file system ------------------------------------------------------ *)

(* a successful commit: the resource entry now is the lock file's inode and content, the lock entry
   is gone, every other entry is what it was *)
Lemma rename_frame fs a b fs' : sys_rename fs a b = ROk fs' ->
  exists i c, fs_get fs (lock_key a) = Some (NFile i c) /\
    fs_get fs' (lock_key b) = Some (NFile i c) /\
    (lock_key a <> lock_key b -> fs_get fs' (lock_key a) = None) /\
    forall k, k <> lock_key a -> k <> lock_key b -> fs_get fs' k = fs_get fs k.
Proof.
  intros Er. apply rename_spec in Er as (i & c & Hsrc & Hcase). exists i, c. split; [exact Hsrc|].
  destruct Hcase as [[He ->] | (Hne & _ & ->)].
  - rewrite <- He. split; [exact Hsrc|]. split; [congruence|reflexivity].
  - split; [apply get_set_same|]. split.
    + intros _. rewrite get_set_other by congruence. apply get_del_same.
    + intros k Hk1 Hk2. rewrite get_set_other by congruence. apply get_del_other. congruence.
Qed.

Lemma L_commit_replaces_exactly fs h fs' res : commit_handle fs h = Ok (fs', Some res) ->
  strip_lock_suffix (h_lock h) = Ok res /\
  exists i c, fs_get fs (lock_key (h_created h)) = Some (NFile i c) /\
    fs_get fs' (lock_key res) = Some (NFile i c) /\
    (lock_key (h_created h) <> lock_key res -> fs_get fs' (lock_key (h_created h)) = None) /\
    forall k, k <> lock_key (h_created h) -> k <> lock_key res -> fs_get fs' k = fs_get fs k.
Proof.
  unfold commit_handle. intros H.
  assert (H' : (resource <- strip_lock_suffix (h_lock h) ;;
                match sys_rename fs (h_created h) resource with
                | ROk fs2 => Ok (fs2, Some resource)
                | RErr _ => Ok (fs, None)
                end)%outcome = @Ok _ unit (fs', Some res)).
  { destruct (h_kind h); try exact H. dsc. }
  clear H. destruct (strip_lock_suffix (h_lock h)) as [r| | |] eqn:Es; cbn [obind] in H'; try dsc.
  destruct (sys_rename fs (h_created h) r) as [fs2|e] eqn:Er; [|dsc].
  apply Ok_inj in H'. injection H' as <- <-. split; [reflexivity|]. exact (rename_frame _ _ _ _ Er).
Qed.

(* a failed commit leaves everything as it was *)
Lemma L_commit_failure_changes_nothing fs h fs' : commit_handle fs h = Ok (fs', None) -> fs' = fs.
Proof.
  unfold commit_handle. destruct (h_kind h);
  try (destruct (strip_lock_suffix (h_lock h)) as [r| | |]; cbn [obind]; try dsc;
       destruct (sys_rename fs (h_created h) r); try dsc);
  intros H; apply Ok_inj in H; injection H as <-; reflexivity.
Qed.

(* rmdir upwards never touches a regular file and only ever removes entries *)
Lemma remove_loop_only_dirs : forall fuel fs dir boundary fs', remove_loop fuel fs dir boundary = Ok fs' ->
  forall k, fs_get fs' k = fs_get fs k \/ (fs_get fs k = Some NDir /\ fs_get fs' k = None).
Proof.
  induction fuel as [|f IH]; intros fs dir boundary fs' H k; [dsc|].
  cbn [remove_loop] in H.
  assert (Hstep : forall fs1,
    (forall k, fs_get fs1 k = fs_get fs k \/ (fs_get fs k = Some NDir /\ fs_get fs1 k = None)) ->
    match path_parent dir with
    | None => Panic
    | Some parent => if path_eq parent boundary then Ok fs1 else remove_loop f fs1 parent boundary
    end = Ok fs' ->
    fs_get fs' k = fs_get fs k \/ (fs_get fs k = Some NDir /\ fs_get fs' k = None)).
  { intros fs1 H1 H2. destruct (path_parent dir) as [parent|]; [|dsc].
    destruct (path_eq parent boundary).
    - apply Ok_inj in H2. subst fs1. apply H1.
    - destruct (IH _ _ _ _ H2 k) as [Ha | [Ha Hb]]; destruct (H1 k) as [Hc | [Hc Hd]].
      + left. congruence.
      + right. split; congruence.
      + right. split; congruence.
      + right. split; congruence. }
  destruct (sys_rmdir fs dir) as [fs1|e] eqn:Er.
  - apply rmdir_spec in Er as (kd & Hdir & ->). apply (Hstep (fs_del fs kd)); [|exact H].
    intros k'. destruct (cpath_eqb kd k') eqn:E.
    + apply cpath_eqb_eq in E. subst k'. right. split; [exact Hdir|apply get_del_same].
    + left. apply get_del_other. intros He. rewrite He, cpath_eqb_refl in E. dsc.
  - destruct e; try (apply Ok_inj in H; subst fs'; left; reflexivity).
    apply (Hstep fs); [intros; left; reflexivity|exact H].
Qed.

(* dropping an uncommitted lock: the only regular file that can disappear is the lock file itself;
   nothing is created or modified; the rest of what disappears are directories *)
Lemma L_drop_leaves_everything_else fs h fs' : drop_handle fs h = Ok fs' ->
  forall k, fs_get fs' k = fs_get fs k \/
            (k = lock_key (h_created h) /\ fs_get fs' k = None) \/
            (fs_get fs k = Some NDir /\ fs_get fs' k = None).
Proof.
  unfold drop_handle. intros H k.
  set (fs1 := match sys_unlink fs (h_created h) with ROk f => f | RErr _ => fs end) in H.
  assert (H1 : fs_get fs1 k = fs_get fs k \/ (k = lock_key (h_created h) /\ fs_get fs1 k = None)).
  { subst fs1. destruct (sys_unlink fs (h_created h)) as [f|e] eqn:E; [|left; reflexivity].
    apply unlink_spec in E as [_ ->]. destruct (cpath_eqb (lock_key (h_created h)) k) eqn:Ek.
    - apply cpath_eqb_eq in Ek. subst k. right. split; [reflexivity|apply get_del_same].
    - left. apply get_del_other. intros He. rewrite He, cpath_eqb_refl in Ek. dsc. }
  destruct (path_parent (h_created h)) as [dir|]; [|dsc].
  assert (H2 : fs_get fs' k = fs_get fs1 k \/ (fs_get fs1 k = Some NDir /\ fs_get fs' k = None)).
  { destruct (h_boundary h) as [b|]; [|apply Ok_inj in H; subst fs'; left; reflexivity].
    unfold empty_upward_until_boundary in H.
    destruct (negb (path_starts_with dir b)); [apply Ok_inj in H; subst fs'; left; reflexivity|].
    destruct (path_eq dir b); [apply Ok_inj in H; subst fs'; left; reflexivity|].
    destruct (sys_stat fs1 dir); [|apply Ok_inj in H; subst fs'; left; reflexivity].
    exact (remove_loop_only_dirs _ _ _ _ _ H k). }
  destruct H2 as [Ha | [Ha Hb]]; destruct H1 as [Hc | [Hc Hd]].
  - left. congruence.
  - right. left. split; [exact Hc|congruence].
  - right. right. split; congruence.
  - congruence.
Qed.

(* ... and the lock file itself is gone after the drop *)
Lemma L_drop_removes_lock fs h fs' k : kresolve fs (h_created h) = ROk (TName k false) ->
  is_file fs k -> drop_handle fs h = Ok fs' -> fs_get fs' k = None.
Proof.
  intros Hk (i & c & Hf) H. unfold drop_handle in H. unfold sys_unlink in H. rewrite Hk, Hf in H.
  destruct (path_parent (h_created h)) as [dir|]; [|dsc].
  assert (H1 : fs_get (fs_del fs k) k = None) by apply get_del_same.
  destruct (h_boundary h) as [b|]; [|apply Ok_inj in H; subst fs'; exact H1].
  unfold empty_upward_until_boundary in H.
  destruct (negb (path_starts_with dir b)); [apply Ok_inj in H; subst fs'; exact H1|].
  destruct (path_eq dir b); [apply Ok_inj in H; subst fs'; exact H1|].
  destruct (sys_stat (fs_del fs k) dir); [|apply Ok_inj in H; subst fs'; exact H1].
  destruct (remove_loop_only_dirs _ _ _ _ _ H k) as [Ha | [_ Hb]]; congruence.
Qed.

(* a successful acquire: the lock path is add_lock_suffix of the resource, and the file created
   for it exists, empty, with the fresh inode; nothing is held when it reports Locked / Io *)
Lemma L_acquire_ok fs ino r b kind fs' h : acquire fs ino r b kind = Ok (fs', AcqOk h) ->
  add_lock_suffix r = Ok (h_lock h) /\ h_ino h = ino /\ h_boundary h = b /\
  fs_get fs' (lock_key (h_created h)) = Some (NFile ino []).
Proof.
  unfold acquire. destruct (add_lock_suffix r) as [lock| | |]; cbn [obind]; try dsc.
  destruct (path_parent lock) as [pd|]; [|dsc].
  destruct (match b with None => Ok (fs, CaOk) | Some _ => create_all fs pd end) as [[fs1 ok]| | |];
    cbn [obind]; try dsc.
  destruct ok; try dsc.
  match goal with |- context [sys_create_excl ?a ?p ?i] => destruct (sys_create_excl a p i) as [fs2|e] eqn:E end.
  - intros H. apply Ok_inj in H. injection H as <- <-. cbn [h_lock h_ino h_boundary h_created].
    apply create_excl_spec in E as [_ ->]. repeat split. apply get_set_same.
  - destruct e; dsc.
Qed.
