(* C22 — interleaving semantics for lock holders on the model file system (Model.v syscalls).
   Definitions only; the invariant is proved in ProofsConc.v.

   A global state is the file system plus the set of current holders (actor, lock path).  One
   transition = ONE system call of ONE actor (thread or process — the model does not distinguish).
   The actors' programs are over-approximated: anybody may at any time attempt any mkdir / rmdir
   (this covers every schedule of create::Iter and remove::Iter, retries included, and unrelated
   directory traffic), any open(O_CREAT|O_EXCL) of a lock path (acquire), any write through an open
   descriptor; only the HOLDER of a lock path renames it onto a resource (commit) or unlinks it (drop).
   That last restriction is the locking convention itself: the theorem is about actors that follow it. *)
From GixV.Base Require Import Bytes Outcome.
From GixV.C22 Require Import Model.

(* the file-system entry a path names, computed from the bytes alone (no symlinks in the model) *)
Fixpoint lex_walk (cur : cpath) (cs : list bytes) : cpath :=
  match cs with
  | [] => cur
  | c :: r =>
      if bytes_eqb c [] || bytes_eqb c (bs ".") then lex_walk cur r
      else if bytes_eqb c (bs "..") then lex_walk (removelast cur) r
      else lex_walk (cur ++ [c]) r
  end.
Definition lock_key (p : bytes) : cpath :=
  let cs := rev (drop_empty (rev (split_on is_sep p))) in
  lex_walk (if has_root p then [] else CWD) (removelast cs) ++ [last cs []].

Definition actor := nat.
Definition hold := (actor * bytes)%type.
Definition hkey (h : hold) : cpath := lock_key (snd h).
Definition gstate := (fsT * list hold)%type.

Definition release (l : bytes) (hs : list hold) : list hold :=
  filter (fun h => negb (cpath_eqb (hkey h) (lock_key l))) hs.

Inductive action :=
| AMkdir (p : bytes)
| ARmdir (p : bytes)
| ATryLock (l : bytes) (ino : N)
| AWrite (ino : N) (data : bytes)
| ACommit (l resource : bytes)
| ADrop (l : bytes).

Inductive step : gstate -> actor -> action -> gstate -> Prop :=
| S_mkdir_ok fs hs t p fs' : sys_mkdir fs p = ROk fs' -> step (fs, hs) t (AMkdir p) (fs', hs)
| S_mkdir_err fs hs t p e : sys_mkdir fs p = RErr e -> step (fs, hs) t (AMkdir p) (fs, hs)
| S_rmdir_ok fs hs t p fs' : sys_rmdir fs p = ROk fs' -> step (fs, hs) t (ARmdir p) (fs', hs)
| S_rmdir_err fs hs t p e : sys_rmdir fs p = RErr e -> step (fs, hs) t (ARmdir p) (fs, hs)
| S_lock_ok fs hs t l ino fs' :
    sys_create_excl fs l ino = ROk fs' -> step (fs, hs) t (ATryLock l ino) (fs', (t, l) :: hs)
| S_lock_err fs hs t l ino e :
    sys_create_excl fs l ino = RErr e -> step (fs, hs) t (ATryLock l ino) (fs, hs)
| S_write fs hs t ino data : step (fs, hs) t (AWrite ino data) (fs_append fs ino data, hs)
| S_commit_ok fs hs t l r fs' :
    In (t, l) hs -> sys_rename fs l r = ROk fs' -> step (fs, hs) t (ACommit l r) (fs', release l hs)
| S_commit_err fs hs t l r e :
    In (t, l) hs -> sys_rename fs l r = RErr e -> step (fs, hs) t (ACommit l r) (fs, hs)
| S_drop_ok fs hs t l fs' :
    In (t, l) hs -> sys_unlink fs l = ROk fs' -> step (fs, hs) t (ADrop l) (fs', release l hs)
| S_drop_err fs hs t l e :
    In (t, l) hs -> sys_unlink fs l = RErr e -> step (fs, hs) t (ADrop l) (fs, release l hs).

(* any number of actors, any schedule *)
Inductive reachable (s0 : gstate) : gstate -> Prop :=
| R_init : reachable s0 s0
| R_step s t a s' : reachable s0 s -> step s t a s' -> reachable s0 s'.

(* at most one holder per lock file, and a held lock file exists *)
Definition exclusive (s : gstate) : Prop :=
  NoDup (map hkey (snd s)) /\
  forall h, In h (snd s) -> exists i c, fs_get (fst s) (hkey h) = Some (NFile i c).
