(* C22 — lemmas about the naming part of the model: std::path on unix byte strings,
   add_lock_suffix / strip_lock_suffix / at_path_name. *)
From Coq Require Import Lia.
From GixV.Base Require Import Bytes BytesFacts Outcome.
From GixV.C22 Require Import Model.

(* ---- the vocabulary of the statements ------------------------------------------------------ *)

Definition no_sep (l : bytes) : Prop := forallb (fun b => negb (is_sep b)) l = true.
(* a file name: non-empty, no separator, not "." and not ".." — ANY other bytes, valid UTF-8 or not *)
Definition valid_name (n : bytes) : Prop :=
  n <> [] /\ no_sep n /\ n <> bs "." /\ n <> bs "..".
(* what may stand in front of the file name: nothing, or anything ending in a separator *)
Definition dir_ok (d : bytes) : Prop := d = [] \/ exists d', d = d' ++ [x2f].

Lemma bytes_eqb_false a b : a <> b -> bytes_eqb a b = false.
Proof.
  intros H. destruct (bytes_eqb a b) eqn:E; [|reflexivity].
  apply bytes_eqb_eq in E. contradiction.
Qed.
Lemma bytes_eqb_refl a : bytes_eqb a a = true.
Proof. apply bytes_eqb_eq. reflexivity. Qed.

Lemma no_sep_app a b : no_sep (a ++ b) <-> no_sep a /\ no_sep b.
Proof. unfold no_sep. rewrite forallb_app, Bool.andb_true_iff. reflexivity. Qed.
Lemma no_sep_cons x a : no_sep (x :: a) <-> is_sep x = false /\ no_sep a.
Proof.
  unfold no_sep. cbn [forallb]. rewrite Bool.andb_true_iff, Bool.negb_true_iff. reflexivity.
Qed.
Lemma no_sep_existsb l : no_sep l -> existsb is_sep l = false.
Proof.
  induction l as [|x l IH]; intros H; [reflexivity|].
  apply no_sep_cons in H as [Hx Hl]. cbn [existsb]. rewrite Hx, (IH Hl). reflexivity.
Qed.

Lemma classify_valid n : valid_name n -> classify n = Some (CNormal n).
Proof.
  intros (Hne & _ & Hd & Hdd). unfold classify.
  rewrite (bytes_eqb_false _ _ Hd), (bytes_eqb_false _ _ Hdd).
  destruct n; [contradiction|reflexivity].
Qed.

(* ---- back_scan ----------------------------------------------------------------------------- *)

(* [acc] is collected in front: scanning "name" backwards conses its bytes from last to first *)
Lemma back_scan_name : forall rname acc rest, no_sep rname ->
  back_scan (rname ++ rest) acc = back_scan rest (rev rname ++ acc).
Proof.
  induction rname as [|x rname IH]; intros acc rest H; [reflexivity|].
  apply no_sep_cons in H as [Hx Hn].
  cbn [app back_scan]. rewrite Hx. rewrite (IH (x :: acc) rest Hn).
  cbn [rev]. rewrite <- app_assoc. reflexivity.
Qed.

Lemma no_sep_rev l : no_sep l -> no_sep (rev l).
Proof.
  induction l as [|x l IH]; intros H; [exact H|].
  apply no_sep_cons in H as [Hx Hl]. cbn [rev]. apply no_sep_app. split; [auto|].
  apply no_sep_cons. split; [exact Hx|reflexivity].
Qed.

(* the body ends in a valid name, in front of it nothing or something ending in a separator *)
Lemma back_scan_clean name dbody : valid_name name -> dir_ok dbody ->
  back_scan (rev (dbody ++ name)) [] = Some (rev dbody, CNormal name).
Proof.
  intros Hv Hd. pose proof Hv as (_ & Hns & _).
  rewrite rev_app_distr, (back_scan_name (rev name) [] (rev dbody) (no_sep_rev _ Hns)).
  rewrite rev_involutive, app_nil_r.
  destruct Hd as [-> | [d' ->]].
  - cbn [rev back_scan]. rewrite (classify_valid _ Hv). reflexivity.
  - rewrite rev_app_distr. cbn [rev app back_scan].
    replace (is_sep x2f) with true by reflexivity.
    rewrite (classify_valid _ Hv). reflexivity.
Qed.

(* ---- prefix / body of a clean path --------------------------------------------------------- *)

Lemma valid_name_head n : valid_name n -> exists x r, n = x :: r /\ is_sep x = false /\ no_sep r.
Proof.
  intros (Hne & Hns & _). destruct n as [|x r]; [contradiction|].
  apply no_sep_cons in Hns as [Hx Hr]. eauto.
Qed.

Lemma is_sep_2f x : is_sep x = true -> x = x2f.
Proof. unfold is_sep. apply beqb_eq. Qed.

Lemma dir_ok_tail x d : dir_ok (x :: d) -> dir_ok d.
Proof.
  intros [H | [d' H]]; [discriminate|].
  destruct d' as [|y d'].
  - injection H as -> ->. left. reflexivity.
  - injection H as -> ->. right. eauto.
Qed.

(* the split of a clean path into the part std keeps out of the body and the body *)
Lemma clean_split dir name : valid_name name -> dir_ok dir ->
  exists dbody, dir_ok dbody /\
    path_pre (dir ++ name) ++ dbody = dir /\ path_body (dir ++ name) = dbody ++ name.
Proof.
  intros Hv Hd. destruct (valid_name_head _ Hv) as (x & r & -> & Hx & Hr).
  unfold path_pre, path_body, len_before_body.
  destruct dir as [|d0 dir'].
  - (* no directory part: the name is the whole path *)
    exists []. cbn [app]. unfold include_cur_dir, has_root. rewrite Hx.
    assert (Hinc : (match r with [] => is_dot x | b :: _ => is_dot x && is_sep b end) = false).
    { destruct r as [|b r'].
      - destruct (is_dot x) eqn:E; [|reflexivity]. exfalso.
        destruct Hv as (_ & _ & Hnd & _). apply Hnd. unfold is_dot in E. apply beqb_eq in E. subst x. reflexivity.
      - apply no_sep_cons in Hr as [Hb _]. rewrite Hb. apply Bool.andb_false_r. }
    destruct r as [|b r']; rewrite Hinc; cbn; repeat split; try (left; reflexivity).
  - pose proof (dir_ok_tail _ _ Hd) as Hd'.
    cbn [app]. unfold include_cur_dir. cbn [has_root].
    destruct (is_sep d0) eqn:Es.
    + (* rooted *)
      exists dir'. cbn. repeat split; auto.
    + (* dir' is non-empty and ends with a separator *)
      destruct dir' as [|b dir''].
      { exfalso. destruct Hd as [H | [d' H]]; [discriminate|].
        destruct d' as [|y d']; [|destruct d'; discriminate].
        injection H as ->. discriminate. }
      cbn [app]. destruct (is_dot d0 && is_sep b) eqn:Ei.
      * exists (b :: dir''). cbn. repeat split; auto.
      * exists (d0 :: b :: dir''). cbn. repeat split; auto.
Qed.

Lemma file_prefix_clean dir name : valid_name name -> dir_ok dir ->
  file_prefix (dir ++ name) = Some (dir, name).
Proof.
  intros Hv Hd. destruct (clean_split dir name Hv Hd) as (dbody & Hdb & Hpre & Hbody).
  unfold file_prefix. rewrite Hbody, (back_scan_clean _ _ Hv Hdb), rev_involutive, Hpre. reflexivity.
Qed.

Lemma file_name_clean dir name : valid_name name -> dir_ok dir -> file_name (dir ++ name) = Some name.
Proof. intros Hv Hd. unfold file_name. rewrite (file_prefix_clean _ _ Hv Hd). reflexivity. Qed.

(* ---- rsplit -------------------------------------------------------------------------------- *)

Lemma rsplit_at_spec f : forall l,
  match rsplit_at f l with
  | (Some bef, aft) => exists s, l = bef ++ s :: aft /\ f s = true /\ forallb (fun b => negb (f b)) aft = true
  | (None, aft) => aft = l /\ forallb (fun b => negb (f b)) l = true
  end.
Proof.
  induction l as [|b r IH]; cbn [rsplit_at]; [split; reflexivity|].
  destruct (rsplit_at f r) as [[bef|] aft].
  - destruct IH as (s & -> & Hs & Ha). exists s. repeat split; auto.
  - destruct IH as [-> Ha]. destruct (f b) eqn:E.
    + exists b. repeat split; auto.
    + split; [reflexivity|]. cbn [forallb]. rewrite E. exact Ha.
Qed.

Lemma rsplit_at_app f : forall bef s aft, f s = true -> forallb (fun b => negb (f b)) aft = true ->
  rsplit_at f (bef ++ s :: aft) = (Some bef, aft).
Proof.
  intros bef s aft Hs Ha.
  assert (H0 : rsplit_at f aft = (None, aft)).
  { pose proof (rsplit_at_spec f aft) as H. destruct (rsplit_at f aft) as [[b|] a].
    - destruct H as (s' & -> & Hs' & _). rewrite forallb_app in Ha.
      apply Bool.andb_true_iff in Ha as [_ Ha]. cbn [forallb] in Ha. rewrite Hs' in Ha. discriminate.
    - destruct H as [-> _]. reflexivity. }
  induction bef as [|b bef IH]; cbn [app rsplit_at].
  - rewrite H0, Hs. reflexivity.
  - rewrite IH. reflexivity.
Qed.

(* stem and extension put the name back together; the stem always exists *)
Lemma rsplit_file_spec n :
  match rsplit_file_at_dot n with
  | (Some stem, Some e) => n = stem ++ x2e :: e
  | (Some stem, None) => stem = n
  | (None, _) => False
  end.
Proof.
  unfold rsplit_file_at_dot. destruct (bytes_eqb n (bs "..")); [reflexivity|].
  pose proof (rsplit_at_spec is_dot n) as H.
  destruct (rsplit_at is_dot n) as [[bef|] aft].
  - destruct H as (s & -> & Hs & _). destruct bef; [reflexivity|].
    unfold is_dot in Hs. apply beqb_eq in Hs. subst s. reflexivity.
  - destruct H as [-> _]. reflexivity.
Qed.

(* ---- set_extension on a clean path --------------------------------------------------------- *)

Lemma set_extension_clean dir name ext : valid_name name -> dir_ok dir -> no_sep ext ->
  set_extension (dir ++ name) ext =
  Ok (match fst (rsplit_file_at_dot name) with
      | Some stem => match ext with [] => dir ++ stem | _ => (dir ++ stem) ++ x2e :: ext end
      | None => dir ++ name
      end).
Proof.
  intros Hv Hd He. unfold set_extension.
  rewrite (no_sep_existsb _ He), (file_prefix_clean _ _ Hv Hd).
  destruct (fst (rsplit_file_at_dot name)); reflexivity.
Qed.

Lemma extension_clean dir name : valid_name name -> dir_ok dir ->
  extension (dir ++ name) = snd (rsplit_file_at_dot name).
Proof. intros Hv Hd. unfold extension. rewrite (file_name_clean _ _ Hv Hd). reflexivity. Qed.

Lemma no_sep_lock : no_sep DOT_LOCK. Proof. reflexivity. Qed.

(* ---- add_lock_suffix ----------------------------------------------------------------------- *)

Lemma L_lock_path_is_suffix dir name : valid_name name -> dir_ok dir ->
  add_lock_suffix (dir ++ name) = Ok (dir ++ name ++ DOT_LOCK).
Proof.
  intros Hv Hd. unfold add_lock_suffix. rewrite (extension_clean _ _ Hv Hd).
  pose proof (rsplit_file_spec name) as Hs.
  pose proof Hv as (_ & Hns & _).
  destruct (rsplit_file_at_dot name) as [[stem|] [e|]] eqn:E; try contradiction; cbn [snd].
  - (* an extension, whatever its bytes *)
    assert (He : no_sep (e ++ DOT_LOCK)).
    { rewrite Hs in Hns. apply no_sep_app in Hns as [_ Hns]. apply no_sep_cons in Hns as [_ Hns].
      apply no_sep_app. split; [exact Hns|exact no_sep_lock]. }
    rewrite (set_extension_clean _ _ _ Hv Hd He), E. cbn [fst].
    assert (Hm : forall (x y : bytes), match e ++ DOT_LOCK with [] => x | _ :: _ => y end = y)
      by (intros; destruct e; reflexivity).
    rewrite Hm, Hs. f_equal. repeat rewrite <- app_assoc. cbn [app]. reflexivity.
  - rewrite (set_extension_clean _ _ (bs "lock") Hv Hd eq_refl), E. cbn [fst]. subst stem.
    f_equal. repeat rewrite <- app_assoc. reflexivity.
Qed.

(* ---- strip_lock_suffix --------------------------------------------------------------------- *)

Lemma valid_name_app_nonempty name suf : valid_name name -> no_sep suf -> (2 <= length suf)%nat ->
  valid_name (name ++ suf).
Proof.
  intros (Hne & Hns & _) Hs Hl. repeat split.
  - destruct name; [contradiction|discriminate].
  - apply no_sep_app. auto.
  - intros H. apply (f_equal (@length byte)) in H. rewrite app_length in H. cbn in H.
    destruct name; [contradiction|]. cbn in H. lia.
  - intros H. apply (f_equal (@length byte)) in H. rewrite app_length in H. cbn in H.
    destruct name; [contradiction|]. cbn in H. lia.
Qed.

Lemma valid_name_dot name : valid_name name -> valid_name (name ++ [x2e]).
Proof.
  intros Hv. pose proof Hv as (Hne & Hns & Hd & Hdd). repeat split.
  - destruct name; discriminate.
  - apply no_sep_app. split; [exact Hns|reflexivity].
  - intros H. destruct name as [|a [|b r]]; try discriminate. contradiction.
  - intros H. destruct name as [|a [|b [|c r]]]; try discriminate.
    injection H as ->. apply Hd. reflexivity.
Qed.

Lemma rsplit_file_lock name suf : name <> [] -> forallb (fun b => negb (is_dot b)) suf = true ->
  name ++ x2e :: suf <> bs ".." ->
  rsplit_file_at_dot (name ++ x2e :: suf) = (Some name, Some suf).
Proof.
  intros Hne Hs Hdd. unfold rsplit_file_at_dot. rewrite (bytes_eqb_false _ _ Hdd).
  rewrite (rsplit_at_app is_dot name x2e suf eq_refl Hs).
  destruct name; [contradiction|reflexivity].
Qed.

Lemma L_strip_add dir name : valid_name name -> dir_ok dir ->
  strip_lock_suffix (dir ++ name ++ DOT_LOCK) = Ok (dir ++ name).
Proof.
  intros Hv Hd. pose proof Hv as (Hne & Hns & Hnd & Hndd).
  assert (Hvl : valid_name (name ++ DOT_LOCK)) by (apply valid_name_app_nonempty; [exact Hv|reflexivity|cbn; lia]).
  assert (Hsplit : rsplit_file_at_dot (name ++ DOT_LOCK) = (Some name, Some (bs "lock"))).
  { apply (rsplit_file_lock name (bs "lock") Hne eq_refl).
    intros H. apply (f_equal (@length byte)) in H. rewrite app_length in H. cbn in H. lia. }
  unfold strip_lock_suffix. rewrite (extension_clean _ _ Hvl Hd), Hsplit. cbn [snd].
  replace (utf8_valid (bs "lock")) with true by reflexivity.
  replace (is_char_boundary (bs "lock") (length (bs "lock") - 5)) with true by reflexivity.
  replace (firstn (length (bs "lock") - 5) (bs "lock")) with (@nil byte) by reflexivity.
  unfold with_extension. rewrite (extension_clean _ _ Hvl Hd), Hsplit. cbn [snd].
  (* the slice std copies: the path minus "lock", i.e. dir ++ name ++ "." *)
  assert (Hslice : firstn (length (dir ++ name ++ DOT_LOCK) - length (bs "lock")) (dir ++ name ++ DOT_LOCK)
                   = dir ++ (name ++ [x2e])).
  { replace (dir ++ name ++ DOT_LOCK) with ((dir ++ name ++ [x2e]) ++ bs "lock")
      by (rewrite <- !app_assoc; reflexivity).
    rewrite app_length. replace (length (dir ++ name ++ [x2e]) + length (bs "lock") - length (bs "lock"))%nat
      with (length (dir ++ name ++ [x2e]) + 0)%nat by lia.
    rewrite firstn_app_2. cbn [firstn]. rewrite app_nil_r. reflexivity. }
  rewrite Hslice.
  rewrite (set_extension_clean dir (name ++ [x2e]) [] (valid_name_dot _ Hv) Hd eq_refl).
  assert (Hs2 : rsplit_file_at_dot (name ++ [x2e]) = (Some name, Some [])).
  { apply (rsplit_file_lock name [] Hne eq_refl).
    intros H. pose proof (f_equal (@length byte) H) as HL. rewrite app_length in HL. cbn in HL.
    destruct name as [|a [|b r]]; cbn in HL; try lia. injection H as Ha. subst a. apply Hnd. reflexivity. }
  rewrite Hs2. reflexivity.
Qed.

(* ---- where gix-tempfile creates the file ------------------------------------------------------ *)

Lemma L_at_path_name dir name : valid_name name -> dir_ok dir ->
  at_path_name (dir ++ name ++ DOT_LOCK) = name ++ DOT_LOCK.
Proof.
  intros Hv Hd. pose proof Hv as (Hne & _).
  assert (Hvl : valid_name (name ++ DOT_LOCK)) by (apply valid_name_app_nonempty; [exact Hv|reflexivity|cbn; lia]).
  assert (Hsplit : rsplit_file_at_dot (name ++ DOT_LOCK) = (Some name, Some (bs "lock"))).
  { apply (rsplit_file_lock name (bs "lock") Hne eq_refl).
    intros H. apply (f_equal (@length byte)) in H. rewrite app_length in H. cbn in H. lia. }
  unfold at_path_name, file_stem. rewrite (extension_clean _ _ Hvl Hd), (file_name_clean _ _ Hvl Hd), Hsplit.
  reflexivity.
Qed.

(* ---- no panic, for every byte string ----------------------------------------------------------- *)

Lemma back_scan_no_sep : forall rb acc rbs n, no_sep acc ->
  back_scan rb acc = Some (rbs, CNormal n) -> no_sep n.
Proof.
  induction rb as [|b r IH]; intros acc rbs n Hacc H; cbn [back_scan] in H.
  - unfold classify in H.
    destruct (bytes_eqb acc (bs ".")); [discriminate|].
    destruct (bytes_eqb acc (bs "..")); [discriminate|].
    destruct acc; [discriminate|]. injection H as _ <-. exact Hacc.
  - destruct (is_sep b) eqn:Es.
    + unfold classify in H.
      destruct (bytes_eqb acc (bs ".")); [eapply IH; [|exact H]; reflexivity|].
      destruct (bytes_eqb acc (bs "..")); [discriminate|].
      destruct acc; [eapply IH; [|exact H]; reflexivity|]. injection H as _ <-. exact Hacc.
    + eapply IH; [|exact H]. apply no_sep_cons. auto.
Qed.

Lemma file_name_no_sep p n : file_name p = Some n -> no_sep n.
Proof.
  unfold file_name, file_prefix. intros H.
  destruct (back_scan (rev (path_body p)) []) as [[rbs [| | |m]]|] eqn:E; try discriminate.
  injection H as <-. eapply back_scan_no_sep; [|exact E]. reflexivity.
Qed.

Lemma extension_no_sep p e : extension p = Some e -> no_sep e.
Proof.
  unfold extension. destruct (file_name p) as [n|] eqn:E; [|discriminate].
  pose proof (file_name_no_sep _ _ E) as Hn. pose proof (rsplit_file_spec n) as Hs. intros H.
  destruct (rsplit_file_at_dot n) as [[stem|] [e'|]]; try contradiction; cbn [snd] in H; [|discriminate].
  injection H as ->. rewrite Hs in Hn. apply no_sep_app in Hn as [_ Hn]. apply no_sep_cons in Hn as [_ Hn]. exact Hn.
Qed.

Lemma set_extension_ok p ext : no_sep ext -> exists q, set_extension p ext = Ok q.
Proof.
  intros He. unfold set_extension. rewrite (no_sep_existsb _ He).
  destruct (file_prefix p) as [[front f]|]; [|eauto].
  destruct (fst (rsplit_file_at_dot f)); eauto.
Qed.

Lemma L_add_total p : exists q, add_lock_suffix p = Ok q.
Proof.
  unfold add_lock_suffix. apply set_extension_ok.
  destruct (extension p) as [e|] eqn:E; [|reflexivity].
  apply no_sep_app. split; [exact (extension_no_sep _ _ E)|exact no_sep_lock].
Qed.

(* without a file name the path is returned unchanged (and acquisition then fails: Proofs of acquire) *)
Lemma L_add_no_file_name p : file_name p = None -> add_lock_suffix p = Ok p.
Proof.
  intros H. unfold add_lock_suffix, extension. rewrite H. unfold set_extension. cbn [existsb].
  replace (existsb is_sep (bs "lock")) with false by reflexivity.
  unfold file_name in H. destruct (file_prefix p) as [[front f]|]; [discriminate|reflexivity].
Qed.

(* injectivity: different clean resources never share a lock path *)
Lemma L_lock_path_injective d1 n1 d2 n2 q :
  valid_name n1 -> dir_ok d1 -> valid_name n2 -> dir_ok d2 ->
  add_lock_suffix (d1 ++ n1) = Ok q -> add_lock_suffix (d2 ++ n2) = Ok q -> d1 ++ n1 = d2 ++ n2.
Proof.
  intros V1 D1 V2 D2 H1 H2.
  rewrite (L_lock_path_is_suffix _ _ V1 D1) in H1. rewrite (L_lock_path_is_suffix _ _ V2 D2) in H2.
  apply Ok_inj in H1. apply Ok_inj in H2. subst q.
  rewrite !app_assoc in H2. apply app_inv_tail in H2. symmetry. exact H2.
Qed.

(* ---- the defect that was fixed, as a fact about the old definition ------------------------------ *)
From GixV.C22 Require Import Spec.

Lemma L_before_fix_lossy :
  let p := bs "res." ++ [xff; xfe] in
  valid_name p /\ dir_ok [] /\
  add_lock_suffix_before_fix p = Ok (bs "res." ++ REPL ++ REPL ++ DOT_LOCK) /\
  add_lock_suffix_before_fix p <> Ok (p ++ DOT_LOCK).
Proof.
  cbv zeta. repeat split; try (left; reflexivity); try discriminate.
Qed.

Lemma L_before_fix_dotdot :
  let d := bs "x/" in let n := bs "..foo" in
  valid_name n /\ dir_ok d /\
  add_lock_suffix_before_fix (d ++ n) = Ok (bs "x/..") /\
  add_lock_suffix (d ++ n) = Ok (bs "x/..foo.lock").
Proof.
  cbv zeta. repeat split; try discriminate. right. exists (bs "x"). reflexivity.
Qed.
