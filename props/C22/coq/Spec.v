(* C22 — the code as it WAS before the fix: commit a555135cc in /repo (gix-lock/src/acquire.rs).
   Kept so that the defect is a theorem about a definition and not only a sentence in NOTES.md:

     fn add_lock_suffix(resource_path: &Path) -> PathBuf {
         resource_path.with_extension(resource_path.extension().map_or_else(
             || DOT_LOCK_SUFFIX.chars().skip(1).collect(),
             |ext| format!("{}{}", ext.to_string_lossy(), DOT_LOCK_SUFFIX),
         ))
     }
*)
From GixV.Base Require Import Bytes Outcome.
From GixV.C22 Require Import Model.

Definition add_lock_suffix_before_fix (resource : bytes) : outcome bytes unit :=
  with_extension resource
    (match extension resource with
     | Some e => utf8_lossy e ++ DOT_LOCK
     | None => bs "lock"
     end).
