(* C25 — sufficient condition for "no accidental EOIE extension" (see C24/ProofsEoie.v): the last
   written entry has a name of at least 28 bytes. *)
From Coq Require Import ZArith Lia ZifyBool ZifyNat ZifyN.
From GixV.Base Require Import Bytes BytesFacts Outcome.
From GixV.C25 Require Import Model Spec Write ProofsEntry ProofsWrite ProofsFile.
Ltac Zify.zify_post_hook ::= Z.div_mod_to_equations.
Local Open Scope N_scope.

Lemma git_entries_v23_app a : forall b,
  git_entries false [] false (a ++ b) = git_entries false [] false a ++ git_entries false [] false b.
Proof.
  induction a as [|e a IH]; intros b; [reflexivity|].
  cbn [app git_entries]. rewrite <- app_assoc. f_equal.
  rewrite (git_entries_v23_prev (a ++ b) (e_path e) false [] false), IH.
  rewrite (git_entries_v23_prev a (e_path e) false [] false). reflexivity.
Qed.

Lemma nth_skipn_add {A} (d : A) k : forall l n, nth n (skipn k l) d = nth (k + n) l d.
Proof. induction k as [|k IH]; intros l n; [reflexivity|]. destruct l; [destruct n; reflexivity|]. cbn [skipn plus nth]. apply IH. Qed.

Lemma b2N_pos b : b <> x00 -> 1 <= b2N b.
Proof.
  intros H. destruct (N.eq_dec (b2N b) 0) as [E|E]; [|lia].
  exfalso. apply H. apply b2N_inj. rewrite E. reflexivity.
Qed.

Lemma eoie_none_of_nonzero sha d : (52 <= length d)%nat -> nth (length d - 48) d x00 <> x00 ->
  eoie_decode sha d = None.
Proof.
  intros Hlen Hnz. unfold eoie_decode.
  replace (N.of_nat (length d) <? 52) with false by lia.
  replace (N.to_nat (N.of_nat (length d) - 52)) with (length d - 52)%nat by lia.
  pose proof (nth_skipn_add x00 (length d - 52) d 4) as Hn.
  replace (length d - 52 + 4)%nat with (length d - 48)%nat in Hn by lia.
  assert (Hl : length (skipn (length d - 52) d) = 52%nat) by (rewrite skipn_length; lia).
  destruct (skipn (length d - 52) d) as [|s0 [|s1 [|s2 [|s3 [|z0 [|z1 [|z2 [|z3 [|o0 [|o1 [|o2 [|o3 r]]]]]]]]]]]];
    try (cbn [length] in Hl; lia).
  cbn [nth] in Hn. rewrite <- Hn in Hnz. apply b2N_pos in Hnz.
  replace (u32_of z0 z1 z2 z3 =? 24) with false.
  - cbn [negb]. rewrite Bool.orb_true_r. reflexivity.
  - unfold u32_of. pose proof (b2N_lt z1). pose proof (b2N_lt z2). pose proof (b2N_lt z3). lia.
Qed.

Lemma L_eoie_none_long_last_name sha pre es e t : wf_entry e -> (28 <= length (e_path e))%nat -> length t = 20%nat ->
  eoie_decode sha (pre ++ git_entries false [] false (es ++ [e]) ++ t) = None.
Proof.
  intros Hwf Hp Ht. pose proof Hwf as (_ & _ & _ & Hid & Hnul & _).
  rewrite git_entries_v23_app. cbn [git_entries]. rewrite app_nil_r.
  unfold git_entry_v23.
  set (pad := repeat x00 (N.to_nat (pad_len (entry_size_unpadded e)))).
  assert (Hpad : (1 <= length pad <= 8)%nat).
  { unfold pad. rewrite repeat_length. pose proof (pad_len_bounds (entry_size_unpadded e)). lia. }
  set (A := pre ++ git_entries false [] false es ++ entry_head e).
  assert (Hd : pre ++ (git_entries false [] false es ++ entry_head e ++ e_path e ++ pad) ++ t =
               A ++ e_path e ++ (pad ++ t)).
  { unfold A. rewrite <- !app_assoc. reflexivity. }
  assert (HA : (20 <= length A)%nat).
  { unfold A, entry_head. rewrite !app_length, Hid. lia. }
  rewrite Hd. apply eoie_none_of_nonzero.
  - rewrite !app_length. lia.
  - rewrite !app_length, Ht.
    rewrite app_nth2 by lia.
    rewrite app_nth1 by lia.
    intros Hz. apply Hnul. rewrite <- Hz. apply nth_In. lia.
Qed.

(* unconditional corollary of the whole-file round trip *)
Lemma L_write_then_read_file_long_last_name sha (sha_len : forall x, length (sha x) = 20%nat)
  st opt_tree opt_eoie threads l e :
  Forall wf_entry (s_entries st) -> x_tree (s_exts st) = None -> s_sparse st = false ->
  N.of_nat (length (live (s_entries st))) < 4294967296 ->
  live (s_entries st) = l ++ [e] -> (28 <= length (e_path e))%nat ->
  let '(v, file) := write_file sha st opt_tree opt_eoie in
  v = required_version (s_entries st) /\
  from_bytes sha threads file = Ok (reread st v (sha (firstn (length file - 20) file))).
Proof.
  intros HF Ht Hs Hn Hlive Hp.
  pose proof (L_write_then_read_file_no_extensions sha sha_len st opt_tree opt_eoie threads HF Ht Hs Hn) as H.
  destruct (write_file sha st opt_tree opt_eoie) as [v file] eqn:E. apply H. clear H.
  unfold write_file, write_state in E. rewrite Ht, Hs in E. cbn [app flat_map length Nat.eqb negb] in E.
  rewrite Bool.andb_false_r in E. rewrite !app_nil_r in E. injection E as _ <-.
  rewrite L_write_entries_git by (try exact HF; reflexivity). fold (live (s_entries st)). rewrite Hlive.
  refine (L_eoie_none_long_last_name sha (_ :: _ :: _ :: _ :: _ :: _ :: _ :: _ :: _ :: _ :: _ :: _ :: nil) l e _ _ Hp (sha_len _)).
  assert (Hin : In e (live (s_entries st))) by (rewrite Hlive; apply in_or_app; right; left; reflexivity).
  unfold live in Hin. apply filter_In in Hin. rewrite Forall_forall in HF. apply HF, Hin.
Qed.
