(* C25 — transcript printer *)
From GixV.Base Require Import Bytes Outcome.
From GixV.C25 Require Import Sha1 Model Spec Write.
Local Open Scope N_scope.

Definition err_name (e : derr) : bytes :=
  match e with
  | EHeader => bs "Header" | EEntry => bs "Entry" | EExt => bs "Extension" | ETrailer => bs "Trailer"
  end.

(* cases:  rt <opt 0..4> <index bytes> <ops>
   opt: 0 = Extensions::All, 1 = None, 2 = Given{tree}, 3 = Given{eoie}, 4 = Given{tree, eoie} *)
Definition run_model (fs : list bytes) : bytes :=
  let op := nth_field 0 fs in
  if bytes_eqb op (bs "rt") then
    match from_bytes sha1 1 (nth_field 2 fs) with
    | Ok st =>
        let o := field_N 1 fs in
        let ops := nth_field 3 fs in
        let st' := mkState (s_version st) (apply_ops (length ops) ops (s_entries st)) (s_sparse st) (s_exts st) (s_checksum st) in
        let '(v, out) := write_file sha1 st' ((o =? 0) || (o =? 2) || (o =? 4)) ((o =? 0) || (o =? 3) || (o =? 4)) in
        bs "ok v" ++ N_to_dec v ++ bs " " ++ hex_encode out
    | Err e => bs "derr " ++ err_name e
    | Panic => bs "PANIC"
    | OutOfFuel => bs "HANG"
    end
  else bs "-".

Definition run (fs : list bytes) : bytes :=
  match fs with
  | _mode :: rest => run_model rest
  | [] => bs "?"
  end.
