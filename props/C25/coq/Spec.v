(* C24 — Spec: git's index writer (read-cache.c: do_write_index, ce_write_entry,
   write_ieot_extension, write_eoie_extension; cache-tree.c: write_one) as [state -> bytes] for
   versions 2, 3 and 4.  Independent of the decoder in Model.v except for the data types.
   Validated against real git 2.39.5 byte for byte (harness `git` function, cases `gw`). *)
From GixV.Base Require Import Bytes Outcome.
From GixV.C25 Require Import Model.
Local Open Scope N_scope.

(* ---- one entry -------------------------------------------------------------------------- *)
Definition flags16 (e : entry) : N :=
  (e_flags e / 4096) mod 16 * 4096 + N.min (N.of_nat (length (e_path e))) 4095.
Definition is_extended (e : entry) : bool := negb ((e_flags e / 16384) mod 2 =? 0).
Definition flag_bytes (e : entry) : bytes :=
  be16 (flags16 e) ++ (if is_extended e then be16 (e_flags e / 65536) else []).

Definition entry_head (e : entry) : bytes := flat_map be32 (e_words e) ++ e_id e ++ flag_bytes e.

(* v2/v3: name, then 1..8 NUL bytes so that the entry size is a multiple of 8 *)
Definition entry_size_unpadded (e : entry) : N :=
  60 + (if is_extended e then 4 else 2) + N.of_nat (length (e_path e)).
Definition pad_len (sz : N) : N := ((sz + 8) / 8) * 8 - sz.
Definition git_entry_v23 (e : entry) : bytes :=
  entry_head e ++ e_path e ++ repeat x00 (N.to_nat (pad_len (entry_size_unpadded e))).

(* varint.c encode_varint *)
Fixpoint varint_hi (fuel : nat) (v : N) (acc : bytes) : bytes :=
  match fuel with
  | O => acc
  | S f => if v <? 128 then acc
           else let v' := v / 128 - 1 in varint_hi f v' (N2b (128 + v' mod 128) :: acc)
  end.
Definition encode_varint (v : N) : bytes := varint_hi 10 v [N2b (v mod 128)].

Fixpoint common_prefix (a b : bytes) : nat :=
  match a, b with
  | x :: a', y :: b' => if beqb x y then S (common_prefix a' b') else O
  | _, _ => O
  end.
(* v4: [prev] is the previous name; [fresh] = the previous name was invalidated at the start of an
   offset-table block (nothing in common, the whole previous name is stripped) *)
Definition git_entry_v4 (prev : bytes) (fresh : bool) (e : entry) : bytes :=
  let common := if fresh then O else common_prefix prev (e_path e) in
  entry_head e ++ encode_varint (N.of_nat (length prev - common)) ++ skipn common (e_path e) ++ [x00].

(* entries of one block; returns the bytes and the last name *)
Fixpoint git_entries (v4 : bool) (prev : bytes) (fresh : bool) (es : list entry) : bytes :=
  match es with
  | [] => []
  | e :: r => (if v4 then git_entry_v4 prev fresh e else git_entry_v23 e)
              ++ git_entries v4 (e_path e) false r
  end.

(* the blocks of the offset table: [blocks] = list of entry lists; previous name carried across
   blocks but invalidated *)
Fixpoint git_blocks (v4 : bool) (prev : bytes) (first : bool) (blocks : list (list entry)) : list bytes :=
  match blocks with
  | [] => []
  | b :: r => git_entries v4 prev (negb first) b :: git_blocks v4 (match rev b with e :: _ => e_path e | [] => prev end) false r
  end.

(* ---- extensions ---------------------------------------------------------------------------- *)
Definition ext_frame (sig payload : bytes) : bytes := sig ++ be32 (N.of_nat (length payload)) ++ payload.

Fixpoint block_offsets (start : N) (bs : list bytes) : list N :=
  match bs with
  | [] => []
  | b :: r => start :: block_offsets (start + N.of_nat (length b)) r
  end.
Definition ieot_payload (offsets : list N) (counts : list N) : bytes :=
  be32 1 ++ flat_map (fun oc => be32 (fst oc) ++ be32 (snd oc)) (combine offsets counts).

Section WithHash.
Variable sha : bytes -> bytes.

Definition eoie_ext (offset : N) (toc : list (bytes * N)) : bytes :=
  bs "EOIE" ++ be32 24 ++ be32 offset ++ sha (flat_map (fun sn => fst sn ++ be32 (snd sn)) toc).

(* cache-tree.c write_one (also gix's Tree::write_to) *)
Fixpoint tree_payload (t : tree) : bytes :=
  match t with
  | Tree name id num kids =>
      name ++ [x00] ++ (match num with Some n => N_to_dec n | None => bs "-1" end) ++ [x20] ++
      N_to_dec (N.of_nat (length kids)) ++ [x0a] ++
      (match num with Some _ => id | None => [] end) ++ flat_map tree_payload kids
  end.

(* The whole file.  [blocks]: the entries split into offset-table blocks ([es] = concat blocks);
   [ieot]: write the offset table; [exts]: further extensions (signature, payload) in file order;
   [eoie]: write the end-of-index-entries extension; trailer = hash of everything before it. *)
Definition git_body (v : N) (blocks : list (list entry)) (ieot : bool) (exts : list (bytes * bytes)) (eoie : bool) : bytes :=
  let v4 := v =? 4 in
  let n := N.of_nat (length (concat blocks)) in
  let header := bs "DIRC" ++ be32 v ++ be32 n in
  let bbs := git_blocks v4 [] true blocks in
  let ents := concat bbs in
  let offset := 12 + N.of_nat (length ents) in
  let ieot_x := if ieot then [(bs "IEOT", ieot_payload (block_offsets 12 bbs) (map (fun b => N.of_nat (length b)) blocks))] else [] in
  let xs := ieot_x ++ exts in
  header ++ ents ++ flat_map (fun sp => ext_frame (fst sp) (snd sp)) xs ++
  (if eoie then eoie_ext offset (map (fun sp => (fst sp, N.of_nat (length (snd sp)))) xs) else []).

Definition git_write (v : N) (blocks : list (list entry)) (ieot : bool) (exts : list (bytes * bytes)) (eoie : bool) : bytes :=
  let body := git_body v blocks ieot exts eoie in body ++ sha body.

(* ---- what `git -c index.version=V -c index.threads=T update-index` writes for an entry list ---- *)
Fixpoint split_blocks {A} (fuel : nat) (size : nat) (l : list A) : list (list A) :=
  match fuel with
  | O => []
  | S f => match l with [] => [] | _ => firstn size l :: split_blocks f size (skipn size l) end
  end.
Definition git_write_file (v : N) (es : list entry) (threads : N) : bytes :=
  let n := N.of_nat (length es) in
  let extended := existsb is_extended es in
  let v' := if v =? 4 then 4 else if extended then 3 else 2 in
  let nblocks := N.min threads n in
  let with_ieot := (1 <? threads) && (1 <? nblocks) in
  let blocks := if with_ieot then split_blocks (length es) (N.to_nat ((n + nblocks - 1) / nblocks)) es else [es] in
  git_write v' blocks with_ieot [] ((negb (threads =? 1)) && negb (n =? 0)).

End WithHash.

(* ---- entry list description used by the `gw` cases: per entry
        mode(4) id(20) flags(4, in-memory bits) pathlen(2) path ---------------------------------- *)
Fixpoint parse_desc_fuel (fuel : nat) (d : bytes) (acc : list entry) : option (list entry) :=
  match d with
  | [] => Some (rev acc)
  | _ =>
    match fuel with
    | O => None
    | S f =>
      match read_u32 d with
      | Some (mode, d1) =>
        match take 20 d1 with
        | Some (id, d2) =>
          match read_u32 d2 with
          | Some (fl, d3) =>
            match read_u16 d3 with
            | Some (pl, d4) =>
              match take (N.to_nat pl) d4 with
              | Some (p, d5) => parse_desc_fuel f d5 (mkEntry [0;0;0;0;0;0;mode;0;0;0] id fl p :: acc)
              | None => None
              end
            | None => None
            end
          | None => None
          end
        | None => None
        end
      | None => None
      end
    end
  end.
Definition parse_desc (d : bytes) : option (list entry) := parse_desc_fuel (length d) d [].
