(* C24 — lemmas: slices, integers, one entry (v2/v3 with padding and saturated length, v4). *)
From Coq Require Import ZArith Lia ZifyBool ZifyNat ZifyN.
From GixV.Base Require Import Bytes BytesFacts Outcome.
From GixV.C25 Require Import Model Spec.
Ltac Zify.zify_post_hook ::= Z.div_mod_to_equations.
Local Open Scope N_scope.
Local Open Scope outcome_scope.

(* ---- bytes and integers ------------------------------------------------------------------- *)
Lemma b2N_N2b n : b2N (N2b n) = n mod 256.
Proof.
  assert (H : N2b n = N2b (n mod 256)).
  { unfold N2b. rewrite N.mod_mod by lia. reflexivity. }
  rewrite H. apply b2N_N2b_small. apply N.mod_lt. lia.
Qed.

Lemma u32_of_be32 n r : n < 4294967296 -> read_u32 (be32 n ++ r) = Some (n, r).
Proof.
  intros H. unfold be32. cbn [app read_u32]. unfold u32_of. rewrite !b2N_N2b.
  f_equal. f_equal. lia.
Qed.

Lemma u16_of_be16 n r : n < 65536 -> read_u16 (be16 n ++ r) = Some (n, r).
Proof.
  intros H. unfold be16. cbn [app read_u16]. rewrite !b2N_N2b. f_equal. f_equal. lia.
Qed.

Lemma be32_length n : length (be32 n) = 4%nat.
Proof. reflexivity. Qed.
Lemma be16_length n : length (be16 n) = 2%nat.
Proof. reflexivity. Qed.

Lemma read_words_flat ws : forall r, Forall (fun w => w < 4294967296) ws ->
  read_words (length ws) (flat_map be32 ws ++ r) = Some (ws, r).
Proof.
  induction ws as [|w ws IH]; intros r HF.
  - reflexivity.
  - inversion HF as [|? ? Hw HF']; subst. cbn [length flat_map read_words].
    rewrite <- app_assoc. rewrite u32_of_be32 by exact Hw. rewrite IH by exact HF'. reflexivity.
Qed.

Lemma flat_be32_length ws : length (flat_map be32 ws) = (4 * length ws)%nat.
Proof. induction ws as [|w ws IH]; [reflexivity|]. cbn [flat_map]. rewrite app_length, IH, be32_length. cbn [length]. lia. Qed.

Lemma take_app a : forall r, take (length a) (a ++ r) = Some (a, r).
Proof.
  induction a as [|x a IH]; intros r; [reflexivity|].
  cbn [length app take]. rewrite IH. reflexivity.
Qed.

Lemma take_some n : forall d a r, take n d = Some (a, r) -> d = a ++ r /\ length a = n.
Proof.
  induction n as [|n IH]; intros d a r H.
  - cbn in H. injection H as <- <-. split; reflexivity.
  - destruct d as [|b d]; [discriminate|]. cbn [take] in H.
    destruct (take n d) as [[a' r']|] eqn:E; [|discriminate].
    injection H as <- <-. destruct (IH _ _ _ E) as [-> <-]. split; reflexivity.
Qed.

Lemma span_byte_app b a : forall r, ~ In b a -> span_byte b (a ++ b :: r) = Some (a, r).
Proof.
  induction a as [|x a IH]; intros r Hn.
  - cbn [app span_byte]. replace (beqb b b) with true by (symmetry; apply beqb_eq; reflexivity). reflexivity.
  - cbn [app span_byte]. destruct (beqb x b) eqn:E.
    + apply beqb_eq in E. subst. exfalso. apply Hn. left. reflexivity.
    + rewrite IH; [reflexivity|]. intros Hin. apply Hn. right. exact Hin.
Qed.

Lemma span_byte_some b : forall d a r, span_byte b d = Some (a, r) -> d = a ++ b :: r /\ ~ In b a.
Proof.
  induction d as [|x d IH]; intros a r H; [discriminate|].
  cbn [span_byte] in H. destruct (beqb x b) eqn:E.
  - injection H as <- <-. apply beqb_eq in E. subst. split; [reflexivity|]. intros [].
  - destruct (span_byte b d) as [[a' r']|] eqn:E2; [|discriminate]. injection H as <- <-.
    destruct (IH _ _ eq_refl) as [-> Hn]. split; [reflexivity|].
    intros [Hx|Hin]; [|exact (Hn Hin)]. subst.
    assert (beqb b b = true) by (apply beqb_eq; reflexivity). congruence.
Qed.

Lemma split_excl_app b a r : ~ In b a -> (2 <= length (a ++ b :: r))%nat ->
  split_at_byte_exclusive (a ++ b :: r) b = Some (a, r).
Proof.
  intros Hn Hl. unfold split_at_byte_exclusive.
  destruct (a ++ b :: r) as [|x [|y t]] eqn:E; cbn [length] in Hl; try lia.
  rewrite <- E. apply span_byte_app. exact Hn.
Qed.

(* ---- well-formed entries -------------------------------------------------------------------- *)
(* what git stores: ten 32-bit words with a mode inside entry::Mode's bits, a 20-byte id, a name
   without NUL, stage/extended/assume-valid bits, and the two extended flags only together with
   the EXTENDED bit *)
Definition wf_entry (e : entry) : Prop :=
  length (e_words e) = 10%nat /\ Forall (fun w => w < 4294967296) (e_words e) /\
  mask_mode (e_words e) = e_words e /\
  length (e_id e) = 20%nat /\ ~ In x00 (e_path e) /\
  e_flags e mod 4096 = 0 /\ (e_flags e / 65536) mod 8192 = 0 /\ e_flags e / 65536 < 32768 /\
  (is_extended e = false -> e_flags e < 65536).

Lemma read_flags_spec e r : wf_entry e ->
  read_flags (flag_bytes e ++ r) =
  Some (e_flags e + N.min (N.of_nat (length (e_path e))) 4095, if is_extended e then 4 else 2, r).
Proof.
  intros (_ & _ & _ & _ & _ & Hlow & Hx1 & Hx2 & Hne).
  unfold read_flags, flag_bytes. rewrite <- app_assoc.
  assert (Hf16 : flags16 e < 65536) by (unfold flags16; lia).
  rewrite u16_of_be16 by exact Hf16.
  assert (Hbit : (flags16 e / 16384) mod 2 = (e_flags e / 16384) mod 2) by (unfold flags16; lia).
  rewrite Hbit. unfold is_extended in *.
  destruct ((e_flags e / 16384) mod 2 =? 0) eqn:E; cbn [negb].
  - cbn [app]. specialize (Hne eq_refl). f_equal. f_equal. f_equal. unfold flags16. lia.
  - rewrite u16_of_be16 by lia.
    replace ((e_flags e / 65536) mod 8192 =? 0) with true by lia.
    replace (e_flags e / 65536 <? 32768) with true by lia. cbn [andb].
    f_equal. f_equal. f_equal. unfold flags16. lia.
Qed.

Lemma entry_head_parse e r : wf_entry e ->
  read_words 10 (entry_head e ++ r) = Some (e_words e, e_id e ++ flag_bytes e ++ r).
Proof.
  intros (Hl & HF & _). unfold entry_head. rewrite <- !app_assoc.
  rewrite <- Hl. apply read_words_flat. exact HF.
Qed.

Lemma pad_len_bounds sz : 1 <= pad_len sz <= 8.
Proof. unfold pad_len. lia. Qed.

Lemma skip_padding_repeat sz r :
  skip_padding (repeat x00 (N.to_nat (pad_len sz)) ++ r) sz = Some r.
Proof.
  unfold skip_padding. fold (pad_len sz).
  pose proof (take_app (repeat x00 (N.to_nat (pad_len sz))) r) as H.
  rewrite repeat_length in H. rewrite H. reflexivity.
Qed.

Lemma in_repeat_app_nul p k r : ~ In x00 p -> (1 <= k)%nat ->
  exists r', p ++ repeat x00 k ++ r = p ++ x00 :: r'.
Proof.
  intros _ Hk. destruct k as [|k]; [lia|]. exists (repeat x00 k ++ r). reflexivity.
Qed.

(* one v2/v3 entry as git writes it decodes to itself and leaves exactly what follows it *)
Lemma L_load_one_v23 e prev r : wf_entry e ->
  load_one false prev (git_entry_v23 e ++ r) = Ok (e, r).
Proof.
  intros Hwf. pose proof Hwf as (Hl & HF & Hmask & Hid & Hnul & Hlow & Hx1 & Hx2 & Hne).
  unfold load_one, git_entry_v23. rewrite <- !app_assoc.
  rewrite entry_head_parse by exact Hwf. cbn [lift obind].
  rewrite <- Hid at 1. rewrite take_app. cbn [lift obind].
  rewrite read_flags_spec by exact Hwf. cbn [lift obind].
  set (len := N.of_nat (length (e_path e))).
  set (fsz := if is_extended e then 4 else 2).
  assert (Hmod : (e_flags e + N.min len 4095) mod 4096 = N.min len 4095) by lia.
  assert (Hfl : (e_flags e + N.min len 4095) / 4096 * 4096 = e_flags e) by lia.
  rewrite Hmod.
  assert (Hsz : 60 + fsz + len = entry_size_unpadded e).
  { unfold entry_size_unpadded, fsz, len. lia. }
  assert (Hplen :
    (if N.min len 4095 =? PATH_LEN
     then '(p, _) <- lift (split_at_byte_exclusive
                     (e_path e ++ repeat x00 (N.to_nat (pad_len (entry_size_unpadded e))) ++ r) x00) ;;
          Ok (N.of_nat (length p))
     else Ok (N.min len 4095)) = (Ok len : res N)).
  { unfold PATH_LEN. destruct (N.min len 4095 =? 4095) eqn:E.
    - pose proof (pad_len_bounds (entry_size_unpadded e)) as Hp.
      destruct (in_repeat_app_nul (e_path e) (N.to_nat (pad_len (entry_size_unpadded e))) r Hnul ltac:(lia)) as [r' Hr'].
      rewrite Hr'. rewrite split_excl_app; [reflexivity|exact Hnul|].
      rewrite app_length. unfold len in E. lia.
    - f_equal. lia. }
  rewrite Hplen. cbn [obind].
  unfold len. rewrite Nat2N.id. rewrite take_app. cbn [lift obind].
  fold len. rewrite Hsz. rewrite skip_padding_repeat. cbn [lift obind].
  rewrite Hmask, Hfl. destruct e; reflexivity.
Qed.

(* the decoder never panics on one v2/v3 entry, whatever the bytes *)
Lemma L_load_one_v23_no_panic prev d : load_one false prev d <> Panic.
Proof.
  unfold load_one.
  destruct (read_words 10 d) as [[ws d1]|]; cbn [lift obind]; [|discriminate].
  destruct (take 20 d1) as [[id d2]|]; cbn [lift obind]; [|discriminate].
  destruct (read_flags d2) as [[[fl fsz] d3]|]; cbn [lift obind]; [|discriminate].
  destruct (fl mod 4096 =? PATH_LEN).
  - destruct (split_at_byte_exclusive d3 x00) as [[p q]|]; cbn [lift obind]; [|discriminate].
    destruct (take (N.to_nat (N.of_nat (length p))) d3) as [[pa d4]|]; cbn [lift obind]; [|discriminate].
    destruct (skip_padding d4 _); cbn [lift obind]; discriminate.
  - cbn [obind].
    destruct (take (N.to_nat (fl mod 4096)) d3) as [[pa d4]|]; cbn [lift obind]; [|discriminate].
    destruct (skip_padding d4 _); cbn [lift obind]; discriminate.
Qed.

(* ---- a block of v2/v3 entries ------------------------------------------------------------------ *)
Lemma git_entries_v23_prev es : forall p f p' f', git_entries false p f es = git_entries false p' f' es.
Proof. destruct es; reflexivity. Qed.

Lemma L_chunk_v23 es : forall fuel prev r acc, Forall wf_entry es -> (length es <= fuel)%nat ->
  chunk fuel false (N.of_nat (length es)) prev (git_entries false [] false es ++ r) acc = Ok (rev acc ++ es, r).
Proof.
  induction es as [|e es IH]; intros fuel prev r acc HF Hfuel.
  - destruct fuel; cbn; rewrite app_nil_r; reflexivity.
  - destruct fuel as [|fuel]; [cbn [length] in Hfuel; lia|].
    inversion HF as [|? ? He HF']; subst.
    cbn [git_entries]. rewrite <- app_assoc.
    cbn [chunk]. replace (N.of_nat (length (e :: es)) =? 0) with false by (cbn [length]; lia).
    rewrite L_load_one_v23 by exact He.
    replace (N.of_nat (length (e :: es)) - 1) with (N.of_nat (length es)) by (cbn [length]; lia).
    rewrite (git_entries_v23_prev es (e_path e) false [] false).
    rewrite IH; [|exact HF'|cbn [length] in Hfuel; lia].
    cbn [rev]. rewrite <- app_assoc. reflexivity.
Qed.

Lemma git_entry_v23_length e : (1 <= length (git_entry_v23 e))%nat.
Proof.
  unfold git_entry_v23, entry_head, flag_bytes. rewrite !app_length.
  (* only a lower bound is needed *)
  assert (H : (2 <= length (be16 (flags16 e)))%nat) by (rewrite be16_length; lia).
  lia.
Qed.
