(* C25 — Index files written by gitoxide round-trip and are valid for git.
   Only statements; proofs are [exact <lemma>].  Model.v = the reader (shared with C24), Write.v = the
   writer (State::write_to, Entry::write_to), Spec.v = git's writer (validated against git 2.39.5 byte
   for byte in C24).  [wf_entry] = what an entry holds after decoding / what git stores. *)
From GixV.Base Require Import Bytes BytesFacts Outcome.
From GixV.C25 Require Import Sha1 Model Spec Write ProofsEntry ProofsWrite ProofsFile ProofsEoie.
Local Open Scope N_scope.

(* the entry block the writer produces is byte for byte git's: entries marked REMOVE are skipped,
   every other entry is git's on-disk entry (flags with the path length saturated at 0xfff, optional
   extended flags, name, 1..8 NUL bytes up to a multiple of 8 — the writer pads relative to the end
   of the header, git relative to the entry start) *)
Theorem write_entries_is_git_layout : forall es count, Forall wf_entry es -> count mod 8 = 0 ->
  write_entries es count = git_entries false [] false (filter (fun e => negb (removed e)) es).
Proof. exact L_write_entries_git. Qed.

(* one entry with the writer's padding = git's padded entry, and the running count stays aligned *)
Theorem entry_padding_is_gits : forall e count, wf_entry e -> count mod 8 = 0 ->
  let c := count + N.of_nat (length (entry_write e)) in
  let pad := if c mod 8 =? 0 then 0 else 8 - c mod 8 in
  entry_write e ++ repeat x00 (N.to_nat pad) = git_entry_v23 e /\ (c + pad) mod 8 = 0.
Proof. exact L_entry_padded. Qed.

(* writing and reading back: exactly the entries not marked for removal, in order, with equal stat
   words, mode, id, flags and path (any path length, across the 0xfff boundary) *)
Theorem write_then_read_entries : forall es r, Forall wf_entry es ->
  let live := filter (fun e => negb (removed e)) es in
  chunk_of false (N.of_nat (length live)) (write_entries es 0 ++ r) = Ok (live, r).
Proof. exact L_write_read_entries. Qed.

(* version 3 is chosen exactly when an entry carries extended flags *)
Theorem version_upgrade_on_extended_flags : forall es, Forall wf_entry es ->
  required_version es = if existsb is_extended es then 3 else 2.
Proof. exact L_required_version. Qed.

(* states built in memory: skip-worktree / intent-to-add survive writing even if the EXTENDED bit was
   not set in memory (the reader finds a 4-byte flag field carrying the same two bits) *)
Theorem extended_flags_are_not_lost : forall e r, length (e_words e) = 10%nat ->
  Forall (fun w => w < 4294967296) (e_words e) -> length (e_id e) = 20%nat -> e_flags e < 4294967296 ->
  ext_bits e <> 0 ->
  exists fl rest, read_words 10 (entry_write e ++ r) = Some (e_words e, e_id e ++ rest) /\
    read_flags rest = Some (fl, 4, e_path e ++ [x00] ++ r) /\ (fl / 536870912) mod 4 = ext_bits e.
Proof. exact L_extended_flags_kept. Qed.

(* Whole file, simplest layout (header + entries + trailer; no tree cache, not sparse, hence no
   extension is written): reading back what File::write_to wrote gives the version that was written and
   exactly the entries not marked REMOVE, for EVERY thread limit, with the trailer as checksum.
   [sha] is any function returning 20 bytes.  Premise [eoie_decode … = None]: the last 32 bytes of the
   entry area do not happen to form a valid end-of-index-entries extension (signature "EOIE", size 24,
   an offset and the matching hash) — the reader, like git's, looks for that extension at a fixed
   distance from the end of every file, and for a hash function that is only a parameter this cannot be
   excluded; [ex_file_no_extensions] shows the premise holding with the real SHA-1. *)
Theorem write_then_read_file_no_extensions : forall sha, (forall x, length (sha x) = 20%nat) ->
  forall st opt_tree opt_eoie threads,
  Forall wf_entry (s_entries st) -> x_tree (s_exts st) = None -> s_sparse st = false ->
  N.of_nat (length (live (s_entries st))) < 4294967296 ->
  let '(v, file) := write_file sha st opt_tree opt_eoie in
  eoie_decode sha file = None ->
  v = required_version (s_entries st) /\
  from_bytes sha threads file = Ok (reread st v (sha (firstn (length file - 20) file))).
Proof. exact L_write_then_read_file_no_extensions. Qed.

(* ... and without that premise when the last entry that is written has a name of at least 28 bytes: the
   byte where the size field of an EOIE extension would start lies inside that name and is not NUL *)
Theorem write_then_read_file_long_last_name : forall sha, (forall x, length (sha x) = 20%nat) ->
  forall st opt_tree opt_eoie threads l e,
  Forall wf_entry (s_entries st) -> x_tree (s_exts st) = None -> s_sparse st = false ->
  N.of_nat (length (live (s_entries st))) < 4294967296 ->
  live (s_entries st) = l ++ [e] -> (28 <= length (e_path e))%nat ->
  let '(v, file) := write_file sha st opt_tree opt_eoie in
  v = required_version (s_entries st) /\
  from_bytes sha threads file = Ok (reread st v (sha (firstn (length file - 20) file))).
Proof. exact L_write_then_read_file_long_last_name. Qed.

(* non-vacuity *)
Definition ex_entry (fl : N) (p : bytes) : entry :=
  mkEntry [1;2;3;4;5;6;33188;7;8;4294967295] (repeat xab 20) fl p.
Example ex_entry_wf : wf_entry (ex_entry (4096 + 16384 + 1073741824) (bs "a/b")).
Proof.
  unfold wf_entry, ex_entry; cbn [e_words e_id e_flags e_path].
  repeat split; try reflexivity.
  - repeat constructor.
  - cbn. intuition discriminate.
  - cbn. discriminate.
Qed.
Example ex_long_and_removed :
  let a := ex_entry 0 (repeat x61 4100) in
  let b := ex_entry 131072 (bs "gone") in
  let c := ex_entry 1073741824 (bs "z") in      (* SKIP_WORKTREE without EXTENDED *)
  required_version [a; b; c] = 3 /\
  exists c', chunk_of false 2 (write_entries [a; b; c] 0 ++ bs "rest") = Ok ([a; c'], bs "rest") /\
             e_flags c' = 1073741824 + 16384 /\ e_path c' = bs "z".
Proof. split; [reflexivity|]. eexists. split; [vm_compute; reflexivity|]. split; reflexivity. Qed.

Example ex_file_no_extensions :
  let a := ex_entry 0 (bs "a/b") in
  let b := ex_entry 131072 (bs "gone") in
  let c := ex_entry (16384 + 1073741824) (bs "z") in
  let st := mkState 2 [a; b; c] false exts_default None in
  let '(v, file) := write_file sha1 st true true in
  v = 3 /\ eoie_decode sha1 file = None /\
  from_bytes sha1 1 file = Ok (reread st 3 (sha1 (firstn (length file - 20) file))) /\
  from_bytes sha1 8 file = from_bytes sha1 1 file /\ length file = (12 + 72 + 72 + 20)%nat.
Proof. vm_compute. repeat split; reflexivity. Qed.

Example ex_long_last_name :
  let e := ex_entry 0 (bs "a-name-of-at-least-28-bytes.txt") in
  let st := mkState 2 [ex_entry 0 (bs "a"); e; ex_entry 131072 (bs "gone")] false exts_default None in
  wf_entry e /\ live (s_entries st) = [ex_entry 0 (bs "a")] ++ [e] /\ (28 <= length (e_path e))%nat.
Proof.
  split; [|split; [reflexivity|cbn; repeat constructor]].
  unfold wf_entry, ex_entry; cbn [e_words e_id e_flags e_path].
  repeat split; try reflexivity.
  - repeat constructor.
  - cbn. intuition discriminate.
Qed.
