(* C25 — whole-file round trip for the simplest layout: header + v2/v3 entries + trailer, no
   extensions.  [State::from_bytes (File::write_to st)] = the same version and the entries not marked
   REMOVE, for every thread limit. *)
From Coq Require Import ZArith Lia ZifyBool ZifyNat ZifyN.
From GixV.Base Require Import Bytes BytesFacts Outcome.
From GixV.C25 Require Import Model Spec Write ProofsEntry ProofsWrite.
Ltac Zify.zify_post_hook ::= Z.div_mod_to_equations.
Local Open Scope N_scope.
Local Open Scope outcome_scope.

Lemma header_decode_ok v n rest : (v = 2 \/ v = 3 \/ v = 4) -> n < 4294967296 -> (20 <= length rest)%nat ->
  header_decode (bs "DIRC" ++ be32 v ++ be32 n ++ rest) = Ok (v, n, rest).
Proof.
  intros Hv Hn Hl. unfold header_decode.
  replace (length (bs "DIRC" ++ be32 v ++ be32 n ++ rest) <? 32)%nat with false
    by (rewrite !app_length, !be32_length; cbn [length bs]; lia).
  change (bs "DIRC" ++ be32 v ++ be32 n ++ rest) with (x44 :: x49 :: x52 :: x43 :: (be32 v ++ be32 n ++ rest)).
  cbv beta iota.
  replace (bytes_eqb [x44; x49; x52; x43] (bs "DIRC")) with true by reflexivity.
  rewrite u32_of_be32 by lia.
  replace ((v =? 2) || (v =? 3) || (v =? 4)) with true by lia.
  cbv beta iota. rewrite u32_of_be32 by exact Hn. reflexivity.
Qed.

Lemma ext_all_trailer_only t : length t = 20%nat -> ext_all t = Ok (exts_default, t).
Proof.
  intros Hl. unfold ext_all, ext_items_without_checksum. rewrite Hl. cbn [Nat.ltb Nat.leb].
  replace (20 - 20)%nat with 0%nat by lia. cbn [firstn]. unfold ext_items. cbn [length ext_iter rev].
  cbn [ext_apply]. cbn [N.to_nat skipn]. reflexivity.
Qed.

Section WithHash.
Variable sha : bytes -> bytes.
Hypothesis sha_len : forall x, length (sha x) = 20%nat.

(* what reading back must give *)
Definition live (es : list entry) : list entry := filter (fun e => negb (removed e)) es.
Definition reread (st : state) (v : N) (trailer : bytes) : state :=
  mkState v (live (s_entries st)) (any_sparse (live (s_entries st))) exts_default
          (if is_null trailer then None else Some trailer).

Lemma L_write_then_read_file_no_extensions st opt_tree opt_eoie threads :
  Forall wf_entry (s_entries st) -> x_tree (s_exts st) = None -> s_sparse st = false ->
  N.of_nat (length (live (s_entries st))) < 4294967296 ->
  let '(v, file) := write_file sha st opt_tree opt_eoie in
  eoie_decode sha file = None ->
  v = required_version (s_entries st) /\
  from_bytes sha threads file = Ok (reread st v (sha (firstn (length file - 20) file))).
Proof.
  intros HF Ht Hs Hn. unfold write_file, write_state. rewrite Ht, Hs. cbn [app flat_map length Nat.eqb negb].
  rewrite Bool.andb_false_r. rewrite !app_nil_r.
  set (es := s_entries st) in *. set (v := required_version es).
  set (body := (bs "DIRC" ++ be32 v ++ be32 (N.of_nat (length (filter (fun e => negb (removed e)) es)))) ++ write_entries es 0).
  intros Heoie. split; [reflexivity|].
  assert (Hv : v = 2 \/ v = 3 \/ v = 4).
  { unfold v, required_version. destruct (existsb stored_extended es); lia. }
  assert (Hfile : body ++ sha body =
                  bs "DIRC" ++ be32 v ++ be32 (N.of_nat (length (live es))) ++ (write_entries es 0 ++ sha body)).
  { unfold body, live. rewrite <- !app_assoc. reflexivity. }
  assert (Hfirst : firstn (length (body ++ sha body) - 20) (body ++ sha body) = body).
  { rewrite app_length, sha_len. replace (length body + 20 - 20)%nat with (length body) by lia.
    rewrite firstn_app, Nat.sub_diag, firstn_all. cbn [firstn]. apply app_nil_r. }
  rewrite Hfirst. unfold from_bytes. rewrite Heoie. rewrite Hfile.
  rewrite header_decode_ok; [|exact Hv|exact Hn|rewrite app_length, sha_len; lia].
  cbn [obind].
  replace (v =? 4) with false by (unfold v, required_version; destruct (existsb stored_extended es); lia).
  pose proof (L_write_read_entries es (sha body) HF) as Hrt. cbv zeta in Hrt. fold (live es) in Hrt.
  rewrite Hrt. cbn [obind].
  rewrite ext_all_trailer_only by apply sha_len. cbn [obind].
  unfold finish. rewrite sha_len. cbn [Nat.eqb negb]. unfold reread. fold es.
  cbn [x_sparse exts_default]. rewrite Bool.orb_false_r. reflexivity.
Qed.
End WithHash.
