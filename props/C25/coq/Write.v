(* C25 — executable model of the index writer: State::write_to (gix-index/src/write.rs),
   Entry::write_to (src/entry/write.rs), Tree::write_to (src/extension/tree/write.rs, = Spec.tree_payload),
   end_of_index_entry::write_to, File::write_to (trailing hash).  NO proofs here. *)
From GixV.Base Require Import Bytes Outcome.
From GixV.C25 Require Import Model Spec.
Local Open Scope N_scope.

(* entry::Flags bits, arithmetically: REMOVE = 1<<17, EXTENDED = 1<<14, INTENT_TO_ADD = 1<<29,
   SKIP_WORKTREE = 1<<30 *)
Definition removed (e : entry) : bool := negb ((e_flags e / 131072) mod 2 =? 0).
Definition ext_bits (e : entry) : N := (e_flags e / 536870912) mod 4.
(* an entry is stored with extended flags if it carries the EXTENDED bit or one of the two flags
   that only exist in extended form *)
Definition stored_extended (e : entry) : bool :=
  negb ((e_flags e / 16384) mod 2 =? 0) || negb (ext_bits e =? 0).

(* Flags::to_storage: bits 12..15 of the in-memory flags (u32 -> u16 after removing PATH_LEN) *)
Definition storage_flags (e : entry) : N :=
  let hi := (e_flags e / 4096) mod 16 in
  (if stored_extended e then (hi / 8) * 8 + 4 + hi mod 4 else hi) * 4096.

(* Entry::write_to: no padding *)
Definition entry_write (e : entry) : bytes :=
  flat_map be32 (e_words e) ++ e_id e ++
  be16 (storage_flags e + N.min (N.of_nat (length (e_path e))) 4095) ++
  (if stored_extended e then be16 (ext_bits e * 8192) else []) ++
  e_path e ++ [x00].

(* write::entries: [count] = bytes written since the end of the header *)
Fixpoint write_entries (es : list entry) (count : N) : bytes :=
  match es with
  | [] => []
  | e :: r =>
      if removed e then write_entries r count
      else
        let b := entry_write e in
        let c := count + N.of_nat (length b) in
        let pad := if c mod 8 =? 0 then 0 else 8 - c mod 8 in
        b ++ repeat x00 (N.to_nat pad) ++ write_entries r (c + pad)
  end.

Definition required_version (es : list entry) : N := if existsb stored_extended es then 3 else 2.

Section WithHash.
Variable sha : bytes -> bytes.

(* [opt_tree], [opt_eoie]: write::Extensions::should_write for TREE and EOIE *)
Definition write_state (st : state) (opt_tree opt_eoie : bool) : N * bytes :=
  let es := s_entries st in
  let v := required_version es in
  let live := filter (fun e => negb (removed e)) es in
  let header := bs "DIRC" ++ be32 v ++ be32 (N.of_nat (length live)) in
  let ents := write_entries es 0 in
  let offset := 12 + N.of_nat (length ents) in
  let xs := (match x_tree (s_exts st) with
             | Some t => if opt_tree then [(bs "TREE", tree_payload t)] else []
             | None => []
             end) ++ (if s_sparse st then [(bs "sdir", [])] else []) in
  let body := header ++ ents ++ flat_map (fun sp => ext_frame (fst sp) (snd sp)) xs ++
    (if negb (length es =? 0)%nat && opt_eoie && negb (length xs =? 0)%nat
     then eoie_ext sha offset (map (fun sp => (fst sp, N.of_nat (length (snd sp)))) xs) else []) in
  (v, body).
(* File::write_to *)
Definition write_file (st : state) (opt_tree opt_eoie : bool) : N * bytes :=
  let '(v, body) := write_state st opt_tree opt_eoie in (v, body ++ sha body).
End WithHash.

(* ---- the operations of an `rt` case: toggle flag bits of entries ---------------------------- *)
Fixpoint xor_at (i : nat) (mask : N) (es : list entry) : list entry :=
  match es with
  | [] => []
  | e :: r => match i with
              | O => mkEntry (e_words e) (e_id e) (N.lxor (e_flags e) mask) (e_path e) :: r
              | S i' => e :: xor_at i' mask r
              end
  end.
Fixpoint apply_ops (fuel : nat) (ops : bytes) (es : list entry) : list entry :=
  match fuel with
  | O => es
  | S f => match read_u16 ops with
           | Some (i, r) => match read_u32 r with
                            | Some (m, r') => apply_ops f r' (if i <? N.of_nat (length es) then xor_at (N.to_nat i) m es else es)
                            | None => es
                            end
           | None => es
           end
  end.
