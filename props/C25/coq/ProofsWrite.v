(* C25 — the writer's entry block is git's layout (padding arithmetic relative to the header, path
   length saturation), removed entries are skipped, and the reader gets the entries back. *)
From Coq Require Import ZArith Lia ZifyBool ZifyNat ZifyN.
From GixV.Base Require Import Bytes BytesFacts Outcome.
From GixV.C25 Require Import Model Spec Write ProofsEntry.
Ltac Zify.zify_post_hook ::= Z.div_mod_to_equations.
Local Open Scope N_scope.

Lemma stored_extended_wf e : wf_entry e -> stored_extended e = is_extended e.
Proof.
  intros (_ & _ & _ & _ & _ & Hlow & Hx1 & Hx2 & Hne).
  unfold stored_extended, ext_bits, is_extended in *.
  destruct ((e_flags e / 16384) mod 2 =? 0) eqn:E; cbn [negb orb]; [|reflexivity].
  specialize (Hne eq_refl). replace ((e_flags e / 536870912) mod 4 =? 0) with true by lia. reflexivity.
Qed.

Lemma storage_flags_wf e : wf_entry e -> storage_flags e = (e_flags e / 4096) mod 16 * 4096.
Proof.
  intros Hwf. unfold storage_flags. rewrite (stored_extended_wf e Hwf).
  unfold is_extended. destruct ((e_flags e / 16384) mod 2 =? 0) eqn:E; cbn [negb]; [reflexivity|].
  lia.
Qed.

Lemma ext_word_wf e : wf_entry e -> ext_bits e * 8192 = e_flags e / 65536.
Proof.
  intros (_ & _ & _ & _ & _ & Hlow & Hx1 & Hx2 & Hne). unfold ext_bits. lia.
Qed.

Lemma entry_write_wf e : wf_entry e ->
  entry_write e = entry_head e ++ e_path e ++ [x00].
Proof.
  intros Hwf. unfold entry_write, entry_head, flag_bytes, flags16.
  rewrite (storage_flags_wf e Hwf), (stored_extended_wf e Hwf), (ext_word_wf e Hwf).
  rewrite <- !app_assoc. reflexivity.
Qed.

Lemma entry_head_length e : wf_entry e ->
  N.of_nat (length (entry_head e)) = 60 + (if is_extended e then 4 else 2).
Proof.
  intros (Hl & _ & _ & Hid & _). unfold entry_head, flag_bytes.
  rewrite !app_length, flat_be32_length, Hl, Hid.
  destruct (is_extended e); rewrite ?be16_length; cbn [length]; lia.
Qed.

(* one entry plus the writer's padding (relative to the end of the header) is git's padded entry *)
Lemma L_entry_padded e count : wf_entry e -> count mod 8 = 0 ->
  let c := count + N.of_nat (length (entry_write e)) in
  let pad := if c mod 8 =? 0 then 0 else 8 - c mod 8 in
  entry_write e ++ repeat x00 (N.to_nat pad) = git_entry_v23 e /\ (c + pad) mod 8 = 0.
Proof.
  intros Hwf Hc. cbv zeta. rewrite (entry_write_wf e Hwf).
  pose proof (entry_head_length e Hwf) as Hh.
  rewrite !app_length. cbn [length].
  set (c := count + N.of_nat (length (entry_head e) + (length (e_path e) + 1))).
  set (pad := if c mod 8 =? 0 then 0 else 8 - c mod 8).
  assert (Hsz : N.of_nat (length (entry_head e) + (length (e_path e) + 1)) = entry_size_unpadded e + 1).
  { unfold entry_size_unpadded. lia. }
  assert (Hpad : (1 + N.to_nat pad)%nat = N.to_nat (pad_len (entry_size_unpadded e))).
  { unfold pad, pad_len, c. rewrite Hsz. destruct ((count + (entry_size_unpadded e + 1)) mod 8 =? 0) eqn:E; lia. }
  split.
  - unfold git_entry_v23. rewrite <- Hpad. rewrite <- !app_assoc. reflexivity.
  - unfold pad. destruct (c mod 8 =? 0) eqn:E; lia.
Qed.

(* the whole entry block: removed entries are skipped, the others are laid out as git does *)
Lemma L_write_entries_git es : forall count, Forall wf_entry es -> count mod 8 = 0 ->
  write_entries es count = git_entries false [] false (filter (fun e => negb (removed e)) es).
Proof.
  induction es as [|e es IH]; intros count HF Hc; [reflexivity|].
  inversion HF as [|? ? He HF']; subst.
  cbn [write_entries filter]. destruct (removed e); cbn [negb].
  - apply IH; assumption.
  - destruct (L_entry_padded e count He Hc) as [Heq Hmod]. cbv zeta in Heq, Hmod.
    cbn [git_entries]. rewrite app_assoc, Heq. f_equal.
    rewrite IH by assumption. apply git_entries_v23_prev.
Qed.

(* what was written is read back: exactly the entries that are not marked for removal *)
Lemma L_write_read_entries es r : Forall wf_entry es ->
  let live := filter (fun e => negb (removed e)) es in
  chunk_of false (N.of_nat (length live)) (write_entries es 0 ++ r) = Ok (live, r).
Proof.
  intros HF live. rewrite L_write_entries_git by (try assumption; reflexivity). fold live.
  unfold chunk_of. apply (L_chunk_v23 live _ None r []).
  - apply Forall_forall. intros x Hx. apply filter_In in Hx. rewrite Forall_forall in HF. apply HF, Hx.
  - assert (Hlen : forall l, Forall wf_entry l -> (length l <= length (git_entries false [] false l))%nat).
    { induction l as [|a l IHl]; intros Hl; [cbn; lia|]. inversion Hl; subst. cbn [git_entries length].
      rewrite app_length. pose proof (git_entry_v23_length a).
      rewrite (git_entries_v23_prev l (e_path a) false [] false). specialize (IHl H2). lia. }
    rewrite app_length. 
    assert (Forall wf_entry live).
    { apply Forall_forall. intros x Hx. apply filter_In in Hx. rewrite Forall_forall in HF. apply HF, Hx. }
    specialize (Hlen live H). lia.
Qed.

(* the version written is 3 exactly when an entry needs extended flags *)
Lemma L_required_version es : Forall wf_entry es ->
  required_version es = if existsb is_extended es then 3 else 2.
Proof.
  intros HF. unfold required_version.
  assert (H : existsb stored_extended es = existsb is_extended es).
  { induction es as [|e es IH]; [reflexivity|]. inversion HF; subst. cbn [existsb].
    rewrite stored_extended_wf by assumption. rewrite IH by assumption. reflexivity. }
  rewrite H. reflexivity.
Qed.

(* in-memory states that never went through the decoder: the two extended flags are written (and the
   entry stored with the EXTENDED bit) whether or not EXTENDED was set in memory *)
Lemma L_extended_flags_kept e r : length (e_words e) = 10%nat -> Forall (fun w => w < 4294967296) (e_words e) ->
  length (e_id e) = 20%nat -> e_flags e < 4294967296 -> ext_bits e <> 0 ->
  exists fl rest, read_words 10 (entry_write e ++ r) = Some (e_words e, e_id e ++ rest) /\
    read_flags rest = Some (fl, 4, e_path e ++ [x00] ++ r) /\ (fl / 536870912) mod 4 = ext_bits e.
Proof.
  intros Hl HF Hid Hfl Hx. unfold entry_write.
  assert (Hse : stored_extended e = true).
  { unfold stored_extended. replace (ext_bits e =? 0) with false by lia. apply Bool.orb_true_r. }
  set (X := storage_flags e + N.min (N.of_nat (length (e_path e))) 4095).
  assert (Hn : (flat_map be32 (e_words e) ++ e_id e ++ be16 X ++
                (if stored_extended e then be16 (ext_bits e * 8192) else []) ++ e_path e ++ [x00]) ++ r =
               flat_map be32 (e_words e) ++ e_id e ++ (be16 X ++ be16 (ext_bits e * 8192) ++ e_path e ++ [x00] ++ r)).
  { rewrite Hse. rewrite <- !app_assoc. reflexivity. }
  rewrite Hn. clear Hn.
  assert (HX : X < 65536 /\ (X / 16384) mod 2 = 1 /\ (X + ext_bits e * 8192 * 65536) / 536870912 mod 4 = ext_bits e).
  { unfold X, storage_flags. rewrite Hse. unfold ext_bits. lia. }
  destruct HX as (HX1 & HX2 & HX3).
  exists (X + ext_bits e * 8192 * 65536). eexists. split; [|split].
  - rewrite <- Hl. rewrite read_words_flat by exact HF. reflexivity.
  - unfold read_flags. rewrite u16_of_be16 by exact HX1.
    replace ((X / 16384) mod 2 =? 0) with false by lia.
    rewrite u16_of_be16 by (unfold ext_bits; lia).
    replace ((ext_bits e * 8192) mod 8192 =? 0) with true by lia.
    replace (ext_bits e * 8192 <? 32768) with true by (unfold ext_bits; lia).
    cbn [andb]. reflexivity.
  - exact HX3.
Qed.
